import IpaVerif.Proofs.BatcherInv3
namespace IpaVerif.Batcher

/-- What one `validate_record` call must satisfy with respect to the history. -/
def StepSpec (n : Nat) (s : State) (g : Ghost) (r : Nat) (res : State × VOut) : Prop :=
  match res with
  | (s', .notReady b) => b = r / s.rpb ∧ r < n ∧ r ∉ g.acc ∧ b ∉ g.closed ∧
      Inv n s' ⟨r :: g.acc, g.closed⟩ ∧
      ¬ (∀ j, j < tcOf n s.rpb b → b * s.rpb + j ∈ r :: g.acc)
  | (s', .ready b st) => b = r / s.rpb ∧ r < n ∧ r ∉ g.acc ∧ b ∉ g.closed ∧
      Inv n s' ⟨r :: g.acc, b :: g.closed⟩ ∧
      (∀ j, j < tcOf n s.rpb b → b * s.rpb + j ∈ r :: g.acc) ∧ 0 < tcOf n s.rpb b ∧ st.ctor = b
  | (s', .err _) => Inv n s' g
  | (s', .panic _) => Inv n s' g

theorem allSet_iff (l : List Bool) (tc : Nat) : allSet l tc = true ↔ ∀ j, j < tc → l.getD j false = true := by
  simp [allSet]

theorem mark_step {n s g off b} (hI : Inv n s g) (hslot : s.batches[off]? = some (some b))
    (htot : s.total = .specified n) (r : Nat) (hdiv : r / s.rpb = s.firstBatch + off)
    (bits : List Bool)
    (hget : ∀ j, bits.getD j false = b.pendingRecords.getD j false)
    (hcnt : bits.count true = b.pendingRecords.count true)
    (hlen : r - (s.firstBatch + off) * s.rpb < bits.length)
    (hunset : bits.getD (r - (s.firstBatch + off) * s.rpb) false = false) :
    StepSpec n s g r (markRecord s off (s.firstBatch + off) (tcOf n s.rpb (s.firstBatch + off))
      (r - (s.firstBatch + off) * s.rpb) b bits) := by
  have hp := hI.rpb_pos
  have hb := hI.live off b hslot
  have hoff := slot_lt hslot
  generalize hbi : s.firstBatch + off = bi at *
  generalize hro : r - bi * s.rpb = ro at *
  have hr1 : bi * s.rpb + r % s.rpb = r := by rw [← hdiv]; exact Nat.div_add_mod' r s.rpb
  have hr2 : r % s.rpb < s.rpb := Nat.mod_lt _ hp
  have hro' : r = bi * s.rpb + ro := by omega
  have hrolt : ro < s.rpb := by omega
  -- the slot with only the bitmap replaced is still consistent with the old history
  have hb1 : SlotOk n s.firstBatch s.rpb g.acc off { b with pendingRecords := bits } :=
    ⟨hb.ctor, by show b.pendingCount = bits.count true; rw [hcnt]; exact hb.count,
     fun j => by show bits.getD j false = true ↔ _; rw [hget]; exact hb.bits j, hb.room⟩
  have hnotacc : r ∉ g.acc := by
    intro hm
    have := (hb1.bits ro).2 ⟨hrolt, by rw [hbi, ← hro']; exact hm⟩
    simp only at this
    rw [hunset] at this; cases this
  have hnotclosed : bi ∉ g.closed := by
    intro hm
    rcases (hI.closed_iff bi).1 hm with h | ⟨_, h⟩
    · omega
    · rw [show bi - s.firstBatch = off by omega, hslot] at h; cases h
  unfold markRecord
  simp only []
  by_cases hlt : ro < tcOf n s.rpb bi
  · simp only [hlt, not_true_eq_false, if_false]
    have hrn : r < n := by unfold tcOf at hlt; omega
    -- the slot after marking, against the history extended by `r`
    have hb2bits : ∀ j, (bits.set ro true).getD j false = true ↔
        (j < s.rpb ∧ (s.firstBatch + off) * s.rpb + j ∈ r :: g.acc) := by
      intro j
      rw [getD_set, hbi]
      by_cases hj : ro = j
      · subst hj; simp [hlen, hrolt, hro']
      · simp only [hj, false_and, if_false, List.mem_cons]
        have := hb1.bits j
        simp only [hbi] at this
        rw [this]
        constructor
        · rintro ⟨a, c⟩; exact ⟨a, Or.inr c⟩
        · rintro ⟨a, c | c⟩
          · omega
          · exact ⟨a, c⟩
    have hsub : ∀ x, x ∈ g.acc → x ∈ r :: g.acc := fun x hx => List.mem_cons_of_mem _ hx
    have hnew : ∀ x, x ∈ r :: g.acc → x ∈ g.acc ∨ (x < n ∧ x / s.rpb = s.firstBatch + off) := by
      intro x hx
      rcases List.mem_cons.1 hx with h | h
      · subst h; exact Or.inr ⟨hrn, by omega⟩
      · exact Or.inl h
    -- no bit at or above the batch size
    have hbound : ∀ j, tcOf n s.rpb bi ≤ j → (bits.set ro true).getD j false = false := by
      intro j hj
      cases hv : (bits.set ro true).getD j false with
      | false => rfl
      | true =>
        have := (hb2bits j).1 hv
        obtain ⟨h1, h2⟩ := this
        rw [hbi] at h2
        have h3 : bi * s.rpb + j < n := by
          rcases List.mem_cons.1 h2 with h | h
          · omega
          · exact hI.acc_lt _ h
        unfold tcOf at hj; omega
    have hcount2 : (bits.set ro true).count true = b.pendingCount + 1 := by
      rw [count_set bits ro hlen hunset, hcnt, hb.count]
    by_cases hfull : b.pendingCount + 1 = tcOf n s.rpb bi
    · simp only [hfull, if_true]
      have hall := all_of_cnt_eq _ _ hbound (hcount2.trans hfull)
      have hallSet : allSet (bits.set ro true) (tcOf n s.rpb bi) = true := (allSet_iff _ _).2 hall
      simp only [hallSet, not_true_eq_false, if_false]
      have hwhole : 0 < tcOf n s.rpb (s.firstBatch + off) ∧
          ∀ j, j < tcOf n s.rpb (s.firstBatch + off) → (s.firstBatch + off) * s.rpb + j ∈ r :: g.acc := by
        rw [hbi]
        refine ⟨by omega, fun j hj => ?_⟩
        have := (hb2bits j).1 (hall j hj)
        rw [hbi] at this; exact this.2
      by_cases h0 : off = 0
      · subst h0
        simp only [if_true]
        have hbi' : s.firstBatch = bi := by omega
        have := inv_close_front hI hslot (r :: g.acc) hsub (by simpa using hnew) (by simpa using hwhole) htot
        simp only [StepSpec]
        refine ⟨hdiv.symm ▸ rfl, hrn, hnotacc, hnotclosed, ?_, ?_, by omega, ?_⟩
        · rw [← hbi']; simpa [List.drop_one] using this
        · rw [← hbi'] ; simpa using hwhole.2
        · show b.ctor = bi; rw [hb.ctor]; omega
      · simp only [h0, if_false]
        have := inv_close_mid hI hslot (r :: g.acc) hsub hnew hwhole htot
        simp only [StepSpec]
        refine ⟨hdiv.symm ▸ rfl, hrn, hnotacc, hnotclosed, ?_, ?_, by omega, ?_⟩
        · rw [← hbi]; exact this
        · rw [← hbi]; exact hwhole.2
        · show b.ctor = bi; rw [hb.ctor]; exact hbi
    · simp only [hfull, if_false]
      simp only [StepSpec]
      refine ⟨hdiv.symm ▸ rfl, hrn, hnotacc, hnotclosed, ?_, ?_⟩
      · have hle := cnt_le_of_bounded _ _ hbound
        rw [hcount2] at hle
        have hb2 : SlotOk n s.firstBatch s.rpb (r :: g.acc) off
            { b with pendingRecords := bits.set ro true, pendingCount := b.pendingCount + 1 } :=
          ⟨hb.ctor, hcount2.symm, hb2bits, by
            show b.pendingCount + 1 < tcOf n s.rpb (s.firstBatch + off) ∨ _
            rw [hbi]; omega⟩
        exact inv_update hI hslot _ (r :: g.acc) hsub hnew hb2 (Or.inr htot)
      · intro hall
        apply hfull
        rw [← hcount2]
        apply cnt_eq_of_all _ _ hbound
        intro j hj
        apply (hb2bits j).2
        refine ⟨by unfold tcOf at hj; omega, ?_⟩
        rw [hbi]; exact hall j hj
  · simp only [hlt, not_false_eq_true, if_true]
    simp only [StepSpec]
    exact inv_update hI hslot _ g.acc (fun _ h => h) (fun _ h => Or.inl h) hb1 (Or.inl rfl)

theorem stepSpec_rpb {n s s1 g r res} (h : StepSpec n s1 g r res) (hr : s1.rpb = s.rpb) : StepSpec n s g r res := by
  unfold StepSpec at *
  rw [hr] at h; exact h

theorem validate_step {n s g} (hI : Inv n s g) (r : Nat) : StepSpec n s g r (validateRecord s r) := by
  unfold validateRecord
  rcases hI.total with ht | ht | ⟨ht, _, _⟩
  rotate_left
  · simp only [ht, Total.count]; exact hI
  · simp only [ht, Total.count]; exact hI
  simp only [ht, Total.count]
  have hp := hI.rpb_pos
  unfold batchOffset
  simp only [show s.rpb ≠ 0 by omega, if_false]
  by_cases hlt : r / s.rpb < s.firstBatch
  · simp only [hlt, if_true]; exact hI
  simp only [hlt, if_false]
  generalize hoff : r / s.rpb - s.firstBatch = off
  have hdiv : r / s.rpb = s.firstBatch + off := by omega
  by_cases hrange : n < (s.firstBatch + off) * s.rpb
  · simp only [hrange, if_true]; exact hI
  simp only [hrange, if_false]
  have hI1 := inv_extend hI off
  have hlen1 : off < (extend s off).batches.length := by rw [extend_length]; omega
  rw [List.getD_eq_getElem?_getD]
  obtain ⟨x, hx⟩ : ∃ x, (extend s off).batches[off]? = some x := ⟨_, List.getElem?_eq_getElem hlen1⟩
  rw [hx]
  simp only [Option.getD_some]
  cases x with
  | none => exact hI1
  | some b =>
    simp only []
    have hr1 : (s.firstBatch + off) * s.rpb + r % s.rpb = r := by rw [← hdiv]; exact Nat.div_add_mod' r s.rpb
    by_cases hgrow : b.pendingRecords.length ≤ r - (s.firstBatch + off) * s.rpb
    · simp only [hgrow, if_true]
      have hl : b.pendingRecords.length < r - (s.firstBatch + off) * s.rpb + 1 := by omega
      apply stepSpec_rpb (s1 := extend s off) _ rfl
      exact mark_step hI1 hx ht r hdiv _ (fun j => getD_resize _ _ j hl) (count_resize _ _ hl)
        (by rw [length_resize _ _ hl]; exact Nat.lt_succ_self _)
        (by show (resize b.pendingRecords (r - (s.firstBatch + off) * s.rpb + 1)).getD (r - (s.firstBatch + off) * s.rpb) false = false
            rw [getD_resize _ _ _ hl, List.getD_eq_getElem?_getD, List.getElem?_eq_none hgrow]; rfl)
    · simp only [hgrow, if_false]
      cases hbit : b.pendingRecords.getD (r - (s.firstBatch + off) * s.rpb) false with
      | true => simp only [if_true]; exact hI1
      | false =>
        simp only [Bool.false_eq_true, if_false]
        apply stepSpec_rpb (s1 := extend s off) _ rfl
        exact mark_step hI1 hx ht r hdiv _ (fun _ => rfl) rfl (by show r - (s.firstBatch + off) * s.rpb < _; omega) hbit

/-- all records of batch `b` (there is at least one) are in `acc`. -/
def Whole (n rpb : Nat) (acc : List Nat) (b : Nat) : Prop :=
  0 < tcOf n rpb b ∧ ∀ j, j < tcOf n rpb b → b * rpb + j ∈ acc

theorem whole_implies_closed {n s g} (hI : Inv n s g) (b : Nat) (hw : Whole n s.rpb g.acc b) :
    b ∈ g.closed := by
  obtain ⟨hpos, hall⟩ := hw
  have hp := hI.rpb_pos
  rw [hI.closed_iff b]
  by_cases h1 : b < s.firstBatch
  · exact Or.inl h1
  · refine Or.inr ⟨by omega, ?_⟩
    generalize hk : b - s.firstBatch = k
    have hb : b = s.firstBatch + k := by omega
    by_cases hlen : k < s.batches.length
    · obtain ⟨x, hx⟩ : ∃ x, s.batches[k]? = some x := ⟨_, List.getElem?_eq_getElem hlen⟩
      cases x with
      | none => exact hx
      | some bs =>
        exfalso
        have hs := hI.live k bs hx
        subst hb
        have hbound : ∀ j, tcOf n s.rpb (s.firstBatch + k) ≤ j → bs.pendingRecords.getD j false = false := by
          intro j hj
          cases hv : bs.pendingRecords.getD j false with
          | false => rfl
          | true =>
            obtain ⟨h2, h3⟩ := (hs.bits j).1 hv
            have := hI.acc_lt _ h3
            unfold tcOf at hj; omega
        have hc := cnt_eq_of_all _ _ hbound (fun j hj => (hs.bits j).2 ⟨by unfold tcOf at hj; omega, hall j hj⟩)
        have := hs.room
        rw [hs.count, hc] at this
        omega
    · exfalso
      have := hI.acc_where _ (hall 0 hpos)
      rw [div_offset _ _ _ hp] at this
      omega

theorem inv_getBatchPush {n s g} (hI : Inv n s g) (r x : Nat) :
    Inv n (getBatchPush s r x).1 g ∧
    (r / s.rpb ∈ g.closed → ∃ p, (getBatchPush s r x).2 = .error p) ∧
    (∀ c pl, (getBatchPush s r x).2 = .ok (c, pl) → c = r / s.rpb) := by
  have hp := hI.rpb_pos
  unfold getBatchPush batchOffset
  simp only [show s.rpb ≠ 0 by omega, if_false]
  by_cases hlt : r / s.rpb < s.firstBatch
  · simp only [hlt, if_true]
    exact ⟨hI, fun _ => ⟨_, rfl⟩, fun _ _ h => by cases h⟩
  simp only [hlt, if_false]
  generalize hoff : r / s.rpb - s.firstBatch = off
  have hI1 := inv_extend hI off
  have hlen1 : off < (extend s off).batches.length := by rw [extend_length]; omega
  rw [List.getD_eq_getElem?_getD]
  obtain ⟨y, hy⟩ : ∃ y, (extend s off).batches[off]? = some y := ⟨_, List.getElem?_eq_getElem hlen1⟩
  rw [hy]
  simp only [Option.getD_some]
  cases y with
  | none => exact ⟨hI1, fun _ => ⟨_, rfl⟩, fun _ _ h => by cases h⟩
  | some b =>
    simp only []
    have hs := hI1.live off b hy
    refine ⟨?_, ?_, ?_⟩
    · exact inv_update hI1 hy _ g.acc (fun _ h => h) (fun _ h => Or.inl h)
        ⟨hs.ctor, hs.count, hs.bits, hs.room⟩ (Or.inl rfl)
    · intro hc
      exfalso
      rcases (hI1.closed_iff (r / s.rpb)).1 hc with h | ⟨_, h⟩
      · exact hlt h
      · have e : r / s.rpb - (extend s off).firstBatch = off := hoff
        rw [e, hy] at h; cases h
    · intro c pl h
      simp only [Except.ok.injEq, Prod.mk.injEq] at h
      rw [← h.1, hs.ctor]
      show s.firstBatch + off = r / s.rpb
      omega

theorem inv_setTotal {n s g s'} (hI : Inv n s g) (t : Total) (ht : ∀ m, t = .specified m → m = n)
    (h : setTotal s t = .ok s') : Inv n s' g := by
  unfold setTotal at h
  split at h
  · rename_i t' ht'
    simp only [Except.ok.injEq] at h
    subst h
    refine ⟨hI.rpb_pos, ?_, hI.closed_iff, hI.live, hI.closed_all, hI.acc_lt, hI.acc_where⟩
    show t' = _ ∨ t' = _ ∨ (t' = _ ∧ _)
    rcases hI.total with h1 | h1 | ⟨h1, h2, h3⟩
    · rw [h1] at ht'
      cases t <;> simp [Total.overwrite] at ht'
      exact Or.inr (Or.inl ht'.symm)
    · rw [h1] at ht'
      cases t <;> simp [Total.overwrite] at ht'
    · rw [h1] at ht'
      simp only [Total.overwrite, Except.ok.injEq] at ht'
      subst ht'
      cases t with
      | unspecified => exact Or.inr (Or.inr ⟨rfl, h2, h3⟩)
      | specified m => rw [ht m rfl]; exact Or.inl rfl
      | indeterminate => exact Or.inr (Or.inl rfl)
  · cases h

theorem markRecord_rpb (s1 : State) (off bi tc ro : Nat) (b : BatchState) (bits : List Bool) :
    (markRecord s1 off bi tc ro b bits).1.rpb = s1.rpb := by
  unfold markRecord
  simp only []
  repeat' split
  all_goals rfl

theorem validateRecord_rpb (s : State) (r : Nat) : (validateRecord s r).1.rpb = s.rpb := by
  unfold validateRecord
  simp only []
  repeat' split
  all_goals first | rfl | (rw [markRecord_rpb]; rfl)

theorem getBatchPush_rpb (s : State) (r x : Nat) : (getBatchPush s r x).1.rpb = s.rpb := by
  unfold getBatchPush
  simp only []
  repeat' split
  all_goals rfl

theorem setTotal_rpb {s s' : State} {t} (h : setTotal s t = .ok s') : s'.rpb = s.rpb := by
  unfold setTotal at h
  split at h
  · simp only [Except.ok.injEq] at h; subst h; rfl
  · cases h

end IpaVerif.Batcher
