import IpaVerif.Model.Hybrid
/-! Helper lemmas for C01, part A: tree / chunked saturating aggregation computes `min (sum) m`. -/
namespace IpaVerif.C01
open IpaVerif.Hybrid

theorem aggLevel_length_le (m : Nat) : ∀ l : List Nat, (aggLevel m l).length ≤ l.length
  | [] => by simp [aggLevel]
  | [_] => by simp [aggLevel]
  | a :: b :: rest => by
      have := aggLevel_length_le m rest
      simp [aggLevel]; omega

theorem aggLevel_length_lt (m : Nat) : ∀ l : List Nat, 2 ≤ l.length → (aggLevel m l).length < l.length
  | [] => by simp
  | [_] => by simp
  | a :: b :: rest => by
      intro _
      have := aggLevel_length_le m rest
      simp [aggLevel]; omega

theorem aggLevel_sum_min (m : Nat) : ∀ l : List Nat, min (aggLevel m l).sum m = min l.sum m
  | [] => by simp [aggLevel]
  | [_] => by simp [aggLevel]
  | a :: b :: rest => by
      have ih := aggLevel_sum_min m rest
      simp only [aggLevel, List.sum_cons, satAdd]
      omega

theorem aggTree_eq (m : Nat) : ∀ (fuel : Nat) (l : List Nat), l.length ≤ fuel + 1 → aggTree m fuel l = min l.sum m
  | _, [], _ => by simp [aggTree]
  | _, [a], _ => by simp [aggTree]
  | 0, a :: b :: rest, h => by simp at h
  | fuel + 1, a :: b :: rest, h => by
      have hlt := aggLevel_length_lt m (a :: b :: rest) (by simp)
      have := aggTree_eq m fuel (aggLevel m (a :: b :: rest)) (by omega)
      rw [aggTree, this, aggLevel_sum_min] <;> simp

theorem chunks_flatten (n : Nat) : ∀ (fuel : Nat) (l : List Nat), (chunks n fuel l).flatten = l
  | _, [] => by simp [chunks]
  | 0, a :: rest => by simp [chunks]
  | fuel + 1, a :: rest => by
      have := chunks_flatten n fuel ((a :: rest).drop n)
      simp only [chunks, List.flatten_cons, this, List.take_append_drop]

theorem chunks_length (n : Nat) (hn : 2 ≤ n) :
    ∀ (fuel : Nat) (l : List Nat), l.length ≤ fuel → 2 * (chunks n fuel l).length ≤ l.length + 1
  | _, [], _ => by simp [chunks]
  | 0, a :: rest, h => by simp at h
  | fuel + 1, a :: rest, h => by
      have ih := chunks_length n hn fuel ((a :: rest).drop n) (by simp [List.length_drop] at *; omega)
      simp only [chunks, List.length_cons, List.length_drop] at *
      omega

theorem sum_map_min (m : Nat) : ∀ L : List (List Nat),
    min ((L.map (fun c => min c.sum m)).sum) m = min L.flatten.sum m
  | [] => by simp
  | c :: L => by
      have ih := sum_map_min m L
      simp only [List.map_cons, List.sum_cons, List.flatten_cons, List.sum_append]
      omega

theorem chunkedAgg_eq (m chunk : Nat) :
    ∀ (fuel : Nat) (l : List Nat), l.length ≤ fuel + 1 → chunkedAgg m chunk fuel l = min l.sum m
  | _, [], _ => by simp [chunkedAgg]
  | _, [a], _ => by simp [chunkedAgg]
  | 0, a :: b :: rest, h => by simp at h
  | fuel + 1, a :: b :: rest, h => by
      have hlen := chunks_length (max chunk 2) (by omega) (a :: b :: rest).length (a :: b :: rest) (Nat.le_refl _)
      have hmap : (chunks (max chunk 2) (a :: b :: rest).length (a :: b :: rest)).map (fun c => aggTree m c.length c)
          = (chunks (max chunk 2) (a :: b :: rest).length (a :: b :: rest)).map (fun c => min c.sum m) := by
        apply List.map_congr_left
        intro c _
        exact aggTree_eq m c.length c (by omega)
      have ih := chunkedAgg_eq m chunk fuel
        ((chunks (max chunk 2) (a :: b :: rest).length (a :: b :: rest)).map (fun c => aggTree m c.length c))
        (by simp only [List.length_map, List.length_cons] at *; omega)
      rw [chunkedAgg, ih, hmap, sum_map_min, chunks_flatten] <;> simp

/-- total value of the rows whose (revealed) breakdown key is `b`. -/
def bucketSum (rows : List Row) (b : Nat) : Nat := (bucketValues rows b).sum

theorem bucketValues_append (r1 r2 : List Row) (b : Nat) :
    bucketValues (r1 ++ r2) b = bucketValues r1 b ++ bucketValues r2 b := by
  simp [bucketValues]

theorem bucketSum_append (r1 r2 : List Row) (b : Nat) :
    bucketSum (r1 ++ r2) b = bucketSum r1 b + bucketSum r2 b := by
  simp [bucketSum, bucketValues_append]

theorem bucketSum_flatten (rs : List (List Row)) (b : Nat) :
    bucketSum rs.flatten b = (rs.map (fun r => bucketSum r b)).sum := by
  induction rs with
  | nil => simp [bucketSum, bucketValues]
  | cons r rs ih => simp [bucketSum_append, ih]

theorem column_sum (rows : List Row) (ml b : Nat) : (column rows ml b).sum = bucketSum rows b := by
  simp [column, bucketSum, List.sum_reverse]

theorem getD_map_range (g : Nat → Nat) (n b : Nat) (h : b < n) : ((List.range n).map g).getD b 0 = g b := by
  simp [List.getD_eq_getElem?_getD, h]

theorem shardHistogram_eq (w : Widths) (chunk : Nat) (rows : List Row) :
    shardHistogram w chunk rows = (List.range w.buckets).map (fun b => min (bucketSum rows b) (2 ^ w.hvW - 1)) := by
  simp only [shardHistogram]
  apply List.map_congr_left
  intro b _
  rw [chunkedAgg_eq _ _ _ _ (by omega), column_sum]

theorem finalize_fold (B m : Nat) (hists : List (List Nat)) :
    ∀ (g : Nat → Nat), (∀ b, g b ≤ m) →
    hists.foldl (fun acc h => (List.range B).map (fun b => satAdd m (acc.getD b 0) (h.getD b 0)))
      ((List.range B).map g)
    = (List.range B).map (fun b => min (g b + (hists.map (fun h => h.getD b 0)).sum) m) := by
  induction hists with
  | nil =>
    intro g hg
    simp only [List.foldl_nil, List.map_nil, List.sum_nil, Nat.add_zero]
    apply List.map_congr_left
    intro b _
    have := hg b
    omega
  | cons h hs ih =>
    intro g hg
    simp only [List.foldl_cons]
    have hstep : (List.range B).map (fun b => satAdd m (((List.range B).map g).getD b 0) (h.getD b 0))
        = (List.range B).map (fun b => satAdd m (g b) (h.getD b 0)) := by
      apply List.map_congr_left
      intro b hb
      rw [getD_map_range g B b (by simpa using hb)]
    rw [hstep, ih (fun b => satAdd m (g b) (h.getD b 0)) (by intro b; simp [satAdd]; omega)]
    apply List.map_congr_left
    intro b _
    simp only [satAdd, List.map_cons, List.sum_cons]
    omega

theorem finalize_eq (w : Widths) (hists : List (List Nat)) :
    finalize w hists = (List.range w.buckets).map
      (fun b => min ((hists.map (fun h => h.getD b 0)).sum) (2 ^ w.hvW - 1)) := by
  have h0 : List.replicate w.buckets 0 = (List.range w.buckets).map (fun _ => 0) := by
    apply List.ext_getElem <;> simp
  simp only [finalize, h0]
  rw [finalize_fold w.buckets (2 ^ w.hvW - 1) hists (fun _ => 0) (by intro b; omega)]
  simp

theorem sum_min_map {α : Type} (m : Nat) (f : α → Nat) : ∀ rs : List α,
    min ((rs.map (fun r => min (f r) m)).sum) m = min ((rs.map f).sum) m
  | [] => by simp
  | r :: rs => by
      have ih := sum_min_map m f rs
      simp only [List.map_cons, List.sum_cons]
      omega

/-- Part A assembled: tree aggregation per shard followed by the cross-shard finalizer computes, per
bucket, the saturated total over all shards' rows. -/
theorem finalize_shardHistograms (w : Widths) (chunk : Nat) (shardRows : List (List Row)) :
    finalize w (shardRows.map (shardHistogram w chunk))
      = (List.range w.buckets).map (fun b => min (bucketSum shardRows.flatten b) (2 ^ w.hvW - 1)) := by
  rw [finalize_eq]
  apply List.map_congr_left
  intro b hb
  have hb' : b < w.buckets := by simpa using hb
  rw [bucketSum_flatten, List.map_map]
  have : (shardRows.map ((fun h => h.getD b 0) ∘ shardHistogram w chunk))
      = shardRows.map (fun r => min (bucketSum r b) (2 ^ w.hvW - 1)) := by
    apply List.map_congr_left
    intro r _
    simp only [Function.comp, shardHistogram_eq]
    rw [getD_map_range _ _ _ hb']
  rw [this]
  exact sum_min_map (2 ^ w.hvW - 1) (fun r => bucketSum r b) shardRows

end IpaVerif.C01
