import IpaVerif.Model.Transpose
import IpaVerif.Proofs.C09Bytes
/-! C09, bit-matrix transposition: the two kernels are bit permutations whose composed routing table is
the transposition (checked by `decide` on the masks regenerated from the source), lifted to bytes, to the
tiling drivers for every shape, and to the involution property. Core Lean only. -/
namespace IpaVerif.C09
open IpaVerif.Util IpaVerif.Transpose IpaVerif.Generated.Transpose

def exactlyOne (a b c : Bool) : Bool := (a && !b && !c) || (!a && b && !c) || (!a && !b && c)

theorem sel3 (a b c x y z : Bool) (h : exactlyOne a b c = true) :
    ((x && a) || (y && b) || (z && c)) = if a then x else if b then y else z := by
  cases a <;> cases b <;> cases c <;> simp_all [exactlyOne]

theorem ds_bit (M m x : W) (s k : Nat) (hk : k < 64) :
    (ds M m s x).getLsbD k =
      ((x.getLsbD k && M.getLsbD k) || (x.getLsbD (k - s) && (decide (s ≤ k) && m.getLsbD (k - s)))
        || (x.getLsbD (k + s) && m.getLsbD k)) := by
  simp only [ds, BitVec.getLsbD_or, BitVec.getLsbD_and, BitVec.getLsbD_shiftLeft, BitVec.getLsbD_ushiftRight]
  have : decide (k < 64) = true := by simpa using hk
  rw [this, Nat.add_comm s k]
  by_cases h : s ≤ k
  · have h' : ¬ k < s := by omega
    simp [h, h']
  · have h' : k < s := by omega
    simp [h, h']

/-- where bit `k` of `ds M m s x` comes from -/
def dsRoute (M m : W) (s k : Nat) : Nat :=
  if M.getLsbD k then k else if decide (s ≤ k) && m.getLsbD (k - s) then k - s else k + s

def dsOk (M m : W) (s k : Nat) : Bool :=
  exactlyOne (M.getLsbD k) (decide (s ≤ k) && m.getLsbD (k - s)) (m.getLsbD k)

theorem ds_route (M m x : W) (s k : Nat) (hk : k < 64) (h : dsOk M m s k = true) :
    (ds M m s x).getLsbD k = x.getLsbD (dsRoute M m s k) := by
  rw [ds_bit M m x s k hk, sel3 _ _ _ _ _ _ h]
  unfold dsRoute
  split
  · rfl
  · split <;> rfl

abbrev Stage := Nat × Nat × Nat
def dsOf (t : Stage) : W → W := ds (BitVec.ofNat 64 t.1) (BitVec.ofNat 64 t.2.1) t.2.2

theorem dsStages_cons (t : Stage) (ts : List Stage) (x : W) : dsStages (t :: ts) x = dsStages ts (dsOf t x) := rfl

def stagesRoute : List Stage → Nat → Nat
  | [], k => k
  | t :: ts, k => dsRoute (BitVec.ofNat 64 t.1) (BitVec.ofNat 64 t.2.1) t.2.2 (stagesRoute ts k)

def stagesOk : List Stage → Nat → Bool
  | [], _ => true
  | t :: ts, k => stagesOk ts k && decide (stagesRoute ts k < 64) &&
      dsOk (BitVec.ofNat 64 t.1) (BitVec.ofNat 64 t.2.1) t.2.2 (stagesRoute ts k)

theorem stages_route (st : List Stage) (x : W) (k : Nat) (h : stagesOk st k = true) :
    (dsStages st x).getLsbD k = x.getLsbD (stagesRoute st k) := by
  induction st generalizing x with
  | nil => rfl
  | cons t ts ih =>
    simp only [stagesOk, Bool.and_eq_true, decide_eq_true_eq] at h
    obtain ⟨⟨h1, h2⟩, h3⟩ := h
    rw [dsStages_cons, ih _ h1]
    exact ds_route _ _ _ _ _ h2 h3

theorem t8_table : ∀ k, k < 64 → stagesOk t8Stages k = true ∧ stagesRoute t8Stages k = 8 * (k % 8) + k / 8 := by
  decide

/-- **8x8 kernel**: output bit (r, c) is input bit (c, r), for every 64-bit input. -/
theorem t8_kernel (x : W) (r c : Nat) (hr : r < 8) (hc : c < 8) :
    (t8 x).getLsbD (8 * r + c) = x.getLsbD (8 * c + r) := by
  obtain ⟨h1, h2⟩ := t8_table (8 * r + c) (by omega)
  rw [t8, stages_route _ _ _ h1, h2]
  congr 1
  omega

/-! ### 16x16 kernel -/

def bit256 (y : W4) (n : Nat) : Bool := (y ⟨n / 64 % 4, Nat.mod_lt _ (by decide)⟩).getLsbD (n % 64)

theorem bit256_mk (y : W4) (w : Fin 4) (k : Nat) (hk : k < 64) :
    bit256 y (64 * w.val + k) = (y w).getLsbD k := by
  have h1 : (64 * w.val + k) / 64 % 4 = w.val := by have := w.isLt; omega
  have h2 : (64 * w.val + k) % 64 = k := by omega
  simp only [bit256, h2]
  congr 2
  exact Fin.ext h1

theorem bit256_eq (y : W4) (n : Nat) : bit256 y n = (y (wOf n)).getLsbD (n % 64) := rfl

def st01 : List Stage := [(t16M0, t16m0, t16s0), (t16M1, t16m1, t16s1)]

theorem t16y1_eq (x : W4) (i : Fin 4) : t16y1 x i = dsStages st01 (x i) := rfl

def route1 (n : Nat) : Nat := 64 * (wOf n).val + stagesRoute st01 (n % 64)
def ok1 (n : Nat) : Bool := stagesOk st01 (n % 64) && decide (stagesRoute st01 (n % 64) < 64)

theorem y1_route (x : W4) (n : Nat) (h : ok1 n = true) : bit256 (t16y1 x) n = bit256 x (route1 n) := by
  simp only [ok1, Bool.and_eq_true, decide_eq_true_eq] at h
  rw [route1, bit256_mk _ _ _ h.2, bit256_eq, t16y1_eq, stages_route _ _ _ h.1]

theorem mix2_bit (A B C p q : W) (s k : Nat) (hk : k < 64) :
    (mix2 A B C s p q).getLsbD k =
      ((p.getLsbD k && A.getLsbD k) || (q.getLsbD (k - s) && (decide (s ≤ k) && B.getLsbD k))
        || (q.getLsbD (k + s) && C.getLsbD (k + s))) := by
  simp only [mix2, BitVec.getLsbD_or, BitVec.getLsbD_and, BitVec.getLsbD_shiftLeft, BitVec.getLsbD_ushiftRight]
  have : decide (k < 64) = true := by simpa using hk
  rw [this, Nat.add_comm s k]
  by_cases h : s ≤ k
  · have h' : ¬ k < s := by omega
    simp [h, h']
  · have h' : k < s := by omega
    simp [h, h']

def route2 (n : Nat) : Nat :=
  let w := wOf n
  let k := n % 64
  if (listW t16m2a w).getLsbD k then 64 * w.val + k
  else if decide (t16s2 ≤ k) && (listW t16m2b w).getLsbD k then 64 * (swpIdx w).val + (k - t16s2)
  else 64 * (swpIdx w).val + (k + t16s2)

def ok2 (n : Nat) : Bool :=
  let w := wOf n
  let k := n % 64
  exactlyOne ((listW t16m2a w).getLsbD k) (decide (t16s2 ≤ k) && (listW t16m2b w).getLsbD k)
    ((listW t16m2c w).getLsbD (k + t16s2)) && decide (k + t16s2 < 64 ∨ (listW t16m2c w).getLsbD (k + t16s2) = false)

theorem y2_route (y : W4) (n : Nat) (h : ok2 n = true) : bit256 (t16y2 y) n = bit256 y (route2 n) := by
  simp only [ok2, Bool.and_eq_true, decide_eq_true_eq] at h
  obtain ⟨h1, h2⟩ := h
  have hk : n % 64 < 64 := Nat.mod_lt _ (by decide)
  rw [bit256_eq, t16y2, mix2_bit _ _ _ _ _ _ _ hk, sel3 _ _ _ _ _ _ h1]
  unfold route2
  simp only
  split
  · rw [bit256_mk _ _ _ hk]
  · split
    · rw [bit256_mk _ _ _ (by omega)]
    · rename_i ha hb
      rcases h2 with h2 | h2
      · rw [bit256_mk _ _ _ h2]
      · -- third selector is off as well: impossible under exactlyOne
        simp [exactlyOne, ha, hb, h2] at h1

theorem lo3_bit (L p q : W) (s k : Nat) (hk : k < 64) :
    (lo3 L s p q).getLsbD k =
      ((p.getLsbD k && L.getLsbD k) || (q.getLsbD (k - s) && (decide (s ≤ k) && L.getLsbD (k - s)))) := by
  simp only [lo3, BitVec.getLsbD_or, BitVec.getLsbD_and, BitVec.getLsbD_shiftLeft]
  have : decide (k < 64) = true := by simpa using hk
  rw [this]
  by_cases h : s ≤ k
  · have h' : ¬ k < s := by omega
    simp [h, h']
  · have h' : k < s := by omega
    simp [h, h']

theorem hi3_bit (H p q : W) (s k : Nat) :
    (hi3 H s p q).getLsbD k =
      ((q.getLsbD k && H.getLsbD k) || (p.getLsbD (k + s) && H.getLsbD (k + s))) := by
  simp only [hi3, BitVec.getLsbD_or, BitVec.getLsbD_and, BitVec.getLsbD_ushiftRight, Nat.add_comm s k]
  rw [Bool.or_comm]

theorem sel2 (a b x y : Bool) (h : (a != b) = true) : ((x && a) || (y && b)) = if a then x else y := by
  cases a <;> cases b <;> simp_all

def route3 (n : Nat) : Nat :=
  let w := wOf n
  let k := n % 64
  if w.val < 2 then
    if (BitVec.ofNat 64 t16L).getLsbD k then 64 * w.val + k else 64 * (w + 2).val + (k - t16s3)
  else
    if (BitVec.ofNat 64 t16H).getLsbD k then 64 * w.val + k else 64 * (w + 2).val + (k + t16s3)

def ok3 (n : Nat) : Bool :=
  let w := wOf n
  let k := n % 64
  if w.val < 2 then
    ((BitVec.ofNat 64 t16L).getLsbD k != (decide (t16s3 ≤ k) && (BitVec.ofNat 64 t16L).getLsbD (k - t16s3)))
  else
    ((BitVec.ofNat 64 t16H).getLsbD k != (BitVec.ofNat 64 t16H).getLsbD (k + t16s3)) &&
      decide (k + t16s3 < 64 ∨ (BitVec.ofNat 64 t16H).getLsbD k = true)

theorem y3_route (y : W4) (n : Nat) (h : ok3 n = true) : bit256 (t16y3 y) n = bit256 y (route3 n) := by
  have hk : n % 64 < 64 := Nat.mod_lt _ (by decide)
  unfold ok3 at h
  unfold route3
  simp only at h ⊢
  rw [bit256_eq, t16y3]
  by_cases hw : (wOf n).val < 2
  · simp only [hw, if_true] at h ⊢
    rw [lo3_bit _ _ _ _ _ hk, sel2 _ _ _ _ h]
    split
    · rw [bit256_mk _ _ _ hk]
    · rw [bit256_mk _ _ _ (by omega)]
  · simp only [hw, if_false, Bool.and_eq_true, decide_eq_true_eq] at h ⊢
    rw [hi3_bit, sel2 _ _ _ _ h.1]
    split
    · rw [bit256_mk _ _ _ hk]
    · rename_i hH
      rcases h.2 with h2 | h2
      · rw [bit256_mk _ _ _ h2]
      · exact absurd h2 hH

theorem t16_table : ∀ n, n < 256 →
    ok3 n = true ∧ ok2 (route3 n) = true ∧ ok1 (route2 (route3 n)) = true ∧
      route1 (route2 (route3 n)) = 16 * (n % 16) + n / 16 := by
  decide +kernel

/-- **16x16 kernel**: output bit (r, c) is input bit (c, r), for every input. -/
theorem t16_kernel (x : W4) (r c : Nat) (hr : r < 16) (hc : c < 16) :
    bit256 (t16 x) (16 * r + c) = bit256 x (16 * c + r) := by
  obtain ⟨h3, h2, h1, hr'⟩ := t16_table (16 * r + c) (by omega)
  rw [t16, y3_route _ _ h3, y2_route _ _ h2, y1_route _ _ h1, hr']
  congr 1
  omega

/-! ### byte level -/

theorem getD_leBytes_testBit (v n k b : Nat) (hk : k < n) (hb : b < 8) :
    ((leBytes v n).getD k 0).testBit b = v.testBit (8 * k + b) := by
  induction n generalizing v k with
  | zero => omega
  | succ n ih =>
    cases k with
    | zero =>
      simp only [leBytes, List.getD_cons_zero]
      have := Nat.testBit_mod_two_pow v 8 b
      simp only [show (2:Nat)^8 = 256 from rfl] at this
      rw [this]; simp [hb]
    | succ k =>
      simp only [leBytes, List.getD_cons_succ]
      rw [ih _ _ (by omega)]
      have := @Nat.testBit_div_two_pow 8 v (8 * k + b)
      simp only [show (2:Nat)^8 = 256 from rfl] at this
      rw [this]; congr 1; omega

theorem testBit_ofLeBytes (bs : List Nat) (hbs : Bytes bs) (k b : Nat) (hb : b < 8) :
    (ofLeBytes bs).testBit (8 * k + b) = (bs.getD k 0).testBit b := by
  induction bs generalizing k with
  | nil => simp [ofLeBytes]
  | cons x xs ih =>
    have hx : x < 2 ^ 8 := hbs x (by simp)
    have hxs : Bytes xs := fun y hy => hbs y (by simp [hy])
    have := Nat.testBit_two_pow_mul_add (ofLeBytes xs) hx (8 * k + b)
    simp only [ofLeBytes, show (2:Nat)^8 = 256 from rfl, Nat.add_comm x] at this ⊢
    rw [this]
    cases k with
    | zero => simp [hb]
    | succ k =>
      have h1 : ¬ (8 * (k + 1) + b < 8) := by omega
      have h2 : 8 * (k + 1) + b - 8 = 8 * k + b := by omega
      simp only [h1, if_false, h2, List.getD_cons_succ]
      exact ih hxs k

def RowsBytes (m : Rows) : Prop := ∀ row ∈ m, Bytes row

theorem getByte_lt (m : Rows) (h : RowsBytes m) (r j : Nat) : getByte m r j < 256 := by
  unfold getByte
  rw [List.getD_eq_getElem?_getD, List.getD_eq_getElem?_getD]
  cases hr : m[r]? with
  | none => simp
  | some row =>
    have hmem : row ∈ m := List.mem_of_getElem? hr
    simp only [Option.getD_some]
    cases hj : row[j]? with
    | none => simp
    | some x => simpa using h row hmem x (List.mem_of_getElem? hj)

theorem getD_map_range {α : Type} (f : Nat → α) (n k : Nat) (d : α) (hk : k < n) :
    ((List.range n).map f).getD k d = f k := by
  rw [List.getD_eq_getElem?_getD, List.getElem?_map, List.getElem?_range hk]
  rfl

/-- the table of transposed tiles is read back at `i * tj + j` -/
theorem tile_lookup (f : Nat → Nat → List Nat) (ti tj i j : Nat) (hi : i < ti) (hj : j < tj) :
    (((List.range (ti * tj)).map (fun t => f (t / tj) (t % tj))).toArray[i * tj + j]?.getD []) = f i j := by
  have hlt : i * tj + j < ti * tj :=
    calc i * tj + j < i * tj + tj := by omega
      _ = (i + 1) * tj := by rw [Nat.add_mul, Nat.one_mul]
      _ ≤ ti * tj := Nat.mul_le_mul_right _ hi
  have htj : 0 < tj := by omega
  have hd : (i * tj + j) / tj = i := by
    rw [Nat.add_comm, Nat.add_mul_div_right _ _ htj, Nat.div_eq_of_lt hj, Nat.zero_add]
  have hm : (i * tj + j) % tj = j := by
    rw [Nat.add_comm, Nat.add_mul_mod_self_right, Nat.mod_eq_of_lt hj]
  simp [List.getElem?_map, List.getElem?_range hlt, hd, hm]

theorem tile8_len (m : Rows) (i j : Nat) : (tile8 m i j).length = 8 := by simp [tile8]
theorem tile8_bytes (m : Rows) (h : RowsBytes m) (i j : Nat) : Bytes (tile8 m i j) := by
  intro x hx
  simp only [tile8, List.mem_map] at hx
  obtain ⟨k, _, rfl⟩ := hx
  exact getByte_lt m h _ _

/-- `transpose_8x8` on bytes: bit `c` of output byte `r` is bit `r` of input byte `c`. -/
theorem transpose8x8_bit (t : List Nat) (hl : t.length = 8) (hb : Bytes t) (r c : Nat) (hr : r < 8) (hc : c < 8) :
    ((transpose8x8 t).getD r 0).testBit c = (t.getD c 0).testBit r := by
  unfold transpose8x8
  rw [getD_leBytes_testBit _ _ _ _ hr hc, BitVec.testBit_toNat, t8_kernel _ _ _ hr hc, BitVec.getLsbD_ofNat]
  have : t.take 8 = t := by rw [← hl]; exact List.take_length
  rw [this, testBit_ofLeBytes _ hb _ _ hr]
  have : 8 * c + r < 64 := by omega
  simp [this]

/-- **tiled 8x8 transpose = reference**, for every number of tiles: destination bit (r, c) is source bit
(c, r). (`impl_transpose_8!`: `ti = rows/8`, `tj = cols/8`; `impl_transpose_8_pad!`: `⌈·/8⌉`, source
rows beyond the end reading as zero.) -/
theorem tiled8_eq_ref (m : Rows) (hm : RowsBytes m) (ti tj r c : Nat) (hr : r < 8 * tj) (hc : c < 8 * ti) :
    bitAt (tiled8 m ti tj) r c = bitAt m c r := by
  have hci : c / 8 < ti := by omega
  have h1 : getByte (tiled8 m ti tj) r (c / 8) = (transpose8x8 (tile8 m (c / 8) (r / 8))).getD (r % 8) 0 := by
    unfold getByte tiled8
    simp only
    rw [getD_map_range _ _ _ _ hr, getD_map_range _ _ _ _ hci,
      tile_lookup (fun i j => transpose8x8 (tile8 m i j)) ti tj (c / 8) (r / 8) hci (by omega)]
  unfold bitAt
  rw [h1, transpose8x8_bit _ (tile8_len _ _ _) (tile8_bytes m hm _ _) _ _ (Nat.mod_lt _ (by decide)) (Nat.mod_lt _ (by decide))]
  unfold tile8
  rw [getD_map_range _ _ _ _ (Nat.mod_lt _ (by decide))]
  congr 2
  omega

theorem tile16_len (m : Rows) (i j : Nat) : (tile16 m i j).length = 32 := by simp [tile16]
theorem tile16_bytes (m : Rows) (h : RowsBytes m) (i j : Nat) : Bytes (tile16 m i j) := by
  intro x hx
  simp only [tile16, List.mem_map] at hx
  obtain ⟨k, _, rfl⟩ := hx
  exact getByte_lt m h _ _

theorem getD_drop_take (t : List Nat) (a j : Nat) (hj : j < 8) : ((t.drop a).take 8).getD j 0 = t.getD (a + j) 0 := by
  simp [List.getD_eq_getElem?_getD, hj, List.getElem?_drop]

theorem Bytes_drop_take (t : List Nat) (hb : Bytes t) (a : Nat) : Bytes ((t.drop a).take 8) :=
  fun x hx => hb x (List.mem_of_mem_drop (List.mem_of_mem_take hx))

/-- bit `n` of the four input words is bit `n % 8` of input byte `n / 8` -/
theorem bit256_load (t : List Nat) (hb : Bytes t) (n : Nat) (hn : n < 256) :
    bit256 (fun i : Fin 4 => BitVec.ofNat 64 (ofLeBytes ((t.drop (8 * i.val)).take 8))) n
      = (t.getD (n / 8) 0).testBit (n % 8) := by
  have h64 : n % 64 < 64 := Nat.mod_lt _ (by decide)
  have hsplit : n % 64 = 8 * (n % 64 / 8) + n % 8 := by omega
  rw [bit256_eq, BitVec.getLsbD_ofNat]
  simp only [h64, decide_true, Bool.true_and]
  rw [hsplit, testBit_ofLeBytes _ (Bytes_drop_take t hb _) _ _ (Nat.mod_lt _ (by decide)),
    getD_drop_take _ _ _ (by omega)]
  congr 2
  simp only [wOf]
  omega

theorem words_getD (y : W4) (i : Fin 4) :
    [leBytes (y 0).toNat 8, leBytes (y 1).toNat 8, leBytes (y 2).toNat 8, leBytes (y 3).toNat 8].getD i.val []
      = leBytes (y i).toNat 8 := by
  match i with
  | ⟨0, _⟩ => rfl
  | ⟨1, _⟩ => rfl
  | ⟨2, _⟩ => rfl
  | ⟨3, _⟩ => rfl

/-- `transpose_16x16` on bytes: bit (r, c) of the output is bit (c, r) of the input (row `k` = bytes
`2k, 2k+1`). -/
theorem transpose16x16_bit (t : List Nat) (hb : Bytes t) (r c : Nat) (hr : r < 16) (hc : c < 16) :
    ((transpose16x16 t).getD (2 * r + c / 8) 0).testBit (c % 8) = (t.getD (2 * c + r / 8) 0).testBit (r % 8) := by
  have hB : 2 * r + c / 8 < 32 := by omega
  unfold transpose16x16
  simp only
  rw [getD_map_range _ _ _ _ hB, words_getD, getD_leBytes_testBit _ _ _ _ (Nat.mod_lt _ (by decide)) (Nat.mod_lt _ (by decide)),
    BitVec.testBit_toNat]
  have h1 : wOf (8 * (2 * r + c / 8)) = wOf (16 * r + c) := by simp only [wOf]; congr 1; omega
  have h2 : 8 * ((2 * r + c / 8) % 8) + c % 8 = (16 * r + c) % 64 := by omega
  rw [h1, h2, ← bit256_eq, t16_kernel _ _ _ hr hc, bit256_load _ hb _ (by omega)]
  have e1 : (16 * c + r) / 8 = 2 * c + r / 8 := by omega
  have e2 : (16 * c + r) % 8 = r % 8 := by omega
  rw [e1, e2]

/-- **tiled 16x16 transpose = reference** (`impl_transpose_16!`, `do_transpose_16`), any number of tiles. -/
theorem tiled16_eq_ref (m : Rows) (hm : RowsBytes m) (ti tj r c : Nat) (hr : r < 16 * tj) (hc : c < 16 * ti) :
    bitAt (tiled16 m ti tj) r c = bitAt m c r := by
  have hb : c / 8 < 2 * ti := by omega
  have h1 : getByte (tiled16 m ti tj) r (c / 8)
      = (transpose16x16 (tile16 m (c / 8 / 2) (r / 16))).getD (2 * (r % 16) + c / 8 % 2) 0 := by
    unfold getByte tiled16
    simp only
    rw [getD_map_range _ _ _ _ hr, getD_map_range _ _ _ _ hb,
      tile_lookup (fun i j => transpose16x16 (tile16 m i j)) ti tj (c / 8 / 2) (r / 16) (by omega) (by omega)]
  unfold bitAt
  have e1 : c / 8 % 2 = c % 16 / 8 := by omega
  have e2 : c % 8 = c % 16 % 8 := by omega
  rw [h1, e1, e2, transpose16x16_bit _ (tile16_bytes m hm _ _) _ _ (Nat.mod_lt _ (by decide)) (Nat.mod_lt _ (by decide))]
  unfold tile16
  rw [getD_map_range _ _ _ _ (by omega)]
  have e3 : 16 * (c / 8 / 2) + (2 * (c % 16) + r % 16 / 8) / 2 = c := by omega
  have e4 : 2 * (r / 16) + (2 * (c % 16) + r % 16 / 8) % 2 = r / 8 := by omega
  have e5 : r % 16 % 8 = r % 8 := by omega
  rw [e3, e4, e5]

/-! ### the macro-level transposes -/

/-- Shapes on which the kernel selected by the macro is defined (`debug_assert!`s of the drivers). -/
def ShapeOk (kernel rows cols : Nat) : Prop :=
  (kernel = 16 ∧ rows % 16 = 0 ∧ cols % 16 = 0) ∨ (kernel = 8 ∧ rows % 8 = 0 ∧ cols % 8 = 0) ∨ kernel = 0

instance (k r c : Nat) : Decidable (ShapeOk k r c) := by unfold ShapeOk; exact inferInstance

theorem bitAt_take (m : Rows) (n r c : Nat) (hr : r < n) : bitAt (m.take n) r c = bitAt m r c := by
  simp [bitAt, getByte, List.getD_eq_getElem?_getD, hr]

/-- **Every supported transpose equals the reference** `refT m i j = m j i`: for each kernel and all
`rows`, `cols` that are multiples of the tile — and arbitrary `rows`, `cols` for the padded variant,
where source rows `≥ rows` do not exist and read as zero. -/
theorem transpose_eq_ref (kernel rows cols : Nat) (h : ShapeOk kernel rows cols) (m : Rows) (hm : RowsBytes m)
    (r c : Nat) (hr : r < cols) (hc : c < rows) :
    bitAt (transposeImpl kernel rows cols m) r c = bitAt m c r := by
  unfold transposeImpl
  rcases h with ⟨rfl, h1, h2⟩ | ⟨rfl, h1, h2⟩ | rfl
  · simp only [if_true]
    exact tiled16_eq_ref m hm _ _ r c (by omega) (by omega)
  · simp only [show (8 : Nat) ≠ 16 by decide, if_false, if_true]
    exact tiled8_eq_ref m hm _ _ r c (by omega) (by omega)
  · simp only [show (0 : Nat) ≠ 16 by decide, show (0 : Nat) ≠ 8 by decide, if_false]
    rw [bitAt_take _ _ _ _ hr]
    exact tiled8_eq_ref m hm _ _ r c (by omega) (by omega)

/-- Padded variant, stated separately (`padded_transpose_eq_ref`): the destination rows beyond `cols` are
cut off by the shim, and destination columns in `rows .. 8⌈rows/8⌉` are zero when the source has exactly
`rows` rows (they are the padding bits of the destination `AdditiveShare<Boolean, rows>`). -/
theorem padded_transpose_zero_fill (rows cols : Nat) (m : Rows) (hm : RowsBytes m) (hlen : m.length = rows)
    (r c : Nat) (hr : r < cols) (hc1 : rows ≤ c) (hc2 : c < 8 * ((rows + 7) / 8)) :
    bitAt (transposeImpl 0 rows cols m) r c = false := by
  unfold transposeImpl
  simp only [show (0 : Nat) ≠ 16 by decide, show (0 : Nat) ≠ 8 by decide, if_false]
  rw [bitAt_take _ _ _ _ hr, tiled8_eq_ref m hm _ _ r c (by omega) hc2]
  have : m[c]? = none := by simp [hlen, hc1]
  simp [bitAt, getByte, List.getD_eq_getElem?_getD, this]

theorem rowsBytes_transposeImpl (kernel rows cols : Nat) (m : Rows) : RowsBytes (transposeImpl kernel rows cols m) := by
  have hg : ∀ (l : List Nat) (k : Nat), Bytes l → l.getD k 0 < 256 := by
    intro l k hl
    rw [List.getD_eq_getElem?_getD]
    cases hk : l[k]? with
    | none => simp
    | some x => simpa using hl x (List.mem_of_getElem? hk)
  have htbl : ∀ (f : Nat → List Nat) (n k : Nat), (∀ t, Bytes (f t)) →
      Bytes (((List.range n).map f).toArray[k]?.getD []) := by
    intro f n k hf
    rw [List.getElem?_toArray]
    cases hk : ((List.range n).map f)[k]? with
    | none => intro x hx; simp at hx
    | some l =>
      have := List.mem_of_getElem? hk
      simp only [List.mem_map] at this
      obtain ⟨t, _, rfl⟩ := this
      simpa using hf t
  have b8 : ∀ t, Bytes (transpose8x8 t) := fun t => leBytes_bytes _ _
  have b16 : ∀ t, Bytes (transpose16x16 t) := by
    intro t x hx
    simp only [transpose16x16, List.mem_map] at hx
    obtain ⟨B, _, rfl⟩ := hx
    rw [words_getD]
    exact hg _ _ (leBytes_bytes _ _)
  have t8b : ∀ a b, RowsBytes (tiled8 m a b) := by
    intro a b row hrow x hx
    simp only [tiled8, List.mem_map] at hrow
    obtain ⟨r, _, rfl⟩ := hrow
    simp only [List.mem_map] at hx
    obtain ⟨i, _, rfl⟩ := hx
    exact hg _ _ (htbl _ _ _ (fun t => b8 _))
  unfold transposeImpl
  split
  · intro row hrow x hx
    simp only [tiled16, List.mem_map] at hrow
    obtain ⟨r, _, rfl⟩ := hrow
    simp only [List.mem_map] at hx
    obtain ⟨i, _, rfl⟩ := hx
    exact hg _ _ (htbl _ _ _ (fun t => b16 _))
  · split
    · exact t8b _ _
    · intro row hrow
      exact t8b _ _ row (List.mem_of_mem_take hrow)

/-- **Transposition is a lossless inverse of itself**: transposing a `rows × cols` matrix with any
supported kernel and the result back with any supported kernel returns every bit of the original. -/
theorem transpose_involutive (k1 k2 rows cols : Nat) (h1 : ShapeOk k1 rows cols) (h2 : ShapeOk k2 cols rows)
    (m : Rows) (hm : RowsBytes m) (r c : Nat) (hr : r < rows) (hc : c < cols) :
    bitAt (transposeImpl k2 cols rows (transposeImpl k1 rows cols m)) r c = bitAt m r c := by
  rw [transpose_eq_ref k2 cols rows h2 _ (rowsBytes_transposeImpl _ _ _ _) r c hr hc,
    transpose_eq_ref k1 rows cols h1 m hm c r hc hr]

/-- Every extracted `impl_transpose_*!` invocation uses its kernel on a shape the kernel supports. -/
theorem generated_impls_shape_ok : ∀ e ∈ impls, ShapeOk e.2.2.2 e.2.1 e.2.2.1 := by decide

end IpaVerif.C09
