import IpaVerif.Model.Batcher
/-! Helper lemmas for C16: bitmaps (`List Bool`), the batch deque, `dropNones`. Core Lean only. -/
namespace IpaVerif.Batcher

theorem cnt_le_of_bounded (l : List Bool) : ∀ m, (∀ j, m ≤ j → l.getD j false = false) → l.count true ≤ m := by
  induction l with
  | nil => intro m _; simp
  | cons a l ih =>
    intro m h
    cases m with
    | zero =>
      have h0 := h 0 (Nat.le_refl _)
      have : l.count true ≤ 0 := ih 0 (fun j _ => by simpa using h (j+1) (by omega))
      simp at h0
      simp [h0] at *
      exact this
    | succ m =>
      have : l.count true ≤ m := ih m (fun j hj => by simpa using h (j+1) (by omega))
      cases a <;> simp at * <;> omega

theorem all_of_cnt_eq (l : List Bool) : ∀ m, (∀ j, m ≤ j → l.getD j false = false) → l.count true = m →
    ∀ j, j < m → l.getD j false = true := by
  induction l with
  | nil => intro m _ hc j hj; simp at hc; omega
  | cons a l ih =>
    intro m h hc j hj
    cases m with
    | zero => omega
    | succ m =>
      have hb : ∀ j, m ≤ j → l.getD j false = false := fun j hj => by simpa using h (j+1) (by omega)
      have hle := cnt_le_of_bounded l m hb
      cases a with
      | false => simp at hc; omega
      | true =>
        have hc' : l.count true = m := by simp at hc; simpa using hc
        cases j with
        | zero => simp
        | succ j => simpa using ih m hb hc' j (by omega)

theorem cnt_eq_of_all (l : List Bool) : ∀ m, (∀ j, m ≤ j → l.getD j false = false) →
    (∀ j, j < m → l.getD j false = true) → l.count true = m := by
  induction l with
  | nil =>
    intro m _ h
    cases m with
    | zero => simp
    | succ m => have := h 0 (by omega); simp at this
  | cons a l ih =>
    intro m h1 h2
    cases m with
    | zero =>
      have := cnt_le_of_bounded (a :: l) 0 h1
      omega
    | succ m =>
      have ha : a = true := by simpa using h2 0 (by omega)
      have := ih m (fun j hj => by simpa using h1 (j+1) (by omega)) (fun j hj => by simpa using h2 (j+1) (by omega))
      subst ha
      simp at *; omega
theorem getD_set (l : List Bool) (i j : Nat) (v : Bool) :
    (l.set i v).getD j false = if i = j ∧ i < l.length then v else l.getD j false := by
  simp only [List.getD_eq_getElem?_getD, List.getElem?_set]
  by_cases h : i = j
  · subst h
    by_cases h2 : i < l.length <;> simp [h2]
  · simp [h]

theorem count_set (l : List Bool) : ∀ i, i < l.length → l.getD i false = false →
    (l.set i true).count true = l.count true + 1 := by
  induction l with
  | nil => intro i h; simp at h
  | cons a l ih =>
    intro i h hb
    cases i with
    | zero => simp at hb; subst hb; simp
    | succ i =>
      have := ih i (by simpa using h) (by simpa using hb)
      cases a <;> simp [this]

theorem resize_grow (l : List Bool) (m : Nat) (h : l.length < m) :
    resize l m = l ++ List.replicate (m - l.length) false := by
  simp [resize, List.take_of_length_le (Nat.le_of_lt h)]

theorem getD_resize (l : List Bool) (m j : Nat) (h : l.length < m) :
    (resize l m).getD j false = l.getD j false := by
  rw [resize_grow l m h]
  simp only [List.getD_eq_getElem?_getD, List.getElem?_append]
  by_cases hj : j < l.length
  · simp [hj]
  · have : l[j]? = none := List.getElem?_eq_none (by omega)
    simp only [hj, if_false, this, List.getElem?_replicate]
    split <;> rfl

theorem count_resize (l : List Bool) (m : Nat) (h : l.length < m) :
    (resize l m).count true = l.count true := by
  rw [resize_grow l m h]; simp [List.count_replicate]

theorem length_resize (l : List Bool) (m : Nat) (h : l.length < m) : (resize l m).length = m := by
  rw [resize_grow l m h]; simp; omega

theorem freshFrom_length (s : State) : ∀ k len, (freshFrom s len k).length = k := by
  intro k; induction k with
  | zero => intro len; rfl
  | succ k ih => intro len; simp [freshFrom, ih]

theorem freshFrom_get (s : State) : ∀ k len i, i < k →
    (freshFrom s len k)[i]? = some (some (freshBatch s (s.firstBatch + (len + i)))) := by
  intro k; induction k with
  | zero => intro len i h; omega
  | succ k ih =>
    intro len i h
    cases i with
    | zero => simp [freshFrom]
    | succ i =>
      simp only [freshFrom, List.getElem?_cons_succ]
      rw [ih (len + 1) i (by omega)]
      congr 3; omega

theorem extend_length (s : State) (off : Nat) :
    (extend s off).batches.length = max s.batches.length (off + 1) := by
  simp [extend, freshFrom_length]; omega

theorem extend_get (s : State) (off k : Nat) :
    (extend s off).batches[k]? =
      if k < s.batches.length then s.batches[k]?
      else if k ≤ off then some (some (freshBatch s (s.firstBatch + k))) else none := by
  simp only [extend, List.getElem?_append]
  by_cases h : k < s.batches.length
  · simp [h]
  · simp only [h, if_false]
    by_cases h2 : k ≤ off
    · rw [freshFrom_get s _ _ _ (by omega)]
      simp [h2]; congr 1; omega
    · simp only [h2, if_false]
      apply List.getElem?_eq_none
      rw [freshFrom_length]; omega

theorem setSlot_get (s : State) (off k : Nat) (v : Option BatchState) :
    (setSlot s off v).batches[k]? = if off = k ∧ off < s.batches.length then some v else s.batches[k]? := by
  simp only [setSlot, List.getElem?_set]
  by_cases h : off = k
  · subst h; by_cases h2 : off < s.batches.length <;> simp [h2]
  · simp [h]

theorem dropNones_spec : ∀ (l : List (Option BatchState)) (f : Nat),
    ∃ m, (dropNones l f).2 = f + m ∧ m ≤ l.length ∧ (∀ i, i < m → l[i]? = some none) ∧
      (dropNones l f).1 = l.drop m ∧ (l.drop m).head? ≠ some none := by
  intro l
  induction l with
  | nil => intro f; exact ⟨0, by simp [dropNones]⟩
  | cons a l ih =>
    intro f
    cases a with
    | some b => exact ⟨0, by simp [dropNones]⟩
    | none =>
      obtain ⟨m, h1, h2, h3, h4, h5⟩ := ih (f + 1)
      refine ⟨m + 1, ?_, ?_, ?_, ?_, ?_⟩
      · simp [dropNones, h1]; omega
      · simp; omega
      · intro i hi
        cases i with
        | zero => simp
        | succ i => simpa using h3 i (by omega)
      · simpa [dropNones] using h4
      · simpa using h5

theorem div_offset (rpb b j : Nat) (h : j < rpb) : (b * rpb + j) / rpb = b := by
  have hp : 0 < rpb := by omega
  rw [Nat.mul_comm, Nat.mul_add_div hp, Nat.div_eq_of_lt h]; simp

end IpaVerif.Batcher
