import IpaVerif.Proofs.C09Bytes
/-! The C09 laws of a wire format (`Lawful`) and their proofs for every leaf encoding and for the
`AdditiveShare` / `StdArray` combinators (the `encode_append`-style lemmas). Core Lean only. -/
namespace IpaVerif.C09
open IpaVerif.Util IpaVerif.Serde

/-- The C09 laws of one wire format. -/
structure Lawful {α : Type} (C : Codec α) : Prop where
  /-- the encoding has exactly the advertised length and consists of bytes -/
  encode_length : ∀ v, C.canon v → (C.enc v).length = C.size ∧ Bytes (C.enc v)
  /-- decoding the encoding of a value returns that value -/
  decode_encode : ∀ v, C.canon v → C.dec (C.enc v) = .ok v
  /-- a byte string is accepted only if it is the canonical encoding of a canonical value -/
  decode_canonical : ∀ bs v, Bytes bs → C.dec bs = .ok v → C.canon v ∧ C.enc v = bs
  /-- never panics on a buffer of the advertised length -/
  decode_total : ∀ bs, bs.length = C.size → C.dec bs ≠ .panic

theorem lawful_prime (P : PrimeField.Params) (hp : P.p ≤ 256 ^ (P.storeBits / 8)) : Lawful (primeCodec P) where
  encode_length v _ := ⟨leBytes_length _ _, leBytes_bytes _ _⟩
  decode_encode v hv := by
    have hv : v < P.p := hv
    simp only [primeCodec, leBytes_length, ofLeBytes_leBytes]
    rw [Nat.mod_eq_of_lt (Nat.lt_of_lt_of_le hv hp)]
    simp [hv]
  decode_canonical bs v hb h := by
    simp only [primeCodec] at h ⊢
    split at h
    · cases h
    · rename_i hl
      have hl : bs.length = P.storeBits / 8 := by simpa using hl
      split at h
      · cases h
        rename_i hlt
        exact ⟨hlt, by rw [← hl]; exact leBytes_ofLeBytes bs hb⟩
      · cases h
  decode_total bs hl := by
    have hl : bs.length = P.storeBits / 8 := hl
    simp only [primeCodec, hl]
    simp
    split <;> simp

theorem lawful_bool : Lawful boolCodec where
  encode_length v _ := by cases v <;> simp [boolCodec, Bytes]
  decode_encode v _ := by cases v <;> simp [boolCodec]
  decode_canonical bs v hb h := by
    match bs with
    | [] => simp [boolCodec] at h
    | [x] =>
      simp only [boolCodec] at h ⊢
      by_cases hx : x > 1
      · simp [hx] at h
      · simp [hx] at h
        subst h
        have : x = 0 ∨ x = 1 := by omega
        rcases this with rfl | rfl <;> simp
    | _ :: _ :: _ => simp [boolCodec] at h
  decode_total bs hl := by
    match bs, hl with
    | [x], _ => simp only [boolCodec]; split <;> simp

theorem paddingClear_iff (bits v : Nat) : paddingClear bits v = true ↔ v < 2 ^ bits := by
  simp [paddingClear, Nat.shiftRight_eq_div_pow, Nat.div_eq_zero_iff]

/-- Well-formed instance: storage is whole bytes holding `bits`; the `infallible` arm is only used
when there is no padding (the macro's `const_assert_eq!($bits % 8, 0)`). -/
def _root_.IpaVerif.Serde.BitTy.WF (T : BitTy) : Prop := T.bits ≤ 8 * T.bytes ∧ (T.fallible = false → T.bits = 8 * T.bytes)

theorem pow256 (n : Nat) : 256 ^ n = 2 ^ (8 * n) := by
  rw [show (256 : Nat) = 2 ^ 8 from rfl, ← Nat.pow_mul]

theorem lawful_bits (T : BitTy) (hT : T.WF) : Lawful (bitCodec T) where
  encode_length v _ := ⟨leBytes_length _ _, leBytes_bytes _ _⟩
  decode_encode v hv := by
    have hv : v < 2 ^ T.bits := hv
    have hfit : v < 256 ^ T.bytes := by
      rw [pow256]; exact Nat.lt_of_lt_of_le hv (Nat.pow_le_pow_right (by omega) hT.1)
    simp only [bitCodec, leBytes_length, ofLeBytes_leBytes, Nat.mod_eq_of_lt hfit]
    simp [(paddingClear_iff T.bits v).2 hv]
  decode_canonical bs v hb h := by
    simp only [bitCodec] at h ⊢
    split at h
    · cases h
    · rename_i hl
      have hl : bs.length = T.bytes := by simpa using hl
      have henc : leBytes (ofLeBytes bs) T.bytes = bs := by rw [← hl]; exact leBytes_ofLeBytes bs hb
      split at h
      · rename_i hf
        split at h
        · cases h
          rename_i hpc
          exact ⟨(paddingClear_iff _ _).1 hpc, henc⟩
        · cases h
      · rename_i hf
        cases h
        refine ⟨?_, henc⟩
        have := hT.2 (by simpa using hf)
        rw [this, ← pow256, ← hl]
        exact ofLeBytes_lt bs hb
  decode_total bs hl := by
    have hl : bs.length = T.bytes := hl
    simp only [bitCodec, hl]
    simp
    split
    · split <;> simp
    · simp

theorem Bytes_append {a b : List Nat} (ha : Bytes a) (hb : Bytes b) : Bytes (a ++ b) := by
  intro x hx
  rcases List.mem_append.1 hx with h | h
  · exact ha x h
  · exact hb x h

theorem Bytes_take {bs : List Nat} (n : Nat) (h : Bytes bs) : Bytes (bs.take n) :=
  fun x hx => h x (List.mem_of_mem_take hx)

theorem Bytes_drop {bs : List Nat} (n : Nat) (h : Bytes bs) : Bytes (bs.drop n) :=
  fun x hx => h x (List.mem_of_mem_drop hx)

/-- `encode_append` for pairs (`AdditiveShare<V>` = left ‖ right). -/
theorem lawful_pair {α β : Type} {C : Codec α} {D : Codec β} (hC : Lawful C) (hD : Lawful D) :
    Lawful (pairCodec C D) where
  encode_length v hv := by
    obtain ⟨h1, b1⟩ := hC.encode_length v.1 hv.1
    obtain ⟨h2, b2⟩ := hD.encode_length v.2 hv.2
    exact ⟨by simp [pairCodec, h1, h2], Bytes_append b1 b2⟩
  decode_encode v hv := by
    obtain ⟨h1, _⟩ := hC.encode_length v.1 hv.1
    obtain ⟨h2, _⟩ := hD.encode_length v.2 hv.2
    have ht : (C.enc v.1 ++ D.enc v.2).take C.size = C.enc v.1 := by
      rw [← h1]; exact List.take_left' rfl
    have hd : (C.enc v.1 ++ D.enc v.2).drop C.size = D.enc v.2 := by
      rw [← h1]; exact List.drop_left' rfl
    simp only [pairCodec, List.length_append, h1, h2, ht, hd, hC.decode_encode v.1 hv.1,
      hD.decode_encode v.2 hv.2]
    simp
  decode_canonical bs v hb h := by
    simp only [pairCodec] at h ⊢
    split at h
    · cases h
    · cases hl : C.dec (bs.take C.size) with
      | ok l =>
        cases hr : D.dec (bs.drop C.size) with
        | ok r =>
          simp only [hl, hr] at h
          cases h
          obtain ⟨c1, e1⟩ := hC.decode_canonical _ _ (Bytes_take _ hb) hl
          obtain ⟨c2, e2⟩ := hD.decode_canonical _ _ (Bytes_drop _ hb) hr
          exact ⟨⟨c1, c2⟩, by simp only [e1, e2, List.take_append_drop]⟩
        | err => simp [hl, hr] at h
        | panic => simp [hl, hr] at h
      | err => simp [hl] at h
      | panic => simp [hl] at h
  decode_total bs hl := by
    have hl : bs.length = C.size + D.size := hl
    have h1 : (bs.take C.size).length = C.size := by simp [List.length_take]; omega
    have h2 : (bs.drop C.size).length = D.size := by simp [List.length_drop]; omega
    have t1 := hC.decode_total _ h1
    have t2 := hD.decode_total _ h2
    simp only [pairCodec, hl]
    cases hl' : C.dec (bs.take C.size) with
    | ok l =>
      cases hr : D.dec (bs.drop C.size) with
      | ok r => simp
      | err => simp
      | panic => exact absurd hr t2
    | err => simp
    | panic => exact absurd hl' t1

theorem encAll_length {α : Type} {C : Codec α} (hC : Lawful C) (vs : List α) (hv : ∀ v ∈ vs, C.canon v) :
    (encAll C vs).length = C.size * vs.length ∧ Bytes (encAll C vs) := by
  induction vs with
  | nil => exact ⟨by simp [encAll], fun x hx => by simp [encAll] at hx⟩
  | cons v vs ih =>
    obtain ⟨h1, b1⟩ := hC.encode_length v (hv v (by simp))
    obtain ⟨h2, b2⟩ := ih (fun x hx => hv x (by simp [hx]))
    exact ⟨by simp [encAll, h1, h2, Nat.mul_succ, Nat.add_comm], Bytes_append b1 b2⟩

theorem decAll_encAll {α : Type} {C : Codec α} (hC : Lawful C) (vs : List α) (hv : ∀ v ∈ vs, C.canon v) :
    decAll C vs.length (encAll C vs) = .ok vs := by
  induction vs with
  | nil => rfl
  | cons v vs ih =>
    obtain ⟨h1, _⟩ := hC.encode_length v (hv v (by simp))
    have ht : (C.enc v ++ encAll C vs).take C.size = C.enc v := by rw [← h1]; exact List.take_left' rfl
    have hd : (C.enc v ++ encAll C vs).drop C.size = encAll C vs := by rw [← h1]; exact List.drop_left' rfl
    simp only [List.length_cons, decAll, encAll, ht, hd, hC.decode_encode v (hv v (by simp)),
      ih (fun x hx => hv x (by simp [hx]))]

theorem decAll_canonical {α : Type} {C : Codec α} (hC : Lawful C) (n : Nat) (bs : List Nat) (vs : List α)
    (hb : Bytes bs) (hl : bs.length = C.size * n) (h : decAll C n bs = .ok vs) :
    vs.length = n ∧ (∀ v ∈ vs, C.canon v) ∧ encAll C vs = bs := by
  induction n generalizing bs vs with
  | zero =>
    simp only [decAll] at h
    cases h
    have : bs = [] := by simpa using hl
    subst this
    exact ⟨rfl, fun v hv => by simp at hv, rfl⟩
  | succ n ih =>
    simp only [decAll] at h
    cases h1 : C.dec (bs.take C.size) with
    | ok v =>
      cases h2 : decAll C n (bs.drop C.size) with
      | ok ws =>
        simp only [h1, h2] at h
        cases h
        obtain ⟨c1, e1⟩ := hC.decode_canonical _ _ (Bytes_take _ hb) h1
        have hl2 : (bs.drop C.size).length = C.size * n := by
          simp [List.length_drop, hl, Nat.mul_succ]
        obtain ⟨l2, c2, e2⟩ := ih _ _ (Bytes_drop _ hb) hl2 h2
        refine ⟨by simp [l2], ?_, by simp only [encAll, e1, e2, List.take_append_drop]⟩
        intro x hx
        rcases List.mem_cons.1 hx with rfl | hx
        · exact c1
        · exact c2 x hx
      | err => simp [h1, h2] at h
      | panic => simp [h1, h2] at h
    | err => simp [h1] at h
    | panic => simp [h1] at h

theorem decAll_total {α : Type} {C : Codec α} (hC : Lawful C) (n : Nat) (bs : List Nat)
    (hl : bs.length = C.size * n) : decAll C n bs ≠ .panic := by
  induction n generalizing bs with
  | zero => simp [decAll]
  | succ n ih =>
    have h1 : (bs.take C.size).length = C.size := by
      simp [List.length_take, hl, Nat.mul_succ]
    have h2 : (bs.drop C.size).length = C.size * n := by
      simp [List.length_drop, hl, Nat.mul_succ]
    have t1 := hC.decode_total _ h1
    have t2 := ih _ h2
    simp only [decAll]
    cases h1' : C.dec (bs.take C.size) with
    | ok v =>
      cases h2' : decAll C n (bs.drop C.size) with
      | ok ws => simp
      | err => simp
      | panic => exact absurd h2' t2
    | err => simp
    | panic => exact absurd h1' t1

/-- `encode_append` for arrays (`StdArray<V, N>`, `[Hash; N]`, …): any `N`. -/
theorem lawful_arr {α : Type} {C : Codec α} (hC : Lawful C) (n : Nat) : Lawful (arrCodec C n) where
  encode_length vs hv := by
    obtain ⟨h, b⟩ := encAll_length hC vs hv.2
    exact ⟨by simp [arrCodec, h, hv.1], b⟩
  decode_encode vs hv := by
    obtain ⟨h, _⟩ := encAll_length hC vs hv.2
    have := decAll_encAll hC vs hv.2
    simp only [arrCodec, h, hv.1] at this ⊢
    simpa using this
  decode_canonical bs vs hb h := by
    simp only [arrCodec] at h ⊢
    split at h
    · cases h
    · rename_i hl
      have hl : bs.length = C.size * n := by simpa using hl
      obtain ⟨a, b, c⟩ := decAll_canonical hC n bs vs hb hl h
      exact ⟨⟨a, b⟩, c⟩
  decode_total bs hl := by
    have hl : bs.length = C.size * n := hl
    simp only [arrCodec, hl]
    simpa using decAll_total hC n bs hl

/-- Well-formed type expressions: the prime fits its backing store; bit-array instances are well formed.
`Fp25519` is excluded (its decoder reduces instead of rejecting: finding F9, see `fp25519_*`). -/
def _root_.IpaVerif.Serde.Ty.WF : Ty → Prop
  | .prime P => P.p ≤ 256 ^ (P.storeBits / 8)
  | .boolean => True
  | .bits T => T.WF
  | .fp25519 => False
  | .share t => t.WF
  | .arr _ t => t.WF
  | .pair a b => a.WF ∧ b.WF

theorem lawful_codecOf (t : Ty) (h : t.WF) : Lawful (codecOf t) := by
  induction t with
  | prime P => exact lawful_prime P h
  | boolean => exact lawful_bool
  | bits T => exact lawful_bits T h
  | fp25519 => exact absurd h (by simp [Ty.WF])
  | share t ih => exact lawful_pair (ih h) (ih h)
  | arr n t ih => exact lawful_arr (ih h) n
  | pair a b iha ihb => exact lawful_pair (iha h.1) (ihb h.2)

end IpaVerif.C09
