import Mathlib.Algebra.BigOperators.Group.Finset.Basic
import IpaVerif.Proofs.C01Sum
/-! Helper lemmas for C01, parts C/D: sharding by pseudonym, permutation invariance, dummies. -/
namespace IpaVerif.C01
open IpaVerif.Hybrid

/-- sum over the distinct keys of `l` of what each key contributes to bucket `b`. -/
def keySum (w : Widths) (l : List Rec) (b : Nat) : Nat :=
  ∑ k ∈ (l.map (·.key)).toFinset, listVal w b (keyRows l k)

/-- permutation-invariant form of `listVal`. -/
theorem listVal_eq (w : Widths) (b : Nat) (l : List Rec) :
    listVal w b l = if l.length = 2 then
      (if (l.map (·.bk)).sum % 2 ^ w.bkW = b then (l.map (·.v)).sum % 2 ^ w.vW else 0) else 0 := by
  match l with
  | [] => simp [listVal]
  | [_] => simp [listVal]
  | [r1, r2] => simp [listVal]
  | _ :: _ :: _ :: _ => simp [listVal]

theorem listVal_perm (w : Widths) (b : Nat) {l l' : List Rec} (h : l.Perm l') :
    listVal w b l = listVal w b l' := by
  rw [listVal_eq, listVal_eq, h.length_eq, (h.map (·.bk)).sum_nat, (h.map (·.v)).sum_nat]

theorem keySum_perm (w : Widths) (b : Nat) {l l' : List Rec} (h : l.Perm l') :
    keySum w l b = keySum w l' b := by
  unfold keySum
  rw [List.toFinset_eq_of_perm _ _ (h.map (·.key))]
  apply Finset.sum_congr rfl
  intro k _
  exact listVal_perm w b (h.filter _)

theorem bucketSum_perm {r r' : List Row} (h : r.Perm r') (b : Nat) : bucketSum r b = bucketSum r' b := by
  unfold bucketSum bucketValues
  exact ((h.filter _).map _).sum_nat

theorem bucketSum_zero (d : List Row) (hd : ∀ r ∈ d, r.2 = 0) (b : Nat) : bucketSum d b = 0 := by
  unfold bucketSum bucketValues
  apply List.sum_eq_zero
  intro x hx
  simp only [List.mem_map, List.mem_filter] at hx
  obtain ⟨r, ⟨hr, _⟩, rfl⟩ := hx
  exact hd r hr

/-- **Sharding lemma.** Resharding by pseudonym, grouping per shard and flattening gives, per bucket,
the key-wise sum over all records — provided the PRF is injective on the keys present. -/
theorem shardedSum (w : Widths) (n : Nat) (hn : 0 < n) (f : Nat → Nat) (shards : List (List Rec))
    (hf : ∀ r ∈ shards.flatten, ∀ r' ∈ shards.flatten, f r.key = f r'.key → r.key = r'.key) (b : Nat) :
    bucketSum (((List.range n).map (fun d => aggregateReports w (reshardByPrf n f shards d))).flatten) b
      = keySum w shards.flatten b := by
  set all := shards.flatten with hall
  rw [bucketSum_flatten, List.map_map]
  -- per shard: sum over its pseudonyms
  have hshard : ∀ d, (fun r => bucketSum r b) (aggregateReports w (reshardByPrf n f shards d))
      = ∑ t ∈ ((all.map (fun r => f r.key)).toFinset.filter (fun t => t % n = d)),
          listVal w b (all.filter (fun r => f r.key == t)) := by
    intro d
    simp only []
    rw [groupSum]
    have hset : ((reshardByPrf n f shards d).map Prod.fst).toFinset
        = (all.map (fun r => f r.key)).toFinset.filter (fun t => t % n = d) := by
      ext t
      simp only [reshardByPrf, List.map_map, List.mem_toFinset, List.mem_map, List.mem_filter,
        Function.comp, Finset.mem_filter, beq_iff_eq, ← hall]
      constructor
      · rintro ⟨r, ⟨hr, hmod⟩, rfl⟩; exact ⟨⟨r, hr, rfl⟩, hmod⟩
      · rintro ⟨⟨r, hr, rfl⟩, hmod⟩; exact ⟨r, ⟨hr, hmod⟩, rfl⟩
    rw [hset]
    apply Finset.sum_congr rfl
    intro t ht
    have htd : t % n = d := (Finset.mem_filter.mp ht).2
    congr 1
    simp only [reshardByPrf, ← hall, List.filter_map, List.map_map, List.filter_filter]
    have : (List.map (Prod.snd ∘ fun r => (f r.key, r))
        (List.filter (fun a => ((fun kr : Nat × Rec => kr.1 == t) ∘ fun r => (f r.key, r)) a && (f a.key % n == d)) all))
        = List.filter (fun a => (f a.key == t) && (f a.key % n == d)) all := by
      have hid : (Prod.snd ∘ fun r : Rec => (f r.key, r)) = id := rfl
      simp [Function.comp, hid]
    rw [this]
    apply List.filter_congr
    intro r _
    by_cases hrt : f r.key = t
    · subst hrt; simp [htd]
    · simp [hrt]
  have hmap : (List.range n).map ((fun r => bucketSum r b) ∘ fun d => aggregateReports w (reshardByPrf n f shards d))
      = (List.range n).map (fun d => ∑ t ∈ ((all.map (fun r => f r.key)).toFinset.filter (fun t => t % n = d)),
          listVal w b (all.filter (fun r => f r.key == t))) := by
    apply List.map_congr_left
    intro d _
    exact hshard d
  rw [hmap, ← List.sum_toFinset _ (List.nodup_range (n := n))]
  rw [Finset.sum_fiberwise_of_maps_to (g := fun t => t % n)
      (f := fun t => listVal w b (all.filter (fun r => f r.key == t)))]
  · -- reindex pseudonyms by keys
    unfold keySum
    have himg : (all.map (fun r => f r.key)).toFinset = ((all.map (·.key)).toFinset).image f := by
      ext t
      simp only [List.mem_toFinset, List.mem_map, Finset.mem_image]
      constructor
      · rintro ⟨r, hr, rfl⟩; exact ⟨r.key, ⟨r, hr, rfl⟩, rfl⟩
      · rintro ⟨k, ⟨r, hr, rfl⟩, rfl⟩; exact ⟨r, hr, rfl⟩
    rw [himg, Finset.sum_image]
    · apply Finset.sum_congr rfl
      intro k hk
      simp only [List.mem_toFinset, List.mem_map] at hk
      obtain ⟨r0, hr0, rfl⟩ := hk
      congr 1
      unfold keyRows
      apply List.filter_congr
      intro r hr
      by_cases h : r.key = r0.key
      · simp [h]
      · have : f r.key ≠ f r0.key := fun hh => h (hf r hr r0 hr0 hh)
        simp [h, this]
    · intro k hk k' hk' hkk
      simp only [Finset.mem_coe, List.mem_toFinset, List.mem_map] at hk hk'
      obtain ⟨r, hr, rfl⟩ := hk
      obtain ⟨r', hr', rfl⟩ := hk'
      exact hf r hr r' hr' hkk
  · intro t _
    simp only [List.mem_toFinset, List.mem_range]
    exact Nat.mod_lt _ hn

end IpaVerif.C01
