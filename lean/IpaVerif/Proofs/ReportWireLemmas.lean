import IpaVerif.Model.ReportWire
/-!
Helper lemmas for `IpaVerif.Props.C10`: offsets in closed form, list slicing, `splitNul`,
UTF-8 validity of ASCII, inversion of `decrypt`.
-/
namespace IpaVerif.ReportWire
open IpaVerif.Generated

@[simp] theorem bind_eq {α β : Type} (x : Outcome α) (f : α → Outcome β) : (x >>= f) = x.bind f := rfl
@[simp] theorem pure_eq {α : Type} (a : α) : (pure a : Outcome α) = .ok a := rfl
@[simp] theorem bind_ok {α β : Type} (a : α) (f : α → Outcome β) : (Outcome.ok a).bind f = f a := rfl
@[simp] theorem bind_err {α β : Type} (e : Err) (f : α → Outcome β) : (Outcome.err e : Outcome α).bind f = .err e := rfl
@[simp] theorem bind_panic {α β : Type} (t : String) (f : α → Outcome β) : (Outcome.panic t : Outcome α).bind f = .panic t := rfl

/-- The translated offset constants in closed form. This is where every theorem of C10 depends on
the constants regenerated from `report/hybrid.rs`. -/
theorem offsets (L : Layout) (k : Kind) :
    encapMkOff L k = 0 ∧ ctMkOff L k = L.encap ∧ encapBttOff L k = L.encap + L.tag + L.mkSz ∧
    ctBttOff L k = L.encap + L.tag + L.mkSz + L.encap ∧
    keyIdOff L k = L.encap + L.tag + L.mkSz + L.encap + L.tag + L.btt k ∧
    infoOff L k = L.encap + L.tag + L.mkSz + L.encap + L.tag + L.btt k + 1 := by
  cases k <;>
  simp [encapMkOff, ctMkOff, encapBttOff, ctBttOff, keyIdOff, infoOff, Layout.btt,
    Report.Imp.encapMkOff, Report.Imp.ctMkOff, Report.Imp.encapBttOff, Report.Imp.ctBttOff,
    Report.Imp.keyIdOff, Report.Imp.infoOff,
    Report.Conv.encapMkOff, Report.Conv.ctMkOff, Report.Conv.encapBttOff, Report.Conv.ctBttOff,
    Report.Conv.keyIdOff, Report.Conv.infoOff]

/-- `&d[a..b]` as a total function -/
def fld (d : Bytes) (a b : Nat) : Bytes := (d.drop a).take (b - a)

theorem fld_length {d : Bytes} {a b : Nat} (h1 : a ≤ b) (h2 : b ≤ d.length) : (fld d a b).length = b - a := by
  simp [fld]; omega

theorem fld_append {d : Bytes} {a b c : Nat} (h1 : a ≤ b) (h2 : b ≤ c) : fld d a b ++ fld d b c = fld d a c := by
  unfold fld
  have : c - a = (b - a) + (c - b) := by omega
  rw [this, List.take_add, List.drop_drop]
  congr 3
  omega

theorem fld_all (d : Bytes) : fld d 0 d.length = d := by simp [fld]

theorem fld_drop {d : Bytes} {a : Nat} : fld d a d.length = d.drop a := by
  simp only [fld]
  apply List.take_of_length_le
  simp

theorem slice_ok {d : Bytes} {a b : Nat} (h1 : a ≤ b) (h2 : b ≤ d.length) : slice d a b = .ok (fld d a b) := by
  simp [slice, fld, h1, h2]

theorem slice_eq_ok {d x : Bytes} {a b : Nat} (h : slice d a b = .ok x) : a ≤ b ∧ b ≤ d.length ∧ x = fld d a b := by
  unfold slice at h
  split at h
  · rename_i hc; simp at h; exact ⟨hc.1, hc.2, h.symm⟩
  · simp at h

theorem sliceFrom_eq_ok {d x : Bytes} {a : Nat} (h : sliceFrom d a = .ok x) : a ≤ d.length ∧ x = d.drop a := by
  unfold sliceFrom at h
  split at h
  · rename_i hc; simp at h; exact ⟨hc, h.symm⟩
  · simp at h

theorem index_eq_ok {d : Bytes} {i x : Nat} (h : index d i = .ok x) : i < d.length ∧ d[i]? = some x := by
  unfold index at h
  split at h
  · rename_i y hy
    simp at h; subst h
    exact ⟨(List.getElem?_eq_some_iff.mp hy).1, hy⟩
  · simp at h

theorem index_ok {d : Bytes} {i : Nat} (h : i < d.length) : index d i = .ok d[i] := by
  simp [index, h]

theorem fromSlice_eq_ok {n : Nat} {s x : Bytes} (h : fromSlice n s = .ok x) : s.length = n ∧ x = s := by
  unfold fromSlice at h
  split at h
  · rename_i hc; simp at h; exact ⟨hc, h.symm⟩
  · simp at h

theorem fromSlice_ok {n : Nat} {s : Bytes} (h : s.length = n) : fromSlice n s = .ok s := by simp [fromSlice, h]

/-! ### `splitNul` -/

theorem splitNul_some {b s r : Bytes} (h : splitNul b = some (s, r)) : b = s ++ 0 :: r ∧ 0 ∉ s := by
  induction b generalizing s r with
  | nil => simp [splitNul] at h
  | cons x xs ih =>
    simp only [splitNul] at h
    split at h
    · simp at h; obtain ⟨rfl, rfl⟩ := h; simp_all
    · split at h
      · rename_i s' r' heq
        simp at h; obtain ⟨rfl, rfl⟩ := h
        obtain ⟨h1, h2⟩ := ih heq
        constructor
        · simp [h1]
        · simp; constructor
          · intro h0; simp_all
          · exact h2
      · simp at h

theorem splitNul_append {s r : Bytes} (h : 0 ∉ s) : splitNul (s ++ 0 :: r) = some (s, r) := by
  induction s with
  | nil => simp [splitNul]
  | cons x xs ih =>
    simp at h
    have hx : x ≠ 0 := fun h0 => h.1 h0.symm
    simp [splitNul, hx, ih h.2]

/-! ### UTF-8 -/

theorem utf8Go_ascii {s : Bytes} (h : ∀ x ∈ s, x < 0x80) : utf8Go 0 0x80 0xBF s = true := by
  induction s with
  | nil => simp [utf8Go]
  | cons x xs ih =>
    have hx : x < 0x80 := h x (by simp)
    simp only [utf8Go, hx, if_true]
    exact ih (fun y hy => h y (by simp [hy]))

theorem utf8Valid_ascii {s : Bytes} (h : ∀ x ∈ s, x < 0x80) : utf8Valid s = true := utf8Go_ascii h

/-! ### infos -/

/-- the metadata fields have their wire widths (8 bytes each) -/
def ConvInfo.Wf (c : ConvInfo) : Prop := c.ts.length = 8 ∧ c.eps.length = 8 ∧ c.sens.length = 8

def Info.Wf : Info → Prop
  | .imp _ => True
  | .conv c => c.Wf

theorem conv_tail_parse (k : Nat) (ts eps sens : Bytes) (h1 : ts.length = 8) (h2 : eps.length = 8)
    (h3 : sens.length = 8) :
    index (k :: (ts ++ eps ++ sens)) 0 = .ok k ∧ slice (k :: (ts ++ eps ++ sens)) 1 9 = .ok ts ∧
    slice (k :: (ts ++ eps ++ sens)) 9 17 = .ok eps ∧ slice (k :: (ts ++ eps ++ sens)) 17 25 = .ok sens := by
  have e16 : List.drop 16 (ts ++ (eps ++ sens)) = sens := by
    rw [← List.append_assoc]
    have : (ts ++ eps).length = 16 := by simp [h1, h2]
    rw [← this, List.drop_left]
  refine ⟨by simp [index], ?_, ?_, ?_⟩ <;> simp [slice, h1, h2, h3, e16]
  rw [← h3, List.take_length]

theorem conv_tail_length (c : ConvInfo) (h : c.Wf) : c.tail.length = 25 := by
  obtain ⟨h1, h2, h3⟩ := h
  simp [ConvInfo.tail, h1, h2, h3]

end IpaVerif.ReportWire
