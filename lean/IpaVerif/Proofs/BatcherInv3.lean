import IpaVerif.Proofs.BatcherInv2
namespace IpaVerif.Batcher

theorem slot_lt {s : State} {off : Nat} {x} (hslot : s.batches[off]? = some x) : off < s.batches.length := by
  rcases Nat.lt_or_ge off s.batches.length with h | h
  · exact h
  · rw [List.getElem?_eq_none h] at hslot; cases hslot

theorem inv_close_mid {n s g off b} (hI : Inv n s g) (hslot : s.batches[off]? = some (some b))
    (acc' : List Nat)
    (hsub : ∀ x, x ∈ g.acc → x ∈ acc')
    (hnew : ∀ x, x ∈ acc' → x ∈ g.acc ∨ (x < n ∧ x / s.rpb = s.firstBatch + off))
    (hwhole : 0 < tcOf n s.rpb (s.firstBatch + off) ∧
      ∀ j, j < tcOf n s.rpb (s.firstBatch + off) → (s.firstBatch + off) * s.rpb + j ∈ acc')
    (htot : s.total = .specified n) :
    Inv n (setSlot s off none) ⟨acc', (s.firstBatch + off) :: g.closed⟩ := by
  have hoff := slot_lt hslot
  refine ⟨hI.rpb_pos, Or.inl htot, ?_, ?_, ?_, ?_, ?_⟩
  · intro b0
    show b0 ∈ (s.firstBatch + off) :: g.closed ↔ (b0 < s.firstBatch ∨ (s.firstBatch ≤ b0 ∧ (setSlot s off none).batches[b0 - s.firstBatch]? = some none))
    rw [List.mem_cons, hI.closed_iff b0, setSlot_get]
    by_cases h : off = b0 - s.firstBatch
    · rw [← h, hslot]; simp [hoff]; omega
    · simp [h]; omega
  · intro k bs hk
    show SlotOk n s.firstBatch s.rpb acc' k bs
    rw [setSlot_get] at hk
    by_cases h : off = k
    · subst h; simp [hoff] at hk
    · simp [h] at hk
      exact slotOk_other (hI.live k bs hk) (Ne.symm h) hsub (fun x hx => (hnew x hx).imp id (·.2))
  · intro b0 hb0
    show 0 < tcOf n s.rpb b0 ∧ ∀ j, j < tcOf n s.rpb b0 → b0 * s.rpb + j ∈ acc'
    rcases List.mem_cons.1 hb0 with h | h
    · subst h; exact hwhole
    · obtain ⟨h1, h2⟩ := hI.closed_all b0 h
      exact ⟨h1, fun j hj => hsub _ (h2 j hj)⟩
  · intro r hr
    rcases hnew r hr with h | h
    · exact hI.acc_lt r h
    · exact h.1
  · intro r hr
    show r / s.rpb < s.firstBatch + (setSlot s off none).batches.length
    rw [setSlot_length]
    rcases hnew r hr with h | h
    · exact hI.acc_where r h
    · omega

theorem inv_close_front {n s g b} (hI : Inv n s g) (hslot : s.batches[0]? = some (some b))
    (acc' : List Nat)
    (hsub : ∀ x, x ∈ g.acc → x ∈ acc')
    (hnew : ∀ x, x ∈ acc' → x ∈ g.acc ∨ (x < n ∧ x / s.rpb = s.firstBatch))
    (hwhole : 0 < tcOf n s.rpb s.firstBatch ∧
      ∀ j, j < tcOf n s.rpb s.firstBatch → s.firstBatch * s.rpb + j ∈ acc')
    (htot : s.total = .specified n) :
    Inv n { s with batches := (dropNones (s.batches.drop 1) (s.firstBatch + 1)).1,
                   firstBatch := (dropNones (s.batches.drop 1) (s.firstBatch + 1)).2 }
      ⟨acc', s.firstBatch :: g.closed⟩ := by
  have hlen := slot_lt hslot
  obtain ⟨m, hf, hm, hnone, hrest, _⟩ := dropNones_spec (s.batches.drop 1) (s.firstBatch + 1)
  rw [hf, hrest]
  simp only [List.length_drop] at hm
  have hget : ∀ i, ((s.batches.drop 1).drop m)[i]? = s.batches[1 + m + i]? := by
    intro i; simp [List.getElem?_drop]; congr 1; omega
  have hnone' : ∀ i, 1 ≤ i → i ≤ m → s.batches[i]? = some none := by
    intro i h1 h2
    have := hnone (i - 1) (by omega)
    rw [List.getElem?_drop] at this
    rwa [show 1 + (i - 1) = i by omega] at this
  refine ⟨hI.rpb_pos, Or.inl htot, ?_, ?_, ?_, ?_, ?_⟩
  · intro b0
    show b0 ∈ s.firstBatch :: g.closed ↔ (b0 < s.firstBatch + 1 + m ∨ (s.firstBatch + 1 + m ≤ b0 ∧ ((s.batches.drop 1).drop m)[b0 - (s.firstBatch + 1 + m)]? = some none))
    rw [List.mem_cons, hI.closed_iff b0, hget]
    by_cases h1 : b0 < s.firstBatch
    · simp [h1]; omega
    · by_cases h2 : b0 = s.firstBatch
      · subst h2; simp; omega
      · by_cases h3 : b0 < s.firstBatch + 1 + m
        · have := hnone' (b0 - s.firstBatch) (by omega) (by omega)
          simp [h2, h3, this]; omega
        · have e : 1 + m + (b0 - (s.firstBatch + 1 + m)) = b0 - s.firstBatch := by omega
          rw [e]
          simp [h1, h2, h3]; omega
  · intro k bs hk
    show SlotOk n (s.firstBatch + 1 + m) s.rpb acc' k bs
    rw [hget] at hk
    have h0 := slotOk_other (off := 0) (hI.live _ bs hk) (by omega) hsub (fun x hx => (hnew x hx).imp id (·.2))
    have e : s.firstBatch + (1 + m + k) = s.firstBatch + 1 + m + k := by omega
    refine ⟨by rw [h0.ctor]; omega, h0.count, fun j => ?_, by rw [← e]; exact h0.room⟩
    rw [h0.bits j, e]
  · intro b0 hb0
    show 0 < tcOf n s.rpb b0 ∧ ∀ j, j < tcOf n s.rpb b0 → b0 * s.rpb + j ∈ acc'
    rcases List.mem_cons.1 hb0 with h | h
    · subst h; exact hwhole
    · obtain ⟨h1, h2⟩ := hI.closed_all b0 h
      exact ⟨h1, fun j hj => hsub _ (h2 j hj)⟩
  · intro r hr
    rcases hnew r hr with h | h
    · exact hI.acc_lt r h
    · exact h.1
  · intro r hr
    show r / s.rpb < s.firstBatch + 1 + m + ((s.batches.drop 1).drop m).length
    simp only [List.length_drop]
    rcases hnew r hr with h | h
    · have := hI.acc_where r h; omega
    · omega

end IpaVerif.Batcher
