import IpaVerif.Model.PrimeField
import Mathlib.Data.ZMod.Basic
import Mathlib.Tactic.Ring
import Mathlib.Tactic.Linarith
/-!
# Correctness of the sign-tracking extended Euclid loop of `PrimeField::invert`

Invariant of the loop (all quantities unsigned, `σ = +1` if `sign = 1` else `-1`):
`sign ≤ 1`, `newr < r`, `gcd r newr = 1`, `t·newr + newt·r = p`, `t ≤ newt`,
`newr ≡ σ·newt·a` and `r ≡ -σ·t·a (mod p)`. The product `r·newr` at least halves in every
iteration, so 200 iterations of fuel suffice for every modulus below `2^100`.
-/
namespace IpaVerif.Invert
open IpaVerif.PrimeField

def sigma (p sign : ℕ) : ZMod p := if sign = 1 then 1 else -1

structure Inv (p a : ℕ) (s : InvState) : Prop where
  sign_le : s.sign ≤ 1
  lt : s.newr < s.r
  gcd : Nat.gcd s.r s.newr = 1
  det : s.t * s.newr + s.newt * s.r = p
  mono : s.t ≤ s.newt
  cnewr : (s.newr : ZMod p) = sigma p s.sign * s.newt * a
  cr : (s.r : ZMod p) = -sigma p s.sign * s.t * a

theorem sigma_flip (p sign : ℕ) (h : sign ≤ 1) : sigma p (1 - sign) = -sigma p sign := by
  have : sign = 0 ∨ sign = 1 := by omega
  rcases this with rfl | rfl <;> simp [sigma]

theorem inv_init {p a : ℕ} (hp : Nat.Prime p) (ha0 : a ≠ 0) (ha : a < p) :
    Inv p a { t := 0, newt := 1, r := p, newr := a, sign := 1 } where
  sign_le := Nat.le_refl 1
  lt := ha
  gcd := by
    have : Nat.Coprime p a := (Nat.Prime.coprime_iff_not_dvd hp).mpr (fun h => by
      have := Nat.le_of_dvd (Nat.pos_of_ne_zero ha0) h; omega)
    exact this
  det := by simp
  mono := Nat.zero_le 1
  cnewr := by simp [sigma]
  cr := by simp [sigma]

theorem inv_step {p a : ℕ} {s : InvState} (h : Inv p a s) (hn : s.newr ≠ 0) : Inv p a (invStep s) := by
  have hpos : 0 < s.newr := Nat.pos_of_ne_zero hn
  have hq : 1 ≤ s.r / s.newr := Nat.div_pos (Nat.le_of_lt h.lt) hpos
  have hmod : s.r - s.r / s.newr * s.newr = s.r % s.newr := by
    have := Nat.div_add_mod s.r s.newr
    rw [Nat.mul_comm] at this
    omega
  have hle : s.r / s.newr * s.newr ≤ s.r := Nat.div_mul_le_self _ _
  have hdm : s.r = s.newr * (s.r / s.newr) + s.r % s.newr := (Nat.div_add_mod s.r s.newr).symm
  refine ⟨?_, ?_, ?_, ?_, ?_, ?_, ?_⟩
  · show 1 - s.sign ≤ 1; omega
  · show s.r - s.r / s.newr * s.newr < s.newr
    rw [hmod]; exact Nat.mod_lt _ hpos
  · show Nat.gcd s.newr (s.r - s.r / s.newr * s.newr) = 1
    rw [hmod, Nat.gcd_comm, ← Nat.gcd_rec, Nat.gcd_comm]; exact h.gcd
  · show s.newt * (s.r - s.r / s.newr * s.newr) + (s.t + s.r / s.newr * s.newt) * s.newr = p
    rw [hmod, ← h.det]
    generalize s.r / s.newr = q at *
    generalize s.r % s.newr = m at *
    rw [hdm]; ring
  · show s.newt ≤ s.t + s.r / s.newr * s.newt
    calc s.newt = 1 * s.newt := (Nat.one_mul _).symm
      _ ≤ s.r / s.newr * s.newt := Nat.mul_le_mul_right _ hq
      _ ≤ s.t + s.r / s.newr * s.newt := Nat.le_add_left _ _
  · show ((s.r - s.r / s.newr * s.newr : ℕ) : ZMod p) = sigma p (1 - s.sign) * ((s.t + s.r / s.newr * s.newt : ℕ) : ZMod p) * a
    rw [sigma_flip p s.sign h.sign_le, Nat.cast_sub hle, Nat.cast_mul, Nat.cast_add, Nat.cast_mul, h.cr, h.cnewr]
    ring
  · show (s.newr : ZMod p) = -sigma p (1 - s.sign) * s.newt * a
    rw [sigma_flip p s.sign h.sign_le, h.cnewr]; ring

/-- the product `r · newr` at least halves in each iteration -/
theorem step_halves {s : InvState} (hlt : s.newr < s.r) (hn : s.newr ≠ 0) :
    2 * ((invStep s).r * (invStep s).newr) ≤ s.r * s.newr := by
  have hpos : 0 < s.newr := Nat.pos_of_ne_zero hn
  have hmod : s.r - s.r / s.newr * s.newr = s.r % s.newr := by
    have := Nat.div_add_mod s.r s.newr
    rw [Nat.mul_comm] at this
    omega
  show 2 * (s.newr * (s.r - s.r / s.newr * s.newr)) ≤ s.r * s.newr
  rw [hmod]
  have h1 : s.r % s.newr < s.newr := Nat.mod_lt _ hpos
  have h2 : s.r % s.newr + s.newr ≤ s.r := by
    have hq : 1 ≤ s.r / s.newr := Nat.div_pos (Nat.le_of_lt hlt) hpos
    have := Nat.div_add_mod s.r s.newr
    have : s.newr * 1 ≤ s.newr * (s.r / s.newr) := Nat.mul_le_mul_left _ hq
    omega
  have : 2 * (s.r % s.newr) ≤ s.r := by omega
  calc 2 * (s.newr * (s.r % s.newr)) = s.newr * (2 * (s.r % s.newr)) := by ring
    _ ≤ s.newr * s.r := Nat.mul_le_mul_left _ this
    _ = s.r * s.newr := Nat.mul_comm _ _

theorem invLoop_spec {p a : ℕ} (fuel : ℕ) (s : InvState) (h : Inv p a s) (hf : s.r * s.newr < 2 ^ fuel) :
    Inv p a (invLoop fuel s) ∧ (invLoop fuel s).newr = 0 := by
  induction fuel generalizing s with
  | zero =>
    have : s.r * s.newr = 0 := by simpa using hf
    have hr : s.newr = 0 := by
      rcases Nat.mul_eq_zero.mp this with h0 | h0
      · have := h.lt; omega
      · exact h0
    exact ⟨h, hr⟩
  | succ fuel ih =>
    rw [invLoop]
    by_cases hn : s.newr = 0
    · rw [if_pos hn]; exact ⟨h, hn⟩
    · rw [if_neg hn]
      apply ih _ (inv_step h hn)
      have := step_halves h.lt hn
      rw [Nat.pow_succ] at hf
      omega

/-- at loop exit the sign-corrected `t` is the inverse of `a` -/
theorem inv_final {p a : ℕ} (hp : Nat.Prime p) {s : InvState} (h : Inv p a s) (h0 : s.newr = 0) :
    let out := (1 - s.sign) * s.t + s.sign * (p - s.t)
    out < p ∧ (out : ZMod p) * a = 1 := by
  have : Fact (Nat.Prime p) := ⟨hp⟩
  have hr : s.r = 1 := by have := h.gcd; rwa [h0, Nat.gcd_zero_right] at this
  have hnewt : s.newt = p := by have := h.det; rw [h0, hr] at this; simpa using this
  have htle : s.t ≤ p := hnewt ▸ h.mono
  have hone : (1 : ZMod p) = -sigma p s.sign * s.t * a := by
    have := h.cr; rw [hr] at this; simpa using this
  have h10 : (1 : ZMod p) ≠ 0 := one_ne_zero
  have hsign : s.sign = 0 ∨ s.sign = 1 := by have := h.sign_le; omega
  rcases hsign with hs | hs
  · -- negative sigma: output t
    simp only [hs, sigma] at hone ⊢
    norm_num at hone ⊢
    refine ⟨?_, hone.symm⟩
    rcases Nat.lt_or_ge s.t p with hlt | hge
    · exact hlt
    · exfalso
      have : s.t = p := Nat.le_antisymm htle hge
      rw [this] at hone
      simp at hone
  · simp only [hs, sigma] at hone ⊢
    norm_num at hone ⊢
    have hcast : ((p - s.t : ℕ) : ZMod p) = -(s.t : ZMod p) := by
      rw [Nat.cast_sub htle]; simp
    refine ⟨?_, by rw [hcast]; rw [hone]; ring⟩
    have hp0 := hp.pos
    rcases Nat.eq_zero_or_pos s.t with hz | hpos
    · exfalso; rw [hz] at hone; simp at hone
    · omega

end IpaVerif.Invert
