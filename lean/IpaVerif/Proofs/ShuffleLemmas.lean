import IpaVerif.Model.Shuffle
/-! Helper lemmas for `IpaVerif.Props.C05`: XOR identities, partition-by-key is a permutation, tables. -/
namespace IpaVerif.Shuffle

theorem xor_mask_cancel (a b m : Nat) : (a ^^^ m) ^^^ (b ^^^ m) = a ^^^ b := by
  apply Nat.eq_of_testBit_eq; intro i
  simp only [Nat.testBit_xor]
  cases a.testBit i <;> cases b.testBit i <;> cases m.testBit i <;> rfl

theorem xor4 (a b x y : Nat) : (a ^^^ b) ^^^ ((x ^^^ b) ^^^ (y ^^^ a)) = x ^^^ y := by
  apply Nat.eq_of_testBit_eq; intro i
  simp only [Nat.testBit_xor]
  cases a.testBit i <;> cases b.testBit i <;> cases x.testBit i <;> cases y.testBit i <;> rfl

theorem zipWith_map_same {α β γ δ : Type} (f : β → γ → δ) (g : α → β) (h : α → γ) (l : List α) :
    List.zipWith f (l.map g) (l.map h) = l.map (fun x => f (g x) (h x)) := by
  induction l with
  | nil => rfl
  | cons x xs ih => simp [ih]

/-! ### partition of a list by a key is a permutation -/

theorem filter_lt_succ {α : Type} (key : α → Nat) (S : Nat) (P : List α) :
    (P.filter (fun x => key x < S) ++ P.filter (fun x => key x == S)).Perm (P.filter (fun x => key x < S + 1)) := by
  induction P with
  | nil => simp
  | cons x xs ih =>
    by_cases h1 : key x < S
    · have h2 : ¬ key x = S := by omega
      have h3 : key x < S + 1 := by omega
      simp [h1, h2, h3]
      exact ih
    · by_cases h2 : key x = S
      · subst h2
        have e1 : List.filter (fun y => decide (key y < key x)) (x :: xs) = List.filter (fun y => decide (key y < key x)) xs := by
          simp
        have e2 : List.filter (fun y => key y == key x) (x :: xs) = x :: List.filter (fun y => key y == key x) xs := by
          simp
        have e3 : List.filter (fun y => decide (key y < key x + 1)) (x :: xs) = x :: List.filter (fun y => decide (key y < key x + 1)) xs := by
          simp
        rw [e1, e2, e3]
        exact List.perm_middle.trans (List.Perm.cons _ ih)
      · have h3 : ¬ key x < S + 1 := by omega
        simp [h1, h2, h3]
        exact ih

theorem partition_perm {α : Type} (key : α → Nat) (P : List α) (S : Nat) :
    (((List.range S).map (fun d => P.filter (fun x => key x == d))).flatten).Perm (P.filter (fun x => key x < S)) := by
  induction S with
  | zero => simp
  | succ n ih =>
    rw [List.range_succ, List.map_append, List.flatten_append]
    simp only [List.map_cons, List.map_nil, List.flatten_cons, List.flatten_nil, List.append_nil]
    exact (List.Perm.append_right _ ih).trans (filter_lt_succ key n P)

theorem flatten_map_perm {α : Type} (f g : Nat → List α) (h : ∀ d, (f d).Perm (g d)) (n : Nat) :
    (((List.range n).map f).flatten).Perm (((List.range n).map g).flatten) := by
  induction n with
  | zero => simp
  | succ n ih =>
    rw [List.range_succ, List.map_append, List.flatten_append, List.map_append, List.flatten_append]
    simp only [List.map_cons, List.map_nil, List.flatten_cons, List.flatten_nil, List.append_nil]
    exact List.Perm.append ih (h n)

/-! ### tables -/


theorem shape_txor {t u : Table} (h : shape t = shape u) : shape (txor t u) = shape t := by
  induction t generalizing u with
  | nil => simp [txor, shape]
  | cons a t ih =>
    cases u with
    | nil => simp [shape] at h
    | cons b u =>
      simp only [shape, List.map_cons, List.cons.injEq] at h
      simp only [txor, List.zipWith_cons_cons, shape, List.map_cons, List.cons.injEq, List.length_zipWith]
      exact ⟨by omega, ih h.2⟩

theorem get_txor {t u : Table} (h : shape t = shape u) (p : Nat × Nat) :
    get (txor t u) p = get t p ^^^ get u p := by
  induction t generalizing u p with
  | nil =>
    cases u with
    | nil => simp [txor, get]
    | cons b u => simp [shape] at h
  | cons a t ih =>
    cases u with
    | nil => simp [shape] at h
    | cons b u =>
      simp only [shape, List.map_cons, List.cons.injEq] at h
      obtain ⟨j, i⟩ := p
      cases j with
      | zero =>
        simp only [get, txor, List.zipWith_cons_cons, List.getD_cons_zero]
        simp only [List.getD_eq_getElem?_getD, List.getElem?_zipWith]
        by_cases hi : i < a.length
        · have hb : i < b.length := by omega
          simp [hi, hb]
        · have hb : ¬ i < b.length := by omega
          simp [List.getElem?_eq_none (Nat.le_of_not_lt hi), List.getElem?_eq_none (Nat.le_of_not_lt hb)]
      | succ j =>
        have := ih (u := u) h.2 (j, i)
        simpa [get, txor] using this

theorem table_ext {t u : Table} (hs : shape t = shape u) (hg : ∀ p, get t p = get u p) : t = u := by
  induction t generalizing u with
  | nil =>
    cases u with
    | nil => rfl
    | cons b u => simp [shape] at hs
  | cons a t ih =>
    cases u with
    | nil => simp [shape] at hs
    | cons b u =>
      simp only [shape, List.map_cons, List.cons.injEq] at hs
      have hab : a = b := by
        apply List.ext_getElem hs.1
        intro i h1 h2
        have := hg (0, i)
        simpa [get, h1, h2] using this
      have htu : t = u := ih hs.2 (fun p => by
        have := hg (p.1 + 1, p.2)
        simpa [get] using this)
      rw [hab, htu]


/-! ### routing -/


theorem map_getD_range (l : List Nat) : (List.range l.length).map (fun i => l.getD i 0) = l := by
  apply List.ext_getElem
  · simp
  · intro i h1 h2
    simp at h1
    simp [h1]

/-- reading a table at all of its positions, in order, gives back its rows -/
theorem positionsFrom_get (pre t : Table) :
    (positionsFrom pre.length (shape t)).map (get (pre ++ t)) = t.flatten := by
  induction t generalizing pre with
  | nil => simp [shape, positionsFrom]
  | cons l rest ih =>
    simp only [shape, List.map_cons, positionsFrom, List.map_append, List.map_map, List.flatten_cons]
    congr 1
    · have : (get (pre ++ l :: rest) ∘ fun i => (pre.length, i)) = fun i => l.getD i 0 := by
        funext i
        simp [get, List.getD_eq_getElem?_getD]
      rw [this]
      exact map_getD_range l
    · have := ih (pre ++ [l])
      simpa [shape] using this

theorem positions_get (t : Table) : (positions (shape t)).map (get t) = t.flatten := by
  have := positionsFrom_get [] t
  simpa [positions] using this

structure Round.Valid (S : Nat) (ρ : Round) : Prop where
  dest_lt : ∀ j i, ρ.dest j i < S
  shuf_perm : ∀ d l, (ρ.shuf d l).Perm l

/-- every position is routed to exactly one place (C19: each record reaches its chosen shard once) -/
theorem route_perm {S : Nat} {ρ : Round} (hv : ρ.Valid S) (sh : List Nat) :
    ((route S ρ sh).flatten).Perm (positions sh) := by
  unfold route
  refine (flatten_map_perm _ (fun d => (positions sh).filter (fun p => ρ.dest p.1 p.2 == d)) (fun d => hv.shuf_perm d _) S).trans ?_
  refine (partition_perm (fun p : Nat × Nat => ρ.dest p.1 p.2) (positions sh) S).trans ?_
  have : (positions sh).filter (fun p => decide (ρ.dest p.1 p.2 < S)) = positions sh := by
    apply List.filter_eq_self.mpr
    intro p _
    simp [hv.dest_lt]
  rw [this]

/-- routing without masks -/
def unmasked (S : Nat) (ρ : Round) (t : Table) : Table :=
  (route S ρ (shape t)).map (fun l => l.map (get t))

theorem shape_mas (S : Nat) (ρ : Round) (t : Table) :
    shape (maskAndShuffle S ρ t) = (route S ρ (shape t)).map List.length := by
  simp [shape, maskAndShuffle]

theorem shape_unmasked (S : Nat) (ρ : Round) (t : Table) :
    shape (unmasked S ρ t) = (route S ρ (shape t)).map List.length := by
  simp [shape, unmasked]

/-- **masks_aligned**: two helpers that share a round's randomness and hold same-shaped tables apply
the same mask to the same row and route it identically, so the masks cancel in the XOR. -/
theorem masks_aligned (S : Nat) (ρ : Round) {t u : Table} (h : shape t = shape u) :
    txor (maskAndShuffle S ρ t) (maskAndShuffle S ρ u) = unmasked S ρ (txor t u) := by
  have hs := shape_txor h
  have hg := fun p => get_txor h p
  unfold maskAndShuffle unmasked
  rw [hs, ← h]
  generalize txor t u = tu at hg
  unfold txor
  rw [zipWith_map_same]
  apply List.map_congr_left
  intro l _
  rw [zipWith_map_same]
  apply List.map_congr_left
  intro p _
  rw [xor_mask_cancel]
  exact (hg p).symm

theorem unmasked_perm {S : Nat} {ρ : Round} (hv : ρ.Valid S) (t : Table) :
    ((unmasked S ρ t).flatten).Perm t.flatten := by
  unfold unmasked
  rw [← List.map_flatten, ← positions_get t]
  exact (route_perm hv (shape t)).map _

end IpaVerif.Shuffle
