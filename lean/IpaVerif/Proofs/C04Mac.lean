import IpaVerif.Model.Mac
import Mathlib.Tactic.Ring

/-!
# C04 — helper lemmas: the share-level MAC protocol refines a plaintext "value + discrepancy" semantics

Over an arbitrary commutative ring. `Rel` relates the three helpers` views (model `Model/Mac.lean`) to the
plaintext shadow `prun`: every wire is a consistent sharing, reconstructs to its plaintext value, its MAC part
reconstructs to `r̂·value + disc`, and `Σu − (Σw)·r̂` equals the accumulated `Σ α̂_k·disc_k`.
-/
namespace IpaVerif.C04
open IpaVerif.Sharing IpaVerif.Mac IpaVerif.Generated.Mac

def ringAlg (R : Type) [CommRing R] : Alg R :=
  { zero := 0, one := 1, add := (· + ·), sub := (· - ·), mul := (· * ·), neg := (- ·) }

variable {R : Type} [CommRing R]

/-- reconstruction over a ring -/
abbrev rec (w : World R) : R := reconstruct (ringAlg R) w
def locSum (v : Loc R) : R := v.h1 + v.h2 + v.h3
def errSum (e : Err R) : R := e.e1 + e.e2 + e.e3
/-- `Σu − (Σw)·r̂` -/
def accT (rh : R) (acc : Acc R) : R := locSum acc.u - locSum acc.w * rh
/-- MAC discrepancy of a wire: `rx − r̂·x` -/
def disc (rh : R) (m : MShare R) : R := rec m.rx - rh * rec m.x
def MConsistent (m : MShare R) : Prop := Consistent m.x ∧ Consistent m.rx

theorem dot_eq (a b : HShare R) :
    dotContribution (ringAlg R) a b = (a.l + a.r) * (b.l + b.r) - a.r * b.r := by
  simp [dotContribution, dotFormula, evalTm, ringAlg]

theorem errTotal_eq (e : Err R) : e.total (ringAlg R) = errSum e := rfl

theorem mulE_reconstruct (ρ : Masks R) (e : Err R) (x y : World R) (hx : Consistent x) (hy : Consistent y) :
    rec (mulE (ringAlg R) ρ e x y) = rec x * rec y + errSum e := by
  obtain ⟨hx1, hx2, hx3⟩ := hx
  obtain ⟨hy1, hy2, hy3⟩ := hy
  simp only [rec, reconstruct, mulE, zLeft, ringAlg, errSum, hx1, hx2, hx3, hy1, hy2, hy3]
  ring

theorem mulE_consistent {F : Type} (A : Alg F) (ρ : Masks F) (e : Err F) (x y : World F) :
    Consistent (mulE A ρ e x y) := ⟨rfl, rfl, rfl⟩

theorem accumulate_T (rh : R) (α : World R) (m : MShare R) (acc : Acc R)
    (hα : Consistent α) (hm : MConsistent m) :
    accT rh (accumulate (ringAlg R) α m acc) = accT rh acc + rec α * disc rh m := by
  obtain ⟨ha1, ha2, ha3⟩ := hα
  obtain ⟨⟨hx1, hx2, hx3⟩, ⟨hr1, hr2, hr3⟩⟩ := hm
  simp only [accT, accumulate, contrib, uContribArgs, wContribArgs, induced, dot_eq, locSum, disc, rec,
    reconstruct, ha1, ha2, ha3, hx1, hx2, hx3, hr1, hr2, hr3]
  simp only [ringAlg]
  ring

theorem upgrade_props (rh : R) (ρ : Masks R) (e' : Err R) (r x : World R) (hr : Consistent r) (hx : Consistent x)
    (hrh : rec r = rh) :
    MConsistent (upgradeE (ringAlg R) ρ e' r x) ∧ rec (upgradeE (ringAlg R) ρ e' r x).x = rec x ∧
      disc rh (upgradeE (ringAlg R) ρ e' r x) = errSum e' := by
  refine ⟨⟨hx, mulE_consistent _ _ _ _ _⟩, rfl, ?_⟩
  simp only [disc, upgradeE, upgradeMulArgs, induced]
  rw [mulE_reconstruct _ _ _ _ hx hr, hrh]; ring

theorem macMul_props (rh : R) (ρ ρ' : Masks R) (e e' : Err R) (a b : MShare R) (ha : MConsistent a) (hb : MConsistent b) :
    MConsistent (macMulE (ringAlg R) ρ ρ' e e' a b) ∧
      rec (macMulE (ringAlg R) ρ ρ' e e' a b).x = rec a.x * rec b.x + errSum e ∧
      disc rh (macMulE (ringAlg R) ρ ρ' e e' a b) = disc rh a * rec b.x + errSum e' - rh * errSum e := by
  refine ⟨⟨mulE_consistent _ _ _ _ _, mulE_consistent _ _ _ _ _⟩, ?_, ?_⟩
  · simp only [macMulE, mainMulArgs]
    exact mulE_reconstruct _ _ _ _ ha.1 hb.1
  · simp only [disc, macMulE, mainMulArgs, dupMulArgs, induced]
    rw [mulE_reconstruct _ _ _ _ ha.1 hb.1, mulE_reconstruct _ _ _ _ ha.2 hb.1]; ring

theorem map2_consistent {F : Type} (f : F → F → F) (x y : World F) (hx : Consistent x) (hy : Consistent y) :
    Consistent (map2 f x y) := by
  obtain ⟨h1, h2, h3⟩ := hx
  obtain ⟨g1, g2, g3⟩ := hy
  exact ⟨by simp [map2, h1, g1], by simp [map2, h2, g2], by simp [map2, h3, g3]⟩
theorem map1_consistent {F : Type} (f : F → F) (x : World F) (hx : Consistent x) : Consistent (map1 f x) := by
  obtain ⟨h1, h2, h3⟩ := hx
  exact ⟨by simp [map1, h1], by simp [map1, h2], by simp [map1, h3]⟩

theorem zeroS_consistent : Consistent (zeroS (ringAlg R)) := ⟨rfl, rfl, rfl⟩
theorem zeroM_props (rh : R) : MConsistent (zeroM (ringAlg R)) ∧ rec (zeroM (ringAlg R)).x = 0 ∧ disc rh (zeroM (ringAlg R)) = 0 := by
  refine ⟨⟨zeroS_consistent, zeroS_consistent⟩, ?_, ?_⟩ <;>
    simp [zeroM, zeroS, ofShares, disc, rec, reconstruct, ringAlg]

theorem addM_props (rh : R) (a b : MShare R) (ha : MConsistent a) (hb : MConsistent b) :
    MConsistent (addM (ringAlg R) a b) ∧ rec (addM (ringAlg R) a b).x = rec a.x + rec b.x ∧
      disc rh (addM (ringAlg R) a b) = disc rh a + disc rh b := by
  refine ⟨⟨map2_consistent _ _ _ ha.1 hb.1, map2_consistent _ _ _ ha.2 hb.2⟩, ?_, ?_⟩
  · simp only [addM, addS, map2, rec, reconstruct, ringAlg]; ring
  · simp only [disc, addM, addS, map2, rec, reconstruct, ringAlg]; ring
theorem subM_props (rh : R) (a b : MShare R) (ha : MConsistent a) (hb : MConsistent b) :
    MConsistent (subM (ringAlg R) a b) ∧ rec (subM (ringAlg R) a b).x = rec a.x - rec b.x ∧
      disc rh (subM (ringAlg R) a b) = disc rh a - disc rh b := by
  refine ⟨⟨map2_consistent _ _ _ ha.1 hb.1, map2_consistent _ _ _ ha.2 hb.2⟩, ?_, ?_⟩
  · simp only [subM, subS, map2, rec, reconstruct, ringAlg]; ring
  · simp only [disc, subM, subS, map2, rec, reconstruct, ringAlg]; ring
theorem negM_props (rh : R) (a : MShare R) (ha : MConsistent a) :
    MConsistent (negM (ringAlg R) a) ∧ rec (negM (ringAlg R) a).x = - rec a.x ∧
      disc rh (negM (ringAlg R) a) = - disc rh a := by
  refine ⟨⟨map1_consistent _ _ ha.1, map1_consistent _ _ ha.2⟩, ?_, ?_⟩
  · simp only [negM, negS, map1, rec, reconstruct, ringAlg]; ring
  · simp only [disc, negM, negS, map1, rec, reconstruct, ringAlg]; ring
theorem mulConstM_props (rh c : R) (a : MShare R) (ha : MConsistent a) :
    MConsistent (mulConstM (ringAlg R) c a) ∧ rec (mulConstM (ringAlg R) c a).x = rec a.x * c ∧
      disc rh (mulConstM (ringAlg R) c a) = disc rh a * c := by
  refine ⟨⟨map1_consistent _ _ ha.1, map1_consistent _ _ ha.2⟩, ?_, ?_⟩
  · simp only [mulConstM, mulConstS, map1, rec, reconstruct, ringAlg]; ring
  · simp only [disc, mulConstM, mulConstS, map1, rec, reconstruct, ringAlg]; ring

/-! ### the plaintext shadow of a run -/

/-- plaintext view of a wire: its value and its MAC discrepancy `rx − r̂·x`. -/
structure PW (R : Type) where
  val : R
  disc : R

def pwOf (rh : R) (m : MShare R) : PW R := ⟨rec m.x, disc rh m⟩
def pget (ws : List (PW R)) (i : Nat) : PW R := ws.getD i ⟨0, 0⟩

/-- what a gate does to the plaintext wires and to `T̂ = Σu − (Σw)·r̂`. -/
def pstep (rh : R) (ps : List (PW R) × R) : Gate R → List (PW R) × R
  | .upgrade x _ α e' =>
      (ps.1 ++ [⟨rec x, errSum e'⟩], ps.2 + rec α * errSum e')
  | .mul i j _ _ α e e' =>
      let a := pget ps.1 i
      let b := pget ps.1 j
      let d := a.disc * b.val + errSum e' - rh * errSum e
      (ps.1 ++ [⟨a.val * b.val + errSum e, d⟩], ps.2 + rec α * d)
  | .add i j => (ps.1 ++ [⟨(pget ps.1 i).val + (pget ps.1 j).val, (pget ps.1 i).disc + (pget ps.1 j).disc⟩], ps.2)
  | .sub i j => (ps.1 ++ [⟨(pget ps.1 i).val - (pget ps.1 j).val, (pget ps.1 i).disc - (pget ps.1 j).disc⟩], ps.2)
  | .neg i => (ps.1 ++ [⟨- (pget ps.1 i).val, - (pget ps.1 i).disc⟩], ps.2)
  | .mulConst i c => (ps.1 ++ [⟨(pget ps.1 i).val * c, (pget ps.1 i).disc * c⟩], ps.2)

def prun (rh : R) : List (Gate R) → List (PW R) × R → List (PW R) × R
  | [], ps => ps
  | g :: gs, ps => prun rh gs (pstep rh ps g)

/-- inputs and random constants of a gate are consistent replicated sharings. -/
def GateOk : Gate R → Prop
  | .upgrade x _ α _ => Consistent x ∧ Consistent α
  | .mul _ _ _ _ α _ _ => Consistent α
  | _ => True

/-- the share-level state refines the plaintext state. -/
def Rel (rh : R) (st : St R) (ps : List (PW R) × R) : Prop :=
  (∀ m ∈ st.wires, MConsistent m) ∧ st.wires.map (pwOf rh) = ps.1 ∧ accT rh st.acc = ps.2

theorem wire_props (rh : R) (st : St R) (ps : List (PW R) × R) (h : Rel rh st ps) (i : Nat) :
    MConsistent (wire (ringAlg R) st i) ∧ pwOf rh (wire (ringAlg R) st i) = pget ps.1 i := by
  obtain ⟨hc, hm, _⟩ := h
  unfold wire pget
  rw [← hm]
  by_cases hi : i < st.wires.length
  · have h1 : st.wires.getD i (zeroM (ringAlg R)) = st.wires[i] := by simp [List.getD, hi]
    rw [h1]
    refine ⟨hc _ (List.getElem_mem hi), ?_⟩
    simp [List.getD, hi]
  · have h1 : st.wires.getD i (zeroM (ringAlg R)) = zeroM (ringAlg R) := by
      simp [List.getD, Nat.not_lt.mp hi]
    rw [h1]
    refine ⟨(zeroM_props rh).1, ?_⟩
    have h2 : (List.map (pwOf rh) st.wires).getD i ⟨0, 0⟩ = ⟨0, 0⟩ := by simp [List.getD, Nat.not_lt.mp hi]
    rw [h2]
    simp [pwOf, (zeroM_props rh).2.1, (zeroM_props rh).2.2]

theorem rel_push (rh : R) (st : St R) (ps : List (PW R) × R) (h : Rel rh st ps) (m : MShare R) (acc : Acc R)
    (w : PW R) (t : R) (hm : MConsistent m) (hw : pwOf rh m = w) (ht : accT rh acc = t) :
    Rel rh ⟨st.wires ++ [m], acc⟩ (ps.1 ++ [w], t) := by
  obtain ⟨hc, hmap, _⟩ := h
  refine ⟨?_, ?_, ht⟩
  · intro m' hm'
    rcases List.mem_append.mp hm' with h' | h'
    · exact hc _ h'
    · rw [List.mem_singleton.mp h']; exact hm
  · simp [List.map_append, hmap, hw]

theorem step_rel (rh : R) (r : World R) (hr : Consistent r) (hrh : rec r = rh) (st : St R) (ps : List (PW R) × R)
    (h : Rel rh st ps) (g : Gate R) (hg : GateOk g) :
    Rel rh (step (ringAlg R) r st g) (pstep rh ps g) := by
  cases g with
  | upgrade x ρ α e' =>
    obtain ⟨hx, hα⟩ := hg
    obtain ⟨hm, hv, hd⟩ := upgrade_props rh ρ e' r x hr hx hrh
    refine rel_push rh st ps h _ _ _ _ hm ?_ ?_
    · simp [pwOf, hv, hd]
    · rw [accumulate_T rh α _ _ hα hm, hd, h.2.2]
  | mul i j ρ ρ' α e e' =>
    obtain ⟨hai, hpi⟩ := wire_props rh st ps h i
    obtain ⟨haj, hpj⟩ := wire_props rh st ps h j
    obtain ⟨hm, hv, hd⟩ := macMul_props rh ρ ρ' e e' _ _ hai haj
    have e1 : rec (wire (ringAlg R) st i).x = (pget ps.1 i).val := by rw [← hpi]; rfl
    have e2 : rec (wire (ringAlg R) st j).x = (pget ps.1 j).val := by rw [← hpj]; rfl
    have e3 : disc rh (wire (ringAlg R) st i) = (pget ps.1 i).disc := by rw [← hpi]; rfl
    refine rel_push rh st ps h _ _ _ _ hm ?_ ?_
    · simp [pwOf, hv, hd, e1, e2, e3]
    · rw [accumulate_T rh α _ _ hg hm, hd, h.2.2, e2, e3]
  | add i j =>
    obtain ⟨hai, hpi⟩ := wire_props rh st ps h i
    obtain ⟨haj, hpj⟩ := wire_props rh st ps h j
    obtain ⟨hm, hv, hd⟩ := addM_props rh _ _ hai haj
    refine rel_push rh st ps h _ _ _ _ hm ?_ h.2.2
    rw [← hpi, ← hpj]; simp [pwOf, hv, hd]
  | sub i j =>
    obtain ⟨hai, hpi⟩ := wire_props rh st ps h i
    obtain ⟨haj, hpj⟩ := wire_props rh st ps h j
    obtain ⟨hm, hv, hd⟩ := subM_props rh _ _ hai haj
    refine rel_push rh st ps h _ _ _ _ hm ?_ h.2.2
    rw [← hpi, ← hpj]; simp [pwOf, hv, hd]
  | neg i =>
    obtain ⟨hai, hpi⟩ := wire_props rh st ps h i
    obtain ⟨hm, hv, hd⟩ := negM_props rh _ hai
    refine rel_push rh st ps h _ _ _ _ hm ?_ h.2.2
    rw [← hpi]; simp [pwOf, hv, hd]
  | mulConst i c =>
    obtain ⟨hai, hpi⟩ := wire_props rh st ps h i
    obtain ⟨hm, hv, hd⟩ := mulConstM_props rh c _ hai
    refine rel_push rh st ps h _ _ _ _ hm ?_ h.2.2
    rw [← hpi]; simp [pwOf, hv, hd]

theorem run_rel (rh : R) (r : World R) (hr : Consistent r) (hrh : rec r = rh) (gs : List (Gate R))
    (hg : ∀ g ∈ gs, GateOk g) (st : St R) (ps : List (PW R) × R) (h : Rel rh st ps) :
    Rel rh (run (ringAlg R) r gs st) (prun rh gs ps) := by
  induction gs generalizing st ps with
  | nil => exact h
  | cons g gs ih =>
    simp only [run, prun]
    exact ih (fun g' hg' => hg g' (List.mem_cons_of_mem _ hg')) _ _
      (step_rel rh r hr hrh st ps h g (hg g List.mem_cons_self))

end IpaVerif.C04
