import IpaVerif.Proofs.BatcherTrace
/-! The asynchronous tail of `validate_record` (C16): futures, watch channels, the validation
closure.  Invariant of `World` along every schedule of calls, polls, releases and drops. -/
namespace IpaVerif.Batcher

inductive WOp where
  | get (r x : Nat)
  | validate (r : Nat)
  | setTotal (t : Total)
  /-- poll future `i` once -/
  | poll (i : Nat)
  /-- the validation closure's own future for batch `b` becomes able to complete -/
  | release (b : Nat)
  /-- drop future `i` -/
  | drop (i : Nat)

def invokedKeys (w : World) : List Nat := w.invoked.map (·.1)
def verdictKeys (w : World) : List Nat := w.verdicts.map (·.1)

def wstep (w : World) : WOp → World
  | .get r x =>
    match w.batcher with
    | some s => { w with batcher := some (getBatchPush s r x).1 }
    | none => w
  | .validate r => (w.validate r).1
  | .setTotal t =>
    match w.batcher with
    | some s => (match setTotal s t with | .ok s' => { w with batcher := some s' } | .error _ => w)
    | none => w
  | .poll i => (w.poll i).1
  | .release b => w.release b
  | .drop i => w.dropFut i

def wghost (w : World) (g : Ghost) : WOp → Ghost
  | .validate r =>
    match w.batcher with
    | some s => ghostStep g (.validate r) (.validated (validateRecord s r).2)
    | none => g
  | _ => g

def wexec : World → Ghost → List WOp → World × Ghost
  | w, g, [] => (w, g)
  | w, g, op :: ops => wexec (wstep w op) (wghost w g op) ops

structure WInv (n : Nat) (w : World) (g : Ghost) : Prop where
  batcher : ∃ s, w.batcher = some s ∧ Inv n s g
  validators : ∀ (i b : Nat) (st : BatchState) (started : Bool),
    w.futs[i]? = some (Fut.validator b st started) →
    b ∈ g.closed ∧ (started = true ↔ b ∈ invokedKeys w) ∧ b ∉ verdictKeys w ∧ st.ctor = b
  unique : ∀ (i i' b : Nat) (st st' : BatchState) (x x' : Bool),
    w.futs[i]? = some (Fut.validator b st x) →
    w.futs[i']? = some (Fut.validator b st' x') → i = i'
  invoked_nodup : (invokedKeys w).Nodup
  invoked_closed : ∀ b, b ∈ invokedKeys w → b ∈ g.closed
  invoked_ctor : ∀ b c p, (b, c, p) ∈ w.invoked → c = b
  verdict_ok : ∀ b v, (b, v) ∈ w.verdicts →
    b ∈ invokedKeys w ∧ b ∈ w.released ∧ v = !w.failing.contains b
  verdict_nodup : (verdictKeys w).Nodup

theorem winv_new (n rpb tps : Nat) (h : 0 < rpb) (t : Total)
    (ht : t = .specified n ∨ t = .indeterminate ∨ t = .unspecified) (failing : List Nat) :
    WInv n (World.new rpb t tps failing) {} := by
  refine ⟨⟨_, rfl, inv_new n rpb tps h t ht⟩, ?_, ?_, ?_, ?_, ?_, ?_, ?_⟩ <;>
    simp [World.new, invokedKeys, verdictKeys]

theorem getElem?_snoc {α} (l : List α) (x : α) (i : Nat) (y : α) (h : (l ++ [x])[i]? = some y) :
    l[i]? = some y ∨ (i = l.length ∧ y = x) := by
  rw [List.getElem?_append] at h
  split at h
  · exact Or.inl h
  · rename_i hlt
    by_cases e : i = l.length
    · subst e; simp at h; exact Or.inr ⟨rfl, h.symm⟩
    · have : i - l.length ≠ 0 := by omega
      rcases hk : i - l.length with _ | k
      · omega
      · rw [hk] at h; simp at h

theorem getElem?_set_gone (l : List Fut) (i j : Nat) (y : Fut) (hy : y ≠ .gone)
    (h : (l.set i .gone)[j]? = some y) : l[j]? = some y ∧ j ≠ i := by
  rw [List.getElem?_set] at h
  split at h
  · split at h
    · simp at h; exact absurd h.symm hy
    · cases h
  · rename_i e; exact ⟨h, fun e' => e e'.symm⟩

/-- a step that only replaces some futures by `gone` and touches nothing else the invariant reads. -/
theorem winv_gone {n w g} (hI : WInv n w g) (i : Nat) (cc : List Nat) :
    WInv n { w with futs := w.futs.set i .gone, closedCh := cc } g := by
  refine ⟨hI.batcher, ?_, ?_, hI.invoked_nodup, hI.invoked_closed, hI.invoked_ctor, hI.verdict_ok, hI.verdict_nodup⟩
  · intro j b st started h
    exact hI.validators j b st started (getElem?_set_gone _ _ _ _ (by simp) h).1
  · intro j j' b st st' x x' h h'
    exact hI.unique j j' b st st' x x' (getElem?_set_gone _ _ _ _ (by simp) h).1
      (getElem?_set_gone _ _ _ _ (by simp) h').1

/-- appending a future that is not a validator. -/
theorem winv_push {n w g s' g'} (hI : WInv n w g) (f : Fut) (hf : ∀ b st x, f ≠ .validator b st x)
    (hs : Inv n s' g') (hc : ∀ b, b ∈ g.closed → b ∈ g'.closed) :
    WInv n { w with batcher := some s', futs := w.futs ++ [f] } g' := by
  refine ⟨⟨_, rfl, hs⟩, ?_, ?_, hI.invoked_nodup, fun b hb => hc b (hI.invoked_closed b hb),
    hI.invoked_ctor, hI.verdict_ok, hI.verdict_nodup⟩
  · intro j b st started h
    rcases getElem?_snoc _ _ _ _ h with h1 | ⟨_, h1⟩
    · obtain ⟨a, b', c, d⟩ := hI.validators j b st started h1
      exact ⟨hc b a, b', c, d⟩
    · exact absurd h1.symm (hf b st started)
  · intro j j' b st st' x x' h h'
    rcases getElem?_snoc _ _ _ _ h with h1 | ⟨_, h1⟩
    · rcases getElem?_snoc _ _ _ _ h' with h2 | ⟨_, h2⟩
      · exact hI.unique j j' b st st' x x' h1 h2
      · exact absurd h2.symm (hf b st' x')
    · exact absurd h1.symm (hf b st x)

theorem winv_batcher {n w g s'} (hI : WInv n w g) (hs : Inv n s' g) :
    WInv n { w with batcher := some s' } g :=
  ⟨⟨_, rfl, hs⟩, hI.validators, hI.unique, hI.invoked_nodup, hI.invoked_closed, hI.invoked_ctor,
    hI.verdict_ok, hI.verdict_nodup⟩

theorem winv_validate {n w g} (hI : WInv n w g) (r : Nat) :
    WInv n (wstep w (.validate r)) (wghost w g (.validate r)) := by
  obtain ⟨s, hs, hinv⟩ := hI.batcher
  have hstep := validate_step hinv r
  simp only [wstep, wghost, World.validate, hs]
  generalize validateRecord s r = res at hstep
  obtain ⟨s', o⟩ := res
  cases o with
  | err e =>
    simp only [ghostStep]
    exact winv_push hI _ (by intro _ _ _ h; cases h) hstep (fun _ h => h)
  | panic p =>
    simp only [ghostStep]
    exact winv_batcher hI hstep
  | notReady b =>
    simp only [ghostStep]
    exact winv_push hI _ (by intro _ _ _ h; cases h) hstep.2.2.2.2.1 (fun _ h => h)
  | ready b st =>
    simp only [ghostStep]
    obtain ⟨_, _, _, hnc, hinv', _, _, hctor⟩ := hstep
    have hni : b ∉ invokedKeys w := fun h => hnc (hI.invoked_closed b h)
    refine ⟨⟨_, rfl, hinv'⟩, ?_, ?_, hI.invoked_nodup,
      fun b' hb => List.mem_cons_of_mem _ (hI.invoked_closed b' hb), hI.invoked_ctor, hI.verdict_ok,
      hI.verdict_nodup⟩
    · intro j b' st' started h
      rcases getElem?_snoc _ _ _ _ h with h1 | ⟨_, h1⟩
      · obtain ⟨a, b'', c, d⟩ := hI.validators j b' st' started h1
        exact ⟨List.mem_cons_of_mem _ a, b'', c, d⟩
      · simp only [Fut.validator.injEq] at h1
        obtain ⟨rfl, rfl, rfl⟩ := h1
        refine ⟨List.mem_cons_self, ?_, ?_, hctor⟩
        · constructor
          · intro h; cases h
          · intro h; exact absurd h hni
        · intro hv
          obtain ⟨bv, hbv, hbv'⟩ := List.mem_map.1 hv
          have := (hI.verdict_ok bv.1 bv.2 hbv).1
          rw [hbv'] at this
          exact hni this
    · intro j j' b' st1 st2 x x' h h'
      rcases getElem?_snoc _ _ _ _ h with h1 | ⟨e1, h1⟩
      · rcases getElem?_snoc _ _ _ _ h' with h2 | ⟨e2, h2⟩
        · exact hI.unique j j' b' st1 st2 x x' h1 h2
        · simp only [Fut.validator.injEq] at h2
          exact absurd (h2.1 ▸ (hI.validators j b' st1 x h1).1) hnc
      · rcases getElem?_snoc _ _ _ _ h' with h2 | ⟨e2, h2⟩
        · simp only [Fut.validator.injEq] at h1
          exact absurd (h1.1 ▸ (hI.validators j' b' st2 x' h2).1) hnc
        · omega

theorem getD_gone {l : List Fut} {i : Nat} {f : Fut} (h : l.getD i .gone = f) (hf : f ≠ .gone) :
    l[i]? = some f := by
  rw [List.getD_eq_getElem?_getD] at h
  cases hl : l[i]? with
  | none => rw [hl] at h; exact absurd h.symm hf
  | some x => rw [hl] at h; simp at h; rw [h]

theorem getElem?_set_self' (l : List Fut) (i j : Nat) (x y : Fut) (hi : i < l.length)
    (h : (l.set i x)[j]? = some y) : (j = i ∧ y = x) ∨ (j ≠ i ∧ l[j]? = some y) := by
  rw [List.getElem?_set] at h
  split at h
  · rename_i e; subst e; simp at h; exact Or.inl ⟨rfl, h.symm⟩
  · rename_i e; exact Or.inr ⟨fun e' => e e'.symm, h⟩

/-- polling the checking future of batch `b`: the closure has been invoked (`inv'`), and the
future either completes (verdict broadcast) or stays pending. -/
theorem winv_poll_validator {n w g} (hI : WInv n w g) (i b : Nat) (st : BatchState) (started : Bool)
    (hf : w.futs[i]? = some (.validator b st started))
    (inv' : List (Nat × Nat × List Nat))
    (hinv' : inv' = if started then w.invoked else w.invoked ++ [(b, st.ctor, st.payload)]) :
    WInv n { w with invoked := inv', futs := w.futs.set i (.validator b st true) } g ∧
    (b ∈ w.released →
      WInv n { w with invoked := inv', futs := w.futs.set i .gone,
                      verdicts := w.verdicts ++ [(b, !w.failing.contains b)] } g) := by
  obtain ⟨hbc, hst, hnv, hctor⟩ := hI.validators i b st started hf
  have hi : i < w.futs.length := by
    rcases Nat.lt_or_ge i w.futs.length with h | h
    · exact h
    · rw [List.getElem?_eq_none h] at hf; cases hf
  have K1 : ∀ b', b' ∈ inv'.map (·.1) ↔ (b' ∈ invokedKeys w ∨ b' = b) := by
    intro b'
    cases started with
    | true =>
      simp only [if_true] at hinv'; subst hinv'
      have : b ∈ invokedKeys w := hst.1 rfl
      constructor
      · intro h; exact Or.inl h
      · rintro (h | h)
        · exact h
        · rw [h]; exact this
    | false =>
      simp only [Bool.false_eq_true, if_false] at hinv'; subst hinv'
      simp [invokedKeys]
  have K2 : (inv'.map (·.1)).Nodup := by
    cases started with
    | true => simp only [if_true] at hinv'; subst hinv'; exact hI.invoked_nodup
    | false =>
      simp only [Bool.false_eq_true, if_false] at hinv'; subst hinv'
      have hni : b ∉ invokedKeys w := fun h => by have := hst.2 h; cases this
      have := hI.invoked_nodup
      simp only [invokedKeys] at this hni
      rw [List.map_append, List.nodup_append]
      refine ⟨this, by simp, ?_⟩
      intro a ha c hc
      simp at hc
      subst hc
      intro e; subst e; exact hni ha
  have K3 : ∀ b' c p, (b', c, p) ∈ inv' → c = b' := by
    intro b' c p h
    cases started with
    | true => simp only [if_true] at hinv'; subst hinv'; exact hI.invoked_ctor b' c p h
    | false =>
      simp only [Bool.false_eq_true, if_false] at hinv'; subst hinv'
      rcases List.mem_append.1 h with h | h
      · exact hI.invoked_ctor b' c p h
      · simp at h; obtain ⟨rfl, rfl, _⟩ := h; exact hctor
  have Kc : ∀ b', b' ∈ inv'.map (·.1) → b' ∈ g.closed := by
    intro b' h
    rcases (K1 b').1 h with h | h
    · exact hI.invoked_closed b' h
    · rw [h]; exact hbc
  constructor
  · refine ⟨hI.batcher, ?_, ?_, K2, Kc, K3, ?_, hI.verdict_nodup⟩
    · intro j b' st' x h
      rcases getElem?_set_self' _ _ _ _ _ hi h with ⟨_, h1⟩ | ⟨hne, h1⟩
      · simp only [Fut.validator.injEq] at h1
        obtain ⟨rfl, rfl, rfl⟩ := h1
        exact ⟨hbc, ⟨fun _ => (K1 b').2 (Or.inr rfl), fun _ => rfl⟩, hnv, hctor⟩
      · obtain ⟨a, b2, c, d⟩ := hI.validators j b' st' x h1
        have hbb : b' ≠ b := fun e => hne (hI.unique j i b st' st x started (e ▸ h1) hf)
        refine ⟨a, ?_, c, d⟩
        show x = true ↔ b' ∈ inv'.map (·.1)
        rw [K1 b', b2]
        constructor
        · intro h; exact Or.inl h
        · rintro (h | h)
          · exact h
          · exact absurd h hbb
    · intro j j' b' st1 st2 x x' h h'
      rcases getElem?_set_self' _ _ _ _ _ hi h with ⟨e1, h1⟩ | ⟨hne, h1⟩
      · rcases getElem?_set_self' _ _ _ _ _ hi h' with ⟨e2, h2⟩ | ⟨hne2, h2⟩
        · omega
        · simp only [Fut.validator.injEq] at h1
          exact absurd (hI.unique j' i b st2 st x' started (h1.1 ▸ h2) hf) hne2
      · rcases getElem?_set_self' _ _ _ _ _ hi h' with ⟨e2, h2⟩ | ⟨hne2, h2⟩
        · simp only [Fut.validator.injEq] at h2
          exact absurd (hI.unique j i b st1 st x started (h2.1 ▸ h1) hf) hne
        · exact hI.unique j j' b' st1 st2 x x' h1 h2
    · intro b' v h
      obtain ⟨a, b2, c⟩ := hI.verdict_ok b' v h
      exact ⟨(K1 b').2 (Or.inl a), b2, c⟩
  · intro hrel
    refine ⟨hI.batcher, ?_, ?_, K2, Kc, K3, ?_, ?_⟩
    · intro j b' st' x h
      obtain ⟨h1, hne⟩ := getElem?_set_gone _ _ _ _ (by simp) h
      obtain ⟨a, b2, c, d⟩ := hI.validators j b' st' x h1
      have hbb : b' ≠ b := fun e => hne (hI.unique j i b st' st x started (e ▸ h1) hf)
      refine ⟨a, ?_, ?_, d⟩
      · show x = true ↔ b' ∈ inv'.map (·.1)
        rw [K1 b', b2]
        constructor
        · intro h; exact Or.inl h
        · rintro (h | h)
          · exact h
          · exact absurd h hbb
      · show b' ∉ (w.verdicts ++ [(b, !w.failing.contains b)]).map (·.1)
        simp only [List.map_append, List.mem_append, List.map_cons, List.map_nil, List.mem_singleton]
        rintro (h | h)
        · exact c h
        · exact hbb h
    · intro j j' b' st1 st2 x x' h h'
      exact hI.unique j j' b' st1 st2 x x' (getElem?_set_gone _ _ _ _ (by simp) h).1
        (getElem?_set_gone _ _ _ _ (by simp) h').1
    · intro b' v h
      rcases List.mem_append.1 h with h | h
      · obtain ⟨a, b2, c⟩ := hI.verdict_ok b' v h
        exact ⟨(K1 b').2 (Or.inl a), b2, c⟩
      · simp at h; obtain ⟨rfl, rfl⟩ := h
        exact ⟨(K1 b').2 (Or.inr rfl), hrel, by simp⟩
    · show ((w.verdicts ++ [(b, !w.failing.contains b)]).map (·.1)).Nodup
      rw [List.map_append, List.nodup_append]
      refine ⟨hI.verdict_nodup, by simp, ?_⟩
      intro a ha c hc
      simp at hc; subst hc
      intro e; subst e; exact hnv ha

theorem winv_poll {n w g} (hI : WInv n w g) (i : Nat) : WInv n (w.poll i).1 g := by
  unfold World.poll
  cases hf : w.futs.getD i .gone with
  | gone => exact hI
  | failed e => exact winv_gone hI i w.closedCh
  | waiter b =>
    simp only []
    cases lookupVerdict w.verdicts b with
    | some v => cases v <;> exact winv_gone hI i w.closedCh
    | none =>
      simp only []
      split
      · exact winv_gone hI i w.closedCh
      · exact hI
  | validator b st started =>
    have hf' := getD_gone hf (by simp)
    obtain ⟨h1, h2⟩ := winv_poll_validator hI i b st started hf' _ rfl
    simp only []
    cases started with
    | true =>
      simp only [if_true]
      split
      · rename_i hr; exact h2 (by simpa using hr)
      · exact h1
    | false =>
      simp only [Bool.false_eq_true, if_false]
      split
      · rename_i hr; exact h2 (by simpa using hr)
      · exact h1

theorem winv_wstep {n w g} (hI : WInv n w g) (op : WOp)
    (ht : ∀ t m, op = .setTotal t → t = .specified m → m = n) :
    WInv n (wstep w op) (wghost w g op) := by
  obtain ⟨s, hs, hinv⟩ := hI.batcher
  cases op with
  | get r x =>
    simp only [wstep, wghost, hs]
    exact winv_batcher hI (inv_getBatchPush hinv r x).1
  | validate r => exact winv_validate hI r
  | setTotal t =>
    simp only [wstep, wghost, hs]
    cases h : setTotal s t with
    | ok s' => exact winv_batcher hI (inv_setTotal hinv t (fun m hm => ht t m rfl hm) h)
    | error p => exact hI
  | poll i => exact winv_poll hI i
  | release b =>
    simp only [wstep, wghost, World.release]
    exact ⟨hI.batcher, hI.validators, hI.unique, hI.invoked_nodup, hI.invoked_closed, hI.invoked_ctor,
      fun b' v h => by
        obtain ⟨a, b2, c⟩ := hI.verdict_ok b' v h
        exact ⟨a, List.mem_append_left _ b2, c⟩, hI.verdict_nodup⟩
  | drop i =>
    simp only [wstep, wghost, World.dropFut]
    split <;> exact winv_gone hI i _

def WTotalsAgree (n : Nat) (ops : List WOp) : Prop :=
  ∀ t m, WOp.setTotal t ∈ ops → t = .specified m → m = n

theorem winv_wexec {n} : ∀ (ops : List WOp) (w : World) (g : Ghost), WInv n w g → WTotalsAgree n ops →
    WInv n (wexec w g ops).1 (wexec w g ops).2 := by
  intro ops
  induction ops with
  | nil => intro w g h _; exact h
  | cons op ops ih =>
    intro w g h ht
    simp only [wexec]
    apply ih
    · exact winv_wstep h op (fun t m e hm => ht t m (by rw [e]; exact List.mem_cons_self) hm)
    · intro t m hmem hm; exact ht t m (List.mem_cons_of_mem _ hmem) hm

theorem lookupVerdict_mem {vs : List (Nat × Bool)} {b : Nat} {v : Bool}
    (h : lookupVerdict vs b = some v) : (b, v) ∈ vs := by
  unfold lookupVerdict at h
  cases hf : vs.find? (fun p => p.1 == b) with
  | none => rw [hf] at h; cases h
  | some p =>
    rw [hf] at h
    simp at h
    have h1 := List.find?_some hf
    have h2 := List.mem_of_find?_eq_some hf
    simp at h1
    obtain ⟨p1, p2⟩ := p
    simp at h h1
    subst h h1
    exact h2

/-- what a completed poll tells about the batch. -/
theorem poll_spec {n w g} (hI : WInv n w g) (i : Nat) :
    (∀ b, w.futs.getD i .gone = .waiter b →
      ((w.poll i).2 = .ok → b ∈ g.closed ∧ b ∈ invokedKeys w ∧ b ∈ w.released ∧ w.failing.contains b = false) ∧
      (∀ e, (w.poll i).2 = .err e → e = .parallelFailed ∧ b ∈ g.closed ∧ b ∈ invokedKeys w ∧
        b ∈ w.released ∧ w.failing.contains b = true)) ∧
    (∀ b st x, w.futs.getD i .gone = .validator b st x →
      b ∈ g.closed ∧ st.ctor = b ∧
      ((w.poll i).2 = .ok → b ∈ w.released ∧ w.failing.contains b = false) ∧
      (∀ e, (w.poll i).2 = .err e → e = .validationFailed ∧ b ∈ w.released ∧ w.failing.contains b = true)) := by
  constructor
  · intro b hf
    unfold World.poll
    rw [hf]
    simp only []
    cases hl : lookupVerdict w.verdicts b with
    | some v =>
      obtain ⟨a, b2, c⟩ := hI.verdict_ok b v (lookupVerdict_mem hl)
      have hc := hI.invoked_closed b a
      cases v with
      | true =>
        simp only []
        refine ⟨fun _ => ⟨hc, a, b2, by simpa using c⟩, fun e h => (by cases h)⟩
      | false =>
        simp only []
        refine ⟨fun h => (by cases h), fun e h => ?_⟩
        simp only [PollOut.err.injEq] at h
        exact ⟨h.symm, hc, a, b2, by simpa using c⟩
    | none =>
      simp only []
      split
      · exact ⟨fun h => (by cases h), fun e h => (by cases h)⟩
      · exact ⟨fun h => (by cases h), fun e h => (by cases h)⟩
  · intro b st x hf
    obtain ⟨hbc, _, _, hctor⟩ := hI.validators i b st x (getD_gone hf (by simp))
    refine ⟨hbc, hctor, ?_⟩
    unfold World.poll
    rw [hf]
    simp only []
    have hrel : ∀ (w1 : World), w1.released = w.released → w1.failing = w.failing →
        (((if w1.released.contains b = true then
            ({ w1 with futs := w1.futs.set i .gone, verdicts := w1.verdicts ++ [(b, !w1.failing.contains b)] },
              if (!w1.failing.contains b) = true then PollOut.ok else PollOut.err .validationFailed)
          else ({ w1 with futs := w1.futs.set i (.validator b st true) }, PollOut.pending)).2 = .ok →
            b ∈ w.released ∧ w.failing.contains b = false) ∧
         (∀ e, (if w1.released.contains b = true then
            ({ w1 with futs := w1.futs.set i .gone, verdicts := w1.verdicts ++ [(b, !w1.failing.contains b)] },
              if (!w1.failing.contains b) = true then PollOut.ok else PollOut.err .validationFailed)
          else ({ w1 with futs := w1.futs.set i (.validator b st true) }, PollOut.pending)).2 = .err e →
            e = .validationFailed ∧ b ∈ w.released ∧ w.failing.contains b = true)) := by
      intro w1 e1 e2
      rw [e1, e2]
      by_cases hr : w.released.contains b = true
      · simp only [hr, if_true]
        have hr' : b ∈ w.released := by simpa using hr
        cases hfl : w.failing.contains b with
        | true => simp [hr']
        | false => simp [hr']
      · simp only [hr]
        simp
    cases x with
    | true => simp only [if_true]; exact hrel w rfl rfl
    | false => simp only [Bool.false_eq_true, if_false]; exact hrel { w with invoked := w.invoked ++ [(b, st.ctor, st.payload)] } rfl rfl

theorem poll_static (w : World) (i : Nat) :
    (w.poll i).1.failing = w.failing ∧ (w.poll i).1.batcher = w.batcher := by
  unfold World.poll
  simp only []
  repeat' split
  all_goals exact ⟨rfl, rfl⟩

theorem validate_static (w : World) (r : Nat) :
    (w.validate r).1.failing = w.failing ∧
    (w.validate r).1.batcher.map (·.rpb) = w.batcher.map (·.rpb) := by
  unfold World.validate
  cases hb : w.batcher with
  | none => simp [hb]
  | some s =>
    simp only []
    have := validateRecord_rpb s r
    generalize validateRecord s r = res at this
    obtain ⟨s', o⟩ := res
    cases o <;> simp_all

theorem wstep_static (w : World) (op : WOp) :
    (wstep w op).failing = w.failing ∧ (wstep w op).batcher.map (·.rpb) = w.batcher.map (·.rpb) := by
  cases op with
  | get r x =>
    simp only [wstep]
    cases hb : w.batcher with
    | none => simp [hb]
    | some s => simp [getBatchPush_rpb]
  | validate r => exact validate_static w r
  | setTotal t =>
    simp only [wstep]
    cases hb : w.batcher with
    | none => simp [hb]
    | some s =>
      simp only []
      cases h : setTotal s t with
      | ok s' => simp [setTotal_rpb h]
      | error p => simp [hb]
  | poll i => have := poll_static w i; simp only [wstep]; rw [this.1, this.2]; exact ⟨rfl, rfl⟩
  | release b => exact ⟨rfl, rfl⟩
  | drop i =>
    simp only [wstep, World.dropFut]
    split <;> exact ⟨rfl, rfl⟩

theorem wexec_static : ∀ (ops : List WOp) (w : World) (g : Ghost),
    (wexec w g ops).1.failing = w.failing ∧ (wexec w g ops).1.batcher.map (·.rpb) = w.batcher.map (·.rpb) := by
  intro ops
  induction ops with
  | nil => intro w g; exact ⟨rfl, rfl⟩
  | cons op ops ih =>
    intro w g
    simp only [wexec]
    obtain ⟨a, b⟩ := ih (wstep w op) (wghost w g op)
    obtain ⟨c, d⟩ := wstep_static w op
    exact ⟨a.trans c, b.trans d⟩

end IpaVerif.Batcher
