import IpaVerif.Model.HybridShares
import IpaVerif.Props.C07Lift
import IpaVerif.Props.C07Agg
import IpaVerif.Proofs.C01Shard
namespace IpaVerif.C01
open IpaVerif.Sharing IpaVerif.Circuits IpaVerif.Hybrid IpaVerif.HybridShares IpaVerif.C07

abbrev SW := World Bool

theorem recBits_eq (l : List SW) : recBits l = val (l.map recB) := rfl

theorem recBits_lt (l : List SW) : recBits l < 2 ^ l.length := by
  have := val_lt (l.map recB); simpa [recBits_eq] using this

/-- share-level `integer_add` of two equally long operands, carry dropped = addition mod `2^n`. -/
theorem add_bits (ρ : Path → Masks Bool) (p : Path) (x y : List SW) (hx : AllC x) (hy : AllC y)
    (hl : y.length = x.length) :
    AllC (integerAdd (shareAlg ρ) p x y).1 ∧ (integerAdd (shareAlg ρ) p x y).1.length = x.length ∧
    recBits (integerAdd (shareAlg ρ) p x y).1 = (recBits x + recBits y) % 2 ^ x.length := by
  obtain ⟨h1, _, h3, _⟩ := add_shares ρ p x y hx hy
  obtain ⟨hlen, hv⟩ := add_value p 0 (x.map recB) (y.map recB) false
  have hlen' : (integerAdd (shareAlg ρ) p x y).1.length = x.length := by
    have := congrArg List.length h3
    simp only [List.length_map] at this
    rw [this]
    simpa [integerAdd, plainAlg] using hlen
  refine ⟨h1, hlen', ?_⟩
  rw [recBits_eq, h3, recBits_eq, recBits_eq]
  have hy' : val (y.map recB) < 2 ^ (x.map recB).length := by
    have := val_lt (y.map recB); simpa [hl] using this
  have hs := val_lt (additionCircuit plainAlg p 0 (x.map recB) (y.map recB) false).1
  rw [hlen] at hs
  rw [Nat.mod_eq_of_lt hy'] at hv
  simp only [Bool.toNat_false, Nat.add_zero, List.length_map] at hv hs
  show val (additionCircuit plainAlg p 0 (x.map recB) (y.map recB) false).1 = _
  rw [← hv, Nat.add_mul_mod_self_left, Nat.mod_eq_of_lt hs]

def GoodRec (W : Widths) (r : SRec SW) : Prop :=
  AllC r.bk ∧ AllC r.v ∧ r.bk.length = W.bkW ∧ r.v.length = W.vW
def GoodRow (W : Widths) (r : SRow SW) : Prop :=
  AllC r.1 ∧ AllC r.2 ∧ r.1.length = W.bkW ∧ r.2.length = W.vW
def recRec (r : SRec SW) : Rec := ⟨r.key, recBits r.bk, recBits r.v⟩
def recRow (r : SRow SW) : Row := (recBits r.1, recBits r.2)

theorem addPair_bits (ρ : Path → Masks Bool) (p : Path) (idx : Nat) (W : Widths) (pr : SRec SW × SRec SW)
    (h1 : GoodRec W pr.1) (h2 : GoodRec W pr.2) :
    GoodRow W (sAddPair (shareAlg ρ) p idx pr) ∧
    recRow (sAddPair (shareAlg ρ) p idx pr) = addPair W (recRec pr.1, recRec pr.2) := by
  obtain ⟨a1, a2, a3, a4⟩ := h1
  obtain ⟨b1, b2, b3, b4⟩ := h2
  obtain ⟨c1, c2, c3⟩ := add_bits ρ (p ++ [stepAddBK, idx]) pr.1.bk pr.2.bk a1 b1 (by omega)
  obtain ⟨d1, d2, d3⟩ := add_bits ρ (p ++ [stepAddV, idx]) pr.1.v pr.2.v a2 b2 (by omega)
  refine ⟨⟨c1, d1, by simpa [sAddPair, a3] using c2, by simpa [sAddPair, a4] using d2⟩, ?_⟩
  simp only [recRow, sAddPair, addPair, recRec, c3, d3, a3, a4]

/-! ### grouping is natural in the payload -/

def entryMap {β γ : Type} (g : β → γ) : EntryG β → EntryG γ
  | .single r => .single (g r)
  | .pair a b => .pair (g a) (g b)
  | .moreThanTwo => .moreThanTwo

theorem upsertG_map {β γ : Type} (g : β → γ) (k : Nat) (r : β) : ∀ m : List (Nat × EntryG β),
    upsertG k (g r) (m.map (fun ke => (ke.1, entryMap g ke.2))) = (upsertG k r m).map (fun ke => (ke.1, entryMap g ke.2))
  | [] => rfl
  | (k', e) :: rest => by
    have ih := upsertG_map g k r rest
    simp only [List.map_cons, upsertG]
    split
    · rfl
    · split
      · cases e <;> rfl
      · simp [ih]

theorem foldl_upsertG_map {β γ : Type} (g : β → γ) : ∀ (l : List (Nat × β)) (m : List (Nat × EntryG β)),
    (l.map (fun kr => (kr.1, g kr.2))).foldl (fun m (kr : Nat × γ) => upsertG kr.1 kr.2 m) (m.map (fun ke => (ke.1, entryMap g ke.2)))
      = (l.foldl (fun m (kr : Nat × β) => upsertG kr.1 kr.2 m) m).map (fun ke => (ke.1, entryMap g ke.2))
  | [], m => rfl
  | kr :: l, m => by
    simp only [List.map_cons, List.foldl_cons]
    rw [upsertG_map, foldl_upsertG_map g l]

theorem groupPairsG_map {β γ : Type} (g : β → γ) (l : List (Nat × β)) :
    groupPairsG (l.map (fun kr => (kr.1, g kr.2))) = (groupPairsG l).map (fun pr => (g pr.1, g pr.2)) := by
  unfold groupPairsG
  have := foldl_upsertG_map g l []
  simp only [List.map_nil] at this
  rw [this, List.filterMap_map, List.map_filterMap]
  congr 1
  funext ke
  rcases ke with ⟨k, e⟩
  cases e <;> rfl

def toEntry : EntryG Rec → Entry
  | .single r => .single r
  | .pair a b => .pair a b
  | .moreThanTwo => .moreThanTwo

theorem upsertG_toEntry (k : Nat) (r : Rec) : ∀ m : List (Nat × EntryG Rec),
    upsert k r (m.map (fun ke => (ke.1, toEntry ke.2))) = (upsertG k r m).map (fun ke => (ke.1, toEntry ke.2))
  | [] => rfl
  | (k', e) :: rest => by
    have ih := upsertG_toEntry k r rest
    simp only [List.map_cons, upsertG, upsert]
    split
    · rfl
    · split
      · cases e <;> rfl
      · simp [ih]

theorem foldl_upsertG_toEntry : ∀ (l : List (Nat × Rec)) (m : List (Nat × EntryG Rec)),
    l.foldl (fun m (kr : Nat × Rec) => upsert kr.1 kr.2 m) (m.map (fun ke => (ke.1, toEntry ke.2)))
      = (l.foldl (fun m (kr : Nat × Rec) => upsertG kr.1 kr.2 m) m).map (fun ke => (ke.1, toEntry ke.2))
  | [], m => rfl
  | kr :: l, m => by
    simp only [List.foldl_cons]
    rw [upsertG_toEntry, foldl_upsertG_toEntry l]

theorem groupPairsG_eq (l : List (Nat × Rec)) : groupPairsG l = groupPairs l := by
  unfold groupPairsG groupPairs
  have := foldl_upsertG_toEntry l []
  simp only [List.map_nil] at this
  rw [this, List.filterMap_map]
  congr 1
  funext ke
  rcases ke with ⟨k, e⟩
  cases e <;> rfl

/-! ### indexed maps: the index names the gate only -/

theorem zipWith_idx_map {β γ δ : Type} (F : Nat → β → γ) (g : γ → δ) (G : β → δ) :
    ∀ (l : List β) (is : List Nat), l.length ≤ is.length → (∀ i, ∀ x ∈ l, g (F i x) = G x) →
      (List.zipWith F is l).map g = l.map G
  | [], is, _, _ => by simp
  | x :: l, [], h, _ => by simp at h
  | x :: l, i :: is, h, hg => by
    simp only [List.zipWith_cons_cons, List.map_cons]
    rw [hg i x List.mem_cons_self, zipWith_idx_map F g G l is (by simpa using h)
      (fun i y hy => hg i y (List.mem_cons_of_mem _ hy))]

theorem zipWith_idx_all {β γ : Type} (F : Nat → β → γ) (P : γ → Prop) :
    ∀ (l : List β) (is : List Nat), (∀ i, ∀ x ∈ l, P (F i x)) → ∀ y ∈ List.zipWith F is l, P y
  | [], is, _ => by simp
  | x :: l, [], _ => by simp
  | x :: l, i :: is, hg => by
    intro y hy
    simp only [List.zipWith_cons_cons, List.mem_cons] at hy
    rcases hy with rfl | hy
    · exact hg i x List.mem_cons_self
    · exact zipWith_idx_all F P l is (fun i y hy => hg i y (List.mem_cons_of_mem _ hy)) y hy

theorem lift_good (W : Widths) : ∀ (l : List (Nat × SRec SW)), (∀ kr ∈ l, GoodRec W kr.2) →
    ∃ l' : List (Nat × {r : SRec SW // GoodRec W r}), l'.map (fun kr => (kr.1, kr.2.1)) = l
  | [], _ => ⟨[], rfl⟩
  | kr :: l, h => by
    obtain ⟨l', hl⟩ := lift_good W l (fun x hx => h x (List.mem_cons_of_mem _ hx))
    exact ⟨(kr.1, ⟨kr.2, h kr List.mem_cons_self⟩) :: l', by simp [hl]⟩

/-- pairs formed by the grouping consist of records of the input. -/
theorem groupPairsG_good (W : Widths) (l : List (Nat × SRec SW)) (h : ∀ kr ∈ l, GoodRec W kr.2) :
    ∀ pr ∈ groupPairsG l, GoodRec W pr.1 ∧ GoodRec W pr.2 := by
  obtain ⟨l', rfl⟩ := lift_good W l h
  rw [groupPairsG_map (fun r : {r : SRec SW // GoodRec W r} => r.1)]
  intro pr hpr
  obtain ⟨q, _, rfl⟩ := List.mem_map.mp hpr
  exact ⟨q.1.2, q.2.2⟩

/-- **aggregate_reports on shares.** The rows it outputs are consistent sharings of the right widths
and reconstruct to the rows of the value-level `aggregateReports`, for all PRSS masks. -/
theorem sAggregateReports_rec (ρ : Path → Masks Bool) (p : Path) (W : Widths) (reports : List (Nat × SRec SW))
    (h : ∀ kr ∈ reports, GoodRec W kr.2) :
    (∀ r ∈ sAggregateReports (shareAlg ρ) p reports, GoodRow W r) ∧
    (sAggregateReports (shareAlg ρ) p reports).map recRow
      = aggregateReports W (reports.map (fun kr => (kr.1, recRec kr.2))) := by
  have hg := groupPairsG_good W reports h
  constructor
  · exact zipWith_idx_all _ _ _ _ (fun i pr hpr => (addPair_bits ρ p i W pr (hg pr hpr).1 (hg pr hpr).2).1)
  · unfold sAggregateReports aggregateReports
    rw [← groupPairsG_eq, groupPairsG_map recRec, List.map_map]
    exact zipWith_idx_map _ _ _ _ _ (by simp)
      (fun i pr hpr => (addPair_bits ρ p i W pr (hg pr hpr).1 (hg pr hpr).2).2)

theorem sReshard_rec (n : Nat) (f : Nat → Nat) (shards : List (List (SRec SW))) (d : Nat) :
    (sReshardByPrf n f shards d).map (fun kr => (kr.1, recRec kr.2))
      = reshardByPrf n f (shards.map (List.map recRec)) d := by
  unfold sReshardByPrf reshardByPrf
  rw [← List.map_flatten, List.filter_map, List.map_map, List.map_map]
  rfl

theorem sReshard_good (W : Widths) (n : Nat) (f : Nat → Nat) (shards : List (List (SRec SW)))
    (h : ∀ s ∈ shards, ∀ r ∈ s, GoodRec W r) (d : Nat) :
    ∀ kr ∈ sReshardByPrf n f shards d, GoodRec W kr.2 := by
  intro kr hkr
  simp only [sReshardByPrf, List.mem_map, List.mem_filter, List.mem_flatten] at hkr
  obtain ⟨r, ⟨⟨s, hs, hr⟩, _⟩, rfl⟩ := hkr
  exact h s hs r hr

/-- **first half of the pipeline on shares.** -/
theorem sHead_rec (ρ : Path → Masks Bool) (p : Path) (W : Widths) (f : Nat → Nat)
    (afterShuffle1 : List (List (SRec SW))) (h : ∀ s ∈ afterShuffle1, ∀ r ∈ s, GoodRec W r) :
    (∀ s ∈ sHead (shareAlg ρ) p f afterShuffle1, ∀ r ∈ s, GoodRow W r) ∧
    (sHead (shareAlg ρ) p f afterShuffle1).map (List.map recRow)
      = (List.range afterShuffle1.length).map (fun d =>
          aggregateReports W (reshardByPrf afterShuffle1.length f (afterShuffle1.map (List.map recRec)) d)) := by
  constructor
  · intro s hs
    simp only [sHead, List.mem_map] at hs
    obtain ⟨d, _, rfl⟩ := hs
    exact (sAggregateReports_rec ρ _ W _ (sReshard_good W _ f afterShuffle1 h d)).1
  · simp only [sHead, List.map_map]
    apply List.map_congr_left
    intro d _
    simp only [Function.comp]
    rw [(sAggregateReports_rec ρ _ W _ (sReshard_good W _ f afterShuffle1 h d)).2, sReshard_rec]

end IpaVerif.C01
