import IpaVerif.Model.OrderingSenderAtomic
import IpaVerif.Proofs.OrderingSender
/-! Frame lemmas for the atomic-level model of `OrderingSender`: what each action requires and what
it changes (used by `Props/C14Atomic.lean`). -/
namespace IpaVerif.OrderingSenderAtomic
open IpaVerif.CircularBuf IpaVerif.OrderingSender

/-- The model's `WaitingShard::wake` (with the `woken_at` update **generated from the source**) is
the poll-level model's `Shard.wake`, i.e. the source still assigns `max(self.woken_at, i)`. -/
theorem shard_wake_matches_source (sh : Shard) (i : Nat) : shardWake sh i = sh.wake i := by
  unfold shardWake Shard.wake Generated.SenderAtomic.wokenAtAfterWake
  rfl

/-- The model's `WaitingShard::add` (rejection rule **generated from the source**) is the poll-level
model's `Shard.add`, i.e. the source still rejects exactly when `current < self.woken_at`. -/
theorem shard_add_matches_source (sh : Shard) (cur i : Nat) (w : Task) :
    shardAdd sh cur i w = sh.add cur i w := by
  unfold shardAdd Shard.add Generated.SenderAtomic.addRejects
  by_cases h : cur < sh.wokenAt <;> simp [h]

theorem waitingWake_eq (s : State) (i : Nat) : waitingWake s i = s.waitingWake i := by
  unfold waitingWake State.waitingWake
  rw [shard_wake_matches_source]

theorem mark_of_true {w : Task → Bool} {l : List Task} {u : Task} (h : w u = true) : mark w l u = true := by
  simp [mark, h]

theorem mark_of_mem {w : Task → Bool} {l : List Task} {u : Task} (h : u ∈ l) : mark w l u = true := by
  simp [mark, h]

theorem mark_false {w : Task → Bool} {l : List Task} {u : Task} (h : mark w l u = false) : w u = false := by
  simp [mark] at h; exact h.1

theorem mark_false_not_mem {w : Task → Bool} {l : List Task} {u : Task} (h : mark w l u = false) : u ∉ l := by
  simp [mark] at h; exact h.2

/-- Shape of a program counter that allows a new `load`. -/
def Pc.canLoad : Pc → Prop
  | .fresh | .waitTurn | .waitSpace | .polling => True
  | _ => False

theorem doLoad_frame {c : Cfg} {a a' : AState} {t : Task} {e : Ev} (h : doLoad c a t = some (a', e)) :
    c.writer t = true ∧ (a.pc t).canLoad ∧ a'.s = a.s ∧ a'.pc = upd a.pc t (.loaded a.s.next) ∧
    a'.rpc = a.rpc ∧ (∀ u, u ≠ t → a'.woken u = a.woken u) := by
  unfold doLoad at h
  split at h
  · cases h
  · rename_i hw
    have hw' : c.writer t = true := by simpa using hw
    split at h
    · cases h; rename_i hp; exact ⟨hw', by rw [hp]; trivial, rfl, rfl, rfl, fun u hu => by simp [hu]⟩
    · cases h; rename_i hp; exact ⟨hw', by rw [hp]; trivial, rfl, rfl, rfl, fun u hu => by simp [hu]⟩
    · cases h; rename_i hp; exact ⟨hw', by rw [hp]; trivial, rfl, rfl, rfl, fun u hu => by simp [hu]⟩
    · cases h; rename_i hp; exact ⟨hw', by rw [hp]; trivial, rfl, rfl, rfl, fun u _ => rfl⟩
    · cases h

theorem doPanicTwice_frame {c : Cfg} {a a' : AState} {t : Task} {e : Ev} (h : doPanicTwice c a t = some (a', e)) :
    (∃ cu, a.pc t = .loaded cu ∧ cu > c.idx t) ∧ a'.s = a.s ∧ a'.pc = upd a.pc t .panicked ∧
    a'.rpc = a.rpc ∧ a'.woken = a.woken := by
  unfold doPanicTwice at h
  split at h
  · rename_i cu hp
    split at h
    · cases h; rename_i hgt; exact ⟨⟨cu, hp, hgt⟩, rfl, rfl, rfl, rfl⟩
    · cases h
  · cases h

theorem csSend_frame (a : AState) (t : Task) (m : List Nat) :
    (csSend a t m).1.s.next = a.s.next ∧ (csSend a t m).1.s.shards = a.s.shards ∧
    (∃ p, (csSend a t m).1.pc = upd a.pc t p ∧ (p = .panicked ∨ p = .waitSpace ∨ p = .wrote)) ∧
    (csSend a t m).1.rpc = a.rpc ∧ (∀ u, a.woken u = true → (csSend a t m).1.woken u = true) ∧
    (∀ u, (csSend a t m).1.woken u = false → a.woken u = false) := by
  unfold csSend
  simp only []
  split
  · exact ⟨rfl, rfl, ⟨_, rfl, Or.inl rfl⟩, rfl, fun _ h => h, fun _ h => h⟩
  · split
    · exact ⟨rfl, rfl, ⟨_, rfl, Or.inr (Or.inl rfl)⟩, rfl, fun _ h => h, fun _ h => h⟩
    · split
      · exact ⟨rfl, rfl, ⟨_, rfl, Or.inl rfl⟩, rfl, fun _ h => h, fun _ h => h⟩
      · split
        · exact ⟨rfl, rfl, ⟨_, rfl, Or.inr (Or.inr rfl)⟩, rfl, fun _ h => mark_of_true h, fun _ h => mark_false h⟩
        · exact ⟨rfl, rfl, ⟨_, rfl, Or.inr (Or.inr rfl)⟩, rfl, fun _ h => mark_of_true h, fun _ h => mark_false h⟩

theorem csClose_frame (a : AState) (t : Task) :
    (csClose a t).1.s.next = a.s.next ∧ (csClose a t).1.s.shards = a.s.shards ∧
    (∃ p, (csClose a t).1.pc = upd a.pc t p ∧ (p = .panicked ∨ p = .waitSpace ∨ p = .wrote)) ∧
    (csClose a t).1.rpc = a.rpc ∧ (∀ u, a.woken u = true → (csClose a t).1.woken u = true) ∧
    (∀ u, (csClose a t).1.woken u = false → a.woken u = false) := by
  unfold csClose
  simp only []
  split
  · exact ⟨rfl, rfl, ⟨_, rfl, Or.inl rfl⟩, rfl, fun _ h => h, fun _ h => h⟩
  · exact ⟨rfl, rfl, ⟨_, rfl, Or.inr (Or.inr rfl)⟩, rfl, fun _ h => mark_of_true h, fun _ h => mark_false h⟩

theorem doCs_frame {c : Cfg} {a a' : AState} {t : Task} {e : Ev} (h : doCs c a t = some (a', e)) :
    a.pc t = .loaded (c.idx t) ∧ a.rpc.holdsLock = false ∧
    a'.s.next = a.s.next ∧ a'.s.shards = a.s.shards ∧
    (∃ p, a'.pc = upd a.pc t p ∧ (p = .panicked ∨ p = .waitSpace ∨ p = .wrote)) ∧
    a'.rpc = a.rpc ∧ (∀ u, a'.woken u = false → a.woken u = false) := by
  unfold doCs at h
  split at h
  · rename_i cu hp
    split at h
    · rename_i hc
      obtain ⟨hc1, hc2⟩ := hc
      subst hc1
      by_cases hk : c.isClose t = true
      · rw [if_pos hk] at h
        have hf := csClose_frame a t
        injection h with h
        have h1 : a' = (csClose a t).1 := by rw [h]
        subst h1
        exact ⟨hp, hc2, hf.1, hf.2.1, hf.2.2.1, hf.2.2.2.1, hf.2.2.2.2.2⟩
      · rw [if_neg hk] at h
        have hf := csSend_frame a t (c.msg t)
        injection h with h
        have h1 : a' = (csSend a t (c.msg t)).1 := by rw [h]
        subst h1
        exact ⟨hp, hc2, hf.1, hf.2.1, hf.2.2.1, hf.2.2.2.1, hf.2.2.2.2.2⟩
    · cases h
  · cases h

theorem doAdd_frame {c : Cfg} {a a' : AState} {t : Task} {e : Ev} (h : doAdd c a t = some (a', e)) :
    ∃ cu, a.pc t = .loaded cu ∧ cu < c.idx t ∧ a'.rpc = a.rpc ∧ a'.woken = a.woken ∧
    ((∃ sh, (a.s.shards (shardIdx (c.idx t))).add cu (c.idx t) t = some sh ∧
        a'.s = { a.s with shards := fun k => if k = shardIdx (c.idx t) then sh else a.s.shards k } ∧
        a'.pc = upd a.pc t .waitTurn) ∨
     ((a.s.shards (shardIdx (c.idx t))).add cu (c.idx t) t = none ∧ a'.s = a.s ∧ a'.pc = upd a.pc t .polling)) := by
  unfold doAdd at h
  split at h
  · rename_i cu hp
    split at h
    · rename_i hlt
      refine ⟨cu, hp, hlt, ?_⟩
      unfold waitingAdd at h
      rw [shard_add_matches_source] at h
      cases hs : (a.s.shards (shardIdx (c.idx t))).add cu (c.idx t) t with
      | none => rw [hs] at h; cases h; exact ⟨rfl, rfl, Or.inr ⟨rfl, rfl, rfl⟩⟩
      | some sh => rw [hs] at h; cases h; exact ⟨rfl, rfl, Or.inl ⟨sh, rfl, rfl, rfl⟩⟩
    · cases h
  · cases h

theorem doInc_frame {c : Cfg} {a a' : AState} {t : Task} {e : Ev} (h : doInc c a t = some (a', e)) :
    a.pc t = .wrote ∧ a'.s = { a.s with next := a.s.next + 1 } ∧ a'.rpc = a.rpc ∧ a'.woken = a.woken ∧
    ((a.s.next ≠ c.idx t ∧ a'.pc = upd a.pc t .panicked) ∨
     (a.s.next = c.idx t ∧ a'.pc = upd a.pc t (if c.isClose t then .done else .incd))) := by
  unfold doInc at h
  split at h
  · rename_i hp
    simp only [] at h
    split at h
    · cases h; rename_i hne; exact ⟨hp, rfl, rfl, rfl, Or.inl ⟨hne, rfl⟩⟩
    · cases h; rename_i heq; exact ⟨hp, rfl, rfl, rfl, Or.inr ⟨by simpa using heq, rfl⟩⟩
  · cases h

theorem doWake_frame {c : Cfg} {a a' : AState} {t : Task} {e : Ev} (h : doWake c a t = some (a', e)) :
    a.pc t = .incd ∧ a'.s = (a.s.waitingWake (c.idx t + 1)).1 ∧ a'.pc = upd a.pc t .done ∧
    a'.rpc = a.rpc ∧ a'.woken = mark a.woken (a.s.waitingWake (c.idx t + 1)).2 := by
  unfold doWake at h
  split at h
  · rename_i hp
    simp only [waitingWake_eq] at h
    cases h
    exact ⟨hp, rfl, rfl, rfl, rfl⟩
  · cases h

theorem doRTake_frame {c : Cfg} {a a' : AState} {e : Ev} (h : doRTake c a = some (a', e)) :
    a.rpc.holdsLock = false ∧ a'.s.next = a.s.next ∧ a'.s.shards = a.s.shards ∧ a'.pc = a.pc ∧
    (∀ v n, a'.rpc ≠ .loaded v n) ∧ (∀ u, u ≠ c.reader → a'.woken u = false → a.woken u = false) := by
  unfold doRTake at h
  split at h
  · cases h
  · rename_i hl
    have hl' : a.rpc.holdsLock = false := by simpa using hl
    simp only [] at h
    split at h
    · split at h
      · cases h
        refine ⟨hl', rfl, rfl, rfl, fun _ _ hh => (by cases hh), ?_⟩
        intro u hu hm; have := mark_false hm; simpa [hu] using this
      · cases h
        refine ⟨hl', rfl, rfl, rfl, fun _ _ hh => (by cases hh), ?_⟩
        intro u hu hm; have := mark_false hm; simpa [hu] using this
    · split at h
      · cases h
        refine ⟨hl', rfl, rfl, rfl, fun _ _ hh => (by cases hh), ?_⟩
        intro u hu hm; simpa [hu] using hm
      · cases h
        refine ⟨hl', rfl, rfl, rfl, fun _ _ hh => (by cases hh), ?_⟩
        intro u hu hm; simpa [hu] using hm

theorem doRLoad_frame {a a' : AState} {e : Ev} (h : doRLoad a = some (a', e)) :
    ∃ v, a.rpc = .took v ∧ a'.s = a.s ∧ a'.pc = a.pc ∧ a'.woken = a.woken ∧ a'.rpc = .loaded v a.s.next := by
  unfold doRLoad at h
  split at h
  · rename_i v hp; cases h; exact ⟨v, hp, rfl, rfl, rfl, rfl⟩
  · cases h

theorem doRWake_frame {a a' : AState} {e : Ev} (h : doRWake a = some (a', e)) :
    ∃ v n, a.rpc = .loaded v n ∧ a'.s = (a.s.waitingWake n).1 ∧ a'.pc = a.pc ∧
    a'.woken = mark a.woken (a.s.waitingWake n).2 ∧ a'.rpc = .idle := by
  unfold doRWake at h
  split at h
  · rename_i v n hp
    simp only [waitingWake_eq] at h
    cases h
    exact ⟨v, n, hp, rfl, rfl, rfl, rfl⟩
  · cases h

end IpaVerif.OrderingSenderAtomic
