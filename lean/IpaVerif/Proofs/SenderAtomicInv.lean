import IpaVerif.Proofs.SenderAtomic
/-! The inductive invariant of the atomic-level model of `OrderingSender` and its preservation by
every action (used by `Props/C14Atomic.lean`). -/
namespace IpaVerif.OrderingSenderAtomic
open IpaVerif.CircularBuf IpaVerif.OrderingSender

/-- Well-formed use of the sender: the writer futures have pairwise distinct indices, a `Close`
future (if any) has the largest index, and the stream task is not one of the writers. -/
structure WF (c : Cfg) : Prop where
  inj : ∀ t u, c.writer t = true → c.writer u = true → c.idx t = c.idx u → t = u
  closeMax : ∀ t u, c.writer t = true → c.writer u = true → c.isClose u = true → t ≠ u → c.idx t < c.idx u
  reader : c.writer c.reader = false

structure Inv (c : Cfg) (a : AState) : Prop where
  wr : ∀ t, a.pc t ≠ .fresh → c.writer t = true
  ldLe : ∀ t cu, a.pc t = .loaded cu → cu ≤ a.s.next
  past : ∀ t, (a.pc t = .incd ∨ a.pc t = .done) → c.idx t < a.s.next
  wrote : ∀ t, a.pc t = .wrote → c.idx t = a.s.next
  below : ∀ j, j < a.s.next → ∃ t, c.writer t = true ∧ c.idx t = j ∧ (a.pc t = .incd ∨ a.pc t = .done)
  rLd : ∀ v n, a.rpc = .loaded v n → n ≤ a.s.next
  sorted : ∀ k, Asc (a.s.shards k).wakers
  wokenLe : ∀ k, (a.s.shards k).wokenAt ≤ a.s.next
  /-- a completed `Send(i)` has executed `wake(i+1)`, and `woken_at` never goes back -/
  doneWoke : ∀ t, a.pc t = .done → c.isClose t = false →
    c.idx t + 1 ≤ (a.s.shards (shardIdx (c.idx t + 1))).wokenAt
  /-- a parked, not yet woken task has its waker in its shard -/
  parkedIn : ∀ t, a.pc t = .waitTurn → a.woken t = false →
    ⟨c.idx t, t⟩ ∈ (a.s.shards (shardIdx (c.idx t))).wakers
  /-- … and if its turn has come, the wake-up for it is still pending (in flight) -/
  parkedPending : ∀ t, a.pc t = .waitTurn → a.woken t = false → c.idx t ≤ a.s.next →
    ∃ u, c.isClose u = false ∧ a.pc u = .incd ∧ c.idx u + 1 = c.idx t

theorem Inv.pastOf {c : Cfg} {a : AState} (wf : WF c) (h : Inv c a) {t : Task} (hw : c.writer t = true)
    (hlt : c.idx t < a.s.next) : a.pc t = .incd ∨ a.pc t = .done := by
  obtain ⟨u, hu, hi, hp⟩ := h.below _ hlt
  have := wf.inj u t hu hw hi
  subst this; exact hp

theorem Inv.shardsOk {c : Cfg} {a : AState} (h : Inv c a) : ShardsOk a.s.shards a.s.next :=
  ⟨h.sorted, h.wokenLe⟩

theorem Inv_init (c : Cfg) {cap ws rs : Nat} {s0 : State} (h0 : State.new cap ws rs = .ok s0) :
    Inv c (AState.init s0) := by
  have hs : s0.next = 0 ∧ s0.shards = fun _ => {} := by
    unfold State.new at h0
    split at h0
    · cases h0; exact ⟨rfl, rfl⟩
    · cases h0
  refine ⟨?_, ?_, ?_, ?_, ?_, ?_, ?_, ?_, ?_, ?_, ?_⟩ <;> simp [AState.init, hs]

/-- Actions that leave `next` and the shards alone and move one task to a "neutral" pc. -/
theorem Inv_neutral {c : Cfg} {a a' : AState} (wf : WF c) (h : Inv c a) (t : Task) (p : Pc)
    (hn : a'.s.next = a.s.next) (hs : a'.s.shards = a.s.shards)
    (hpt : a'.pc t = p) (hpo : ∀ u, u ≠ t → a'.pc u = a.pc u)
    (hp1 : p ≠ .incd) (hp2 : p ≠ .done) (hp3 : p = .wrote → c.idx t = a.s.next) (hp4 : p ≠ .waitTurn)
    (hp5 : ∀ cu, p = .loaded cu → cu ≤ a.s.next) (hp6 : p = .fresh ∨ c.writer t = true)
    (hold : a.pc t ≠ .incd ∧ a.pc t ≠ .done)
    (hwk : ∀ u, u ≠ t → a'.woken u = false → a.woken u = false)
    (hr : ∀ v n, a'.rpc = .loaded v n → n ≤ a.s.next) : Inv c a' := by
  have hne : ∀ u, (a.pc u = .incd ∨ a.pc u = .done) → u ≠ t := by
    intro u hu heq; subst heq; rcases hu with hu | hu
    · exact hold.1 hu
    · exact hold.2 hu
  refine ⟨?_, ?_, ?_, ?_, ?_, ?_, ?_, ?_, ?_, ?_, ?_⟩
  · intro u hu
    by_cases hut : u = t
    · subst hut; rw [hpt] at hu; rcases hp6 with h6 | h6
      · exact absurd h6 hu
      · exact h6
    · rw [hpo u hut] at hu; exact h.wr u hu
  · intro u cu hu
    rw [hn]
    by_cases hut : u = t
    · subst hut; rw [hpt] at hu; exact hp5 cu hu
    · rw [hpo u hut] at hu; exact h.ldLe u cu hu
  · intro u hu
    rw [hn]
    by_cases hut : u = t
    · subst hut; rw [hpt] at hu; rcases hu with hu | hu
      · exact absurd hu hp1
      · exact absurd hu hp2
    · rw [hpo u hut] at hu; exact h.past u hu
  · intro u hu
    rw [hn]
    by_cases hut : u = t
    · subst hut; rw [hpt] at hu; exact hp3 hu
    · rw [hpo u hut] at hu; exact h.wrote u hu
  · intro j hj
    rw [hn] at hj
    obtain ⟨u, hu, hi, hpu⟩ := h.below j hj
    exact ⟨u, hu, hi, by rw [hpo u (hne u hpu)]; exact hpu⟩
  · intro v n hv; rw [hn]; exact hr v n hv
  · intro k; rw [hs]; exact h.sorted k
  · intro k; rw [hs, hn]; exact h.wokenLe k
  · intro u hu hc
    rw [hs]
    by_cases hut : u = t
    · subst hut; rw [hpt] at hu; exact absurd hu hp2
    · rw [hpo u hut] at hu; exact h.doneWoke u hu hc
  · intro u hu hw
    rw [hs]
    by_cases hut : u = t
    · subst hut; rw [hpt] at hu; exact absurd hu hp4
    · rw [hpo u hut] at hu; exact h.parkedIn u hu (hwk u hut hw)
  · intro u hu hw hle
    rw [hn] at hle
    by_cases hut : u = t
    · subst hut; rw [hpt] at hu; exact absurd hu hp4
    · rw [hpo u hut] at hu
      obtain ⟨v, hv1, hv2, hv3⟩ := h.parkedPending u hu (hwk u hut hw) hle
      exact ⟨v, hv1, by rw [hpo v (hne v (Or.inl hv2))]; exact hv2, hv3⟩

theorem waitingWake_wokenAt (s : State) (j k : Nat) :
    ((s.waitingWake j).1.shards k).wokenAt =
      if k = shardIdx j then max (s.shards k).wokenAt j else (s.shards k).wokenAt := by
  unfold State.waitingWake
  by_cases hk : k = shardIdx j
  · subst hk
    simp only [if_true]
    unfold Shard.wake
    split <;> rfl
  · simp only [hk, if_false]

/-- `waiting.wake(j)` with `j ≤ next`, by a sender finishing (`incd → done`) or by the reader. -/
theorem Inv_wake {c : Cfg} {a a' : AState} (wf : WF c) (h : Inv c a) (j : Nat) (hj : j ≤ a.s.next)
    (hs : a'.s = (a.s.waitingWake j).1) (hw : a'.woken = mark a.woken (a.s.waitingWake j).2)
    (hpc : ∀ u, a'.pc u = a.pc u ∨ (a.pc u = .incd ∧ a'.pc u = .done ∧ c.idx u + 1 = j))
    (hr : ∀ v n, a'.rpc = .loaded v n → n ≤ a.s.next) : Inv c a' := by
  have sp := waitingWake_spec a.s j h.shardsOk hj
  simp only [] at sp
  obtain ⟨sn, _, _, _, sok, skeep, sfound⟩ := sp
  have hn : a'.s.next = a.s.next := by rw [hs]; exact sn
  have hmono : ∀ k, (a.s.shards k).wokenAt ≤ (a'.s.shards k).wokenAt := by
    intro k; rw [hs, waitingWake_wokenAt]; split
    · exact Nat.le_max_left _ _
    · exact Nat.le_refl _
  refine ⟨?_, ?_, ?_, ?_, ?_, ?_, ?_, ?_, ?_, ?_, ?_⟩
  · intro u hu
    rcases hpc u with he | ⟨he, _, _⟩
    · rw [he] at hu; exact h.wr u hu
    · exact h.wr u (by rw [he]; simp)
  · intro u cu hu
    rw [hn]
    rcases hpc u with he | ⟨_, he, _⟩
    · rw [he] at hu; exact h.ldLe u cu hu
    · rw [he] at hu; cases hu
  · intro u hu
    rw [hn]
    rcases hpc u with he | ⟨he, _, _⟩
    · rw [he] at hu; exact h.past u hu
    · exact h.past u (Or.inl he)
  · intro u hu
    rw [hn]
    rcases hpc u with he | ⟨_, he, _⟩
    · rw [he] at hu; exact h.wrote u hu
    · rw [he] at hu; cases hu
  · intro i hi
    rw [hn] at hi
    obtain ⟨u, hu, hiu, hpu⟩ := h.below i hi
    refine ⟨u, hu, hiu, ?_⟩
    rcases hpc u with he | ⟨_, he, _⟩
    · rw [he]; exact hpu
    · exact Or.inr he
  · intro v n hv; rw [hn]; exact hr v n hv
  · intro k; rw [hs]; exact sok.sorted k
  · intro k; rw [hn, hs]; exact sok.woken_le k
  · intro u hu hc
    rcases hpc u with he | ⟨_, _, he⟩
    · rw [he] at hu
      exact Nat.le_trans (h.doneWoke u hu hc) (hmono _)
    · rw [he, hs, waitingWake_wokenAt, if_pos rfl]
      exact Nat.le_max_right _ _
  · intro u hu hwu
    rw [hw] at hwu
    have hwo := mark_false hwu
    have hnm := mark_false_not_mem hwu
    have hpu : a.pc u = .waitTurn := by
      rcases hpc u with he | ⟨_, he, _⟩
      · rw [he] at hu; exact hu
      · rw [he] at hu; cases hu
    have hin := h.parkedIn u hpu hwo
    rw [hs]
    rcases Nat.lt_trichotomy (c.idx u) j with hlt | heq | hgt
    · have := h.pastOf wf (h.wr u (by rw [hpu]; simp)) (Nat.lt_of_lt_of_le hlt hj)
      rw [hpu] at this; rcases this with x | x <;> cases x
    · rw [heq] at hin; exact absurd (sfound u hin) hnm
    · exact skeep _ _ hin hgt
  · intro u hu hwu hle
    rw [hn] at hle
    rw [hw] at hwu
    have hwo := mark_false hwu
    have hnm := mark_false_not_mem hwu
    have hpu : a.pc u = .waitTurn := by
      rcases hpc u with he | ⟨_, he, _⟩
      · rw [he] at hu; exact hu
      · rw [he] at hu; cases hu
    obtain ⟨v, hv1, hv2, hv3⟩ := h.parkedPending u hpu hwo hle
    rcases hpc v with he | ⟨_, _, he⟩
    · exact ⟨v, hv1, by rw [he]; exact hv2, hv3⟩
    · have hin := h.parkedIn u hpu hwo
      rw [← hv3, he] at hin
      exact absurd (sfound u hin) hnm

theorem add_some_le {sh sh' : Shard} {cu i : Nat} {t : Task} (h : sh.add cu i t = some sh') :
    sh.wokenAt ≤ cu := by
  unfold Shard.add at h
  split at h
  · cases h
  · omega

/-- `waiting.add` accepted: the task parks. -/
theorem Inv_add {c : Cfg} {a a' : AState} (wf : WF c) (h : Inv c a) (t : Task) (cu : Nat) (sh : Shard)
    (hp : a.pc t = .loaded cu) (hlt : cu < c.idx t)
    (hadd : (a.s.shards (shardIdx (c.idx t))).add cu (c.idx t) t = some sh)
    (hs : a'.s = { a.s with shards := fun k => if k = shardIdx (c.idx t) then sh else a.s.shards k })
    (hpc : a'.pc = upd a.pc t .waitTurn) (hw : a'.woken = a.woken) (hr : a'.rpc = a.rpc) : Inv c a' := by
  have sp := Shard.add_spec (h.sorted _) hadd
  obtain ⟨ssorted, smem, swok, skeep⟩ := sp
  have hwt : c.writer t = true := h.wr t (by rw [hp]; simp)
  have hn : a'.s.next = a.s.next := by rw [hs]
  have hsh : ∀ k, (a'.s.shards k).wokenAt = (a.s.shards k).wokenAt := by
    intro k; rw [hs]; simp only []; split
    · rename_i hk; rw [hk]; exact swok
    · rfl
  have hpo : ∀ u, u ≠ t → a'.pc u = a.pc u := by intro u hu; rw [hpc]; exact upd_other _ _ hu
  have hpt : a'.pc t = .waitTurn := by rw [hpc]; exact upd_same _ _ _
  have hne : ∀ u, (a.pc u = .incd ∨ a.pc u = .done) → u ≠ t := by
    intro u hu heq; subst heq; rw [hp] at hu; rcases hu with x | x <;> cases x
  refine ⟨?_, ?_, ?_, ?_, ?_, ?_, ?_, ?_, ?_, ?_, ?_⟩
  · intro u hu
    by_cases hut : u = t
    · subst hut; exact hwt
    · rw [hpo u hut] at hu; exact h.wr u hu
  · intro u cu' hu
    rw [hn]
    by_cases hut : u = t
    · subst hut; rw [hpt] at hu; cases hu
    · rw [hpo u hut] at hu; exact h.ldLe u cu' hu
  · intro u hu
    rw [hn]
    by_cases hut : u = t
    · subst hut; rw [hpt] at hu; rcases hu with x | x <;> cases x
    · rw [hpo u hut] at hu; exact h.past u hu
  · intro u hu
    rw [hn]
    by_cases hut : u = t
    · subst hut; rw [hpt] at hu; cases hu
    · rw [hpo u hut] at hu; exact h.wrote u hu
  · intro j hj
    rw [hn] at hj
    obtain ⟨u, hu, hi, hpu⟩ := h.below j hj
    exact ⟨u, hu, hi, by rw [hpo u (hne u hpu)]; exact hpu⟩
  · intro v n hv; rw [hn]; rw [hr] at hv; exact h.rLd v n hv
  · intro k; rw [hs]; simp only []; split
    · exact ssorted
    · exact h.sorted k
  · intro k; rw [hsh, hn]; exact h.wokenLe k
  · intro u hu hc
    rw [hsh]
    by_cases hut : u = t
    · subst hut; rw [hpt] at hu; cases hu
    · rw [hpo u hut] at hu; exact h.doneWoke u hu hc
  · intro u hu hwu
    rw [hw] at hwu
    rw [hs]; simp only []
    by_cases hut : u = t
    · subst hut; rw [if_pos rfl]; exact smem
    · rw [hpo u hut] at hu
      have hin := h.parkedIn u hu hwu
      split
      · rename_i hk
        rw [hk] at hin
        refine skeep _ hin ?_
        intro heq
        exact hut (wf.inj u t (h.wr u (by rw [hu]; simp)) hwt heq)
      · exact hin
  · intro u hu hwu hle
    rw [hw] at hwu
    rw [hn] at hle
    by_cases hut : u = t
    · subst hut
      -- the task with index `i - 1` has incremented `next`; had it already executed `wake(i)`,
      -- `woken_at ≥ i > curr` and this `add` would have been rejected
      have hi : c.idx u - 1 < a.s.next := by omega
      obtain ⟨v, hv, hiv, hpv⟩ := h.below _ hi
      have hvu : v ≠ u := by intro heq; rw [heq] at hiv; omega
      have hcl : c.isClose v = false := by
        cases hcv : c.isClose v with
        | false => rfl
        | true => have := wf.closeMax u v hwt hv hcv (Ne.symm hvu); omega
      have hiv' : c.idx v + 1 = c.idx u := by omega
      refine ⟨v, hcl, ?_, hiv'⟩
      rw [hpo v hvu]
      rcases hpv with x | x
      · exact x
      · have hd := h.doneWoke v x hcl
        rw [hiv'] at hd
        have := add_some_le hadd
        omega
    · rw [hpo u hut] at hu
      obtain ⟨v, hv1, hv2, hv3⟩ := h.parkedPending u hu hwu hle
      exact ⟨v, hv1, by rw [hpo v (hne v (Or.inl hv2))]; exact hv2, hv3⟩

/-- `next.fetch_add(1)` by the task whose turn it is. -/
theorem Inv_inc {c : Cfg} {a a' : AState} (wf : WF c) (h : Inv c a) (t : Task)
    (hp : a.pc t = .wrote) (hs : a'.s = { a.s with next := a.s.next + 1 })
    (hpc : a'.pc = upd a.pc t (if c.isClose t then .done else .incd))
    (hw : a'.woken = a.woken) (hr : a'.rpc = a.rpc) : Inv c a' := by
  have hwt : c.writer t = true := h.wr t (by rw [hp]; simp)
  have hit : c.idx t = a.s.next := h.wrote t hp
  have hn : a'.s.next = a.s.next + 1 := by rw [hs]
  have hsh : a'.s.shards = a.s.shards := by rw [hs]
  have hpo : ∀ u, u ≠ t → a'.pc u = a.pc u := by intro u hu; rw [hpc]; exact upd_other _ _ hu
  have hpt : a'.pc t = (if c.isClose t then .done else .incd) := by rw [hpc]; exact upd_same _ _ _
  have hpt' : a'.pc t = .incd ∨ a'.pc t = .done := by
    rw [hpt]; split
    · exact Or.inr rfl
    · exact Or.inl rfl
  have hne : ∀ u, (a.pc u = .incd ∨ a.pc u = .done) → u ≠ t := by
    intro u hu heq; subst heq; rw [hp] at hu; rcases hu with x | x <;> cases x
  refine ⟨?_, ?_, ?_, ?_, ?_, ?_, ?_, ?_, ?_, ?_, ?_⟩
  · intro u hu
    by_cases hut : u = t
    · subst hut; exact hwt
    · rw [hpo u hut] at hu; exact h.wr u hu
  · intro u cu hu
    rw [hn]
    by_cases hut : u = t
    · subst hut; rw [hpt] at hu; split at hu <;> cases hu
    · rw [hpo u hut] at hu; exact Nat.le_succ_of_le (h.ldLe u cu hu)
  · intro u hu
    rw [hn]
    by_cases hut : u = t
    · subst hut; omega
    · rw [hpo u hut] at hu; exact Nat.lt_succ_of_lt (h.past u hu)
  · intro u hu
    by_cases hut : u = t
    · subst hut; rw [hpt] at hu; split at hu <;> cases hu
    · rw [hpo u hut] at hu
      have := h.wrote u hu
      exact absurd (wf.inj u t (h.wr u (by rw [hu]; simp)) hwt (by omega)) hut
  · intro j hj
    rw [hn] at hj
    by_cases hjn : j < a.s.next
    · obtain ⟨u, hu, hi, hpu⟩ := h.below j hjn
      exact ⟨u, hu, hi, by rw [hpo u (hne u hpu)]; exact hpu⟩
    · exact ⟨t, hwt, by omega, hpt'⟩
  · intro v n hv; rw [hn]; rw [hr] at hv; exact Nat.le_succ_of_le (h.rLd v n hv)
  · intro k; rw [hsh]; exact h.sorted k
  · intro k; rw [hsh, hn]; exact Nat.le_succ_of_le (h.wokenLe k)
  · intro u hu hc
    rw [hsh]
    by_cases hut : u = t
    · subst hut; rw [hpt, hc] at hu; cases hu
    · rw [hpo u hut] at hu; exact h.doneWoke u hu hc
  · intro u hu hwu
    rw [hw] at hwu
    rw [hsh]
    by_cases hut : u = t
    · subst hut; rw [hpt] at hu; split at hu <;> cases hu
    · rw [hpo u hut] at hu; exact h.parkedIn u hu hwu
  · intro u hu hwu hle
    rw [hw] at hwu
    rw [hn] at hle
    by_cases hut : u = t
    · subst hut; rw [hpt] at hu; split at hu <;> cases hu
    · rw [hpo u hut] at hu
      by_cases hlt : c.idx u ≤ a.s.next
      · obtain ⟨v, hv1, hv2, hv3⟩ := h.parkedPending u hu hwu hlt
        exact ⟨v, hv1, by rw [hpo v (hne v (Or.inl hv2))]; exact hv2, hv3⟩
      · have hwu' : c.writer u = true := h.wr u (by rw [hu]; simp)
        have hcl : c.isClose t = false := by
          cases hct : c.isClose t with
          | false => rfl
          | true => have := wf.closeMax u t hwu' hwt hct hut; omega
        exact ⟨t, hcl, by rw [hpt, hcl]; rfl, by omega⟩

/-- **The invariant is preserved by every action of every task.** -/
theorem Inv_step {c : Cfg} {a a' : AState} {act : Act} {e : Ev} (wf : WF c) (h : Inv c a)
    (hstep : astep c a act = some (a', e)) : Inv c a' := by
  cases act with
  | load t =>
    obtain ⟨hw, hcan, hs, hpc, hr, hwk⟩ := doLoad_frame hstep
    refine Inv_neutral wf h t (.loaded a.s.next) (by rw [hs]) (by rw [hs]) (by rw [hpc]; simp)
      (fun u hu => by rw [hpc]; exact upd_other _ _ hu) (by simp) (by simp) (by simp) (by simp)
      (fun cu hcu => by cases hcu; exact Nat.le_refl _) (Or.inr hw) ?_
      (fun u hu hf => by rw [hwk u hu] at hf; exact hf) (fun v n hv => by rw [hr] at hv; exact h.rLd v n hv)
    constructor <;> intro hx <;> rw [hx] at hcan <;> exact hcan
  | panicTwice t =>
    obtain ⟨⟨cu, hp, _⟩, hs, hpc, hr, hwk⟩ := doPanicTwice_frame hstep
    exact Inv_neutral wf h t .panicked (by rw [hs]) (by rw [hs]) (by rw [hpc]; simp)
      (fun u hu => by rw [hpc]; exact upd_other _ _ hu) (by simp) (by simp) (by simp) (by simp)
      (by simp) (Or.inr (h.wr t (by rw [hp]; simp))) (by rw [hp]; simp)
      (fun u _ hf => by rw [hwk] at hf; exact hf) (fun v n hv => by rw [hr] at hv; exact h.rLd v n hv)
  | cs t =>
    obtain ⟨hp, _, hn, hs, ⟨p, hpc, hcases⟩, hr, hwk⟩ := doCs_frame hstep
    have hwt : c.writer t = true := h.wr t (by rw [hp]; simp)
    have hturn : c.idx t = a.s.next := by
      have hle := h.ldLe t _ hp
      rcases Nat.lt_or_ge (c.idx t) a.s.next with hlt | hge
      · have := h.pastOf wf hwt hlt
        rw [hp] at this; rcases this with x | x <;> cases x
      · omega
    refine Inv_neutral wf h t p hn hs (by rw [hpc]; simp)
      (fun u hu => by rw [hpc]; exact upd_other _ _ hu) ?_ ?_ (fun _ => hturn) ?_ ?_ (Or.inr hwt)
      (by rw [hp]; simp) (fun u _ hf => hwk u hf) (fun v n hv => by rw [hr] at hv; exact h.rLd v n hv)
    all_goals (rcases hcases with x | x | x <;> subst x <;> simp)
  | add t =>
    obtain ⟨cu, hp, hlt, hr, hwk, hcase⟩ := doAdd_frame hstep
    rcases hcase with ⟨sh, hadd, hs, hpc⟩ | ⟨_, hs, hpc⟩
    · exact Inv_add wf h t cu sh hp hlt hadd hs hpc hwk hr
    · exact Inv_neutral wf h t .polling (by rw [hs]) (by rw [hs]) (by rw [hpc]; simp)
        (fun u hu => by rw [hpc]; exact upd_other _ _ hu) (by simp) (by simp) (by simp) (by simp)
        (by simp) (Or.inr (h.wr t (by rw [hp]; simp))) (by rw [hp]; simp)
        (fun u _ hf => by rw [hwk] at hf; exact hf) (fun v n hv => by rw [hr] at hv; exact h.rLd v n hv)
  | inc t =>
    obtain ⟨hp, hs, hr, hwk, hcase⟩ := doInc_frame hstep
    rcases hcase with ⟨hne, _⟩ | ⟨_, hpc⟩
    · exact absurd (h.wrote t hp).symm hne
    · exact Inv_inc wf h t hp hs hpc hwk hr
  | wake t =>
    obtain ⟨hp, hs, hpc, hr, hwk⟩ := doWake_frame hstep
    refine Inv_wake wf h (c.idx t + 1) (h.past t (Or.inl hp)) hs hwk ?_
      (fun v n hv => by rw [hr] at hv; exact h.rLd v n hv)
    intro u
    by_cases hut : u = t
    · subst hut; exact Or.inr ⟨hp, by rw [hpc]; simp, rfl⟩
    · left; rw [hpc]; exact upd_other _ _ hut
  | rTake =>
    obtain ⟨_, hn, hs, hpc, hr, hwk⟩ := doRTake_frame hstep
    have hfresh : a.pc c.reader = .fresh := by
      cases hq : a.pc c.reader with
      | fresh => rfl
      | _ => have := h.wr c.reader (by rw [hq]; simp); rw [wf.reader] at this; cases this
    exact Inv_neutral wf h c.reader .fresh hn hs (by rw [hpc]; exact hfresh)
      (fun u _ => by rw [hpc]) (by simp) (by simp) (by simp) (by simp) (by simp) (Or.inl rfl)
      (by rw [hfresh]; simp) hwk (fun v n hv => absurd hv (hr v n))
  | rLoad =>
    obtain ⟨v, _, hs, hpc, hwk, hr⟩ := doRLoad_frame hstep
    have hfresh : a.pc c.reader = .fresh := by
      cases hq : a.pc c.reader with
      | fresh => rfl
      | _ => have := h.wr c.reader (by rw [hq]; simp); rw [wf.reader] at this; cases this
    exact Inv_neutral wf h c.reader .fresh (by rw [hs]) (by rw [hs]) (by rw [hpc]; exact hfresh)
      (fun u _ => by rw [hpc]) (by simp) (by simp) (by simp) (by simp) (by simp) (Or.inl rfl)
      (by rw [hfresh]; simp) (fun u _ hf => by rw [hwk] at hf; exact hf)
      (fun v' n hv => by rw [hr] at hv; cases hv; exact Nat.le_refl _)
  | rWake =>
    obtain ⟨v, n, hrp, hs, hpc, hwk, hr⟩ := doRWake_frame hstep
    exact Inv_wake wf h n (h.rLd v n hrp) hs hwk (fun u => Or.inl (by rw [hpc]))
      (fun v' n' hv => by rw [hr] at hv; cases hv)

theorem Inv_reach {c : Cfg} (wf : WF c) {cap ws rs : Nat} {s0 : State} (h0 : State.new cap ws rs = .ok s0)
    {a : AState} (hr : Reach c s0 a) : Inv c a := by
  induction hr with
  | init => exact Inv_init c h0
  | step _ hs ih => exact Inv_step wf ih hs

end IpaVerif.OrderingSenderAtomic
