import IpaVerif.Model.CircularBuf
import IpaVerif.Model.QueueSpec
/-!
Helper lemmas for C14(a): modular case splits with a symbolic modulus, cyclic slices of a vector,
the invariant of `CircularBuf` and the per-operation refinement lemmas.  Core Lean only.
-/
namespace IpaVerif.CircularBuf

theorem mod_lt2 {x c : Nat} (h : x < 2 * c) : x % c = if x < c then x else x - c := by
  split
  · exact Nat.mod_eq_of_lt ‹_›
  · rw [Nat.mod_eq_sub_mod (by omega)]; exact Nat.mod_eq_of_lt (by omega)

theorem mod_lt3 {x c : Nat} (h : x < 3 * c) :
    x % c = if x < c then x else if x < 2 * c then x - c else x - 2 * c := by
  split
  · exact Nat.mod_eq_of_lt ‹_›
  · rw [Nat.mod_eq_sub_mod (by omega), mod_lt2 (by omega)]
    split <;> split <;> omega

theorem mod2_lt4 {x c : Nat} (h : x < 4 * c) :
    x % (c * 2) = if x < 2 * c then x else x - 2 * c := by
  have := @mod_lt2 x (c * 2) (by omega)
  rw [this]; split <;> split <;> omega

theorem dvd_step {a x c : Nat} (hx : a ∣ x) (hc : a ∣ c) (h : x < c) : x + a ≤ c := by
  obtain ⟨k, rfl⟩ := hx
  obtain ⟨j, rfl⟩ := hc
  have ha : 0 < a := Nat.pos_of_ne_zero (by rintro rfl; simp at h)
  have : k < j := Nat.lt_of_mul_lt_mul_left h
  calc a * k + a = a * (k + 1) := by rw [Nat.mul_succ]
    _ ≤ a * j := Nat.mul_le_mul_left _ this

def cyc (d : List Nat) (s n : Nat) : List Nat :=
  (List.range n).map (fun k => d.getD ((s + k) % d.length) 0)

theorem cyc_getElem? (d : List Nat) (s n k : Nat) :
    (cyc d s n)[k]? = if k < n then some (d.getD ((s + k) % d.length) 0) else none := by
  simp [cyc, List.getElem?_map]
  split <;> simp_all

theorem cyc_length (d : List Nat) (s n : Nat) : (cyc d s n).length = n := by simp [cyc]

theorem cyc_nowrap {d : List Nat} {s n : Nat} (h : s + n ≤ d.length) :
    cyc d s n = (d.drop s).take n := by
  apply List.ext_getElem?
  intro k
  rw [cyc_getElem?, List.getElem?_take, List.getElem?_drop]
  split
  · rw [Nat.mod_eq_of_lt (by omega), List.getD_eq_getElem?_getD, List.getElem?_eq_getElem (by omega)]
    simp
  · rfl

theorem cyc_wrap {d : List Nat} {s n : Nat} (hs : s < d.length) (h : d.length < s + n)
    (hn : n ≤ d.length) : cyc d s n = d.drop s ++ d.take (s + n - d.length) := by
  apply List.ext_getElem?
  intro k
  rw [cyc_getElem?, List.getElem?_append]
  simp only [List.length_drop, List.getElem?_drop, List.getElem?_take]
  by_cases hk : k < d.length - s
  · rw [if_pos (by omega), if_pos hk, Nat.mod_eq_of_lt (by omega), List.getD_eq_getElem?_getD,
      List.getElem?_eq_getElem (by omega)]
    simp
  · rw [if_neg hk]
    by_cases hk2 : k < n
    · rw [if_pos hk2, if_pos (by omega), mod_lt2 (by omega), if_neg (by omega),
        List.getD_eq_getElem?_getD, List.getElem?_eq_getElem (by omega),
        List.getElem?_eq_getElem (by omega)]
      simp; congr 1; omega
    · rw [if_neg hk2, if_neg (by omega)]

theorem cyc_take (d : List Nat) (s : Nat) {m n : Nat} (h : m ≤ n) :
    (cyc d s n).take m = cyc d s m := by
  apply List.ext_getElem?
  intro k
  rw [List.getElem?_take, cyc_getElem?, cyc_getElem?]
  by_cases h1 : k < m
  · rw [if_pos h1, if_pos h1, if_pos (by omega)]
  · rw [if_neg h1, if_neg h1]

theorem cyc_drop (d : List Nat) (s m n : Nat) :
    (cyc d s n).drop m = cyc d ((s + m) % d.length) (n - m) := by
  apply List.ext_getElem?
  intro k
  rw [List.getElem?_drop, cyc_getElem?, cyc_getElem?]
  have : ((s + m) % d.length + k) % d.length = (s + (m + k)) % d.length := by
    rw [Nat.mod_add_mod, Nat.add_assoc]
  rw [this]
  split <;> split <;> first | rfl | omega

theorem patch_getElem? {d m : List Nat} {w : Nat} (hfit : w + m.length ≤ d.length) (j : Nat) :
    (d.take w ++ m ++ d.drop (w + m.length))[j]? =
      if j < w then d[j]? else if j < w + m.length then m[j - w]? else d[j]? := by
  simp only [List.getElem?_append, List.length_take, List.length_append, List.getElem?_take,
    List.getElem?_drop, Nat.min_eq_left (show w ≤ d.length by omega)]
  by_cases h1 : j < w
  · rw [if_pos (by omega), if_pos h1, if_pos h1, if_pos h1]
  · rw [if_neg h1]
    by_cases h2 : j < w + m.length
    · rw [if_pos h2, if_pos h2, if_neg h1]
    · rw [if_neg h2, if_neg h2, if_neg h1]; congr 1; omega

/-- Writing `m` at position `w = (s + n) % L` (not wrapping) appends it to the cyclic slice. -/
theorem cyc_write {d m : List Nat} {s n w : Nat} (hs : s < d.length)
    (hw : w = (s + n) % d.length) (hfit : w + m.length ≤ d.length) (hroom : n + m.length ≤ d.length) :
    cyc (d.take w ++ m ++ d.drop (w + m.length)) s (n + m.length) = cyc d s n ++ m := by
  have hL : (d.take w ++ m ++ d.drop (w + m.length)).length = d.length := by
    simp; omega
  apply List.ext_getElem?
  intro k
  rw [cyc_getElem?, List.getElem?_append, cyc_length, cyc_getElem?, hL]
  have hsn : s + n < 2 * d.length := by omega
  rw [mod_lt2 hsn] at hw
  by_cases hk : k < n
  · rw [if_pos (by omega), if_pos hk, if_pos hk]
    congr 1
    have hsk : s + k < 2 * d.length := by omega
    rw [List.getD_eq_getElem?_getD, List.getD_eq_getElem?_getD, mod_lt2 hsk, patch_getElem? hfit]
    congr 1
    split at hw <;> (repeat' split) <;> first | rfl | omega
  · rw [if_neg hk]
    by_cases hk2 : k < n + m.length
    · rw [if_pos hk2]
      have hsk : s + k < 2 * d.length := by omega
      rw [List.getD_eq_getElem?_getD, mod_lt2 hsk, patch_getElem? hfit]
      have hkm : k - n < m.length := by omega
      rw [List.getElem?_eq_getElem hkm]
      split at hw <;> (repeat' split) <;> first | omega | (rw [List.getElem?_eq_getElem (by omega)]; simp; congr 1; omega)
    · rw [if_neg hk2]
      exact (List.getElem?_eq_none (by omega)).symm

open Buf

structure Inv (b : Buf) : Prop where
  wsPos : 0 < b.writeSize
  rsPos : 0 < b.readSize
  capPos : 0 < b.capacity
  wsCap : b.writeSize ∣ b.capacity
  wsRs : b.writeSize ∣ b.readSize
  rLt : b.read < 2 * b.capacity
  wLt : b.write < 2 * b.capacity
  rAl : b.writeSize ∣ b.read
  wAl : b.writeSize ∣ b.write
  ahead : (b.read ≤ b.write ∧ b.write - b.read ≤ b.capacity) ∨
          (b.write < b.read ∧ b.capacity ≤ b.read - b.write)

/-- Abstraction function: the queued bytes, oldest first. -/
def abs (b : Buf) : List Nat := cyc b.data (b.mask b.read) b.len

theorem len_eq {b : Buf} (h : Inv b) :
    b.len = if b.read ≤ b.write then b.write - b.read else 2 * b.capacity + b.write - b.read := by
  have := h.rLt; have := h.wLt
  unfold len wrap mask Generated.Buffers.circWrapFactor
  rcases h.ahead with ⟨h1, h2⟩ | ⟨h1, h2⟩
  · rw [if_pos h1, if_pos h1, Nat.mod_eq_of_lt (by omega)]
  · rw [if_neg (by omega), if_neg (by omega), mod_lt2 (by omega), mod_lt2 (by omega)]
    split <;> split <;> omega

theorem len_le {b : Buf} (h : Inv b) : b.len ≤ b.capacity := by
  rw [len_eq h]; have := h.rLt; have := h.wLt
  rcases h.ahead with ⟨h1, h2⟩ | ⟨h1, h2⟩ <;> split <;> omega

theorem abs_length (b : Buf) : (abs b).length = b.len := cyc_length _ _ _

theorem isEmpty_iff {b : Buf} (h : Inv b) : b.isEmpty = true ↔ b.len = 0 := by
  rw [len_eq h]; have := h.rLt; have := h.wLt
  simp [isEmpty]
  rcases h.ahead with ⟨h1, h2⟩ | ⟨h1, h2⟩ <;> split <;> omega

theorem new_inv {cap ws rs : Nat} {b : Buf} (h : Buf.new cap ws rs = .ok b) :
    Inv b ∧ abs b = [] ∧ b.closed = false ∧ b.capacity = cap ∧ b.writeSize = ws ∧ b.readSize = rs := by
  unfold Buf.new at h
  split at h; · cases h
  split at h; · cases h
  split at h; · cases h
  cases h
  rename_i h1 h2 h3
  refine ⟨⟨?_, ?_, ?_, ?_, ?_, ?_, ?_, ?_, ?_, ?_⟩, ?_, rfl, ?_, rfl, rfl⟩ <;>
    simp_all [capacity, abs, len, wrap, cyc] <;> first | omega | (apply Nat.dvd_of_mod_eq_zero; omega) | skip

theorem len_dvd {b : Buf} (h : Inv b) : b.writeSize ∣ b.len := by
  rw [len_eq h]
  split
  · exact Nat.dvd_sub h.wAl h.rAl
  · have h2 : b.writeSize ∣ 2 * b.capacity := Nat.dvd_mul_left_of_dvd h.wsCap 2
    exact Nat.dvd_sub (Nat.dvd_add h2 h.wAl) h.rAl

theorem dvd_min {a x y : Nat} (hx : a ∣ x) (hy : a ∣ y) : a ∣ min x y := by
  rcases Nat.le_total x y with h | h
  · rwa [Nat.min_eq_left h]
  · rwa [Nat.min_eq_right h]

theorem canRead_iff {b : Buf} (h : Inv b) :
    b.canRead = true ↔ (b.closed = true ∧ b.len ≠ 0) ∨ b.readSize ≤ b.len := by
  have := isEmpty_iff h
  simp only [canRead, Bool.or_eq_true, Bool.and_eq_true, Bool.not_eq_true', decide_eq_true_eq, ge_iff_le]
  constructor
  · rintro (⟨h1, h2⟩ | h1)
    · left; refine ⟨h1, ?_⟩; intro h0; rw [← this] at h0; simp [h0] at h2
    · right; exact h1
  · rintro (⟨h1, h2⟩ | h1)
    · left; refine ⟨h1, ?_⟩
      cases hE : b.isEmpty
      · rfl
      · exact absurd (this.mp hE) h2
    · right; exact h1


/-- Moving the read cursor forward by `δ ≤ len` aligned bytes keeps the invariant and shortens `len`. -/
theorem advance_read {b : Buf} (h : Inv b) {δ : Nat} (hδle : δ ≤ b.len) (hδdvd : b.writeSize ∣ δ) :
    Inv { b with read := b.inc b.read δ } ∧ Buf.len { b with read := b.inc b.read δ } = b.len - δ := by
  have hlen := len_eq h
  have hle := len_le h
  have hr := h.rLt; have hw := h.wLt; have hcap := h.capPos
  have hr' : b.inc b.read δ = if b.read + δ < 2 * b.capacity then b.read + δ
      else b.read + δ - 2 * b.capacity := mod2_lt4 (by omega)
  have hinv : Inv { b with read := b.inc b.read δ } := by
    refine ⟨h.wsPos, h.rsPos, h.capPos, h.wsCap, h.wsRs, ?_, h.wLt, ?_, h.wAl, ?_⟩
    · show b.inc b.read δ < 2 * b.capacity
      rw [hr']; split <;> omega
    · show b.writeSize ∣ b.inc b.read δ
      have h2 : b.writeSize ∣ b.capacity * 2 := Nat.dvd_mul_right_of_dvd h.wsCap 2
      exact (Nat.dvd_mod_iff h2).2 (Nat.dvd_add h.rAl hδdvd)
    · show (b.inc b.read δ ≤ b.write ∧ b.write - b.inc b.read δ ≤ b.capacity) ∨
        (b.write < b.inc b.read δ ∧ b.capacity ≤ b.inc b.read δ - b.write)
      rw [hr']
      rcases h.ahead with ⟨h1, h2⟩ | ⟨h1, h2⟩ <;> split at hlen <;> split <;> omega
  refine ⟨hinv, ?_⟩
  have hlen' := len_eq hinv
  rw [hlen']
  show (if b.inc b.read δ ≤ b.write then b.write - b.inc b.read δ
    else 2 * b.capacity + b.write - b.inc b.read δ) = b.len - δ
  rw [hr', hlen]
  rcases h.ahead with ⟨h1, h2⟩ | ⟨h1, h2⟩ <;> split at hlen <;> (repeat' split) <;> omega

/-- The bytes returned by a successful `take` are the cyclic slice at the read cursor. -/
theorem take_ret {b : Buf} (h : Inv b) {δ : Nat} (hpos : 0 < δ) (hδc : δ ≤ b.capacity) :
    (if b.mask (b.read + δ - 1) < b.mask b.read
      then b.data.drop (b.mask b.read) ++ b.data.take (b.mask (b.read + δ - 1) + 1)
      else (b.data.drop (b.mask b.read)).take (b.mask (b.read + δ - 1) + 1 - b.mask b.read))
    = cyc b.data (b.mask b.read) δ := by
  have hcap := h.capPos
  have hslt : b.mask b.read < b.data.length := Nat.mod_lt _ hcap
  have he : b.mask (b.read + δ - 1) = (b.mask b.read + (δ - 1)) % b.data.length := by
    unfold mask capacity
    rw [Nat.mod_add_mod]; congr 1; omega
  rw [he]
  generalize b.mask b.read = s at *
  unfold capacity at *
  rw [mod_lt2 (by omega)]
  split
  · rw [if_neg (by omega), cyc_nowrap (by omega)]; congr 1; omega
  · rw [if_pos (by omega), cyc_wrap hslt (by omega) hδc]; congr 2; omega

theorem take_spec {b : Buf} (h : Inv b) (hc : b.canRead = true) :
    b.take.2 = (abs b).take (min b.readSize b.len) ∧
    abs b.take.1 = (abs b).drop (min b.readSize b.len) ∧
    Inv b.take.1 ∧ b.take.1.closed = b.closed ∧ b.take.1.capacity = b.capacity ∧
    b.take.1.writeSize = b.writeSize ∧ b.take.1.readSize = b.readSize ∧
    b.take.1.len = b.len - min b.readSize b.len := by
  have hle := len_le h
  have hrs := h.rsPos
  have hpos : 0 < min b.readSize b.len := by
    rcases (canRead_iff h).mp hc with ⟨_, h2⟩ | h2 <;> omega
  have hδle : min b.readSize b.len ≤ b.len := Nat.min_le_right _ _
  have hδdvd : b.writeSize ∣ min b.readSize b.len := dvd_min h.wsRs (len_dvd h)
  generalize hδ : min b.readSize b.len = δ at *
  have htake : b.take = ({ b with read := b.inc b.read δ }, cyc b.data (b.mask b.read) δ) := by
    rw [← take_ret h hpos (by omega)]
    simp [Buf.take, hc, hδ]
  obtain ⟨hinv, hlen'⟩ := advance_read h hδle hδdvd
  rw [htake]
  refine ⟨?_, ?_, hinv, rfl, rfl, rfl, rfl, hlen'⟩
  · show _ = (cyc b.data (b.mask b.read) b.len).take δ
    rw [cyc_take _ _ hδle]
  · show cyc b.data (Buf.mask { b with read := b.inc b.read δ } (b.inc b.read δ))
        (Buf.len { b with read := b.inc b.read δ }) = (cyc b.data (b.mask b.read) b.len).drop δ
    rw [cyc_drop, hlen']
    congr 1
    show b.inc b.read δ % b.data.length = (b.read % b.data.length + δ) % b.data.length
    unfold inc wrap capacity Generated.Buffers.circWrapFactor
    rw [Nat.mod_mul_right_mod, Nat.mod_add_mod]

theorem canWrite_iff (b : Buf) :
    b.canWrite = true ↔ b.closed = false ∧ b.writeSize ≤ b.capacity - b.len := by
  simp [canWrite, remaining]

/-- Moving the write cursor forward by one message keeps the invariant and grows `len`. -/
theorem advance_write {b : Buf} (h : Inv b) (_hroom : b.writeSize ≤ b.capacity - b.len)
    {d' : List Nat} (hd : d'.length = b.data.length) :
    Inv { b with write := b.inc b.write b.writeSize, data := d' } ∧
    Buf.len { b with write := b.inc b.write b.writeSize, data := d' } = b.len + b.writeSize := by
  have hlen := len_eq h
  have hle := len_le h
  have hr := h.rLt; have hw := h.wLt; have hcap := h.capPos; have hws := h.wsPos
  have hw' : b.inc b.write b.writeSize = if b.write + b.writeSize < 2 * b.capacity then b.write + b.writeSize
      else b.write + b.writeSize - 2 * b.capacity := mod2_lt4 (by omega)
  have hc' : Buf.capacity { b with write := b.inc b.write b.writeSize, data := d' } = b.capacity := hd
  have hinv : Inv { b with write := b.inc b.write b.writeSize, data := d' } := by
    refine ⟨h.wsPos, h.rsPos, ?_, ?_, h.wsRs, ?_, ?_, h.rAl, ?_, ?_⟩
    · rw [hc']; exact h.capPos
    · rw [hc']; exact h.wsCap
    · rw [hc']; exact h.rLt
    · rw [hc']; show b.inc b.write b.writeSize < 2 * b.capacity
      rw [hw']; split <;> omega
    · show b.writeSize ∣ b.inc b.write b.writeSize
      have h2 : b.writeSize ∣ b.capacity * 2 := Nat.dvd_mul_right_of_dvd h.wsCap 2
      exact (Nat.dvd_mod_iff h2).2 (Nat.dvd_add h.wAl (Nat.dvd_refl _))
    · rw [hc']
      show (b.read ≤ b.inc b.write b.writeSize ∧ b.inc b.write b.writeSize - b.read ≤ b.capacity) ∨
        (b.inc b.write b.writeSize < b.read ∧ b.capacity ≤ b.read - b.inc b.write b.writeSize)
      rw [hw']
      rcases h.ahead with ⟨h1, h2⟩ | ⟨h1, h2⟩ <;> split at hlen <;> split <;> omega
  refine ⟨hinv, ?_⟩
  rw [len_eq hinv, hc']
  show (if b.read ≤ b.inc b.write b.writeSize then b.inc b.write b.writeSize - b.read
    else 2 * b.capacity + b.inc b.write b.writeSize - b.read) = b.len + b.writeSize
  rw [hw', hlen]
  rcases h.ahead with ⟨h1, h2⟩ | ⟨h1, h2⟩ <;> split at hlen <;> (repeat' split) <;> omega

theorem write_pos {b : Buf} (h : Inv b) (_hroom : b.writeSize ≤ b.capacity - b.len) :
    b.mask b.write = (b.mask b.read + b.len) % b.data.length ∧
    b.mask b.write + b.writeSize ≤ b.data.length ∧
    b.mask (b.write + b.writeSize - 1) = b.mask b.write + b.writeSize - 1 := by
  have hlen := len_eq h
  have hcap := h.capPos; have hws := h.wsPos
  have hal : b.writeSize ∣ b.mask b.write := (Nat.dvd_mod_iff h.wsCap).2 h.wAl
  have hlt : b.mask b.write < b.capacity := Nat.mod_lt _ hcap
  have hfit := dvd_step hal h.wsCap hlt
  refine ⟨?_, hfit, ?_⟩
  · unfold mask capacity
    rw [Nat.mod_add_mod, hlen]
    have := h.rLt; have := h.wLt
    rcases h.ahead with ⟨h1, h2⟩ | ⟨h1, h2⟩
    · rw [if_pos h1]; congr 1; omega
    · rw [if_neg (by omega)]
      have : b.read + (2 * b.capacity + b.write - b.read) = b.write + b.data.length * 2 := by
        unfold capacity at *; omega
      rw [this, Nat.add_mul_mod_self_left]
  · have : b.mask (b.write + b.writeSize - 1) = (b.mask b.write + (b.writeSize - 1)) % b.capacity := by
      unfold mask
      rw [Nat.mod_add_mod]; congr 1; omega
    rw [this, Nat.mod_eq_of_lt (by omega)]; omega

theorem writeMsg_ok_iff {b : Buf} (h : Inv b) (m : List Nat) :
    (∃ b', b.writeMsg m = .ok b') ↔
      b.closed = false ∧ b.writeSize ≤ b.capacity - b.len ∧ m.length = b.writeSize := by
  unfold writeMsg
  constructor
  · rintro ⟨b', hb⟩
    split at hb; · cases hb
    split at hb; · cases hb
    split at hb; · cases hb
    rename_i h1 h2 h3
    have := (canWrite_iff b).mp (by simpa using h2)
    exact ⟨this.1, this.2, by simpa using h3⟩
  · rintro ⟨h1, h2, h3⟩
    have hcw : b.canWrite = true := (canWrite_iff b).mpr ⟨h1, h2⟩
    obtain ⟨_, hfit, he⟩ := write_pos h h2
    have hws := h.wsPos
    have hcd : b.capacity = b.data.length := rfl
    simp only [h1, hcw, h3, he]
    simp only [Bool.false_eq_true, if_false, Bool.not_true, ne_eq, not_true_eq_false]
    rw [if_neg (by omega)]
    exact ⟨_, rfl⟩

theorem writeMsg_spec {b b' : Buf} (h : Inv b) {m : List Nat} (hw : b.writeMsg m = .ok b') :
    abs b' = abs b ++ m ∧ Inv b' ∧ b'.closed = b.closed ∧ b'.capacity = b.capacity ∧
    b'.writeSize = b.writeSize ∧ b'.readSize = b.readSize ∧ b'.len = b.len + b.writeSize := by
  obtain ⟨h1, h2, h3⟩ := (writeMsg_ok_iff h m).mp ⟨b', hw⟩
  have hcw : b.canWrite = true := (canWrite_iff b).mpr ⟨h1, h2⟩
  obtain ⟨hpos, hfit, he⟩ := write_pos h h2
  have hws := h.wsPos
  have hd : (b.data.take (b.mask b.write) ++ m ++ b.data.drop (b.mask b.write + m.length)).length
      = b.data.length := by simp; omega
  generalize hd'' : b.data.take (b.mask b.write) ++ m ++ b.data.drop (b.mask b.write + m.length) = d' at hd
  have hb' : b' = { b with write := b.inc b.write b.writeSize, data := d' } := by
    rw [← hd'']
    unfold writeMsg at hw
    simp only [h1, hcw, h3, he] at hw
    simp only [Bool.false_eq_true, if_false, Bool.not_true, ne_eq, not_true_eq_false] at hw
    rw [if_neg (by omega)] at hw
    cases hw
    congr 3
    · exact h1.symm
    · omega
  obtain ⟨hinv, hlen'⟩ := advance_write h h2 hd
  rw [hb']
  refine ⟨?_, hinv, rfl, hd, rfl, rfl, hlen'⟩
  show cyc d' (b.read % d'.length) _ = _
  rw [hlen', hd, ← h3, ← hd'']
  have hle := len_le h
  exact cyc_write (Nat.mod_lt _ h.capPos) hpos (by omega) (by unfold capacity at *; omega)

/-- Simulation relation between the ring buffer and the reference queue. -/
structure R (c : Cfg) (b : Buf) (s : Q) : Prop where
  inv : Inv b
  abs_eq : abs b = s.q
  closed_eq : b.closed = s.closed
  cap_eq : b.capacity = c.cap
  ws_eq : b.writeSize = c.ws
  rs_eq : b.readSize = c.rs

theorem R.len_eq {c : Cfg} {b : Buf} {s : Q} (r : R c b s) : b.len = s.q.length := by
  rw [← r.abs_eq, abs_length]

theorem R.obs_eq {c : Cfg} {b : Buf} {s : Q} (r : R c b s) : b.obs = specObs c s := by
  have hl := r.len_eq
  have hne : s.q ≠ [] ↔ b.len ≠ 0 := by rw [hl]; simp [List.length_eq_zero_iff]
  simp only [Buf.obs, specObs, Obs.mk.injEq]
  refine ⟨hl, ?_, ?_, r.closed_eq⟩
  · rw [Bool.eq_iff_iff, canRead_iff r.inv, decide_eq_true_iff, hne, r.closed_eq, r.rs_eq, hl]
  · rw [Bool.eq_iff_iff, canWrite_iff, decide_eq_true_iff, r.closed_eq, r.ws_eq, r.cap_eq, hl]

theorem R.sim {c : Cfg} {b : Buf} {s : Q} (r : R c b s) (op : Op) :
    match step b op, specStep c s op with
    | .error _, none => True
    | .ok (b', o), some (s', o') => o = o' ∧ R c b' s'
    | _, _ => False := by
  have hl := r.len_eq
  cases op with
  | write m =>
    simp only [step, specStep]
    have hiff := writeMsg_ok_iff r.inv m
    rw [r.closed_eq, r.ws_eq, r.cap_eq, hl] at hiff
    cases hw : b.writeMsg m with
    | error e =>
      have : ¬ (s.closed = false ∧ c.ws ≤ c.cap - s.q.length ∧ m.length = c.ws) := by
        intro hc; obtain ⟨b', hb'⟩ := hiff.mpr hc; rw [hw] at hb'; cases hb'
      simp only [if_neg this]
    | ok b' =>
      have hc := hiff.mp ⟨b', hw⟩
      obtain ⟨h1, h2, h3, h4, h5, h6, _⟩ := writeMsg_spec r.inv hw
      simp only [if_pos hc]
      exact ⟨trivial, ⟨h2, by rw [h1, r.abs_eq], by rw [h3, r.closed_eq], by rw [h4, r.cap_eq],
        by rw [h5, r.ws_eq], by rw [h6, r.rs_eq]⟩⟩
  | take =>
    simp only [step, specStep]
    have hne : s.q ≠ [] ↔ b.len ≠ 0 := by rw [hl]; simp [List.length_eq_zero_iff]
    have hcr := canRead_iff r.inv
    rw [r.closed_eq, r.rs_eq, ← hne, hl] at hcr
    by_cases hc : b.canRead = true
    · obtain ⟨h1, h2, h3, h4, h5, h6, h7, _⟩ := take_spec r.inv hc
      rw [if_pos (hcr.mp hc)]
      rw [r.rs_eq, hl, r.abs_eq] at h1 h2
      refine ⟨by rw [h1], ⟨h3, h2, by rw [h4, r.closed_eq], by rw [h5, r.cap_eq],
        by rw [h6, r.ws_eq], by rw [h7, r.rs_eq]⟩⟩
    · rw [if_neg (fun h => hc (hcr.mpr h))]
      have : b.take = (b, []) := by simp [Buf.take, hc]
      rw [this]
      exact ⟨rfl, r⟩
  | close =>
    simp only [step, specStep, Buf.close, r.closed_eq]
    by_cases hc : s.closed = true
    · simp [hc]
    · simp only [hc]
      refine ⟨rfl, ⟨?_, r.abs_eq, rfl, r.cap_eq, r.ws_eq, r.rs_eq⟩⟩
      exact ⟨r.inv.wsPos, r.inv.rsPos, r.inv.capPos, r.inv.wsCap, r.inv.wsRs, r.inv.rLt, r.inv.wLt,
        r.inv.rAl, r.inv.wAl, r.inv.ahead⟩

theorem specStep_eraseMsg {c : Cfg} {s s' : Q} {op : Op} {o : Out}
    (h : specStep c s op = some (s', o)) : o.eraseMsg = o := by
  cases op with
  | write m => simp only [specStep] at h; split at h <;> simp at h; rw [← h.2]; rfl
  | take => simp only [specStep] at h; split at h <;> simp at h <;> (rw [← h.2]; rfl)
  | close => simp only [specStep] at h; split at h <;> simp at h; rw [← h.2]; rfl

theorem R.run_eq {c : Cfg} (ops : List Op) : ∀ {b : Buf} {s : Q}, R c b s →
    (run b ops).map (fun p => (p.1.eraseMsg, p.2)) = specRun c s ops := by
  induction ops with
  | nil => intros; rfl
  | cons op rest ih =>
    intro b s r
    have hs := r.sim op
    simp only [IpaVerif.CircularBuf.run, specRun]
    cases h1 : step b op with
    | error e =>
      cases h2 : specStep c s op with
      | none => simp [Out.eraseMsg]
      | some p => rw [h1, h2] at hs; exact hs.elim
    | ok p =>
      obtain ⟨b', o⟩ := p
      cases h2 : specStep c s op with
      | none => rw [h1, h2] at hs; exact hs.elim
      | some p' =>
        obtain ⟨s', o'⟩ := p'
        rw [h1, h2] at hs
        obtain ⟨ho, r'⟩ := hs
        simp only [List.map_cons, ih r', r'.obs_eq, ho]
        rw [specStep_eraseMsg h2]

end IpaVerif.CircularBuf
