import IpaVerif.Proofs.StreamsBuffered
import IpaVerif.Proofs.StreamsChunks
/-! C17: facts about the specifications themselves (exactness, totality, wire format). -/
namespace IpaVerif.Streams

theorem chunksOf_flatten (sz : Nat) : ∀ (k : Nat) (R : Bytes), k * sz ≤ R.length →
    (chunksOf sz k R).flatten = R.take (k * sz) ∧ ∀ r, r ∈ chunksOf sz k R → r.length = sz := by
  intro k
  induction k with
  | zero => intro R _; simp [chunksOf]
  | succ k ih =>
    intro R h
    rw [Nat.succ_mul] at h
    obtain ⟨i1, i2⟩ := ih (R.drop sz) (by rw [List.length_drop]; omega)
    simp only [chunksOf, List.flatten_cons, i1]
    constructor
    · rw [Nat.succ_mul, Nat.add_comm (k * sz) sz, List.take_add]
    · intro r hr
      rcases List.mem_cons.1 hr with h1 | h1
      · subst h1; rw [List.length_take]; omega
      · exact i2 r h1

theorem panic_mem_flatten {l : List Item} (h : Item.panic ∈ l) : Item.panic ∈ flattenItems l := by
  induction l with
  | nil => cases h
  | cons a rest ih =>
    rcases List.mem_cons.1 h with h1 | h1
    · subst h1; simp [flattenItems]
    · cases a <;> simp [flattenItems, ih h1]

theorem terminal_ne_panic (n e) : terminal n e ≠ .panic := by
  unfold terminal; split
  · simp
  · split <;> simp

theorem ldTerminal_ne_panic (e p R) : ldTerminal e p R ≠ .panic := by
  unfold ldTerminal; split
  · simp
  · split
    · simp
    · split <;> simp

theorem specLd_no_panic (e : Bool) : ∀ (n : Nat) (p : Option Nat) (R : Bytes),
    2 * R.length + (if p.isSome then 1 else 0) < n → Item.panic ∉ specLd e p R := by
  intro n
  induction n with
  | zero => intro p R h; omega
  | succ n ih =>
    intro p R h
    cases p with
    | none =>
      rw [specLd_none]
      split
      · simp; exact (ldTerminal_ne_panic _ _ _).symm
      · apply ih
        simp only [List.length_drop, Option.isSome_some, Option.isSome_none] at h ⊢
        simp at h ⊢; omega
    | some len =>
      rw [specLd_some]
      split
      · simp; exact (ldTerminal_ne_panic _ _ _).symm
      · intro hm
        rcases List.mem_cons.1 hm with h1 | h1
        · cases h1
        · refine ih none (R.drop len) ?_ h1
          simp only [List.length_drop, Option.isSome_some, Option.isSome_none] at h ⊢
          simp at h ⊢; omega

/-- little-endian `u16` length prefix followed by the record. -/
def encodeLd : List Bytes → Bytes
  | [] => []
  | r :: rs => [r.length % 256, r.length / 256] ++ r ++ encodeLd rs

theorem specLd_encode (e : Bool) : ∀ (recs : List Bytes) (tail : Bytes), (∀ r, r ∈ recs → r.length < 65536) →
    specLd e none (encodeLd recs ++ tail) = recs.map .record ++ specLd e none tail := by
  intro recs
  induction recs with
  | nil => intro tail _; simp [encodeLd]
  | cons r rs ih =>
    intro tail h
    have hr := h r List.mem_cons_self
    simp only [encodeLd, List.append_assoc, List.cons_append, List.nil_append]
    rw [specLd_none]
    simp only [List.length_cons]
    rw [if_neg (by omega)]
    have hle : le16 (List.take 2 (r.length % 256 :: r.length / 256 :: (r ++ (encodeLd rs ++ tail)))) = r.length := by
      simp [le16]; omega
    rw [hle]
    simp only [List.drop_succ_cons, List.drop_zero]
    rw [specLd_some, if_neg (by rw [List.length_append]; omega)]
    rw [List.take_append_of_le_length (Nat.le_refl _), List.take_length,
      List.drop_append_of_le_length (Nat.le_refl _), List.drop_length, List.nil_append]
    rw [ih tail (fun r' hr' => h r' (List.mem_cons_of_mem _ hr'))]
    simp

end IpaVerif.Streams
