import IpaVerif.Model.Streams
/-! C17: fixed-width chunk processing (`helpers/stream/chunks.rs`). -/
namespace IpaVerif.Streams

/-- number of valid items of a chunk of width `M`. -/
def ctLen (M : Nat) : ChunkType → Nat
  | .full => M
  | .part k => k

theorem sliceChunksFrom_spec {α} (N : Nat) (hN : 0 < N) (dflt : α) : ∀ (fuel idx : Nat) (l : List α),
    l.length < fuel →
    (sliceChunksFrom N dflt fuel idx l).length = (l.length + N - 1) / N ∧
    (∀ c, c ∈ sliceChunksFrom N dflt fuel idx l → c.2.2.length = N) ∧
    ((sliceChunksFrom N dflt fuel idx l).flatMap (fun c => chunkIter N c.2)) = l ∧
    (sliceChunksFrom N dflt fuel idx l).map (·.2.1) =
      List.replicate (l.length / N) .full ++ (if l.length % N ≠ 0 then [.part (l.length % N)] else []) ∧
    (sliceChunksFrom N dflt fuel idx l).map (·.1) = (List.range ((l.length + N - 1) / N)).map (idx + ·) := by
  intro fuel
  induction fuel with
  | zero => intro idx l h; omega
  | succ fuel ih =>
    intro idx l hf
    simp only [sliceChunksFrom]
    by_cases hge : l.length ≥ N
    · simp only [hge, if_true]
      have hdl : (l.drop N).length = l.length - N := List.length_drop
      obtain ⟨i1, i2, i3, i4, i5⟩ := ih (idx + 1) (l.drop N) (by rw [hdl]; omega)
      have hcancel : l.length - N + N = l.length := Nat.sub_add_cancel hge
      have hdiv : l.length / N = (l.length - N) / N + 1 := by
        have := Nat.add_div_right (l.length - N) hN
        rw [hcancel] at this; exact this
      have hmod : l.length % N = (l.length - N) % N := by
        have := Nat.add_mod_right (l.length - N) N
        rw [hcancel] at this; exact this
      have hceil : (l.length + N - 1) / N = (l.length - N + N - 1) / N + 1 := by
        have := Nat.add_div_right (l.length - N + N - 1) hN
        rw [show l.length - N + N - 1 + N = l.length + N - 1 by omega] at this
        exact this
      refine ⟨?_, ?_, ?_, ?_, ?_⟩
      · simp only [List.length_cons, i1, hdl]; omega
      · intro c hc
        rcases List.mem_cons.1 hc with h | h
        · subst h; simp [List.length_take]; omega
        · exact i2 c h
      · rw [List.flatMap_cons, i3]
        show chunkIter N (ChunkType.full, l.take N) ++ l.drop N = l
        simp only [chunkIter]
        rw [List.take_take, Nat.min_self, List.take_append_drop]
      · simp only [List.map_cons, i4, hdl]
        rw [hdiv, hmod, List.replicate_succ]; rfl
      · simp only [List.map_cons, i5, hdl]
        rw [hceil, List.range_succ_eq_map]
        simp only [List.map_cons, List.map_map, Nat.add_zero, List.cons.injEq, true_and]
        apply List.map_congr_left
        intro a _; simp; omega
    · simp only [hge, if_false]
      have hlt : l.length < N := by omega
      by_cases hz : l.length ≠ 0
      · simp only [hz, if_true, ne_eq, not_false_eq_true]
        have hceil : (l.length + N - 1) / N = 1 := by
          have : l.length + N - 1 = (l.length - 1) + N := by omega
          rw [this, Nat.add_div_right _ hN, Nat.div_eq_of_lt (by omega)]
        refine ⟨by simp [hceil], ?_, ?_, ?_, ?_⟩
        · intro c hc; simp at hc; subst hc; simp; omega
        · simp [chunkIter]
        · simp [Nat.div_eq_of_lt hlt, Nat.mod_eq_of_lt hlt, hz]
        · simp [hceil]
      · have h0 : l.length = 0 := by omega
        have hl : l = [] := List.length_eq_zero_iff.1 h0
        subst hl
        simp
        have : (N - 1) / N = 0 := Nat.div_eq_of_lt (by omega)
        simp [this]
        omega

theorem unpackGo_sum {α} (M : Nat) (hM : 0 < M) : ∀ (data : List α) (len : Nat),
    ((unpackGo M data len).map (fun c => ctLen M c.1)).sum = min len (data.length * M) ∧
    (unpackGo M data len).map (·.2) = data.take ((len + M - 1) / M) := by
  intro data
  induction data with
  | nil => intro len; simp [unpackGo]
  | cons a rest ih =>
    intro len
    simp only [unpackGo]
    by_cases h0 : len = 0
    · subst h0
      have : (0 + M - 1) / M = 0 := Nat.div_eq_of_lt (by omega)
      simp [this]
      omega
    · simp only [h0, if_false]
      by_cases hge : len ≥ M
      · simp only [hge, if_true]
        obtain ⟨i1, i2⟩ := ih (len - M)
        have hceil : (len + M - 1) / M = (len - M + M - 1) / M + 1 := by
          have := Nat.add_div_right (len - M + M - 1) hM
          rw [show len - M + M - 1 + M = len + M - 1 by omega] at this
          exact this
        constructor
        · simp only [List.map_cons, List.sum_cons]
          rw [i1]
          simp only [ctLen, List.length_cons, Nat.succ_mul]; omega
        · simp only [List.map_cons, i2, hceil, List.take_succ_cons]
      · simp only [hge, if_false]
        obtain ⟨i1, i2⟩ := ih 0
        have hceil : (len + M - 1) / M = 1 := by
          have : len + M - 1 = (len - 1) + M := by omega
          rw [this, Nat.add_div_right _ hM, Nat.div_eq_of_lt (by omega)]
        have hz : (0 + M - 1) / M = 0 := Nat.div_eq_of_lt (by omega)
        constructor
        · simp only [List.map_cons, List.sum_cons]
          rw [i1]
          simp only [ctLen, List.length_cons, Nat.succ_mul]; omega
        · simp only [List.map_cons, i2, hceil, hz]; simp

theorem tryFlatten_spec {α} : ∀ (l : List (TItem (List α))),
    tryFlatten l =
      ((l.takeWhile (· matches .ok _)).flatMap (fun | .ok x => x.map TItem.ok | .err => [])) ++
        (if (l.all (· matches .ok _)) then [] else [.err]) := by
  intro l
  induction l with
  | nil => simp [tryFlatten]
  | cons a rest ih =>
    cases a with
    | err => simp [tryFlatten]
    | ok x => simp [tryFlatten, ih]

/-- values an item stream delivers before its first error. -/
def okPrefix {α} : List (TItem α) → List α
  | [] => []
  | .err :: _ => []
  | .ok x :: r => x :: okPrefix r

def hasErrT {α} : List (TItem α) → Bool
  | [] => false
  | .err :: _ => true
  | .ok _ :: r => hasErrT r

/-- the records a processed chunk stands for (`Chunk::into_iter`). -/
def chunkVals {α} (N : Nat) : TItem (Nat × ChunkType × List α) → List α
  | .ok c => chunkIter N c.2
  | .err => []

theorem streamChunksGo_spec {α} (N : Nat) (hN : 0 < N) (dflt : α) : ∀ (l : List (TItem α)) (buf : List α) (idx : Nat),
    buf.length < N →
    ((streamChunksGo N dflt l buf idx).flatMap (chunkVals N) =
      if hasErrT l then (buf ++ okPrefix l).take ((buf ++ okPrefix l).length / N * N) else buf ++ okPrefix l) ∧
    (hasErrT l = true → (streamChunksGo N dflt l buf idx).getLast? = some .err) ∧
    (hasErrT l = false → ∀ c, c ∈ streamChunksGo N dflt l buf idx → c ≠ .err) := by
  intro l
  induction l with
  | nil =>
    intro buf idx hb
    simp only [streamChunksGo, hasErrT, okPrefix, List.append_nil]
    by_cases h0 : buf.length ≠ 0
    · simp [h0, chunkVals, chunkIter]
    · have : buf = [] := List.length_eq_zero_iff.1 (by omega)
      subst this; simp
  | cons a rest ih =>
    intro buf idx hb
    cases a with
    | err =>
      simp only [streamChunksGo, hasErrT, okPrefix, List.append_nil, if_true]
      refine ⟨?_, fun _ => rfl, fun h => by cases h⟩
      simp [chunkVals, Nat.div_eq_of_lt hb]
    | ok x =>
      simp only [streamChunksGo, hasErrT, okPrefix]
      by_cases hfull : (buf ++ [x]).length = N
      · simp only [hfull, if_true]
        obtain ⟨i1, i2, i3⟩ := ih [] (idx + 1) (by simpa using hN)
        refine ⟨?_, ?_, ?_⟩
        · rw [List.flatMap_cons, i1]
          have hcv : chunkVals N (TItem.ok (idx, ChunkType.full, buf ++ [x])) = buf ++ [x] := by
            show (buf ++ [x]).take N = buf ++ [x]
            rw [← hfull, List.take_length]
          rw [hcv]
          have happ : buf ++ x :: okPrefix rest = (buf ++ [x]) ++ okPrefix rest := by simp
          rw [happ]
          simp only [List.nil_append]
          by_cases he : hasErrT rest = true
          · simp only [he, if_true]
            have hlen : ((buf ++ [x]) ++ okPrefix rest).length = (okPrefix rest).length + N := by
              rw [List.length_append, hfull]; omega
            have e1 : ((buf ++ [x]) ++ okPrefix rest).take ((okPrefix rest).length / N * N + N) =
                (buf ++ [x]) ++ (okPrefix rest).take ((okPrefix rest).length / N * N) := by
              rw [List.take_append, hfull, Nat.add_sub_cancel]
              rw [List.take_of_length_le (l := buf ++ [x]) (by rw [hfull]; omega)]
            rw [hlen, Nat.add_div_right _ hN, Nat.succ_mul, e1]
          · simp only [he, if_false]; simp
        · intro h
          have := i2 h
          rw [List.getLast?_cons_of_ne_nil]
          · exact this
          · intro hnil; rw [hnil] at this; simp at this
        · intro h c hc
          rcases List.mem_cons.1 hc with h1 | h1
          · subst h1; simp
          · exact i3 h c h1
      · simp only [hfull, if_false]
        have hb' : (buf ++ [x]).length < N := by simp at hfull ⊢; omega
        obtain ⟨i1, i2, i3⟩ := ih (buf ++ [x]) idx hb'
        have happ : buf ++ x :: okPrefix rest = (buf ++ [x]) ++ okPrefix rest := by simp
        rw [happ]
        exact ⟨i1, i2, i3⟩

end IpaVerif.Streams
