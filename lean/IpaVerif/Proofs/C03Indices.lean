import IpaVerif.Model.Dzkp
/-!
Bit-level correctness of `bits_to_table_indices` / `intermediates_to_table_indices` (C03 `indices_correct`),
for **all** inputs: symbolic `Nat.testBit` reasoning over the machine-translated straight-line body.
Core Lean only.
-/
namespace IpaVerif.C03
open IpaVerif.PrimeField IpaVerif.Generated IpaVerif.Generated.Dzkp IpaVerif.Dzkp

def m55 : Nat := 113427455640312821154458202477256070485
def mAA : Nat := 226854911280625642308916404954512140970
def m33 : Nat := 68056473384187692692674921486353642291
def mCC : Nat := 272225893536750770770699685945414569164

theorem tb55 (k : Nat) : m55.testBit k = (decide (k < 128) && decide (k % 2 = 0)) := by
  by_cases h : k < 128
  · have : ∀ k, k < 128 → m55.testBit k = (decide (k < 128) && decide (k % 2 = 0)) := by decide
    exact this k h
  · have : m55 < 2 ^ k := Nat.lt_of_lt_of_le (by decide : m55 < 2 ^ 128) (Nat.pow_le_pow_right (by decide) (by omega))
    simp [Nat.testBit_lt_two_pow this, h]
theorem tbAA (k : Nat) : mAA.testBit k = (decide (k < 128) && decide (k % 2 = 1)) := by
  by_cases h : k < 128
  · have : ∀ k, k < 128 → mAA.testBit k = (decide (k < 128) && decide (k % 2 = 1)) := by decide
    exact this k h
  · have : mAA < 2 ^ k := Nat.lt_of_lt_of_le (by decide : mAA < 2 ^ 128) (Nat.pow_le_pow_right (by decide) (by omega))
    simp [Nat.testBit_lt_two_pow this, h]
theorem tb33 (k : Nat) : m33.testBit k = (decide (k < 128) && decide (k % 4 < 2)) := by
  by_cases h : k < 128
  · have : ∀ k, k < 128 → m33.testBit k = (decide (k < 128) && decide (k % 4 < 2)) := by decide
    exact this k h
  · have : m33 < 2 ^ k := Nat.lt_of_lt_of_le (by decide : m33 < 2 ^ 128) (Nat.pow_le_pow_right (by decide) (by omega))
    simp [Nat.testBit_lt_two_pow this, h]
theorem tbCC (k : Nat) : mCC.testBit k = (decide (k < 128) && decide (2 ≤ k % 4)) := by
  by_cases h : k < 128
  · have : ∀ k, k < 128 → mCC.testBit k = (decide (k < 128) && decide (2 ≤ k % 4)) := by decide
    exact this k h
  · have : mCC < 2 ^ k := Nat.lt_of_lt_of_le (by decide : mCC < 2 ^ 128) (Nat.pow_le_pow_right (by decide) (by omega))
    simp [Nat.testBit_lt_two_pow this, h]

set_option linter.unusedSimpArgs false

/-- common opening: unfold the translated body and push `testBit` through every and/or/shift/mask. -/
theorem e55 : (113427455640312821154458202477256070485 : Nat) = m55 := rfl
theorem eAA : (226854911280625642308916404954512140970 : Nat) = mAA := rfl
theorem e33 : (68056473384187692692674921486353642291 : Nat) = m33 := rfl
theorem eCC : (272225893536750770770699685945414569164 : Nat) = mCC := rfl

macro "bits_unfold" : tactic => `(tactic|
  simp only [bitsToTableIndices, List.getD_cons_zero, List.getD_cons_succ, e55, eAA, e33, eCC,
    Nat.testBit_or, Nat.testBit_and, Nat.testBit_shiftLeft, Nat.testBit_shiftRight,
    Nat.testBit_mod_two_pow, tb55, tbAA, tb33, tbCC])

macro "bits_close" : tactic => `(tactic|
  all_goals (rw [Bool.eq_iff_iff]; simp only [Bool.and_eq_true, Bool.or_eq_true, decide_eq_true_eq]; omega))

/-- word 0 holds, in nibble `k/4`, the index of input position `k − k%4 + 0`. -/
theorem y0_bits (b0 b1 b2 k : Nat) :
    ((bitsToTableIndices b0 b1 b2).getD 0 0).testBit k =
      (decide (k < 128) && ((decide (k % 4 = 0) && b0.testBit k) || (decide (k % 4 = 1) && b1.testBit (k - 1))
        || (decide (k % 4 = 2) && b2.testBit (k - 2)))) := by
  bits_unfold
  generalize b0.testBit k = t0
  generalize b1.testBit (k - 1) = t1
  generalize b2.testBit (k - 2) = t2
  cases t0 <;> cases t1 <;> cases t2 <;> simp
  bits_close

theorem y1_bits (b0 b1 b2 k : Nat) :
    ((bitsToTableIndices b0 b1 b2).getD 1 0).testBit k =
      (decide (k < 128) && ((decide (k % 4 = 0) && b0.testBit (1 + k)) || (decide (k % 4 = 1) && b1.testBit k)
        || (decide (k % 4 = 2) && b2.testBit (1 + (k - 2))))) := by
  bits_unfold
  generalize b0.testBit (1 + k) = t0
  generalize b1.testBit k = t1
  generalize b2.testBit (1 + (k - 2)) = t2
  cases t0 <;> cases t1 <;> cases t2 <;> simp
  bits_close

theorem y2_bits (b0 b1 b2 k : Nat) :
    ((bitsToTableIndices b0 b1 b2).getD 2 0).testBit k =
      (decide (k < 128) && ((decide (k % 4 = 0) && b0.testBit (2 + k)) || (decide (k % 4 = 1) && b1.testBit (2 + k - 1))
        || (decide (k % 4 = 2) && b2.testBit k))) := by
  bits_unfold
  generalize b0.testBit (2 + k) = t0
  generalize b1.testBit (2 + k - 1) = t1
  generalize b2.testBit k = t2
  cases t0 <;> cases t1 <;> cases t2 <;> simp
  bits_close

theorem y3_bits (b0 b1 b2 k : Nat) :
    ((bitsToTableIndices b0 b1 b2).getD 3 0).testBit k =
      (decide (k < 128) && ((decide (k % 4 = 0) && b0.testBit (1 + (2 + k))) || (decide (k % 4 = 1) && b1.testBit (2 + k))
        || (decide (k % 4 = 2) && b2.testBit (1 + k)))) := by
  bits_unfold
  generalize b0.testBit (1 + (2 + k)) = t0
  generalize b1.testBit (2 + k) = t1
  generalize b2.testBit (1 + k) = t2
  cases t0 <;> cases t1 <;> cases t2 <;> simp
  bits_close

def bitN (x j : Nat) : Nat := if x.testBit j then 1 else 0

theorem small_value : ∀ v, v < 8 → v = bitN v 0 + 2 * bitN v 1 + 4 * bitN v 2 := by decide

/-- one emitted table index: output position `4·t + w` of a half is `i0[pos] + 2·i1[pos] + 4·i2[pos]`. -/
theorem emit_value (b0 b1 b2 t w : Nat) (ht : t < 32) (hw : w < 4) :
    ((((bitsToTableIndices b0 b1 b2).getD w 0 >>> (4 * t)) % 256) &&& 7) =
      bitN b0 (4 * t + w) + 2 * bitN b1 (4 * t + w) + 4 * bitN b2 (4 * t + w) := by
  have hv : ((((bitsToTableIndices b0 b1 b2).getD w 0 >>> (4 * t)) % 256) &&& 7) < 8 :=
    Nat.lt_of_le_of_lt Nat.and_le_right (by decide)
  rw [small_value _ hv]
  have h256 : (256 : Nat) = 2 ^ 8 := rfl
  have m0 : (4 * t + 0) % 4 = 0 := by omega
  have m1 : (4 * t + 1) % 4 = 1 := by omega
  have m2 : (4 * t + 2) % 4 = 2 := by omega
  have l0 : 4 * t + 0 < 128 := by omega
  have l1 : 4 * t + 1 < 128 := by omega
  have l2 : 4 * t + 2 < 128 := by omega
  have hw' : w = 0 ∨ w = 1 ∨ w = 2 ∨ w = 3 := by omega
  rcases hw' with rfl | rfl | rfl | rfl
  · simp only [bitN, Nat.testBit_and, h256, Nat.testBit_mod_two_pow, Nat.testBit_shiftRight, y0_bits, m0, m1, m2, l0, l1, l2]
    simp (config := { decide := true }) [show 4 * t + 1 - 1 = 4 * t by omega, show 4 * t + 2 - 2 = 4 * t by omega]
  · simp only [bitN, Nat.testBit_and, h256, Nat.testBit_mod_two_pow, Nat.testBit_shiftRight, y1_bits, m0, m1, m2, l0, l1, l2]
    simp (config := { decide := true }) [show 1 + (4 * t + 2 - 2) = 4 * t + 1 by omega, show 1 + 4 * t = 4 * t + 1 by omega]
  · simp only [bitN, Nat.testBit_and, h256, Nat.testBit_mod_two_pow, Nat.testBit_shiftRight, y2_bits, m0, m1, m2, l0, l1, l2]
    simp (config := { decide := true }) [show 2 + (4 * t + 1) - 1 = 4 * t + 2 by omega, show 2 + 4 * t = 4 * t + 2 by omega]
  · simp only [bitN, Nat.testBit_and, h256, Nat.testBit_mod_two_pow, Nat.testBit_shiftRight, y3_bits, m0, m1, m2, l0, l1, l2]
    simp (config := { decide := true }) [show 1 + (2 + 4 * t) = 4 * t + 3 by omega, show 2 + (4 * t + 1) = 4 * t + 3 by omega,
      show 1 + (4 * t + 2) = 4 * t + 3 by omega]

theorem bitN_half (x h k : Nat) (hk : k < 128) : bitN (half x h) k = bitN x (128 * h + k) := by
  have e : (340282366920938463463374607431768211456 : Nat) = 2 ^ 128 := by decide
  simp only [bitN, half, Nat.testBit_mod_two_pow, Nat.testBit_shiftRight, hk, decide_true, Bool.true_and]

theorem emitHalf_length (zs : List Nat) : (emitHalf zs).length = 128 := by
  simp [emitHalf, idxIterations]

theorem emitHalf_get (b0 b1 b2 pos : Nat) (h : pos < 128) :
    (emitHalf (bitsToTableIndices b0 b1 b2))[pos]? =
      some (bitN b0 pos + 2 * bitN b1 pos + 4 * bitN b2 pos) := by
  have hp : 4 * (pos / 4) + pos % 4 = pos := by omega
  have := emit_value b0 b1 b2 (pos / 4) (pos % 4) (by omega) (by omega)
  rw [hp] at this
  rw [List.getD_eq_getElem?_getD] at this
  simp [emitHalf, idxIterations, idxShift, idxMask, List.getElem?_map, List.getElem?_range, h, this]

/-- **indices_correct**: for every triple of 256-bit words and every position `j < 256`, the table index
emitted at position `j` is `i0[j] + 2·i1[j] + 4·i2[j]`; exactly 256 indices are emitted. -/
theorem intermediates_indices (i0 i1 i2 j : Nat) (hj : j < 256) :
    (intermediatesToTableIndices i0 i1 i2)[j]? = some (bitN i0 j + 2 * bitN i1 j + 4 * bitN i2 j) ∧
    (intermediatesToTableIndices i0 i1 i2).length = 256 := by
  refine ⟨?_, by simp [intermediatesToTableIndices, emitHalf_length]⟩
  unfold intermediatesToTableIndices
  by_cases h : j < 128
  · rw [List.getElem?_append_left (by simp [emitHalf_length, h]), emitHalf_get _ _ _ _ h]
    simp [bitN_half _ 0 j h]
  · have h2 : j - 128 < 128 := by omega
    rw [List.getElem?_append_right (by simp [emitHalf_length]; omega), emitHalf_length, emitHalf_get _ _ _ _ h2]
    simp [bitN_half _ 1 (j - 128) h2, show 128 + (j - 128) = j by omega]

end IpaVerif.C03
