import IpaVerif.Proofs.C08GfRing
import Mathlib.GroupTheory.OrderOfElement
/-!
# From a generator-order certificate to "every non-zero element is invertible"

For well-formed parameters `P` the `2^k` canonical values form a commutative monoid under the
modelled `Mul` (`C08GfRing`). If `g^(2^k-1) = 1` and `g^((2^k-1)/q) ≠ 1` for every prime
`q ∣ 2^k-1`, then `orderOf g = 2^k-1`, the powers `g^0 … g^(2^k-2)` are `2^k-1` distinct non-zero
values, i.e. all of them, and `g^i · g^(2^k-1-i) = 1`.
-/
set_option linter.style.haveILetI false
namespace IpaVerif.GfField
open IpaVerif.Gf2k IpaVerif.GfRing

/-- canonical elements of the field described by `P` -/
structure Elt (P : Params) where
  val : Nat
  lt : val < 2 ^ P.bits

theorem Elt.ext' {P : Params} {a b : Elt P} (h : a.val = b.val) : a = b := by
  cases a; cases b; simp at h; subst h; rfl

instance (P : Params) : DecidableEq (Elt P) := fun a b =>
  if h : a.val = b.val then isTrue (Elt.ext' h) else isFalse (fun e => h (by rw [e]))

/-- the commutative monoid of canonical elements under the modelled multiplication -/
@[reducible] def monoid {P : Params} (w : WF P) : CommMonoid (Elt P) where
  mul a b := ⟨mulRaw P a.val b.val, (mulRaw_spec w a.lt b.lt).1⟩
  one := ⟨1, by have := Nat.pow_le_pow_right (n := 2) (by decide) w.bits_pos; omega⟩
  mul_assoc a b c := Elt.ext' (mulRaw_assoc w a.lt b.lt c.lt)
  one_mul a := Elt.ext' (by
    show mulRaw P 1 a.val = a.val
    rw [mulRaw_comm w (by have := Nat.pow_le_pow_right (n := 2) (by decide) w.bits_pos; omega) a.lt]
    exact mulRaw_one w a.lt)
  mul_one a := Elt.ext' (mulRaw_one w a.lt)
  mul_comm a b := Elt.ext' (mulRaw_comm w a.lt b.lt)

section
variable {P : Params} (w : WF P)

theorem mul_val (a b : Elt P) : (letI := monoid w; (a * b).val) = mulRaw P a.val b.val := rfl
theorem one_val : (letI := monoid w; (1 : Elt P).val) = 1 := rfl

theorem mul_some (a b : Elt P) : mul P a.val b.val = some (letI := monoid w; (a * b).val) :=
  (mul_eq_some w a.lt b.lt).1

/-- square-and-multiply agrees with the monoid power -/
theorem powLoop_spec (fuel e : Nat) (b acc : Elt P) (h : e < 2 ^ fuel) :
    powLoop P fuel b.val e acc.val = some (letI := monoid w; (acc * b ^ e).val) := by
  letI := monoid w
  induction fuel generalizing e b acc with
  | zero =>
    have : e = 0 := by simpa using h
    subst this; simp [powLoop]
  | succ fuel ih =>
    rw [powLoop]
    by_cases he : e = 0
    · subst he; simp
    · simp only [he, if_false]
      have hdiv : e / 2 < 2 ^ fuel := by rw [Nat.pow_succ] at h; omega
      have hpow : b ^ e = (b * b) ^ (e / 2) * b ^ (e % 2) := by
        rw [← pow_two, ← pow_mul, ← pow_add, Nat.div_add_mod]
      by_cases hodd : e % 2 = 1
      · simp only [hodd, if_true, mul_some w acc b, mul_some w b b]
        rw [ih (e / 2) (b * b) (acc * b) hdiv, hpow, hodd, pow_one]
        congr 2
        rw [mul_assoc, mul_comm b]
      · have hev : e % 2 = 0 := by omega
        simp only [hodd, if_false, mul_some w b b]
        rw [ih (e / 2) (b * b) acc hdiv, hpow, hev, pow_zero, mul_one]

theorem bitLen_spec (e : Nat) : e < 2 ^ bitLen e := by
  unfold bitLen
  split
  · subst_vars; simp
  · exact Nat.lt_log2_self

theorem pow_spec (g : Elt P) (e : Nat) : pow P g.val e = some (letI := monoid w; (g ^ e).val) := by
  letI := monoid w
  have := powLoop_spec w (bitLen e) e g 1 (bitLen_spec e)
  rw [one_mul] at this
  exact this

theorem zero_mul_val (a : Elt P) (z : Elt P) (hz : z.val = 0) : (letI := monoid w; (z * a).val) = 0 := by
  letI := monoid w
  rw [mul_comm]
  show mulRaw P a.val z.val = 0
  rw [hz]; exact mulRaw_zero w a.lt

/-- **Generator-order certificate ⇒ every non-zero element has an inverse.** -/
theorem inverse_of_generator (w : WF P) (g : Nat) (hg : g < 2 ^ P.bits)
    (h1 : pow P g (2 ^ P.bits - 1) = some 1)
    (hq : ∀ q, q.Prime → q ∣ 2 ^ P.bits - 1 → pow P g ((2 ^ P.bits - 1) / q) ≠ some 1) :
    ∀ a, a < 2 ^ P.bits → a ≠ 0 → ∃ b, b < 2 ^ P.bits ∧ mul P a b = some 1 := by
  letI := monoid w
  let G : Elt P := ⟨g, hg⟩
  have hNpos : 0 < 2 ^ P.bits - 1 := by
    have := Nat.pow_le_pow_right (n := 2) (by decide) w.bits_pos; omega
  have hG1 : G ^ (2 ^ P.bits - 1) = 1 := by
    apply Elt.ext'
    have := pow_spec w G (2 ^ P.bits - 1)
    rw [h1] at this
    exact (Option.some.inj this).symm
  have hGq : ∀ q, q.Prime → q ∣ 2 ^ P.bits - 1 → G ^ ((2 ^ P.bits - 1) / q) ≠ 1 := by
    intro q hp hd e
    apply hq q hp hd
    rw [pow_spec w G, e]; rfl
  have hord : orderOf G = 2 ^ P.bits - 1 := orderOf_eq_of_pow_and_pow_div_prime hNpos hG1 hGq
  -- the values of the powers of G
  let S : Finset Nat := (Finset.range (2 ^ P.bits - 1)).image (fun i => (G ^ i).val)
  let U : Finset Nat := (Finset.range (2 ^ P.bits)).erase 0
  have hnz : ∀ i, (G ^ i).val ≠ 0 := by
    intro i hz
    -- G^i * G^(N*(i+1) - i) = (G^N)^(i+1) = 1, but the left factor is zero
    have hle : i ≤ (2 ^ P.bits - 1) * (i + 1) := by
      calc i ≤ 1 * (i + 1) := by omega
        _ ≤ (2 ^ P.bits - 1) * (i + 1) := Nat.mul_le_mul_right _ hNpos
    have hone : G ^ i * G ^ ((2 ^ P.bits - 1) * (i + 1) - i) = 1 := by
      rw [← pow_add, Nat.add_sub_cancel' hle, pow_mul, hG1, one_pow]
    have := zero_mul_val w (G ^ ((2 ^ P.bits - 1) * (i + 1) - i)) (G ^ i) hz
    rw [hone] at this
    exact absurd this (by show (1 : Nat) ≠ 0; decide)
  have hSU : S ⊆ U := by
    intro x hx
    obtain ⟨i, _, rfl⟩ := Finset.mem_image.mp hx
    exact Finset.mem_erase.mpr ⟨hnz i, Finset.mem_range.mpr (G ^ i).lt⟩
  have hcardS : S.card = 2 ^ P.bits - 1 := by
    rw [Finset.card_image_of_injOn, Finset.card_range]
    intro i hi j hj hij
    have hi' : i ∈ Set.Iio (orderOf G) := by rw [hord]; simpa using hi
    have hj' : j ∈ Set.Iio (orderOf G) := by rw [hord]; simpa using hj
    exact pow_injOn_Iio_orderOf hi' hj' (Elt.ext' hij)
  have hcardU : U.card = 2 ^ P.bits - 1 := by
    rw [Finset.card_erase_of_mem (Finset.mem_range.mpr (Nat.two_pow_pos _)), Finset.card_range]
  have hEq : S = U := Finset.eq_of_subset_of_card_le hSU (by rw [hcardS, hcardU])
  intro a ha ha0
  have haU : a ∈ U := Finset.mem_erase.mpr ⟨ha0, Finset.mem_range.mpr ha⟩
  rw [← hEq] at haU
  obtain ⟨i, hi, hia⟩ := Finset.mem_image.mp haU
  have hi' : i ≤ 2 ^ P.bits - 1 := Nat.le_of_lt (Finset.mem_range.mp hi)
  refine ⟨(G ^ (2 ^ P.bits - 1 - i)).val, (G ^ (2 ^ P.bits - 1 - i)).lt, ?_⟩
  rw [← hia, mul_some w, ← pow_add, Nat.add_sub_cancel' hi', hG1]; rfl

end

/-- all prime divisors of `∏ qᵉ` are among the `q` when these are prime -/
theorem prime_dvd_mem (l : List (Nat × Nat)) (hl : ∀ qe ∈ l, qe.1.Prime) (p : Nat) (hp : p.Prime)
    (hd : p ∣ (l.map (fun qe => qe.1 ^ qe.2)).foldl (· * ·) 1) : p ∈ l.map Prod.fst := by
  have hprod : (l.map (fun qe => qe.1 ^ qe.2)).foldl (· * ·) 1 = (l.map (fun qe => qe.1 ^ qe.2)).prod := by
    rw [List.prod_eq_foldl]
  rw [hprod, Prime.dvd_prod_iff (Nat.prime_iff.mp hp)] at hd
  obtain ⟨x, hx, hpx⟩ := hd
  obtain ⟨qe, hqe, rfl⟩ := List.mem_map.mp hx
  have := (Nat.prime_dvd_prime_iff_eq hp (hl qe hqe)).mp (hp.dvd_of_dvd_pow hpx)
  exact List.mem_map.mpr ⟨qe, hqe, this.symm⟩

/-- The checked certificate (`certOk`, evaluated by the kernel) together with primality of the listed
factors gives inverses for all non-zero elements, hence no zero divisors. -/
theorem field_of_cert (C : Cert) (w : WF C.field) (hok : certOk C = true)
    (hprime : ∀ qe ∈ C.orderFactors, qe.1.Prime) :
    (∀ a, a < 2 ^ C.field.bits → a ≠ 0 → ∃ b, b < 2 ^ C.field.bits ∧ mul C.field a b = some 1) ∧
    (∀ a b, a < 2 ^ C.field.bits → b < 2 ^ C.field.bits → mul C.field a b = some 0 → a = 0 ∨ b = 0) := by
  simp only [certOk, Bool.and_eq_true, decide_eq_true_eq, beq_iff_eq, List.all_eq_true, bne_iff_ne] at hok
  obtain ⟨⟨⟨hg, hfac⟩, h1⟩, hq⟩ := hok
  have hinv := inverse_of_generator w C.gen hg h1 (by
    intro q hqp hqd
    rw [← hfac] at hqd
    have hm := prime_dvd_mem C.orderFactors hprime q hqp hqd
    obtain ⟨qe, hqe, rfl⟩ := List.mem_map.mp hm
    exact hq qe hqe)
  refine ⟨hinv, ?_⟩
  intro a b ha hb hab
  by_cases ha0 : a = 0
  · exact Or.inl ha0
  · right
    obtain ⟨c, hc, hac⟩ := hinv a ha ha0
    -- b = (c*a)*b = c*(a*b) = c*0 = 0
    have e1 := (mul_eq_some w ha hb).1
    rw [hab] at e1
    have hab0 : mulRaw C.field a b = 0 := (Option.some.inj e1).symm
    have e2 := (mul_eq_some w ha hc).1
    rw [hac] at e2
    have hac1 : mulRaw C.field a c = 1 := (Option.some.inj e2).symm
    have h1lt : 1 < 2 ^ C.field.bits := by
      have := Nat.pow_le_pow_right (n := 2) (by decide) w.bits_pos; omega
    have : mulRaw C.field (mulRaw C.field c a) b = mulRaw C.field c (mulRaw C.field a b) := mulRaw_assoc w hc ha hb
    rw [mulRaw_comm w hc ha, hac1, hab0, mulRaw_zero w hc, mulRaw_comm w h1lt hb, mulRaw_one w hb] at this
    exact this

end IpaVerif.GfField
