import IpaVerif.Proofs.BatcherStep
/-! Histories of batcher operations and the invariant along them (C16). -/
namespace IpaVerif.Batcher

/-- The synchronous API of `Batcher`. -/
inductive Op where
  /-- `get_batch(r)` followed by pushing `x` into the batch -/
  | get (r x : Nat)
  /-- `validate_record(r, …)` (the part that runs before the returned future is polled) -/
  | validate (r : Nat)
  /-- `set_total_records(t)` -/
  | setTotal (t : Total)

inductive Out where
  | got (res : Except Panic (Nat × List Nat))
  | validated (o : VOut)
  | totalSet (res : Option Panic)

def stepOp (s : State) : Op → State × Out
  | .get r x => ((getBatchPush s r x).1, .got (getBatchPush s r x).2)
  | .validate r => ((validateRecord s r).1, .validated (validateRecord s r).2)
  | .setTotal t =>
    match setTotal s t with
    | .ok s' => (s', .totalSet none)
    | .error p => (s, .totalSet (some p))

/-- The history kept next to the state: records whose `validate_record` call was accepted
(answered `notReady`/`ready`), and batches for which `ready` was answered. -/
def ghostStep (g : Ghost) : Op → Out → Ghost
  | .validate r, .validated (.notReady _) => ⟨r :: g.acc, g.closed⟩
  | .validate r, .validated (.ready b _) => ⟨r :: g.acc, b :: g.closed⟩
  | _, _ => g

/-- run a history from state `s` with history `g`. -/
def execG : State → Ghost → List Op → State × Ghost
  | s, g, [] => (s, g)
  | s, g, op :: ops => execG (stepOp s op).1 (ghostStep g op (stepOp s op).2) ops

/-- every total mentioned by `set_total_records` in the history is `n`. -/
def TotalsAgree (n : Nat) (ops : List Op) : Prop :=
  ∀ t m, Op.setTotal t ∈ ops → t = .specified m → m = n

theorem stepOp_rpb (s : State) (op : Op) : (stepOp s op).1.rpb = s.rpb := by
  cases op with
  | get r x => exact getBatchPush_rpb s r x
  | validate r => exact validateRecord_rpb s r
  | setTotal t =>
    simp only [stepOp]
    split
    · rename_i s' h; exact setTotal_rpb h
    · rfl

theorem inv_stepOp {n s g} (hI : Inv n s g) (op : Op)
    (ht : ∀ t m, op = .setTotal t → t = .specified m → m = n) :
    Inv n (stepOp s op).1 (ghostStep g op (stepOp s op).2) := by
  cases op with
  | get r x => exact (inv_getBatchPush hI r x).1
  | validate r =>
    have h := validate_step hI r
    show Inv n (validateRecord s r).1 (ghostStep g (.validate r) (.validated (validateRecord s r).2))
    generalize validateRecord s r = res at h
    obtain ⟨s', o⟩ := res
    cases o with
    | err e => exact h
    | panic p => exact h
    | notReady b => exact h.2.2.2.2.1
    | ready b st => exact h.2.2.2.2.1
  | setTotal t =>
    simp only [stepOp]
    split
    · rename_i s' h; exact inv_setTotal hI t (fun m hm => ht t m rfl hm) h
    · exact hI

theorem execG_rpb : ∀ (ops : List Op) (s : State) (g : Ghost), (execG s g ops).1.rpb = s.rpb := by
  intro ops
  induction ops with
  | nil => intro s g; rfl
  | cons op ops ih => intro s g; simp only [execG]; rw [ih, stepOp_rpb]

theorem inv_execG {n} : ∀ (ops : List Op) (s : State) (g : Ghost), Inv n s g → TotalsAgree n ops →
    Inv n (execG s g ops).1 (execG s g ops).2 := by
  intro ops
  induction ops with
  | nil => intro s g h _; exact h
  | cons op ops ih =>
    intro s g h ht
    simp only [execG]
    apply ih
    · exact inv_stepOp h op (fun t m e hm => ht t m (by rw [e]; exact List.mem_cons_self) hm)
    · intro t m hmem hm; exact ht t m (List.mem_cons_of_mem _ hmem) hm

/-- the history only grows. -/
theorem execG_mono : ∀ (ops : List Op) (s : State) (g : Ghost),
    (∀ x, x ∈ g.acc → x ∈ (execG s g ops).2.acc) ∧ (∀ b, b ∈ g.closed → b ∈ (execG s g ops).2.closed) := by
  intro ops
  induction ops with
  | nil => intro s g; exact ⟨fun _ h => h, fun _ h => h⟩
  | cons op ops ih =>
    intro s g
    simp only [execG]
    obtain ⟨h1, h2⟩ := ih (stepOp s op).1 (ghostStep g op (stepOp s op).2)
    have hs : (∀ x, x ∈ g.acc → x ∈ (ghostStep g op (stepOp s op).2).acc) ∧
        (∀ b, b ∈ g.closed → b ∈ (ghostStep g op (stepOp s op).2).closed) := by
      unfold ghostStep
      split <;> simp_all
    exact ⟨fun x hx => h1 x (hs.1 x hx), fun b hb => h2 b (hs.2 b hb)⟩

end IpaVerif.Batcher
