import IpaVerif.Proofs.StreamsBuf
/-! C17: one `poll_next` of `RecordsStream` against the bytes not yet emitted. -/
namespace IpaVerif.Streams

/-- bytes the upstream delivers before its first error. -/
def upBytes : List Up → Bytes
  | [] => []
  | .err :: _ => []
  | .chunk c :: r => c ++ upBytes r

/-- does the upstream yield an error? -/
def upErr : List Up → Bool
  | [] => false
  | .err :: _ => true
  | .chunk _ :: r => upErr r

/-- how a parser must end: upstream error, else trailing partial data, else clean end. -/
def terminal (rem : Nat) (hasErr : Bool) : Item :=
  if hasErr then .errUpstream else if rem > 0 then .errTrailing rem else .done

/-- everything not yet emitted. -/
def RState.rest (s : RState) : Bytes := s.buf.bytes ++ upBytes s.up

theorem contiguous_le {b : BufDeque} (h : b.WF) : b.contiguousLen ≤ b.size := by
  unfold BufDeque.WF BufDeque.bytes at h
  unfold BufDeque.contiguousLen
  cases hc : b.chunks with
  | nil => simp
  | cons c cs => rw [h, hc]; simp

theorem recordsPoll_spec (batch : Bool) (sz : Nat) (hsz : 0 < sz) : ∀ (fuel : Nat) (s : RState),
    s.buf.WF → s.up.length < fuel →
    (sz ≤ s.rest.length → ∃ c s', 1 ≤ c ∧ c * sz ≤ s.rest.length ∧ (batch = false → c = 1) ∧
        recordsPoll batch sz fuel s =
          ((if batch then .batch (chunksOf sz c (s.rest.take (c * sz))) else .record (s.rest.take sz)), s') ∧
        s'.buf.WF ∧ s'.rest = s.rest.drop (c * sz) ∧ upErr s'.up = upErr s.up) ∧
    (s.rest.length < sz → ∃ s', recordsPoll batch sz fuel s = (terminal s.rest.length (upErr s.up), s')) := by
  intro fuel
  induction fuel with
  | zero => intro s _ h; omega
  | succ fuel ih =>
    intro s hw hf
    have hnz : ¬ (batch = true ∧ sz = 0) := by omega
    simp only [recordsPoll, hnz, if_false]
    generalize hcount : (if batch = true then max 1 (s.buf.contiguousLen / sz) else 1) = count
    have hc1 : 1 ≤ count := by subst hcount; split <;> omega
    have hcb : batch = false → count = 1 := by intro hb; subst hcount; simp [hb]
    by_cases hread : count * sz ≤ s.buf.size
    · -- enough data buffered
      have hpos : 0 < count * sz := Nat.mul_pos (by omega) hsz
      obtain ⟨b', h1, h2, h3⟩ := readBytes_some hw (count * sz) hpos hread
      rw [h1]
      simp only []
      have hlen : count * sz ≤ s.buf.bytes.length := by rw [← hw]; exact hread
      have htake : s.rest.take (count * sz) = s.buf.bytes.take (count * sz) := by
        unfold RState.rest; rw [List.take_append_of_le_length hlen]
      constructor
      · intro _
        refine ⟨count, { s with buf := b' }, hc1, ?_, hcb, ?_, h2, ?_, rfl⟩
        · unfold RState.rest; rw [List.length_append]; omega
        · rw [htake]
          cases batch with
          | true => rfl
          | false =>
            have := hcb rfl
            subst this
            simp only [Nat.one_mul] at htake ⊢
            simp [htake]
        · unfold RState.rest
          simp only [h3]
          rw [List.drop_append_of_le_length hlen]
      · intro hlt
        exfalso
        unfold RState.rest at hlt
        rw [List.length_append] at hlt
        have : sz ≤ count * sz := Nat.le_mul_of_pos_left sz (by omega)
        omega
    · -- not enough data: `count = 1` and fewer than `sz` bytes are buffered
      have hcount1 : count = 1 := by
        apply Classical.byContradiction
        intro hne
        cases batch with
        | false => exact hne (hcb rfl)
        | true =>
          simp only [if_true] at hcount
          have hcl := contiguous_le hw
          have : count = s.buf.contiguousLen / sz := by omega
          have hm : s.buf.contiguousLen / sz * sz ≤ s.buf.contiguousLen := Nat.div_mul_le_self _ _
          rw [← this] at hm
          omega
      subst hcount1
      simp only [Nat.one_mul] at hread ⊢
      rw [readBytes_none _ _ (Or.inr (by omega))]
      simp only []
      have hbl : s.buf.bytes.length < sz := by rw [← hw]; omega
      cases hup : s.up with
      | nil =>
        simp only []
        have hr : s.rest = s.buf.bytes := by unfold RState.rest; rw [hup]; simp [upBytes]
        constructor
        · intro h; rw [hr] at h; omega
        · intro _
          refine ⟨{ buf := s.buf, up := [] }, ?_⟩
          rw [hr, ← hw]
          simp [terminal, upErr]
      | cons u rest =>
        cases u with
        | err =>
          simp only []
          have hr : s.rest = s.buf.bytes := by unfold RState.rest; rw [hup]; simp [upBytes]
          constructor
          · intro h; rw [hr] at h; omega
          · intro _; exact ⟨{ buf := s.buf, up := rest }, by simp [terminal, upErr]⟩
        | chunk c =>
          simp only []
          rw [hup] at hf
          have := ih { buf := s.buf.push c, up := rest } (wf_push hw c) (by simp at hf ⊢; omega)
          have hr : ({ buf := s.buf.push c, up := rest } : RState).rest = s.rest := by
            unfold RState.rest; rw [hup]; simp [upBytes, bytes_push]
          have he : upErr ({ buf := s.buf.push c, up := rest } : RState).up = upErr (Up.chunk c :: rest) := rfl
          rw [hr, he] at this
          exact this

/-- forget how records were grouped into vectors. -/
def flattenItems : List Item → List Item
  | [] => []
  | .batch l :: rest => l.map .record ++ flattenItems rest
  | x :: rest => x :: flattenItems rest

/-- what the bytes `R` (followed by an upstream error iff `hasErr`) encode as `sz`-byte records. -/
def specRecords (sz : Nat) (R : Bytes) (hasErr : Bool) : List Item :=
  (chunksOf sz (R.length / sz) R).map .record ++ [terminal (R.length % sz) hasErr]

theorem chunksOf_take (sz : Nat) : ∀ (c : Nat) (R : Bytes), chunksOf sz c (R.take (c * sz)) = chunksOf sz c R := by
  intro c
  induction c with
  | zero => intro R; rfl
  | succ c ih =>
    intro R
    simp only [chunksOf]
    rw [List.take_take, List.drop_take]
    have e1 : min sz ((c + 1) * sz) = sz := by rw [Nat.succ_mul]; omega
    have e2 : (c + 1) * sz - sz = c * sz := by rw [Nat.succ_mul]; omega
    rw [e1, e2, ih]

theorem chunksOf_add (sz : Nat) : ∀ (a b : Nat) (R : Bytes),
    chunksOf sz (a + b) R = chunksOf sz a R ++ chunksOf sz b (R.drop (a * sz)) := by
  intro a
  induction a with
  | zero => intro b R; simp [chunksOf]
  | succ a ih =>
    intro b R
    rw [show a + 1 + b = (a + b) + 1 by omega]
    simp only [chunksOf, List.cons_append]
    rw [ih, List.drop_drop]
    congr 3
    rw [Nat.succ_mul, Nat.add_comm]

theorem terminal_isTerminal (n : Nat) (e : Bool) : (terminal n e).isTerminal = true := by
  unfold terminal
  split
  · rfl
  · split <;> rfl

theorem recordsRun_spec (batch : Bool) (sz : Nat) (hsz : 0 < sz) : ∀ (fuel : Nat) (s : RState),
    s.buf.WF → s.rest.length < fuel →
    flattenItems (recordsRun batch sz fuel s) = specRecords sz s.rest (upErr s.up) ∧
    (batch = false → recordsRun batch sz fuel s = specRecords sz s.rest (upErr s.up)) := by
  intro fuel
  induction fuel with
  | zero => intro s _ h; omega
  | succ fuel ih =>
    intro s hw hf
    obtain ⟨hA, hB⟩ := recordsPoll_spec batch sz hsz (s.up.length + 1) s hw (Nat.lt_succ_self _)
    simp only [recordsRun]
    by_cases hlen : sz ≤ s.rest.length
    · obtain ⟨c, s', hc1, hc2, hcb, hp, hw', hr', he'⟩ := hA hlen
      rw [hp]
      have hcpos : 0 < c * sz := Nat.mul_pos (by omega) hsz
      have hlt : s'.rest.length < fuel := by rw [hr', List.length_drop]; omega
      obtain ⟨ih1, ih2⟩ := ih s' hw' hlt
      rw [hr', he'] at ih1 ih2
      have hcd : c ≤ s.rest.length / sz := (Nat.le_div_iff_mul_le hsz).2 hc2
      have hL : s.rest.length = (s.rest.length - c * sz) + sz * c := by rw [Nat.mul_comm sz c]; omega
      have hdiv : (s.rest.drop (c * sz)).length / sz = s.rest.length / sz - c := by
        rw [List.length_drop]
        have := Nat.add_mul_div_left (s.rest.length - c * sz) c hsz
        rw [← hL] at this
        omega
      have hmod : (s.rest.drop (c * sz)).length % sz = s.rest.length % sz := by
        rw [List.length_drop]
        have := Nat.add_mul_mod_self_left (s.rest.length - c * sz) sz c
        rw [← hL] at this
        exact this.symm
      have hspec : specRecords sz s.rest (upErr s.up) =
          (chunksOf sz c s.rest).map .record ++ specRecords sz (s.rest.drop (c * sz)) (upErr s.up) := by
        unfold specRecords
        rw [hdiv, hmod, ← List.append_assoc, ← List.map_append, ← chunksOf_add]
        congr 3; omega
      cases batch with
      | true =>
        simp only [if_true, Item.isTerminal, Bool.false_eq_true, if_false, flattenItems]
        refine ⟨?_, fun h => by cases h⟩
        rw [ih1, hspec, chunksOf_take]
      | false =>
        have := hcb rfl
        subst this
        simp only [Bool.false_eq_true, if_false, Item.isTerminal, flattenItems]
        have hone : (chunksOf sz 1 s.rest).map Item.record = [Item.record (s.rest.take sz)] := by
          simp [chunksOf]
        rw [hspec, hone]
        simp only [Nat.one_mul] at ih1 ih2 ⊢
        exact ⟨by rw [ih1]; rfl, fun _ => by rw [ih2 trivial]; rfl⟩
    · obtain ⟨s', hp⟩ := hB (by omega)
      rw [hp]
      simp only [terminal_isTerminal, if_true]
      have hspec : specRecords sz s.rest (upErr s.up) = [terminal s.rest.length (upErr s.up)] := by
        unfold specRecords
        rw [Nat.div_eq_of_lt (by omega), Nat.mod_eq_of_lt (by omega)]
        simp [chunksOf]
      rw [hspec]
      refine ⟨?_, fun _ => rfl⟩
      unfold terminal
      split
      · rfl
      · split <;> rfl

end IpaVerif.Streams
