import IpaVerif.Proofs.C04Mac
/-!
# C04 — helper lemmas: validation, honest runs, the accumulated MAC terms of a deviating run
-/
namespace IpaVerif.C04
open IpaVerif.Sharing IpaVerif.Mac IpaVerif.Generated.Mac

variable {R : Type} [CommRing R]


/-! ### validation -/

theorem propagate_props (e : Err R) (v : Loc R) :
    Consistent (propagateE (ringAlg R) e v) ∧ rec (propagateE (ringAlg R) e v) = locSum v + errSum e := by
  refine ⟨by simp only [propagateE, propagateToRight, if_true]; exact ⟨rfl, rfl, rfl⟩, ?_⟩
  simp only [propagateE, propagateToRight, if_true, rec, reconstruct, ringAlg, locSum, errSum]; ring

/-- the value of `T` the helpers hold -/
theorem tOf_value (rOpen : R) (acc : Acc R) (ve : ValErr R) :
    Consistent (tOf (ringAlg R) rOpen acc ve) ∧
    rec (tOf (ringAlg R) rOpen acc ve) = accT rOpen acc + (errSum ve.eu - errSum ve.ew * rOpen) := by
  obtain ⟨cu, vu⟩ := propagate_props ve.eu acc.u
  obtain ⟨cw, vw⟩ := propagate_props ve.ew acc.w
  refine ⟨map2_consistent _ _ _ cu cw, ?_⟩
  have : rec (tOf (ringAlg R) rOpen acc ve)
      = rec (propagateE (ringAlg R) ve.eu acc.u) - rec (propagateE (ringAlg R) ve.ew acc.w) * rOpen := by
    simp only [tOf, tShare, tFormula, evalTm, map2, rec, reconstruct, ringAlg]; ring
  rw [this, vu, vw, accT]; ring

theorem checkZero_value (ρ : Masks R) (mask : World R) (e : Err R) (v : World R) (hm : Consistent mask) (hv : Consistent v) :
    checkZeroOpened (ringAlg R) ρ mask e v = rec mask * rec v + errSum e := by
  simp only [checkZeroOpened, checkZeroMulArgs]
  exact mulE_reconstruct ρ e mask v hm hv


/-! ### honest runs -/

/-- plaintext meaning of a circuit: the list of wire values. -/
def plainStep (vs : List R) : Gate R → R
  | .upgrade x _ _ _ => rec x
  | .mul i j _ _ _ _ _ => vs.getD i 0 * vs.getD j 0
  | .add i j => vs.getD i 0 + vs.getD j 0
  | .sub i j => vs.getD i 0 - vs.getD j 0
  | .neg i => - vs.getD i 0
  | .mulConst i c => vs.getD i 0 * c

def plain : List (Gate R) → List R → List R
  | [], vs => vs
  | g :: gs, vs => plain gs (vs ++ [plainStep vs g])

/-- the messages of the gate carry no (net) error. -/
def GateHonest : Gate R → Prop
  | .upgrade _ _ _ e' => errSum e' = 0
  | .mul _ _ _ _ _ e e' => errSum e = 0 ∧ errSum e' = 0
  | _ => True

theorem pget_val (ws : List (PW R)) (i : Nat) : (pget ws i).val = (ws.map PW.val).getD i 0 := by
  unfold pget
  by_cases hi : i < ws.length
  · simp [List.getD, hi]
  · simp [List.getD, Nat.not_lt.mp hi]

theorem pget_disc_zero (ws : List (PW R)) (h : ∀ w ∈ ws, w.disc = 0) (i : Nat) : (pget ws i).disc = 0 := by
  unfold pget
  by_cases hi : i < ws.length
  · have : ws.getD i ⟨0, 0⟩ = ws[i] := by simp [List.getD, hi]
    rw [this]; exact h _ (List.getElem_mem hi)
  · have : ws.getD i ⟨0, 0⟩ = ⟨0, 0⟩ := by simp [List.getD, Nat.not_lt.mp hi]
    rw [this]

theorem pstep_honest (rh : R) (ps : List (PW R) × R) (g : Gate R) (hg : GateHonest g)
    (hz : ∀ w ∈ ps.1, w.disc = 0) :
    (∀ w ∈ (pstep rh ps g).1, w.disc = 0) ∧ (pstep rh ps g).2 = ps.2 ∧
      (pstep rh ps g).1.map PW.val = ps.1.map PW.val ++ [plainStep (ps.1.map PW.val) g] := by
  have key : ∀ (w : PW R) (t : R), w.disc = 0 → t = ps.2 → w.val = plainStep (ps.1.map PW.val) g →
      (∀ w' ∈ (ps.1 ++ [w]), w'.disc = 0) ∧ t = ps.2 ∧
        (ps.1 ++ [w]).map PW.val = ps.1.map PW.val ++ [plainStep (ps.1.map PW.val) g] := by
    intro w t hw ht hv
    refine ⟨?_, ht, by simp [hv]⟩
    intro w' hw'
    rcases List.mem_append.mp hw' with h' | h'
    · exact hz _ h'
    · rw [List.mem_singleton.mp h']; exact hw
  cases g with
  | upgrade x ρ α e' =>
    simp only [GateHonest] at hg
    refine key ⟨rec x, errSum e'⟩ (ps.2 + rec α * errSum e') hg ?_ rfl
    rw [hg]; ring
  | mul i j ρ ρ' α e e' =>
    obtain ⟨h1, h2⟩ := hg
    refine key ⟨(pget ps.1 i).val * (pget ps.1 j).val + errSum e,
        (pget ps.1 i).disc * (pget ps.1 j).val + errSum e' - rh * errSum e⟩
      (ps.2 + rec α * ((pget ps.1 i).disc * (pget ps.1 j).val + errSum e' - rh * errSum e)) ?_ ?_ ?_
    · simp [pget_disc_zero _ hz, h1, h2]
    · simp [pget_disc_zero _ hz, h1, h2]
    · simp [plainStep, pget_val, h1]
  | add i j => exact key _ _ (by simp [pget_disc_zero _ hz]) rfl (by simp [plainStep, pget_val])
  | sub i j => exact key _ _ (by simp [pget_disc_zero _ hz]) rfl (by simp [plainStep, pget_val])
  | neg i => exact key _ _ (by simp [pget_disc_zero _ hz]) rfl (by simp [plainStep, pget_val])
  | mulConst i c => exact key _ _ (by simp [pget_disc_zero _ hz]) rfl (by simp [plainStep, pget_val])

theorem prun_honest (rh : R) (gs : List (Gate R)) (hh : ∀ g ∈ gs, GateHonest g) (ps : List (PW R) × R)
    (hz : ∀ w ∈ ps.1, w.disc = 0) :
    (∀ w ∈ (prun rh gs ps).1, w.disc = 0) ∧ (prun rh gs ps).2 = ps.2 ∧
      (prun rh gs ps).1.map PW.val = plain gs (ps.1.map PW.val) := by
  induction gs generalizing ps with
  | nil => exact ⟨hz, rfl, rfl⟩
  | cons g gs ih =>
    obtain ⟨a, b, c⟩ := pstep_honest rh ps g (hh g List.mem_cons_self) hz
    obtain ⟨a', b', c'⟩ := ih (fun g' hg' => hh g' (List.mem_cons_of_mem _ hg')) (pstep rh ps g) a
    simp only [prun, plain]
    exact ⟨a', by rw [b', b], by rw [c', c]⟩

theorem init_rel (rh : R) (mu mw : Masks R) : Rel rh ⟨[], initAcc (ringAlg R) mu mw⟩ ([], 0) := by
  refine ⟨by simp, rfl, ?_⟩
  simp only [accT, initAcc, zeroLoc, locSum, ringAlg]; ring

omit [CommRing R] in
theorem view_cases (w : World R) (h : Nat) (hh : h < 3) :
    (h = 0 ∧ view w h = w.h1 ∧ view w (h + 1) = w.h2 ∧ view w (h + 2) = w.h3) ∨
    (h = 1 ∧ view w h = w.h2 ∧ view w (h + 1) = w.h3 ∧ view w (h + 2) = w.h1) ∨
    (h = 2 ∧ view w h = w.h3 ∧ view w (h + 1) = w.h1 ∧ view w (h + 2) = w.h2) := by
  have : h = 0 ∨ h = 1 ∨ h = 2 := by omega
  rcases this with rfl | rfl | rfl <;> simp [view]

theorem reveal_honest [DecidableEq R] (w : World R) (hw : Consistent w) (h : Nat) (hh : h < 3) :
    revealHonest (ringAlg R) w h = some (rec w) := by
  obtain ⟨h1, h2, h3⟩ := hw
  rcases view_cases w h hh with ⟨_, a, b, c⟩ | ⟨_, a, b, c⟩ | ⟨_, a, b, c⟩ <;>
    simp only [revealHonest, revealAt, revealMsgToLeft, revealMsgToRight, revealToLeftSendsRight,
      revealToRightSendsLeft, a, b, c, if_true, h1, h2, h3] <;>
    simp only [rec, reconstruct, ringAlg, Option.some.injEq] <;> ring

/-! ### deviating runs -/

/-- the `(α̂_k, D_k)` of the recorded gates (upgrades and multiplications), in order; `ws` = plaintext wires so far. -/
def macTerms (rh : R) : List (Gate R) → List (PW R) → List (R × R)
  | [], _ => []
  | g :: gs, ws =>
    (match g with
      | .upgrade _ _ α e' => [(rec α, errSum e')]
      | .mul i j _ _ α e e' => [(rec α, (pget ws i).disc * (pget ws j).val + errSum e' - rh * errSum e)]
      | _ => []) ++ macTerms rh gs (pstep rh (ws, 0) g).1

def termSum (ts : List (R × R)) : R := (ts.map (fun t => t.1 * t.2)).sum

theorem pstep_fst (rh : R) (ws : List (PW R)) (t t' : R) (g : Gate R) :
    (pstep rh (ws, t) g).1 = (pstep rh (ws, t') g).1 := by
  cases g <;> rfl

theorem prun_T_sum (rh : R) (gs : List (Gate R)) (ws : List (PW R)) (t : R) :
    (prun rh gs (ws, t)).2 = t + termSum (macTerms rh gs ws) := by
  induction gs generalizing ws t with
  | nil => simp [prun, macTerms, termSum]
  | cons g gs ih =>
    have h1 : pstep rh (ws, t) g = ((pstep rh (ws, 0) g).1, (pstep rh (ws, t) g).2) := by
      rw [pstep_fst rh ws 0 t g]
    simp only [prun]
    rw [h1, ih]
    cases g <;> simp [pstep, macTerms, termSum] <;> ring





/-! ### closed form when no altered MAC feeds a later multiplication -/

/-- `(α̂_k, δ′_k − r̂·δ_k)` of the recorded gates. -/
def flatTerms (rh : R) : List (Gate R) → List (R × R)
  | [] => []
  | g :: gs =>
    (match g with
      | .upgrade _ _ α e' => [(rec α, errSum e')]
      | .mul _ _ _ _ α e e' => [(rec α, errSum e' - rh * errSum e)]
      | _ => []) ++ flatTerms rh gs

/-- the left operand of every multiplication carries an intact MAC (`rx = r̂·x`). -/
def NoFeed (rh : R) : List (Gate R) → List (PW R) → Prop
  | [], _ => True
  | g :: gs, ws =>
    (match g with
      | .mul i _ _ _ _ _ _ => (pget ws i).disc = 0
      | _ => True) ∧ NoFeed rh gs (pstep rh (ws, 0) g).1

theorem macTerms_flat (rh : R) (gs : List (Gate R)) (ws : List (PW R)) (h : NoFeed rh gs ws) :
    macTerms rh gs ws = flatTerms rh gs := by
  induction gs generalizing ws with
  | nil => rfl
  | cons g gs ih =>
    obtain ⟨h1, h2⟩ := h
    simp only [macTerms, flatTerms, ih _ h2]
    cases g <;> simp_all

theorem prun_fst_indep (rh : R) (gs : List (Gate R)) (l : List (PW R)) (t t' : R) :
    (prun rh gs (l, t)).1 = (prun rh gs (l, t')).1 := by
  induction gs generalizing l t t' with
  | nil => rfl
  | cons g gs ih =>
    simp only [prun]
    have e1 : pstep rh (l, t) g = ((pstep rh (l, t') g).1, (pstep rh (l, t) g).2) := by
      rw [pstep_fst rh l t' t g]
    have e2 : pstep rh (l, t') g = ((pstep rh (l, t') g).1, (pstep rh (l, t') g).2) := rfl
    rw [e1, e2]
    exact ih _ _ _

theorem macTerms_append (rh : R) (gs gs' : List (Gate R)) (ws : List (PW R)) :
    macTerms rh (gs ++ gs') ws = macTerms rh gs ws ++ macTerms rh gs' (prun rh gs (ws, 0)).1 := by
  induction gs generalizing ws with
  | nil => simp [macTerms, prun]
  | cons g gs ih =>
    simp only [List.cons_append, macTerms, prun, ih, List.append_assoc]
    have : pstep rh (ws, 0) g = ((pstep rh (ws, 0) g).1, (pstep rh (ws, 0) g).2) := rfl
    rw [this, prun_fst_indep rh gs _ (pstep rh (ws, 0) g).2 0]

theorem termSum_append (a b : List (R × R)) : termSum (a ++ b) = termSum a + termSum b := by
  simp [termSum, List.map_append, List.sum_append]



end IpaVerif.C04
