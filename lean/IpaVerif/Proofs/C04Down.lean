import IpaVerif.Proofs.C04Run
/-!
# C04 — helper lemmas: the gates after an attacked gate scale its discrepancy by coefficients independent of `r`
-/
namespace IpaVerif.C04
open IpaVerif.Sharing IpaVerif.Mac IpaVerif.Generated.Mac

variable {R : Type} [CommRing R]

/-! ### one attacked gate anywhere in a circuit: what the gates after it contribute -/

def kget (ks : List (R × R)) (i : Nat) : R × R := ks.getD i (0, 0)

/-- plaintext value and discrepancy COEFFICIENT `κ` of every wire (honest gates): the wire's MAC discrepancy is
`D·κ` where `D` is the discrepancy injected at the attacked gate. Does not involve `r`. -/
def kstep (ks : List (R × R)) : Gate R → List (R × R)
  | .upgrade x _ _ _ => ks ++ [(rec x, 0)]
  | .mul i j _ _ _ _ _ => ks ++ [((kget ks i).1 * (kget ks j).1, (kget ks i).2 * (kget ks j).1)]
  | .add i j => ks ++ [((kget ks i).1 + (kget ks j).1, (kget ks i).2 + (kget ks j).2)]
  | .sub i j => ks ++ [((kget ks i).1 - (kget ks j).1, (kget ks i).2 - (kget ks j).2)]
  | .neg i => ks ++ [(- (kget ks i).1, - (kget ks i).2)]
  | .mulConst i c => ks ++ [((kget ks i).1 * c, (kget ks i).2 * c)]

/-- `Σ_j α̂_j·κ_j` over the recorded gates. -/
def kterms : List (Gate R) → List (R × R) → R
  | [], _ => 0
  | g :: gs, ks =>
    (match g with
      | .mul i j _ _ α _ _ => rec α * ((kget ks i).2 * (kget ks j).1)
      | _ => 0) + kterms gs (kstep ks g)

def kToPw (D : R) (k : R × R) : PW R := ⟨k.1, D * k.2⟩

theorem pget_kmap (D : R) (ks : List (R × R)) (i : Nat) : pget (ks.map (kToPw D)) i = kToPw D (kget ks i) := by
  unfold pget kget
  by_cases hi : i < ks.length
  · simp [List.getD, hi]
  · simp [List.getD, Nat.not_lt.mp hi, kToPw]

theorem pstep_kstep (rh D : R) (ks : List (R × R)) (t : R) (g : Gate R) (hg : GateHonest g) :
    (pstep rh (ks.map (kToPw D), t) g).1 = (kstep ks g).map (kToPw D) := by
  cases g with
  | upgrade x ρ α e' =>
    simp only [GateHonest] at hg
    simp [pstep, kstep, kToPw, hg]
  | mul i j ρ ρ' α e e' =>
    obtain ⟨h1, h2⟩ := hg
    simp only [pstep, kstep, pget_kmap, List.map_append, List.map_cons, List.map_nil, kToPw, h1, h2]
    congr 2
    all_goals ring_nf
  | add i j => simp only [pstep, kstep, pget_kmap, List.map_append, List.map_cons, List.map_nil, kToPw]; congr 2; ring_nf
  | sub i j => simp only [pstep, kstep, pget_kmap, List.map_append, List.map_cons, List.map_nil, kToPw]; congr 2; ring_nf
  | neg i => simp only [pstep, kstep, pget_kmap, List.map_append, List.map_cons, List.map_nil, kToPw]; congr 2; ring_nf
  | mulConst i c => simp only [pstep, kstep, pget_kmap, List.map_append, List.map_cons, List.map_nil, kToPw]; congr 2; ring_nf

theorem macTerms_kterms (rh D : R) (gs : List (Gate R)) (hh : ∀ g ∈ gs, GateHonest g) (ks : List (R × R)) :
    termSum (macTerms rh gs (ks.map (kToPw D))) = D * kterms gs ks := by
  induction gs generalizing ks with
  | nil => simp [macTerms, termSum, kterms]
  | cons g gs ih =>
    have hg := hh g List.mem_cons_self
    simp only [macTerms, kterms, termSum_append]
    rw [pstep_kstep rh D ks 0 g hg, ih (fun g' hg' => hh g' (List.mem_cons_of_mem _ hg'))]
    cases g with
    | upgrade x ρ α e' =>
      simp only [GateHonest] at hg
      simp [termSum, hg]
    | mul i j ρ ρ' α e e' =>
      obtain ⟨h1, h2⟩ := hg
      simp only [termSum, pget_kmap, kToPw, h1, h2, List.map_cons, List.map_nil, List.sum_cons, List.sum_nil]
      ring
    | add i j => simp [termSum]
    | sub i j => simp [termSum]
    | neg i => simp [termSum]
    | mulConst i c => simp [termSum]


theorem pw_of_vals (ws : List (PW R)) (h : ∀ w ∈ ws, w.disc = 0) :
    ws = (ws.map PW.val).map (fun v => (⟨v, 0⟩ : PW R)) := by
  induction ws with
  | nil => rfl
  | cons w ws ih =>
    have hw := h w List.mem_cons_self
    simp only [List.map_cons]
    rw [← ih (fun w' hw' => h w' (List.mem_cons_of_mem _ hw'))]
    obtain ⟨v, d⟩ := w
    have hd : d = 0 := hw
    rw [hd]

/-- the plaintext wires after an honest prefix, as `(value, κ = 0)` pairs -/
def kInit (gs₀ : List (Gate R)) : List (R × R) := (plain gs₀ []).map (fun v => (v, (0 : R)))

theorem honest_prefix_kmap (rh D : R) (gs₀ : List (Gate R)) (h0 : ∀ g ∈ gs₀, GateHonest g) :
    (prun rh gs₀ ([], 0)).1 = (kInit gs₀).map (kToPw D) ∧ termSum (macTerms rh gs₀ []) = 0 := by
  obtain ⟨hz, ht, hv⟩ := prun_honest rh gs₀ h0 ([], 0) (by simp)
  constructor
  · rw [pw_of_vals _ hz, hv]
    simp [kInit, kToPw, List.map_map, Function.comp_def]
  · have := prun_T_sum rh gs₀ [] 0
    rw [ht] at this
    simpa using this.symm


end IpaVerif.C04
