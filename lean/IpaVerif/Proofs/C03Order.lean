import IpaVerif.Proofs.C03Store
/-!
Block-level frame lemmas for the DZKP intermediate store and the commutation of two inserts of different
records into an anchored store (C03 `push_order_irrelevant`). Core Lean only.
-/
namespace IpaVerif.C03
open IpaVerif.DzkpStore IpaVerif.Generated.Dzkp

theorem list_ext_getD {α : Type} (d : α) : ∀ (l₁ l₂ : List α), l₁.length = l₂.length →
    (∀ k, l₁.getD k d = l₂.getD k d) → l₁ = l₂ := by
  intro l₁ l₂ hl hg
  apply List.ext_getElem hl
  intro i h1 h2
  have := hg i
  simp only [List.getD_eq_getElem?_getD, List.getElem?_eq_getElem h1, List.getElem?_eq_getElem h2,
    Option.getD_some] at this
  exact this

theorem length_growTo' (vec : List Block) (n : Nat) : (growTo vec n).length = max vec.length n := by
  unfold growTo; simp; omega

/-! ### small segments -/

theorem length_insertSmall (vec : List Block) (id : Nat) (s : Segment) :
    (insertSmall vec id s).length = max vec.length ((nextPow2 s.width * id) / 256 + 1) := by
  unfold insertSmall
  simp only [Nat.shiftRight_eq_div_pow, show (2 : Nat) ^ 8 = 256 by rfl, List.length_set, length_growTo']

theorem getD_insertSmall (vec : List Block) (id : Nat) (s : Segment) (k : Nat) :
    (insertSmall vec id s).getD k zeroBlock =
      if k = (nextPow2 s.width * id) / 256
      then blockSetAll (vec.getD k zeroBlock) ((nextPow2 s.width * id) % 256) s.width s 0
      else vec.getD k zeroBlock := by
  unfold insertSmall
  simp only [Nat.shiftRight_eq_div_pow, show (2 : Nat) ^ 8 = 256 by rfl]
  generalize nextPow2 s.width * id = X
  have hlen := length_growTo vec (X / 256 + 1)
  by_cases hk : k = X / 256
  · subst hk
    rw [List.getD_eq_getElem?_getD, List.getElem?_set_self (by omega), if_pos rfl, Option.getD_some, getD_growTo]
  · rw [List.getD_eq_getElem?_getD, List.getElem?_set_ne (by omega), ← List.getD_eq_getElem?_getD, getD_growTo]
    simp [hk]

/-- two `clone_from_bitslice` writes into disjoint bit ranges of one word commute. -/
theorem setBits_comm (b p1 w1 v1 p2 w2 v2 : Nat) (hd : p1 + w1 ≤ p2 ∨ p2 + w2 ≤ p1) :
    setBits (setBits b p1 w1 v1) p2 w2 v2 = setBits (setBits b p2 w2 v2) p1 w1 v1 := by
  apply Nat.eq_of_testBit_eq
  intro q
  simp only [setBits_testBit]
  by_cases h1 : p1 ≤ q ∧ q < p1 + w1 <;> by_cases h2 : p2 ≤ q ∧ q < p2 + w2
  · exfalso; omega
  · simp [h1, h2]
  · simp [h1, h2]
  · simp [h1, h2]

theorem blockSetAll_comm (b : Block) (p1 w1 : Nat) (s1 : Segment) (p2 w2 : Nat) (s2 : Segment)
    (hd : p1 + w1 ≤ p2 ∨ p2 + w2 ≤ p1) :
    blockSetAll (blockSetAll b p1 w1 s1 0) p2 w2 s2 0 = blockSetAll (blockSetAll b p2 w2 s2 0) p1 w1 s1 0 := by
  unfold blockSetAll
  simp only [setBits_comm _ p1 w1 _ p2 w2 _ hd]

theorem le_nextPow2 (w : Nat) (hw : w < 256) : w ≤ nextPow2 w := by
  by_cases h : 1 ≤ w
  · exact (nextPow2_small w hw h).1
  · have : w = 0 := by omega
    subst this; decide

/-- records `i ≠ j` of a gate with stride `L ≥ w`: positions at least `w` apart. -/
theorem stride_apart (L w i j : Nat) (hL : w ≤ L) (hij : i ≠ j) : L * i + w ≤ L * j ∨ L * j + w ≤ L * i := by
  rcases Nat.lt_or_gt_of_ne hij with h | h
  · have : L * (i + 1) ≤ L * j := Nat.mul_le_mul_left L h
    rw [Nat.mul_add] at this; left; omega
  · have : L * (j + 1) ≤ L * i := Nat.mul_le_mul_left L h
    rw [Nat.mul_add] at this; right; omega

theorem insertSmall_comm (vec : List Block) (i j : Nat) (s t : Segment) (hw : s.width < 256)
    (hst : t.width = s.width) (hij : i ≠ j) :
    insertSmall (insertSmall vec i s) j t = insertSmall (insertSmall vec j t) i s := by
  have hL := le_nextPow2 s.width hw
  have hap := stride_apart (nextPow2 s.width) s.width i j hL hij
  apply list_ext_getD zeroBlock
  · simp only [length_insertSmall, hst]; omega
  · intro k
    simp only [getD_insertSmall, hst]
    generalize nextPow2 s.width * i = X at hap ⊢
    generalize nextPow2 s.width * j = Y at hap ⊢
    by_cases hxy : X / 256 = Y / 256
    · by_cases h1 : k = Y / 256
      · subst h1
        simp only [hxy, if_true]
        apply Eq.symm
        apply blockSetAll_comm
        omega
      · simp [hxy, h1]
    · by_cases h1 : k = X / 256
      · subst h1
        simp [hxy]
      · by_cases h2 : k = Y / 256
        · subst h2
          have : ¬ Y / 256 = X / 256 := fun h => hxy h.symm
          simp [this]
        · simp [h1, h2]

/-! ### large segments -/

theorem large_fold_length (B : Nat) (s : Segment) (v0 : List Block) (h0 : B ≤ v0.length) (t : Nat) :
    ((List.range t).foldl (largeStep B s) v0).length = max v0.length (B + t) := by
  induction t with
  | zero => simp only [List.range_zero, List.foldl_nil]; omega
  | succ t ih =>
    simp only [List.range_succ, List.foldl_append, List.foldl_cons, List.foldl_nil]
    generalize (List.range t).foldl (largeStep B s) v0 = vt at ih
    unfold largeStep
    by_cases hlen : vt.length > B + t
    · simp only [hlen, if_true, List.length_set]; omega
    · simp only [hlen, if_false, List.length_append, List.length_cons, List.length_nil]; omega

theorem length_insertLarge (vec : List Block) (id m : Nat) (s : Segment) (hw : s.width = 256 * m) :
    (insertLarge vec id s).length = max vec.length (m * id + m) := by
  rw [insertLarge_eq]
  have hB : (s.width * id) >>> 8 = m * id := by
    rw [Nat.shiftRight_eq_div_pow, hw, Nat.mul_assoc]; exact Nat.mul_div_cancel_left _ (by decide)
  have hm : s.width >>> 8 = m := by
    rw [Nat.shiftRight_eq_div_pow, hw]; exact Nat.mul_div_cancel_left _ (by decide)
  rw [hB, hm, large_fold_length _ _ _ (length_growTo vec (m * id)), length_growTo']
  omega

theorem getD_insertLarge (vec : List Block) (id m : Nat) (s : Segment) (hw : s.width = 256 * m) (k : Nat) :
    (insertLarge vec id s).getD k zeroBlock =
      if m * id ≤ k ∧ k < m * id + m then blockSetAll zeroBlock 0 256 s (256 * (k - m * id))
      else vec.getD k zeroBlock := by
  rw [insertLarge_eq]
  have hB : (s.width * id) >>> 8 = m * id := by
    rw [Nat.shiftRight_eq_div_pow, hw, Nat.mul_assoc]; exact Nat.mul_div_cancel_left _ (by decide)
  have hm : s.width >>> 8 = m := by
    rw [Nat.shiftRight_eq_div_pow, hw]; exact Nat.mul_div_cancel_left _ (by decide)
  rw [hB, hm]
  obtain ⟨_, hg⟩ := large_fold (m * id) s (growTo vec (m * id)) (length_growTo vec (m * id)) m
  rw [hg, getD_growTo]

theorem insertLarge_comm (vec : List Block) (i j m : Nat) (s t : Segment) (hw : s.width = 256 * m)
    (hst : t.width = s.width) (hij : i ≠ j) :
    insertLarge (insertLarge vec i s) j t = insertLarge (insertLarge vec j t) i s := by
  have hwt : t.width = 256 * m := by rw [hst, hw]
  have hap := stride_apart m m i j (Nat.le_refl m) hij
  apply list_ext_getD zeroBlock
  · simp only [length_insertLarge _ _ m _ hw, length_insertLarge _ _ m _ hwt]; omega
  · intro k
    simp only [getD_insertLarge _ _ m _ hw, getD_insertLarge _ _ m _ hwt]
    generalize m * i = X at hap ⊢
    generalize m * j = Y at hap ⊢
    by_cases h1 : X ≤ k ∧ k < X + m <;> by_cases h2 : Y ≤ k ∧ k < Y + m
    · exfalso; omega
    · simp [h1, h2]
    · simp [h1, h2]
    · simp [h1, h2]

/-! ### `insert_segment` on an anchored store -/

/-- A store whose anchor is set accepts every record of `[f, f + max)` and keeps its anchor. -/
theorem insert_ok (st : Store) (f r : Nat) (s : Segment) (hf : st.first = some f) (hw : s.width = st.width)
    (h1 : f ≤ r) (h2 : r < st.max + f) :
    st.insert r s = .ok ⟨some f, st.max, st.width,
      if s.width < 256 then insertSmall st.vec (r - f) s else insertLarge st.vec (r - f) s⟩ := by
  unfold Store.insert
  simp only [hf, Option.getD_some]
  have a : ¬ s.width ≠ st.width := by simp [hw]
  have b : ¬ r < f := by omega
  have c : ¬ ¬ r < st.max + f := by omega
  simp only [a, b, c, if_false]

/-- **two records, either order, one table**: on an anchored store, inserting the segments of two different
records of the batch (same gate, hence same width) succeeds in both orders and leaves literally the same
store. -/
theorem insert_comm (st : Store) (f r₁ r₂ : Nat) (s₁ s₂ : Segment) (hf : st.first = some f)
    (hw₁ : s₁.width = st.width) (hw₂ : s₂.width = st.width) (hok : segmentOk s₁ = true)
    (h₁ : f ≤ r₁ ∧ r₁ < st.max + f) (h₂ : f ≤ r₂ ∧ r₂ < st.max + f) (hne : r₁ ≠ r₂) :
    ∃ a b ab, st.insert r₁ s₁ = .ok a ∧ a.insert r₂ s₂ = .ok ab ∧
              st.insert r₂ s₂ = .ok b ∧ b.insert r₁ s₁ = .ok ab := by
  have e₁ := insert_ok st f r₁ s₁ hf hw₁ h₁.1 h₁.2
  have e₂ := insert_ok st f r₂ s₂ hf hw₂ h₂.1 h₂.2
  have e₁₂ := insert_ok ⟨some f, st.max, st.width,
      if s₁.width < 256 then insertSmall st.vec (r₁ - f) s₁ else insertLarge st.vec (r₁ - f) s₁⟩
      f r₂ s₂ rfl hw₂ h₂.1 h₂.2
  have e₂₁ := insert_ok ⟨some f, st.max, st.width,
      if s₂.width < 256 then insertSmall st.vec (r₂ - f) s₂ else insertLarge st.vec (r₂ - f) s₂⟩
      f r₁ s₁ rfl hw₁ h₁.1 h₁.2
  refine ⟨_, _, _, e₁, e₁₂, e₂, ?_⟩
  rw [e₂₁]
  have hid : r₁ - f ≠ r₂ - f := by omega
  have hww : s₂.width = s₁.width := by rw [hw₁, hw₂]
  congr 2
  by_cases hs : s₁.width < 256
  · have hs2 : s₂.width < 256 := by omega
    simp only [hs, hs2, if_true]
    exact (insertSmall_comm st.vec (r₁ - f) (r₂ - f) s₁ s₂ hs hww hid).symm
  · have hs2 : ¬ s₂.width < 256 := by omega
    simp only [hs, hs2, if_false]
    have hm : s₁.width = 256 * (s₁.width / 256) := by
      unfold segmentOk at hok
      simp only [Bool.or_eq_true, decide_eq_true_eq, beq_iff_eq] at hok
      omega
    exact (insertLarge_comm st.vec (r₁ - f) (r₂ - f) _ s₁ s₂ hm hww hid).symm

end IpaVerif.C03
