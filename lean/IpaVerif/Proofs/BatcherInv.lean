import IpaVerif.Proofs.BatcherLemmas
/-! Invariant of the C16 batcher model relating the state to the history of accepted records. -/
namespace IpaVerif.Batcher

/-- Ghost history: the records whose `validate_record` call was accepted (`notReady`/`ready`),
and the batches for which `ready` was returned. -/
structure Ghost where
  acc : List Nat := []
  closed : List Nat := []

/-- number of records of batch `b` when the total is `n`: `min(rpb, n - b*rpb)`. -/
def tcOf (n rpb b : Nat) : Nat := min rpb (n - b * rpb)

structure SlotOk (n first rpb : Nat) (acc : List Nat) (k : Nat) (bs : BatchState) : Prop where
  ctor : bs.ctor = first + k
  count : bs.pendingCount = bs.pendingRecords.count true
  bits : ∀ j, bs.pendingRecords.getD j false = true ↔ (j < rpb ∧ (first + k) * rpb + j ∈ acc)
  /-- an outstanding batch is not complete yet -/
  room : bs.pendingCount < tcOf n rpb (first + k) ∨ tcOf n rpb (first + k) = 0

structure Inv (n : Nat) (s : State) (g : Ghost) : Prop where
  rpb_pos : 0 < s.rpb
  total : s.total = .specified n ∨ s.total = .indeterminate ∨
    (s.total = .unspecified ∧ g.acc = [] ∧ g.closed = [])
  closed_iff : ∀ b, b ∈ g.closed ↔
    (b < s.firstBatch ∨ (s.firstBatch ≤ b ∧ s.batches[b - s.firstBatch]? = some none))
  live : ∀ k bs, s.batches[k]? = some (some bs) → SlotOk n s.firstBatch s.rpb g.acc k bs
  closed_all : ∀ b, b ∈ g.closed → 0 < tcOf n s.rpb b ∧ ∀ j, j < tcOf n s.rpb b → b * s.rpb + j ∈ g.acc
  acc_lt : ∀ r, r ∈ g.acc → r < n
  acc_where : ∀ r, r ∈ g.acc → r / s.rpb < s.firstBatch + s.batches.length

theorem inv_new (n rpb tps : Nat) (h : 0 < rpb) (t : Total)
    (ht : t = .specified n ∨ t = .indeterminate ∨ t = .unspecified) : Inv n (State.new rpb t tps) {} := by
  refine ⟨h, ?_, ?_, ?_, ?_, ?_, ?_⟩ <;> simp [State.new]
  rcases ht with h | h | h <;> simp [h]

theorem getD_replicate_false (m j : Nat) : (List.replicate m false).getD j false = false := by
  simp only [List.getD_eq_getElem?_getD, List.getElem?_replicate]; split <;> rfl

theorem inv_extend {n s g} (hI : Inv n s g) (off : Nat) : Inv n (extend s off) g := by
  have hr : (extend s off).rpb = s.rpb := rfl
  have hf : (extend s off).firstBatch = s.firstBatch := rfl
  have ht : (extend s off).total = s.total := rfl
  refine ⟨hI.rpb_pos, by rw [ht]; exact hI.total, ?_, ?_, ?_, hI.acc_lt, ?_⟩
  · intro b
    rw [hI.closed_iff b, hf, extend_get]
    by_cases hk : b - s.firstBatch < s.batches.length
    · simp [hk]
    · have : s.batches[b - s.firstBatch]? = none := List.getElem?_eq_none (by omega)
      simp only [hk, if_false, this]
      split <;> simp
  · intro k bs hk
    rw [extend_get] at hk
    rw [hf, hr]
    by_cases hlt : k < s.batches.length
    · simp only [hlt, if_true] at hk; exact hI.live k bs hk
    · simp only [hlt, if_false] at hk
      split at hk
      · simp only [Option.some.injEq] at hk
        subst hk
        refine ⟨rfl, by simp [freshBatch, List.count_replicate], ?_, ?_⟩
        intro j
        simp only [freshBatch, getD_replicate_false]
        constructor
        · intro h; cases h
        · rintro ⟨hj, hm⟩
          have := hI.acc_where _ hm
          rw [div_offset _ _ _ hj] at this
          omega
        · show 0 < tcOf n s.rpb (s.firstBatch + k) ∨ _
          omega
      · cases hk
  · rw [hr]; exact hI.closed_all
  · intro r hr'
    have := hI.acc_where r hr'
    rw [hr, hf, extend_length]; omega

end IpaVerif.Batcher
