import IpaVerif.Model.Streams
/-! Helper lemmas for C17: `BufDeque` holds a byte queue; `read_bytes` takes a prefix of it. -/
namespace IpaVerif.Streams

def BufDeque.bytes (b : BufDeque) : Bytes := b.chunks.flatten
def BufDeque.WF (b : BufDeque) : Prop := b.size = b.bytes.length

theorem wf_empty : BufDeque.empty.WF := rfl
theorem bytes_empty : BufDeque.empty.bytes = [] := rfl

theorem wf_push {b : BufDeque} (h : b.WF) (c : Bytes) : (b.push c).WF := by
  unfold BufDeque.WF BufDeque.bytes BufDeque.push at *
  simp [h]

theorem bytes_push (b : BufDeque) (c : Bytes) : (b.push c).bytes = b.bytes ++ c := by
  simp [BufDeque.bytes, BufDeque.push]

theorem gather_spec : ∀ (cs : List Bytes) (rem : Nat) (acc : Bytes), rem ≤ cs.flatten.length →
    ∃ rest, gather cs rem acc = some (acc ++ cs.flatten.take rem, rest) ∧ rest.flatten = cs.flatten.drop rem := by
  intro cs
  induction cs with
  | nil =>
    intro rem acc h
    simp at h; subst h
    exact ⟨[], by simp [gather]⟩
  | cons c cs ih =>
    intro rem acc h
    cases rem with
    | zero => exact ⟨c :: cs, by simp [gather]⟩
    | succ rem =>
      simp only [gather]
      by_cases hc : c.length > rem + 1
      · simp only [hc, if_true]
        refine ⟨c.drop (rem + 1) :: cs, ?_, ?_⟩
        · simp only [List.flatten_cons]
          rw [List.take_append_of_le_length (by omega)]
        · simp only [List.flatten_cons]
          rw [List.drop_append_of_le_length (by omega)]
      · simp only [hc, if_false]
        simp only [List.flatten_cons, List.length_append] at h
        obtain ⟨rest, h1, h2⟩ := ih (rem + 1 - c.length) (acc ++ c) (by omega)
        have hcl : c.length ≤ rem + 1 := by omega
        have e1 : (c ++ cs.flatten).take (rem + 1) = c ++ cs.flatten.take (rem + 1 - c.length) := by
          rw [List.take_append, List.take_of_length_le hcl]
        have e2 : (c ++ cs.flatten).drop (rem + 1) = cs.flatten.drop (rem + 1 - c.length) := by
          rw [List.drop_append, List.drop_of_length_le hcl, List.nil_append]
        refine ⟨rest, ?_, ?_⟩
        · rw [h1, List.flatten_cons, e1, List.append_assoc]
        · rw [h2, List.flatten_cons, e2]

theorem readBytes_none (b : BufDeque) (len : Nat) (h : len = 0 ∨ b.size < len) :
    b.readBytes len = (.none, b) := by
  unfold BufDeque.readBytes; simp [h]

theorem readBytes_some {b : BufDeque} (hw : b.WF) (len : Nat) (h0 : 0 < len) (h : len ≤ b.size) :
    ∃ b', b.readBytes len = (.some (b.bytes.take len), b') ∧ b'.WF ∧ b'.bytes = b.bytes.drop len := by
  unfold BufDeque.readBytes
  have hn : ¬ (len = 0 ∨ b.size < len) := by omega
  simp only [hn, if_false]
  unfold BufDeque.WF BufDeque.bytes at *
  cases hcs : b.chunks with
  | nil => rw [hcs] at hw; simp at hw; omega
  | cons c cs =>
    rw [hcs] at hw
    simp only [List.flatten_cons, List.length_append] at hw
    by_cases hc : c.length ≥ len
    · simp only [hc, if_true]
      have e1 : (c :: cs).flatten.take len = c.take len := by
        rw [List.flatten_cons, List.take_append_of_le_length hc]
      rw [e1]
      refine ⟨_, rfl, ?_, ?_⟩
      · simp only []
        split
        · rename_i he
          have : c.length = len := by
            have := List.isEmpty_iff.1 he
            have h2 := congrArg List.length this
            simp at h2; omega
          omega
        · simp only [List.flatten_cons, List.length_append, List.length_drop]; omega
      · simp only [List.flatten_cons]
        rw [List.drop_append_of_le_length hc]
        split
        · rename_i he
          rw [List.isEmpty_iff.1 he]; simp
        · simp
    · simp only [hc, if_false]
      have hle : len ≤ (c :: cs).flatten.length := by rw [List.flatten_cons, List.length_append]; omega
      obtain ⟨rest, h1, h2⟩ := gather_spec (c :: cs) len [] hle
      rw [h1]
      simp only [List.nil_append]
      refine ⟨_, rfl, ?_, ?_⟩
      · simp only [h2, List.length_drop, List.length_take, List.flatten_cons, List.length_append]
        omega
      · exact h2

end IpaVerif.Streams
