import IpaVerif.Proofs.SeqJoinInv
/-! C15: progress of the sequential join when tasks depend on tasks inside the window. -/
namespace IpaVerif.SeqJoin

theorem inv_lengths {n s em} (hI : Inv n s em) : em.length + s.active.length + s.src.length = n := by
  have := congrArg List.length hI.order
  simp [ids] at this
  omega

/-- the window holds consecutive tasks starting at the next one to emit. -/
theorem window_consecutive {n s em} (hI : Inv n s em) (j : Nat) (hj : j < s.active.length) :
    (ids s.active)[j]? = some (em.length + j) := by
  have hl := inv_lengths hI
  have h1 : (em ++ ids s.active ++ s.src)[em.length + j]? = (ids s.active)[j]? := by
    rw [List.append_assoc, List.getElem?_append_right (by omega)]
    rw [show em.length + j - em.length = j by omega]
    rw [List.getElem?_append_left (by simpa [ids] using hj)]
  rw [← h1, hI.order, List.getElem?_range (by omega)]

theorem mem_window {n s em} (hI : Inv n s em) (x : Nat) (h1 : em.length ≤ x) (h2 : x < em.length + s.active.length) :
    ∃ sl, sl ∈ s.active ∧ sl.id = x := by
  have := window_consecutive hI (x - em.length) (by omega)
  rw [show em.length + (x - em.length) = x by omega] at this
  have hm := List.mem_of_getElem? this
  exact List.mem_map.1 hm

/-- every in-flight task has been polled and the window is as full as it can be. -/
def Good (s : State) : Prop :=
  (∀ sl, sl ∈ s.active → sl.id ∈ s.started) ∧ (s.active.length = s.cap ∨ s.src = [])

def depEnv (n d budget : Nat) : Env := { budget := budget, ready := depReady n d }

theorem refill_noop {n s em} (hI : Inv n s em) (hg : s.active.length = s.cap ∨ s.src = []) (b : Nat) :
    (refill (s.cap + 1) s 0 b).1.active = s.active := by
  obtain ⟨hI1, hcap, _, ⟨k, _, _, _, _, k5⟩, _⟩ := refill_spec n (s.cap + 1) s 0 b em hI (by omega) _ rfl
  rw [k5]
  rcases hg with h | h
  · have := hI1.len
    rw [k5, hcap] at this
    simp only [List.length_append, List.length_map] at this
    have h0 : (s.src.take k).length = 0 := by omega
    rw [List.length_eq_zero_iff.1 h0]; simp
  · rw [h]; simp

/-- once every task in the (full) window has started, the head of the line is ready. -/
theorem good_not_pending {n d s em} (hI : Inv n s em) (hg : Good s) (hne : s.active ≠ [])
    (hd : d + 1 ≤ s.cap) (b : Nat) : (step s (depEnv n d b)).2.out ≠ .pending := by
  intro hp
  obtain ⟨_, _, _, hpend, _, _⟩ := step_spec hI (depEnv n d b) (step s (depEnv n d b)).1 (step s (depEnv n d b)).2 rfl
  obtain ⟨_, _, _, _, _, hfront⟩ := hpend hp
  have hno := refill_noop hI hg.2 b
  obtain ⟨front, rest, hact⟩ : ∃ f r, s.active = f :: r := by
    cases h : s.active with
    | nil => exact absurd h hne
    | cons f r => exact ⟨f, r, rfl⟩
  obtain ⟨st', hsub, hmem, hnr⟩ := hfront front rest (by
    show (refill (s.cap + 1) s 0 (depEnv n d b).budget).1.active = _
    rw [show (depEnv n d b).budget = b from rfl, hno, hact])
  have hfid : front.id = em.length := by
    have := window_consecutive hI 0 (by rw [hact]; simp)
    rw [hact] at this
    simpa [ids] using this
  have hl := inv_lengths hI
  have : depReady n d st' front.id = true := by
    unfold depReady
    rw [List.all_eq_true]
    intro j hj
    have hjd : j < d := by simpa using hj
    by_cases hx : front.id + 1 + j ≥ n
    · simp [hx]
    · have hin : front.id + 1 + j < em.length + s.active.length := by
        rcases hg.2 with h | h
        · rw [h, hfid]; omega
        · rw [h] at hl; simp at hl; rw [hfid]; omega
      obtain ⟨sl, hsl, hid⟩ := mem_window hI (front.id + 1 + j) (by rw [hfid]; omega) hin
      have := hsub _ (hg.1 sl hsl)
      rw [hid] at this
      simp [this]
  have hnr' : depReady n d st' front.id = false := hnr
  rw [this] at hnr'
  cases hnr'

open Classical in
/-- progress measure: two units per task not yet emitted, one more while the window has not
been polled in full. -/
noncomputable def measureM (s : State) : Nat :=
  2 * (s.active.length + s.src.length) + (if Good s then 0 else 1)

theorem measure_decreases {n d s em} (hI : Inv n s em) (hc : 0 < s.cap) (hd : d + 1 ≤ s.cap)
    (hnf : (step s (depEnv n d (s.cap + 1))).2.out ≠ .finished) :
    measureM (step s (depEnv n d (s.cap + 1))).1 < measureM s := by
  obtain ⟨hcap, _, hitem, hpend, _, hfinish⟩ := step_spec hI (depEnv n d (s.cap + 1)) (step s (depEnv n d (s.cap + 1))).1 (step s (depEnv n d (s.cap + 1))).2 rfl
  have hl := inv_lengths hI
  have hgnp := fun hg hne => good_not_pending (d := d) hI hg hne hd (s.cap + 1)
  generalize step s (depEnv n d (s.cap + 1)) = r at hcap hitem hpend hfinish hnf hgnp ⊢
  obtain ⟨s', o⟩ := r
  simp only [] at hcap hitem hpend hfinish hnf hgnp ⊢
  cases ho : o.out with
  | finished => exact absurd ho hnf
  | item i =>
    obtain ⟨_, hI'⟩ := hitem i ho
    have hl' := inv_lengths hI'
    simp only [List.length_append, List.length_singleton] at hl'
    unfold measureM
    split <;> split <;> omega
  | pending =>
    obtain ⟨hI', hstarted, _, _, hfull, _⟩ := hpend ho
    have hl' := inv_lengths hI'
    have hgood' : Good s' := by
      refine ⟨hstarted, ?_⟩
      have := hfull hc (by show s.cap ≤ s.cap + 1; omega)
      rw [hcap]; exact this
    have hbad : ¬ Good s := by
      intro hg
      by_cases hne : s.active = []
      · have hsrc : s.src = [] := by
          rcases hg.2 with h | h
          · rw [hne] at h; simp at h; omega
          · exact h
        have := hfinish hne hsrc hc
        rw [ho] at this; cases this
      · exact hgnp hg hne ho
    unfold measureM
    rw [if_pos hgood', if_neg hbad]
    omega

/-- **window_dependency_progress** (core): with the source always ready and every task depending only
on tasks at most `d ≤ cap − 1` positions ahead having started, the join ends within `measureM + 1`
polls. -/
theorem dep_progress {n d : Nat} : ∀ (p : Nat) (s : State) (em : List Nat), Inv n s em → 0 < s.cap → d + 1 ≤ s.cap →
    measureM s < p →
    ∃ o, o ∈ (run s (List.replicate p (depEnv n d (s.cap + 1)))).2 ∧ o.out = .finished := by
  intro p
  induction p with
  | zero => intro s em _ _ _ h; omega
  | succ p ih =>
    intro s em hI hc hd hm
    simp only [List.replicate_succ, run]
    by_cases hf : (step s (depEnv n d (s.cap + 1))).2.out = .finished
    · exact ⟨_, List.mem_cons_self, hf⟩
    · have hdec := measure_decreases hI hc hd hf
      obtain ⟨hcap, _, hitem, hpend, _, _⟩ := step_spec hI (depEnv n d (s.cap + 1)) (step s (depEnv n d (s.cap + 1))).1 (step s (depEnv n d (s.cap + 1))).2 rfl
      have hI' : ∃ em', Inv n (step s (depEnv n d (s.cap + 1))).1 em' := by
        cases ho : (step s (depEnv n d (s.cap + 1))).2.out with
        | finished => exact absurd ho hf
        | item i => exact ⟨_, (hitem i ho).2⟩
        | pending => exact ⟨_, (hpend ho).1⟩
      obtain ⟨em', hI'⟩ := hI'
      have := ih (step s (depEnv n d (s.cap + 1))).1 em' hI' (by rw [hcap]; exact hc) (by rw [hcap]; exact hd) (by omega)
      rw [hcap] at this
      obtain ⟨o, ho, hfin⟩ := this
      exact ⟨o, List.mem_cons_of_mem _ ho, hfin⟩

theorem tryPoll_spec {n : Nat} (isErr : Nat → Bool) (ready : List Nat → Nat → Bool) :
    ∀ (fuel : Nat) (s : State) (acc polled : List Nat), Inv n s acc → (∀ j, j ∈ acc → isErr j = false) →
    ∀ s' acc' out pl, tryPoll isErr ready fuel s acc polled = (s', acc', out, pl) →
    (out = .pending → Inv n s' acc' ∧ (∀ j, j ∈ acc' → isErr j = false) ∧ s'.cap = s.cap) ∧
    (∀ l, out = .ok l → l = List.range n ∧ ∀ j, j < n → isErr j = false) ∧
    (∀ i, out = .err i → isErr i = true ∧ i < n ∧ ∀ j, j < i → isErr j = false) := by
  intro fuel
  induction fuel with
  | zero =>
    intro s acc polled hI hacc s' acc' out pl h
    simp only [tryPoll, Prod.mk.injEq] at h
    obtain ⟨rfl, rfl, rfl, rfl⟩ := h
    exact ⟨fun _ => ⟨hI, hacc, rfl⟩, fun l h => (by cases h), fun i h => (by cases h)⟩
  | succ fuel ih =>
    intro s acc polled hI hacc s' acc' out pl h
    simp only [tryPoll] at h
    obtain ⟨hcap, _, hitem, hpend, hfin, _⟩ :=
      step_spec hI { budget := s.cap + 1, ready := ready } (step s { budget := s.cap + 1, ready := ready }).1
        (step s { budget := s.cap + 1, ready := ready }).2 rfl
    generalize step s { budget := s.cap + 1, ready := ready } = r at h hcap hitem hpend hfin
    obtain ⟨s1, o⟩ := r
    simp only [] at h hcap hitem hpend hfin
    have hpre := prefix_of_range (show acc ++ (ids s.active ++ s.src) = List.range n by
      rw [← List.append_assoc]; exact hI.order)
    cases ho : o.out with
    | pending =>
      rw [ho] at h
      simp only [Prod.mk.injEq] at h
      obtain ⟨rfl, rfl, rfl, rfl⟩ := h
      exact ⟨fun _ => ⟨(hpend ho).1, hacc, hcap⟩, fun l h => (by cases h), fun i h => (by cases h)⟩
    | finished =>
      rw [ho] at h
      simp only [Prod.mk.injEq] at h
      obtain ⟨rfl, rfl, rfl, rfl⟩ := h
      have hall := (hfin ho).2.1
      refine ⟨fun h => (by cases h), fun l hl => ?_, fun i h => (by cases h)⟩
      simp only [TryOut.ok.injEq] at hl
      subst hl
      refine ⟨hall, fun j hj => hacc j ?_⟩
      rw [hall]; simpa using hj
    | item i =>
      rw [ho] at h
      simp only [] at h
      obtain ⟨hi, hI1⟩ := hitem i ho
      by_cases he : isErr i = true
      · rw [if_pos he] at h
        simp only [Prod.mk.injEq] at h
        obtain ⟨rfl, rfl, rfl, rfl⟩ := h
        refine ⟨fun h => (by cases h), fun l h => (by cases h), fun j hj => ?_⟩
        simp only [TryOut.err.injEq] at hj
        subst hj
        have hlt : i < n := by
          have := inv_lengths hI1
          simp at this; omega
        refine ⟨he, hlt, fun j hj => hacc j ?_⟩
        rw [hpre.1]; simp; omega
      · rw [if_neg he] at h
        have hacc1 : ∀ j, j ∈ acc ++ [i] → isErr j = false := by
          intro j hj
          rcases List.mem_append.1 hj with h1 | h1
          · exact hacc j h1
          · simp at h1; subst h1; simpa using he
        obtain ⟨a, b, c⟩ := ih s1 (acc ++ [i]) _ hI1 hacc1 s' acc' out pl h
        exact ⟨fun hp => by obtain ⟨x, y, z⟩ := a hp; exact ⟨x, y, by rw [z, hcap]⟩, b, c⟩

/-- drive the `TryCollect` future with one readiness function per poll until it completes. -/
def tryRun (isErr : Nat → Bool) : State → List Nat → List (List Nat → Nat → Bool) → TryOut
  | _, _, [] => .pending
  | s, acc, r :: rs =>
    match tryPoll isErr r (s.src.length + s.active.length + 2) s acc [] with
    | (s', acc', .pending, _) => tryRun isErr s' acc' rs
    | (_, _, out, _) => out

theorem tryRun_spec {n : Nat} (isErr : Nat → Bool) : ∀ (rs : List (List Nat → Nat → Bool)) (s : State) (acc : List Nat),
    Inv n s acc → (∀ j, j ∈ acc → isErr j = false) →
    (∀ l, tryRun isErr s acc rs = .ok l → l = List.range n ∧ ∀ j, j < n → isErr j = false) ∧
    (∀ i, tryRun isErr s acc rs = .err i → isErr i = true ∧ i < n ∧ ∀ j, j < i → isErr j = false) := by
  intro rs
  induction rs with
  | nil => intro s acc _ _; exact ⟨fun l h => (by cases h), fun i h => (by cases h)⟩
  | cons r rs ih =>
    intro s acc hI hacc
    simp only [tryRun]
    generalize hp : tryPoll isErr r (s.src.length + s.active.length + 2) s acc [] = res
    obtain ⟨s', acc', out, pl⟩ := res
    obtain ⟨a, b, c⟩ := tryPoll_spec isErr r _ s acc [] hI hacc s' acc' out pl hp
    cases out with
    | pending =>
      obtain ⟨x, y, _⟩ := a rfl
      exact ih s' acc' x y
    | ok l => exact ⟨fun l' h => by cases h; exact b l rfl, fun i h => (by cases h)⟩
    | err i => exact ⟨fun l' h => (by cases h), fun i' h => by cases h; exact c i rfl⟩

theorem parPoll_spec (isErr : Nat → Bool) (ready : Nat → Bool) (tasks : List (Nat × Bool)) :
    (∀ l, (parPoll isErr ready tasks).2.1 = .ok l →
      l = tasks.map (·.1) ∧ (∀ t, t ∈ tasks → t.2 = true ∨ ready t.1 = true) ∧
      ∀ t, t ∈ tasks → t.2 = false → ¬ (ready t.1 = true ∧ isErr t.1 = true)) ∧
    (∀ i, (parPoll isErr ready tasks).2.1 = .err i →
      isErr i = true ∧ ready i = true ∧ (i, false) ∈ tasks) := by
  unfold parPoll
  simp only []
  split
  · rename_i i hf
    simp only []
    refine ⟨fun l h => (by cases h), fun j hj => ?_⟩
    simp only [TryOut.err.injEq] at hj
    subst hj
    have h1 := List.find?_some hf
    have h2 := List.mem_of_find?_eq_some hf
    simp only [Bool.and_eq_true] at h1
    obtain ⟨t, ht, hti⟩ := List.mem_map.1 h2
    obtain ⟨ht1, ht2⟩ := List.mem_filter.1 ht
    refine ⟨h1.2, h1.1, ?_⟩
    obtain ⟨a, b⟩ := t
    simp only [] at hti ht2
    subst hti
    have : b = false := by simpa using ht2
    subst this; exact ht1
  · rename_i hf
    split
    · rename_i hall
      simp only []
      refine ⟨fun l hl => ?_, fun i hi => (by cases hi)⟩
      simp only [TryOut.ok.injEq] at hl
      subst hl
      refine ⟨by simp [Function.comp_def], ?_, ?_⟩
      · intro t ht
        have := List.all_eq_true.1 hall (t.1, t.2 || ready t.1) (List.mem_map.2 ⟨t, ht, rfl⟩)
        simpa using this
      · intro t ht hd hre
        have := List.find?_eq_none.1 hf t.1 (List.mem_map.2 ⟨t, List.mem_filter.2 ⟨ht, by simp [hd]⟩, rfl⟩)
        simp [hre.1, hre.2] at this
    · simp only []
      exact ⟨fun l hl => (by cases hl), fun i hi => (by cases hi)⟩

end IpaVerif.SeqJoin
