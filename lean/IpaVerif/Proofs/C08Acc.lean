import IpaVerif.Props.C08
/-!
# The deferred-reduction accumulator of `Fp61BitPrime` agrees with the plain dot product

`Accumulator<Fp61BitPrime, u128, 64>`: products are added into a `u128` and reduced every 64th
call. Invariant: `count < 64` and `value ≤ (p-1) + count·(p-1)²`; 64 products of canonical elements
plus a reduced value stay below `2^128` (`(p-1) + 64·(p-1)² = 2^128 - 2^69 + 2^61 + 254`).
Core Lean only.
-/
namespace IpaVerif.Acc
open IpaVerif.PrimeField IpaVerif.Generated IpaVerif.C08

/-- exact integer dot product -/
def sumProd : List (Nat × Nat) → Nat
  | [] => 0
  | ab :: rest => ab.1 * ab.2 + sumProd rest

abbrev p61 : Nat := 2305843009213693951
abbrev M61 : Nat := 2305843009213693950 * 2305843009213693950

theorem prod_le {a b : Nat} (ha : a < p61) (hb : b < p61) : a * b ≤ M61 :=
  Nat.mul_le_mul (by unfold p61 at ha; omega) (by unfold p61 at hb; omega)

theorem truncate61 {v : Nat} (h : v < 340282366920938463463374607431768211456) :
    truncateFrom fp61 v = v % p61 := reduce_eq_mod_fp61 v h

/-- plain dot product: reduction after every operation -/
theorem plainDot_from (pairs : List (Nat × Nat)) (h : ∀ ab ∈ pairs, ab.1 < p61 ∧ ab.2 < p61) (acc : Nat) (hacc : acc < p61) :
    pairs.foldl (fun acc ab => add fp61 acc (mul fp61 ab.1 ab.2)) acc = (acc + sumProd pairs) % p61 := by
  induction pairs generalizing acc with
  | nil => simp [sumProd, Nat.mod_eq_of_lt hacc]
  | cons ab rest ih =>
    obtain ⟨ha, hb⟩ := h ab (List.mem_cons_self)
    have hrest : ∀ x ∈ rest, x.1 < p61 ∧ x.2 < p61 := fun x hx => h x (List.mem_cons_of_mem _ hx)
    have ha64 : ab.1 < 2 ^ 64 := Nat.lt_trans ha (by decide)
    have hb64 : ab.2 < 2 ^ 64 := Nat.lt_trans hb (by decide)
    have hm : mul fp61 ab.1 ab.2 = (ab.1 * ab.2) % p61 := mul_spec_fp61 _ _ ha64 hb64
    have hmlt : mul fp61 ab.1 ab.2 < p61 := by rw [hm]; exact Nat.mod_lt _ (by decide)
    have hadd : add fp61 acc (mul fp61 ab.1 ab.2) = (acc + mul fp61 ab.1 ab.2) % p61 :=
      add_spec_fp61 _ _ (Nat.lt_trans hacc (by decide)) (Nat.lt_trans hmlt (by decide))
    have hlt : add fp61 acc (mul fp61 ab.1 ab.2) < p61 := by rw [hadd]; exact Nat.mod_lt _ (by decide)
    rw [List.foldl_cons, ih hrest _ hlt, hadd, hm, sumProd]
    generalize ab.1 * ab.2 = x
    generalize sumProd rest = y
    unfold p61; omega

theorem plainDot_eq (pairs : List (Nat × Nat)) (h : ∀ ab ∈ pairs, ab.1 < p61 ∧ ab.2 < p61) :
    plainDot fp61 pairs = sumProd pairs % p61 := by
  have := plainDot_from pairs h 0 (by decide)
  simpa [plainDot] using this

/-- the accumulator never overflows its `u128` and tracks the exact sum modulo `p` -/
theorem acc_from (pairs : List (Nat × Nat)) (h : ∀ ab ∈ pairs, ab.1 < p61 ∧ ab.2 < p61) (s : Acc)
    (hc : s.count < 64) (hv : s.value ≤ 2305843009213693950 + s.count * M61) :
    ∃ s', pairs.foldl (accStep fp61 64) (some s) = some s' ∧ s'.count < 64 ∧
      s'.value ≤ 2305843009213693950 + s'.count * M61 ∧ s'.value % p61 = (s.value + sumProd pairs) % p61 := by
  induction pairs generalizing s with
  | nil => exact ⟨s, rfl, hc, hv, by simp [sumProd]⟩
  | cons ab rest ih =>
    obtain ⟨ha, hb⟩ := h ab (List.mem_cons_self)
    have hrest : ∀ x ∈ rest, x.1 < p61 ∧ x.2 < p61 := fun x hx => h x (List.mem_cons_of_mem _ hx)
    have hprod := prod_le ha hb
    have hno : ¬ (s.value + ab.1 * ab.2 ≥ 2 ^ 128) := by
      unfold M61 at hprod hv; omega
    rw [List.foldl_cons]
    by_cases hint : s.count + 1 = 64
    · have hstep : accStep fp61 64 (some s) ab = some { value := truncateFrom fp61 (s.value + ab.1 * ab.2), count := 0 } := by
        simp only [accStep, hno, if_false, hint, if_true]
      rw [hstep]
      have htr : truncateFrom fp61 (s.value + ab.1 * ab.2) = (s.value + ab.1 * ab.2) % p61 :=
        truncate61 (by unfold M61 at hprod hv; omega)
      have hlt : (s.value + ab.1 * ab.2) % p61 < p61 := Nat.mod_lt _ (by decide)
      obtain ⟨s', e, c', v', m'⟩ := ih hrest { value := truncateFrom fp61 (s.value + ab.1 * ab.2), count := 0 }
        (by show 0 < 64; decide)
        (by show truncateFrom fp61 (s.value + ab.1 * ab.2) ≤ 2305843009213693950 + 0 * M61
            rw [htr]; simp only [p61] at hlt ⊢; omega)
      refine ⟨s', e, c', v', ?_⟩
      rw [m', sumProd]
      show (truncateFrom fp61 (s.value + ab.1 * ab.2) + sumProd rest) % p61 = _
      rw [htr]
      generalize ab.1 * ab.2 = x
      generalize sumProd rest = y
      unfold p61; omega
    · have hstep : accStep fp61 64 (some s) ab = some { value := s.value + ab.1 * ab.2, count := s.count + 1 } := by
        simp only [accStep, hno, if_false, hint]
      rw [hstep]
      obtain ⟨s', e, c', v', m'⟩ := ih hrest { value := s.value + ab.1 * ab.2, count := s.count + 1 } (by show s.count + 1 < 64; omega)
        (by show s.value + ab.1 * ab.2 ≤ 2305843009213693950 + (s.count + 1) * M61; unfold M61 at *; omega)
      refine ⟨s', e, c', v', ?_⟩
      rw [m', sumProd]
      show (s.value + ab.1 * ab.2 + sumProd rest) % p61 = _
      rw [Nat.add_assoc]

theorem accDot_eq (pairs : List (Nat × Nat)) (h : ∀ ab ∈ pairs, ab.1 < p61 ∧ ab.2 < p61) :
    accDot fp61 64 pairs = some (sumProd pairs % p61) := by
  obtain ⟨s', e, c', v', m'⟩ := acc_from pairs h { value := 0, count := 0 } (by decide) (by decide)
  simp only [accDot, e]
  have : s'.value < 340282366920938463463374607431768211456 := by unfold M61 at v'; omega
  rw [truncate61 this, m']; simp

end IpaVerif.Acc
