import IpaVerif.Model.Hybrid
/-! Helper lemmas for C01, part B: `group_report_pairs_ordered` keeps exactly the keys with two reports. -/
namespace IpaVerif.C01
open IpaVerif.Hybrid

abbrev EMap := List (Nat × Entry)

def keysOf (m : EMap) : List Nat := m.map Prod.fst

def SortedKeys (m : EMap) : Prop := (keysOf m).Pairwise (· < ·)

def lookupE (k : Nat) (m : EMap) : Option Entry := (m.find? (fun ke => ke.1 == k)).map Prod.snd

/-- what `entry(k).and_modify(add).or_insert(Single)` does to the entry of `k`. -/
def bump (o : Option Entry) (r : Rec) : Entry :=
  match o with
  | none => .single r
  | some e => e.add r

theorem keysOf_upsert (k : Nat) (r : Rec) : ∀ m : EMap, ∀ x, x ∈ keysOf (upsert k r m) ↔ x = k ∨ x ∈ keysOf m
  | [], x => by simp [upsert, keysOf]
  | (k', e) :: rest, x => by
      have ih := keysOf_upsert k r rest x
      simp only [upsert]
      split
      · simp [keysOf]
      · split
        · subst_vars; simp [keysOf]
        · simp only [keysOf, List.map_cons, List.mem_cons] at ih ⊢
          rw [ih]; constructor <;> (intro h; rcases h with h | h | h <;> simp [h])

theorem sorted_upsert (k : Nat) (r : Rec) : ∀ m : EMap, SortedKeys m → SortedKeys (upsert k r m)
  | [], _ => by simp [upsert, SortedKeys, keysOf]
  | (k', e) :: rest, h => by
      simp only [SortedKeys, keysOf, List.map_cons, List.pairwise_cons] at h
      obtain ⟨h1, h2⟩ := h
      simp only [upsert]
      split
      · rename_i hlt
        simp only [SortedKeys, keysOf, List.map_cons, List.pairwise_cons, List.mem_cons]
        refine ⟨?_, h1, h2⟩
        intro x hx
        rcases hx with rfl | hx
        · exact hlt
        · exact Nat.lt_trans hlt (h1 x hx)
      · split
        · subst_vars
          simp only [SortedKeys, keysOf, List.map_cons, List.pairwise_cons]
          exact ⟨h1, h2⟩
        · rename_i hnlt hne
          have ih := sorted_upsert k r rest h2
          simp only [SortedKeys, keysOf, List.map_cons, List.pairwise_cons]
          refine ⟨?_, ih⟩
          intro x hx
          have := (keysOf_upsert k r rest x).mp hx
          rcases this with rfl | hx'
          · omega
          · exact h1 x hx'

theorem lookup_upsert (k : Nat) (r : Rec) : ∀ m : EMap, SortedKeys m → ∀ x,
    lookupE x (upsert k r m) = if x = k then some (bump (lookupE k m) r) else lookupE x m
  | [], _, x => by
      by_cases hx : x = k
      · subst hx; simp [upsert, lookupE, bump]
      · have : (k == x) = false := by simpa using fun h => hx h.symm
        simp [upsert, lookupE, hx, this]
  | (k', e) :: rest, h, x => by
      simp only [SortedKeys, keysOf, List.map_cons, List.pairwise_cons] at h
      obtain ⟨h1, h2⟩ := h
      have ih := lookup_upsert k r rest h2 x
      simp only [upsert]
      split
      · rename_i hlt
        -- inserted in front; `k` does not occur in the map (all keys are > k)
        have hk' : (k' == k) = false := by simpa using (by omega : k' ≠ k)
        have hnone : lookupE k ((k', e) :: rest) = none := by
          simp only [lookupE, List.find?_cons, hk', Option.map_eq_none_iff, List.find?_eq_none]
          intro ke hke
          have := h1 ke.1 (List.mem_map_of_mem (f := Prod.fst) hke)
          simpa using (by omega : ke.1 ≠ k)
        by_cases hx : x = k
        · subst hx
          rw [if_pos rfl, hnone]
          simp [lookupE, bump]
        · have : (k == x) = false := by simpa using fun h => hx h.symm
          simp [lookupE, hx, this]
      · split
        · rename_i hnlt heq
          subst heq
          by_cases hx : x = k
          · subst hx; simp [lookupE, bump]
          · have : (k == x) = false := by simpa using fun h => hx h.symm
            simp [lookupE, hx, this]
        · rename_i hnlt hne
          have hk' : (k' == k) = false := by simpa using (fun h => hne h.symm)
          by_cases hx : x = k
          · subst hx
            simp only [lookupE, List.find?_cons, hk', if_true] at ih ⊢
            simpa using ih
          · simp only [hx, if_false] at ih ⊢
            simp only [lookupE, List.find?_cons] at ih ⊢
            split <;> simp_all

def insertAll (m : EMap) (reports : List (Nat × Rec)) : EMap :=
  reports.foldl (fun m (kr : Nat × Rec) => upsert kr.1 kr.2 m) m

def entryFold (o : Option Entry) (rs : List Rec) : Option Entry :=
  rs.foldl (fun o r => some (bump o r)) o

theorem sorted_insertAll : ∀ (reports : List (Nat × Rec)) (m : EMap), SortedKeys m → SortedKeys (insertAll m reports)
  | [], _, h => h
  | kr :: rest, m, h => sorted_insertAll rest _ (sorted_upsert kr.1 kr.2 m h)

theorem keys_insertAll : ∀ (reports : List (Nat × Rec)) (m : EMap) (x : Nat),
    x ∈ keysOf (insertAll m reports) ↔ x ∈ keysOf m ∨ x ∈ reports.map Prod.fst
  | [], m, x => by simp [insertAll]
  | kr :: rest, m, x => by
      have ih := keys_insertAll rest (upsert kr.1 kr.2 m) x
      simp only [insertAll, List.foldl_cons] at ih ⊢
      rw [ih, keysOf_upsert]
      simp only [List.map_cons, List.mem_cons]
      constructor
      · rintro ((h | h) | h) <;> simp [h]
      · rintro (h | h | h) <;> simp [h]

theorem lookup_insertAll : ∀ (reports : List (Nat × Rec)) (m : EMap), SortedKeys m → ∀ x,
    lookupE x (insertAll m reports)
      = entryFold (lookupE x m) ((reports.filter (fun kr => kr.1 == x)).map Prod.snd)
  | [], m, _, x => by simp [insertAll, entryFold]
  | kr :: rest, m, h, x => by
      have ih := lookup_insertAll rest (upsert kr.1 kr.2 m) (sorted_upsert kr.1 kr.2 m h) x
      simp only [insertAll, List.foldl_cons] at ih ⊢
      rw [ih, lookup_upsert kr.1 kr.2 m h x]
      by_cases hx : x = kr.1
      · subst hx
        simp [entryFold]
      · have : (kr.1 == x) = false := by simpa using fun h => hx h.symm
        simp [hx, this]

/-- value a list of reports sharing one key adds to bucket `b` (non-zero only for exactly two reports). -/
def listVal (w : Widths) (b : Nat) : List Rec → Nat
  | [r1, r2] => if (r1.bk + r2.bk) % 2 ^ w.bkW = b then (r1.v + r2.v) % 2 ^ w.vW else 0
  | _ => 0

def entryVal (w : Widths) (b : Nat) : Option Entry → Nat
  | some (.pair r1 r2) => if (r1.bk + r2.bk) % 2 ^ w.bkW = b then (r1.v + r2.v) % 2 ^ w.vW else 0
  | _ => 0

theorem entryFold_more : ∀ rs : List Rec, entryFold (some .moreThanTwo) rs = some .moreThanTwo
  | [] => rfl
  | r :: rs => by simp [entryFold, bump, Entry.add] at *; exact entryFold_more rs

theorem entryVal_entryFold (w : Widths) (b : Nat) : ∀ rs : List Rec,
    entryVal w b (entryFold none rs) = listVal w b rs
  | [] => rfl
  | [r] => rfl
  | [r1, r2] => rfl
  | r1 :: r2 :: r3 :: rest => by
      have : entryFold none (r1 :: r2 :: r3 :: rest) = entryFold (some .moreThanTwo) rest := by
        simp [entryFold, bump, Entry.add]
      rw [this, entryFold_more]
      simp [entryVal, listVal]

theorem keyBucketValue_eq_listVal (w : Widths) (input : List Rec) (k b : Nat) :
    keyBucketValue w input k b = listVal w b (keyRows input k) := by
  unfold keyBucketValue listVal
  split <;> simp_all

end IpaVerif.C01
