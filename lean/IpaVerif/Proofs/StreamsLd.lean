import IpaVerif.Proofs.StreamsRecords
/-! C17: `LengthDelimitedStream` against the chunk-free specification of the wire format. -/
namespace IpaVerif.Streams

/-- how `LengthDelimitedStream` must end in logical state (pending length `p`, remaining bytes `R`). -/
def ldTerminal (hasErr : Bool) (p : Option Nat) (R : Bytes) : Item :=
  if hasErr then .errUpstream
  else if R.length > 0 then .errTrailing R.length
  else if p.isSome then .errTrailing 2
  else .done

/-- The chunk-free specification of the wire format: `u16` little-endian length, then that many
bytes; `p` is a length that has already been read. -/
def specLd (hasErr : Bool) : Option Nat → Bytes → List Item
  | none, R =>
    if _h : R.length < 2 then [ldTerminal hasErr none R]
    else specLd hasErr (some (le16 (R.take 2))) (R.drop 2)
  | some len, R =>
    if _h : R.length < len then [ldTerminal hasErr (some len) R]
    else .record (R.take len) :: specLd hasErr none (R.drop len)
termination_by p R => 2 * R.length + (if p.isSome then 1 else 0)
decreasing_by
  · simp only [List.length_drop, Option.isSome_some, Option.isSome_none]; simp; omega
  · simp only [List.length_drop, Option.isSome_some, Option.isSome_none]; simp; omega

theorem specLd_none (e : Bool) (R : Bytes) :
    specLd e none R = if R.length < 2 then [ldTerminal e none R]
      else specLd e (some (le16 (R.take 2))) (R.drop 2) := by
  conv => lhs; unfold specLd
  by_cases h : R.length < 2 <;> simp [h]

theorem specLd_some (e : Bool) (len : Nat) (R : Bytes) :
    specLd e (some len) R = if R.length < len then [ldTerminal e (some len) R]
      else .record (R.take len) :: specLd e none (R.drop len) := by
  conv => lhs; unfold specLd
  by_cases h : R.length < len <;> simp [h]

def LState.rest (s : LState) : Bytes := s.buf.bytes ++ upBytes s.up

/-- logical progress measure: strictly decreases with every emitted record. -/
def LState.mu (s : LState) : Nat := 2 * s.rest.length + (if s.pending.isSome then 1 else 0)

/-- loop measure of one poll. -/
def LState.nu (s : LState) : Nat :=
  2 * (s.buf.size + totalBytes s.up) + (if s.pending.isSome then 1 else 0) + s.up.length

/-- header step against the logical state. -/
theorem ldHeader_spec (e : Bool) (p : Option Nat) (b : BufDeque) (hw : b.WF) (tail : Bytes) :
    ∃ h p1 b1, ldHeader p b = (h, p1, b1) ∧ h ≠ .panic ∧ b1.WF ∧
      specLd e p (b.bytes ++ tail) = specLd e p1 (b1.bytes ++ tail) ∧
      -- nothing read: state unchanged and, if no length is pending, fewer than 2 bytes are buffered
      ((h = .none ∧ p1 = p ∧ b1 = b ∧ (p = none → b.size < 2)) ∨
       (∃ bs, h = .some bs ∧ p = none ∧ p1.isSome ∧ b1.size + 2 = b.size)) := by
  cases p with
  | some len => exact ⟨.none, some len, b, rfl, by simp, hw, rfl, Or.inl ⟨rfl, rfl, rfl, fun h => by cases h⟩⟩
  | none =>
    unfold ldHeader
    simp only []
    by_cases h2 : 2 ≤ b.size
    · obtain ⟨b1, h1, hw1, hb1⟩ := readBytes_some hw 2 (by omega) h2
      rw [h1]
      simp only []
      have hlen : 2 ≤ b.bytes.length := by rw [← hw]; exact h2
      refine ⟨_, _, _, rfl, by simp, hw1, ?_, Or.inr ⟨_, rfl, by simp, by simp, ?_⟩⟩
      · rw [specLd_none]
        have : ¬ (b.bytes ++ tail).length < 2 := by rw [List.length_append]; omega
        simp only [this, if_false]
        rw [List.take_append_of_le_length hlen, List.drop_append_of_le_length hlen, hb1]
      · rw [hw1, hb1, hw, List.length_drop]; omega
    · rw [readBytes_none _ _ (Or.inr (by omega))]
      simp only []
      exact ⟨_, _, _, rfl, by simp, hw, rfl, Or.inl ⟨rfl, rfl, rfl, fun _ => by omega⟩⟩

/-- body step against the logical state. -/
theorem ldBody_spec (e : Bool) (p : Option Nat) (b : BufDeque) (hw : b.WF) (tail : Bytes) :
    (∃ bs b2 len, ldBody p b = (.some bs, b2) ∧ p = some len ∧ b2.WF ∧ bs.length = len ∧
        b2.size + len = b.size ∧
        specLd e p (b.bytes ++ tail) = .record bs :: specLd e none (b2.bytes ++ tail)) ∨
    (ldBody p b = (.none, b) ∧ (∀ len, p = some len → b.size < len)) := by
  cases p with
  | none => exact Or.inr ⟨rfl, fun _ h => by cases h⟩
  | some len =>
    unfold ldBody
    simp only []
    by_cases h0 : len = 0
    · subst h0
      simp only [if_true]
      refine Or.inl ⟨[], b, 0, rfl, rfl, hw, rfl, rfl, ?_⟩
      rw [specLd_some]; simp
    · simp only [h0, if_false]
      by_cases hl : len ≤ b.size
      · obtain ⟨b2, h1, hw2, hb2⟩ := readBytes_some hw len (by omega) hl
        have hlen : len ≤ b.bytes.length := by rw [← hw]; exact hl
        refine Or.inl ⟨_, b2, len, h1, rfl, hw2, by rw [List.length_take]; omega, ?_, ?_⟩
        · rw [hw2, hb2, hw, List.length_drop]; omega
        · rw [specLd_some]
          have : ¬ (b.bytes ++ tail).length < len := by rw [List.length_append]; omega
          simp only [this, if_false]
          rw [List.take_append_of_le_length hlen, List.drop_append_of_le_length hlen, hb2]
      · rw [readBytes_none _ _ (Or.inr (by omega))]
        exact Or.inr ⟨rfl, fun l h => by cases h; omega⟩

theorem ldTerminal_isTerminal (e p R) : (ldTerminal e p R).isTerminal = true := by
  unfold ldTerminal; split
  · rfl
  · split
    · rfl
    · split <;> rfl

/-- outcome of one `poll_next`, in terms of the chunk-free specification. -/
def PollOk (s : LState) (l : LLocals) (it : Item) (s' : LState) : Prop :=
  (∃ recs, it = .batch (l.items ++ recs) ∧ l.items ++ recs ≠ [] ∧
      specLd (upErr s.up) s.pending s.rest = recs.map .record ++ specLd (upErr s'.up) s'.pending s'.rest ∧
      upErr s'.up = upErr s.up ∧ s'.mu + recs.length ≤ s.mu) ∨
  (l.items = [] ∧ it.isTerminal = true ∧ specLd (upErr s.up) s.pending s.rest = [it])

theorem ldPoll_spec : ∀ (fuel : Nat) (s : LState) (l : LLocals), s.buf.WF → s.nu < fuel →
    ∃ it s', ldPoll fuel s l = (it, s') ∧ s'.buf.WF ∧ PollOk s l it s' := by
  intro fuel
  induction fuel with
  | zero => intro s l _ h; omega
  | succ fuel ih =>
    intro s l hw hf
    obtain ⟨h, p1, b1, hh, hnp, hw1, hspec1, hcase1⟩ :=
      ldHeader_spec (upErr s.up) s.pending s.buf hw (upBytes s.up)
    -- sizes after the header step
    have hsz1 : b1.size ≤ s.buf.size ∧ (2 * b1.size + (if p1.isSome then 1 else 0) ≤
        2 * s.buf.size + (if s.pending.isSome then 1 else 0)) := by
      rcases hcase1 with ⟨_, e1, e2, _⟩ | ⟨bs, _, e1, e2, e3⟩
      · rw [e1, e2]; exact ⟨Nat.le_refl _, Nat.le_refl _⟩
      · rw [e1]; simp only [e2, if_true, Option.isSome_none]; simp; omega
    obtain hbody | hbody := ldBody_spec (upErr s.up) p1 b1 hw1 (upBytes s.up)
    · -- a record is available
      obtain ⟨bs, b2, len, hb, hp1, hw2, hbl, hsz2, hspec2⟩ := hbody
      have hstep : ldPoll (fuel + 1) s l =
          (if l.available ≠ 0 ∧ consumedAfter h l.consumed + bs.length < l.available then
            ldPoll fuel { s with buf := b2, pending := none }
              { l with consumed := consumedAfter h l.consumed + bs.length, items := l.items ++ [bs] }
          else (.batch (l.items ++ [bs]), { s with buf := b2, pending := none })) := by
        simp only [ldPoll, hh]
        cases h with
        | panic => exact absurd rfl hnp
        | none => simp only [hb]
        | some x => simp only [hb]
      rw [hstep]
      let s2 : LState := { s with buf := b2, pending := none }
      have hrest2 : s2.rest = b2.bytes ++ upBytes s.up := rfl
      have hspec : specLd (upErr s.up) s.pending s.rest =
          .record bs :: specLd (upErr s2.up) s2.pending s2.rest := by
        show specLd (upErr s.up) s.pending (s.buf.bytes ++ upBytes s.up) = _
        rw [hspec1, hspec2]
        rfl
      have hmu : s2.mu + 1 ≤ s.mu := by
        unfold LState.mu LState.rest
        show 2 * (b2.bytes ++ upBytes s.up).length + (if (none : Option Nat).isSome then 1 else 0) + 1 ≤ _
        simp only [List.length_append, Option.isSome_none, Bool.false_eq_true, if_false]
        have h1 := hsz1.2
        rw [hp1] at h1
        simp only [Option.isSome_some, if_true] at h1
        rw [← hw2, ← hw]
        omega
      have hnu : s2.nu < s.nu := by
        unfold LState.nu
        show 2 * (b2.size + totalBytes s.up) + (if (none : Option Nat).isSome then 1 else 0) + s.up.length < _
        have h1 := hsz1.2
        rw [hp1] at h1
        simp only [Option.isSome_some, if_true] at h1
        simp only [Option.isSome_none, Bool.false_eq_true, if_false]
        omega
      by_cases hcont : l.available ≠ 0 ∧
          consumedAfter h l.consumed + bs.length < l.available
      · rw [if_pos hcont]
        obtain ⟨it, s', hp, hw', hok⟩ := ih s2
          { l with consumed := consumedAfter h l.consumed + bs.length, items := l.items ++ [bs] }
          hw2 (by omega)
        refine ⟨it, s', hp, hw', ?_⟩
        rcases hok with ⟨recs, e1, e2, e3, e4, e5⟩ | ⟨e1, _⟩
        · refine Or.inl ⟨bs :: recs, ?_, ?_, ?_, e4, ?_⟩
          · rw [e1]; simp
          · simp
          · rw [hspec, e3]; simp
          · simp only [List.length_cons]; omega
        · simp at e1
      · rw [if_neg hcont]
        refine ⟨_, s2, rfl, hw2, Or.inl ⟨[bs], rfl, by simp, ?_, rfl, ?_⟩⟩
        · rw [hspec]; simp
        · simp only [List.length_singleton]; omega
    · -- no record available right now
      obtain ⟨hb, hlt⟩ := hbody
      let s1 : LState := { s with buf := b1, pending := p1 }
      have hspecA : specLd (upErr s.up) s.pending s.rest = specLd (upErr s1.up) s1.pending s1.rest := by
        show specLd (upErr s.up) s.pending (s.buf.bytes ++ upBytes s.up) = _
        rw [hspec1]; rfl
      have hmu1 : s1.mu ≤ s.mu := by
        unfold LState.mu LState.rest
        show 2 * (b1.bytes ++ upBytes s.up).length + (if p1.isSome then 1 else 0) ≤ _
        simp only [List.length_append]
        rw [← hw1, ← hw]
        have := hsz1.2
        omega
      have hstep : ldPoll (fuel + 1) s l =
          (if !l.items.isEmpty then (.batch l.items, s1) else
            match s.up with
            | [] =>
              if b1.size > 0 then (.errTrailing b1.size, s1)
              else if p1.isSome then (.errTrailing 2, s1)
              else (.done, s1)
            | .err :: rest => (.errUpstream, { buf := b1, pending := p1, up := rest })
            | .chunk c :: rest =>
              ldPoll fuel { buf := b1.push c, pending := p1, up := rest }
                { l with available := if l.available = 0 then (b1.push c).contiguousLen else l.available,
                         consumed := consumedAfter h l.consumed }) := by
        simp only [ldPoll, hh]
        cases h with
        | panic => exact absurd rfl hnp
        | none => simp only [hb]; rfl
        | some x => simp only [hb]; rfl
      rw [hstep]
      by_cases hemp : l.items.isEmpty = true
      · simp only [hemp, Bool.not_true, Bool.false_eq_true, if_false]
        have hitems : l.items = [] := List.isEmpty_iff.1 hemp
        -- nothing can be decoded from what is buffered
        have hstuck : ∀ tail, (b1.bytes ++ tail).length = b1.size + tail.length := by
          intro tail; rw [List.length_append, hw1]
        have hp1none : p1 = none → b1.size < 2 := by
          intro hpn
          rcases hcase1 with ⟨_, e1, e2, e3⟩ | ⟨bs, _, _, e2, _⟩
          · rw [e2]; exact e3 (by rw [← e1]; exact hpn)
          · rw [hpn] at e2; simp at e2
        cases hup : s.up with
        | nil =>
          simp only []
          have hr1 : s1.rest = b1.bytes := by
            show b1.bytes ++ upBytes s.up = _; rw [hup]; simp [upBytes]
          have he : upErr s.up = false := by rw [hup]; rfl
          have hterm : specLd false p1 b1.bytes = [ldTerminal false p1 b1.bytes] := by
            cases hp : p1 with
            | none =>
              rw [specLd_none]
              have := hp1none hp
              rw [hw1] at this
              simp [this]
            | some len =>
              rw [specLd_some]
              have := hlt len hp
              rw [hw1] at this
              simp [this]
          have hmodel : (if b1.size > 0 then (Item.errTrailing b1.size, s1)
              else if p1.isSome then (.errTrailing 2, s1) else (.done, s1)) =
              (ldTerminal false p1 b1.bytes, s1) := by
            unfold ldTerminal
            rw [← hw1]
            simp only [Bool.false_eq_true, if_false]
            split
            · rfl
            · split <;> rfl
          rw [hmodel]
          refine ⟨_, s1, rfl, hw1, Or.inr ⟨hitems, ldTerminal_isTerminal _ _ _, ?_⟩⟩
          rw [hspecA, hr1]
          show specLd (upErr s.up) p1 b1.bytes = _
          rw [he, hterm]
        | cons u rest =>
          cases u with
          | err =>
            simp only []
            have he : upErr s.up = true := by rw [hup]; rfl
            have hr1 : s1.rest = b1.bytes := by
              show b1.bytes ++ upBytes s.up = _; rw [hup]; simp [upBytes]
            have hterm : specLd true p1 b1.bytes = [Item.errUpstream] := by
              cases hp : p1 with
              | none =>
                rw [specLd_none]
                have := hp1none hp
                rw [hw1] at this
                simp [this, ldTerminal]
              | some len =>
                rw [specLd_some]
                have := hlt len hp
                rw [hw1] at this
                simp [this, ldTerminal]
            refine ⟨_, _, rfl, hw1, Or.inr ⟨hitems, rfl, ?_⟩⟩
            rw [hspecA, hr1]
            show specLd (upErr s.up) p1 b1.bytes = _
            rw [he, hterm]
          | chunk c =>
            simp only []
            let s3 : LState := { buf := b1.push c, pending := p1, up := rest }
            have hnu3 : s3.nu < s.nu := by
              unfold LState.nu
              show 2 * ((b1.push c).size + totalBytes rest) + (if p1.isSome then 1 else 0) + rest.length < _
              rw [hup]
              simp only [BufDeque.push, totalBytes, List.length_cons]
              have := hsz1.2
              omega
            obtain ⟨it, s', hp, hw', hok⟩ := ih s3
              { l with available := if l.available = 0 then (b1.push c).contiguousLen else l.available,
                       consumed := consumedAfter h l.consumed }
              (wf_push hw1 c) (by omega)
            refine ⟨it, s', hp, hw', ?_⟩
            have hr3 : s3.rest = s1.rest := by
              show (b1.push c).bytes ++ upBytes rest = b1.bytes ++ upBytes s.up
              rw [hup, bytes_push]; simp [upBytes]
            have he3 : upErr s3.up = upErr s.up := by rw [hup]; rfl
            have hmu3 : s3.mu = s1.mu := by
              unfold LState.mu; rw [hr3]
            unfold PollOk at hok ⊢
            rw [hr3, he3] at hok
            rcases hok with ⟨recs, e1, e2, e3, e4, e5⟩ | ⟨e1, e2, e3⟩
            · exact Or.inl ⟨recs, e1, e2, by rw [hspecA]; exact e3, e4, by omega⟩
            · exact Or.inr ⟨e1, e2, by rw [hspecA]; exact e3⟩
      · have hemp' : l.items.isEmpty = false := by simpa using hemp
        simp only [hemp', Bool.not_false, if_true]
        refine ⟨_, s1, rfl, hw1, Or.inl ⟨[], by simp, ?_, ?_, rfl, by simpa using hmu1⟩⟩
        · simp only [List.append_nil]
          intro h0; rw [h0] at hemp'; simp at hemp'
        · rw [hspecA]; simp

theorem upBytes_le_total : ∀ up : List Up, (upBytes up).length ≤ totalBytes up := by
  intro up
  induction up with
  | nil => simp [upBytes, totalBytes]
  | cons u r ih =>
    cases u with
    | err => simp [upBytes, totalBytes]
    | chunk c => simp [upBytes, totalBytes]; omega

theorem flattenItems_terminal (it : Item) (h : it.isTerminal = true) : flattenItems [it] = [it] := by
  cases it <;> simp_all [flattenItems, Item.isTerminal]

theorem nu_lt_ldFuel (s : LState) : s.nu < ldFuel s := by
  unfold LState.nu ldFuel
  split <;> omega

theorem ldRun_spec : ∀ (fuel : Nat) (s : LState), s.buf.WF → s.mu < fuel →
    flattenItems (ldRun fuel s) = specLd (upErr s.up) s.pending s.rest := by
  intro fuel
  induction fuel with
  | zero => intro s _ h; omega
  | succ fuel ih =>
    intro s hw hf
    obtain ⟨it, s', hp, hw', hok⟩ := ldPoll_spec (ldFuel s) s {} hw (nu_lt_ldFuel s)
    simp only [ldRun, hp]
    rcases hok with ⟨recs, e1, e2, e3, e4, e5⟩ | ⟨_, e2, e3⟩
    · have hi : ({} : LLocals).items = [] := rfl
      rw [hi, List.nil_append] at e1 e2
      subst e1
      simp only [Item.isTerminal, Bool.false_eq_true, if_false, flattenItems]
      have hl : 1 ≤ recs.length := by
        cases recs with
        | nil => exact absurd rfl e2
        | cons _ _ => simp
      rw [ih s' hw' (by omega), e3]
    · simp only [e2, if_true]
      rw [flattenItems_terminal it e2, e3]

/-- the whole stream. -/
theorem lengthDelimited_spec (up : List Up) :
    flattenItems (lengthDelimited up) = specLd (upErr up) none (upBytes up) := by
  unfold lengthDelimited
  have := ldRun_spec (2 * totalBytes up + 2) { buf := .empty, pending := none, up := up } wf_empty
    (by
      unfold LState.mu LState.rest
      have := upBytes_le_total up
      simp [bytes_empty]
      omega)
  rw [this]
  simp [LState.rest, bytes_empty]

theorem records_spec (batch : Bool) (sz : Nat) (hsz : 0 < sz) (up : List Up) :
    flattenItems (records batch sz up) = specRecords sz (upBytes up) (upErr up) ∧
    (batch = false → records batch sz up = specRecords sz (upBytes up) (upErr up)) := by
  unfold records
  have := recordsRun_spec batch sz hsz (totalBytes up + 2) { buf := .empty, up := up } wf_empty
    (by
      have := upBytes_le_total up
      simp [RState.rest, bytes_empty]
      omega)
  simpa [RState.rest, bytes_empty] using this

end IpaVerif.Streams
