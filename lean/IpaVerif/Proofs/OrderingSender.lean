import IpaVerif.Model.OrderingSender
import IpaVerif.Model.SenderSpec
import IpaVerif.Proofs.CircularBuf
namespace IpaVerif.OrderingSender
open IpaVerif.CircularBuf

abbrev Desc (l : List WakerItem) : Prop := l.Pairwise (fun a b => a.i > b.i)
abbrev Asc (l : List WakerItem) : Prop := l.Pairwise (fun a b => a.i < b.i)

theorem addRev_mem_self (item : WakerItem) (l : List WakerItem) : item ∈ addRev item l := by
  induction l with
  | nil => simp [addRev]
  | cons x rest ih =>
    simp only [addRev]
    split
    · exact List.mem_cons_of_mem _ ih
    · split <;> simp

theorem addRev_mem_old {item x : WakerItem} {l : List WakerItem} (hx : x ∈ l) (hne : x.i ≠ item.i) :
    x ∈ addRev item l := by
  induction l with
  | nil => cases hx
  | cons y rest ih =>
    simp only [addRev]
    rcases List.mem_cons.mp hx with rfl | hx'
    · split
      · simp
      · simp
    · split
      · exact List.mem_cons_of_mem _ (ih hx')
      · split
        · exact List.mem_cons_of_mem _ hx'
        · exact List.mem_cons_of_mem _ (List.mem_cons_of_mem _ hx')

theorem addRev_mem_cases {item y : WakerItem} {l : List WakerItem} (hy : y ∈ addRev item l) :
    y = item ∨ y ∈ l := by
  induction l with
  | nil => simp [addRev] at hy; exact Or.inl hy
  | cons x rest ih =>
    simp only [addRev] at hy
    split at hy
    · rcases List.mem_cons.mp hy with rfl | h
      · right; simp
      · rcases ih h with h | h
        · exact Or.inl h
        · right; exact List.mem_cons_of_mem _ h
    · split at hy
      · rcases List.mem_cons.mp hy with rfl | h
        · exact Or.inl rfl
        · right; exact List.mem_cons_of_mem _ h
      · rcases List.mem_cons.mp hy with rfl | h
        · exact Or.inl rfl
        · right; exact h

theorem addRev_desc {item : WakerItem} {l : List WakerItem} (h : Desc l) : Desc (addRev item l) := by
  induction l with
  | nil => simp [addRev, Desc]
  | cons x rest ih =>
    have hx := (List.pairwise_cons.mp h)
    simp only [addRev]
    split
    · rename_i hgt
      refine List.pairwise_cons.mpr ⟨?_, ih hx.2⟩
      intro y hy
      rcases addRev_mem_cases hy with rfl | hy'
      · exact hgt
      · exact hx.1 y hy'
    · split
      · rename_i heq
        refine List.pairwise_cons.mpr ⟨?_, hx.2⟩
        intro y hy; have := hx.1 y hy; omega
      · refine List.pairwise_cons.mpr ⟨?_, h⟩
        intro y hy
        rcases List.mem_cons.mp hy with rfl | hy'
        · omega
        · have := hx.1 y hy'; omega

/-- `WaitingShard::add` on a sorted shard. -/
theorem Shard.add_spec {s s' : Shard} {cur i : Nat} {t : Task} (hs : Asc s.wakers)
    (h : s.add cur i t = some s') :
    Asc s'.wakers ∧ ⟨i, t⟩ ∈ s'.wakers ∧ s'.wokenAt = s.wokenAt ∧
    (∀ x ∈ s.wakers, x.i ≠ i → x ∈ s'.wakers) := by
  unfold Shard.add at h
  split at h
  · cases h
  · cases h
    refine ⟨?_, ?_, rfl, ?_⟩
    · show Asc (addRev ⟨i, t⟩ s.wakers.reverse).reverse
      rw [Asc, List.pairwise_reverse]
      apply addRev_desc
      rw [Desc, List.pairwise_reverse]
      exact hs
    · simp only [List.mem_reverse]; exact addRev_mem_self _ _
    · intro x hx hne
      simp only [List.mem_reverse]
      exact addRev_mem_old (List.mem_reverse.mpr hx) hne

theorem Shard.add_ok {s : Shard} {cur : Nat} (h : s.wokenAt ≤ cur) (i : Nat) (t : Task) :
    ∃ s', s.add cur i t = some s' := by
  unfold Shard.add
  rw [if_neg (by omega)]
  exact ⟨_, rfl⟩

/-- What `wakeList` leaves behind, for any list. -/
theorem wakeList_rest {i : Nat} {l : List WakerItem} {t : Task} {rest : List WakerItem}
    (h : wakeList i l = some (t, rest)) :
    (∃ pre, l = pre ++ ⟨i, t⟩ :: rest ∧ ∀ x ∈ pre, x.i < i) := by
  induction l with
  | nil => cases h
  | cons x xs ih =>
    simp only [wakeList] at h
    split at h
    · rename_i heq
      cases h
      exact ⟨[], by cases x; simp_all, by simp⟩
    · split at h
      · obtain ⟨pre, hpre, hlt⟩ := ih h
        refine ⟨x :: pre, by rw [hpre]; rfl, ?_⟩
        intro y hy
        rcases List.mem_cons.mp hy with rfl | hy'
        · omega
        · exact hlt y hy'
      · cases h

/-- In a sorted shard the waker saved for index `i` is found. -/
theorem wakeList_finds {i : Nat} {l : List WakerItem} {t : Task} (hs : Asc l) (hm : ⟨i, t⟩ ∈ l) :
    ∃ rest, wakeList i l = some (t, rest) := by
  induction l with
  | nil => cases hm
  | cons x xs ih =>
    have hx := List.pairwise_cons.mp hs
    simp only [wakeList]
    rcases List.mem_cons.mp hm with rfl | hm'
    · simp
    · have := hx.1 _ hm'
      simp only [] at this
      rw [if_neg (by omega), if_pos (by omega)]
      exact ih hx.2 hm'

/-- `WaitingShard::wake` on a sorted shard. -/
theorem Shard.wake_spec (s : Shard) (i : Nat) (hs : Asc s.wakers) :
    Asc (s.wake i).1.wakers ∧ (s.wake i).1.wokenAt = max s.wokenAt i ∧
    (∀ x ∈ s.wakers, x.i > i → x ∈ (s.wake i).1.wakers) ∧
    (∀ t, ⟨i, t⟩ ∈ s.wakers → t ∈ (s.wake i).2) := by
  unfold Shard.wake
  cases hw : wakeList i s.wakers with
  | none =>
    refine ⟨hs, rfl, fun x hx _ => hx, ?_⟩
    intro t ht
    obtain ⟨rest, hr⟩ := wakeList_finds hs ht
    rw [hw] at hr; cases hr
  | some p =>
    obtain ⟨t, rest⟩ := p
    obtain ⟨pre, hpre, hlt⟩ := wakeList_rest hw
    refine ⟨?_, rfl, ?_, ?_⟩
    · rw [hpre] at hs
      exact (List.pairwise_cons.mp (List.pairwise_append.mp hs).2.1).2
    · intro x hx hgt
      rw [hpre] at hx
      rcases List.mem_append.mp hx with h | h
      · have := hlt x h; omega
      · rcases List.mem_cons.mp h with rfl | h'
        · simp at hgt
        · exact h'
    · intro t' ht'
      obtain ⟨rest', hr⟩ := wakeList_finds hs ht'
      rw [hw] at hr; cases hr; simp


/-- Shard part of the invariant. -/
structure ShardsOk (sh : Nat → Shard) (next : Nat) : Prop where
  sorted : ∀ k, Asc (sh k).wakers
  woken_le : ∀ k, (sh k).wokenAt ≤ next

theorem waitingWake_spec (s : State) (j : Nat) (h : ShardsOk s.shards s.next) (hj : j ≤ s.next) :
    let r := s.waitingWake j
    r.1.next = s.next ∧ r.1.buf = s.buf ∧ r.1.writeReady = s.writeReady ∧
    r.1.streamReady = s.streamReady ∧ ShardsOk r.1.shards s.next ∧
    (∀ k x, x ∈ (s.shards k).wakers → x.i > j → x ∈ (r.1.shards k).wakers) ∧
    (∀ t, ⟨j, t⟩ ∈ (s.shards (shardIdx j)).wakers → t ∈ r.2) := by
  have hw := Shard.wake_spec (s.shards (shardIdx j)) j (h.sorted _)
  show (_ ∧ _ ∧ _ ∧ _ ∧ _ ∧ _ ∧ _)
  unfold State.waitingWake
  refine ⟨rfl, rfl, rfl, rfl, ⟨?_, ?_⟩, ?_, hw.2.2.2⟩
  · intro k; by_cases hk : k = shardIdx j
    · simp only [hk, if_true]; exact hw.1
    · simp only [hk, if_false]; exact h.sorted k
  · intro k; by_cases hk : k = shardIdx j
    · simp only [hk, if_true]; rw [hw.2.1]; have := h.woken_le (shardIdx j); omega
    · simp only [hk, if_false]; exact h.woken_le k
  · intro k x hx hgt; by_cases hk : k = shardIdx j
    · subst hk; simp only [if_true]; exact hw.2.2.1 x hx hgt
    · simp only [hk, if_false]; exact hx

theorem waitingAdd_spec (s : State) (i : Nat) (t : Task) (h : ShardsOk s.shards s.next) :
    ∃ s', s.waitingAdd i t = .ok s' ∧ s'.next = s.next ∧ s'.buf = s.buf ∧
      s'.writeReady = s.writeReady ∧ s'.streamReady = s.streamReady ∧ ShardsOk s'.shards s.next ∧
      ⟨i, t⟩ ∈ (s'.shards (shardIdx i)).wakers ∧
      (∀ k x, x ∈ (s.shards k).wakers → x.i ≠ i → x ∈ (s'.shards k).wakers) := by
  obtain ⟨sh, hsh⟩ := Shard.add_ok (h.woken_le (shardIdx i)) i t
  have ha := Shard.add_spec (h.sorted _) hsh
  simp only [State.waitingAdd, hsh]
  refine ⟨_, rfl, rfl, rfl, rfl, rfl, ⟨?_, ?_⟩, ?_, ?_⟩
  · intro k; by_cases hk : k = shardIdx i
    · simp only [hk, if_true]; exact ha.1
    · simp only [hk, if_false]; exact h.sorted k
  · intro k; by_cases hk : k = shardIdx i
    · simp only [hk, if_true]; rw [ha.2.2.1]; exact h.woken_le _
    · simp only [hk, if_false]; exact h.woken_le k
  · simp only [if_true]; exact ha.2.1
  · intro k x hx hne; by_cases hk : k = shardIdx i
    · subst hk; simp only [if_true]; exact ha.2.2.2 x hx hne
    · simp only [hk, if_false]; exact hx

/-- Simulation relation between the poll-level model and the specification. -/
structure SR (s : State) (p : Spec) : Prop where
  buf : R ⟨p.cap, p.ws, p.rs⟩ s.buf ⟨p.q, p.closed⟩
  next_eq : s.next = p.next
  wr_eq : s.writeReady = p.fullWait
  sr_eq : s.streamReady = p.readWait
  shards : ShardsOk s.shards s.next
  parked : ∀ i t, (i, t) ∈ p.idxWait → i > p.next → ⟨i, t⟩ ∈ (s.shards (shardIdx i)).wakers

theorem SR.canRead_eq {s : State} {p : Spec} (h : SR s p) : s.buf.canRead = p.canRead := by
  have := h.buf.obs_eq
  simp only [Buf.obs, specObs, Obs.mk.injEq] at this
  exact this.2.1

theorem SR.canWrite_eq {s : State} {p : Spec} (h : SR s p) : s.buf.canWrite = p.canWrite := by
  have := h.buf.obs_eq
  simp only [Buf.obs, specObs, Obs.mk.injEq] at this
  exact this.2.2.1

theorem SR.closed_eq {s : State} {p : Spec} (h : SR s p) : s.buf.closed = p.closed := h.buf.closed_eq

/-- The outcome of one poll in the model vs the specification. -/
def Sim (s : State) (p : Spec) (op : Op) : Prop :=
  match step s op, p.step op with
  | .error _, none => True
  | .ok (s', o), some (p', r, req) => o.res = r ∧ (∀ w ∈ req, w ∈ o.woken) ∧ SR s' p'
  | _, _ => False

theorem park_sim {s : State} {p : Spec} (h : SR s p) (i : Nat) (t : Task) (_hi : s.next < i) :
    ∃ s', s.waitingAdd i t = .ok s' ∧ SR s' (p.park i t) := by
  obtain ⟨s', hs', h1, h2, h3, h4, h5, h6, h7⟩ := waitingAdd_spec s i t h.shards
  refine ⟨s', hs', ⟨by rw [h2]; exact h.buf, by rw [h1]; exact h.next_eq, by rw [h3]; exact h.wr_eq,
    by rw [h4]; exact h.sr_eq, by rw [h1]; exact h5, ?_⟩⟩
  intro j t' hm hgt
  simp only [Spec.park, List.mem_cons, List.mem_filter] at hm
  rcases hm with heq | ⟨hm, hne⟩
  · cases heq; exact h6
  · have hne' : j ≠ i := by simpa using hne
    exact h7 _ _ (h.parked j t' hm hgt) hne'

theorem ShardsOk.mono {sh : Nat → Shard} {a b : Nat} (h : ShardsOk sh a) (hab : a ≤ b) : ShardsOk sh b :=
  ⟨h.sorted, fun k => Nat.le_trans (h.woken_le k) hab⟩

theorem mem_parkedAt {p : Spec} {i : Nat} {w : Task} (h : w ∈ p.parkedAt i) : (i, w) ∈ p.idxWait := by
  simp only [Spec.parkedAt, List.mem_map, List.mem_filter] at h
  obtain ⟨⟨j, w'⟩, ⟨hm, hj⟩, hw⟩ := h
  simp only [beq_iff_eq] at hj
  simp only [] at hw
  subst hj hw
  exact hm


/-- State after an accepted write, before the next writer is woken. -/
def sendS1 (s : State) (b' : Buf) : State :=
  { s with buf := b', streamReady := if b'.canRead then none else s.streamReady, next := s.next + 1 }

theorem step_send_ready {s : State} {t : Task} {i : Nat} {m : List Nat} {b' : Buf}
    (h2 : s.next = i) (hc : s.buf.closed = false) (hw : s.buf.canWrite = true)
    (hwm : s.buf.writeMsg m = .ok b') :
    step s (.pollSend t i m) = .ok (((sendS1 s b').waitingWake (i + 1)).1,
      ⟨.ready, (if b'.canRead then s.streamReady.toList else []) ++ ((sendS1 s b').waitingWake (i + 1)).2⟩) := by
  simp only [step, sendS1]
  rw [if_neg (show ¬ s.next > i by omega), if_pos h2, hc, hw, hwm]
  simp only [Bool.false_eq_true, if_false, Bool.not_true]
  split <;> simp_all

/-- Specification state after an accepted write. -/
def Spec.afterSend (p : Spec) (i : Nat) (m : List Nat) : Spec :=
  { p with q := p.q ++ m, next := p.next + 1,
           readWait := if Spec.canRead { p with q := p.q ++ m, next := p.next + 1 } then none else p.readWait,
           idxWait := p.idxWait.filter (fun q => q.1 != i + 1) }

theorem Spec.step_send_ready {p : Spec} {t : Task} {i : Nat} {m : List Nat}
    (h2 : i = p.next) (hc : p.closed = false) (hw : p.canWrite = true) (hl : m.length = p.ws) :
    p.step (.pollSend t i m) = some (p.afterSend i m, .ready,
      p.parkedAt (i + 1) ++ (if Spec.canRead { p with q := p.q ++ m, next := p.next + 1 } then p.readWait.toList else [])) := by
  simp only [Spec.step, Spec.afterSend]
  rw [if_neg (show ¬ i < p.next by omega), if_pos h2, hc, hw]
  simp only [Bool.false_eq_true, if_false, Bool.not_true]
  rw [if_neg (by omega)]

theorem sim_send {s : State} {p : Spec} (h : SR s p) (t : Task) (i : Nat) (m : List Nat) :
    Sim s p (.pollSend t i m) := by
  have hn := h.next_eq
  have hcl := h.closed_eq
  have hcw := h.canWrite_eq
  unfold Sim
  by_cases h1 : s.next > i
  · have e1 : step s (.pollSend t i m) = .error "attempt to write/close at index" := by
      simp only [step]; rw [if_pos h1]
    have e2 : p.step (.pollSend t i m) = none := by
      simp only [Spec.step]; rw [if_pos (show i < p.next by omega)]
    rw [e1, e2]; trivial
  by_cases h2 : s.next = i
  · cases hc : p.closed
    · cases hw : p.canWrite
      · -- buffer full: park on write_ready
        have e1 : step s (.pollSend t i m) = .ok ({ s with writeReady := some t }, ⟨.pending, []⟩) := by
          simp only [step]
          rw [if_neg h1, if_pos h2, hcl, hc, hcw, hw]
          simp
        have e2 : p.step (.pollSend t i m) = some ({ p with fullWait := some t }, .pending, []) := by
          simp only [Spec.step]
          rw [if_neg (show ¬ i < p.next by omega), if_pos (show i = p.next by omega), hc, hw]
          simp
        rw [e1, e2]
        exact ⟨rfl, by simp, ⟨h.buf, hn, rfl, h.sr_eq, h.shards, h.parked⟩⟩
      · have hiff := writeMsg_ok_iff h.buf.inv m
        have hroom : s.buf.writeSize ≤ s.buf.capacity - s.buf.len :=
          ((canWrite_iff s.buf).mp (by rw [hcw, hw])).2
        cases hwm : s.buf.writeMsg m with
        | error e =>
          have hne : m.length ≠ p.ws := by
            intro heq
            obtain ⟨b', hb'⟩ := hiff.mpr ⟨by rw [hcl, hc], hroom, by rw [heq, h.buf.ws_eq]⟩
            rw [hwm] at hb'; cases hb'
          have e1 : step s (.pollSend t i m) = .error e := by
            simp only [step]
            rw [if_neg h1, if_pos h2, hcl, hc, hcw, hw, hwm]
            simp
          have e2 : p.step (.pollSend t i m) = none := by
            simp only [Spec.step]
            rw [if_neg (show ¬ i < p.next by omega), if_pos (show i = p.next by omega), hc, hw]
            simp [hne]
          rw [e1, e2]; trivial
        | ok b' =>
          have hlen : m.length = p.ws := by
            have := (hiff.mp ⟨b', hwm⟩).2.2; rw [this, h.buf.ws_eq]
          rw [step_send_ready h2 (by rw [hcl, hc]) (by rw [hcw, hw]) hwm,
            Spec.step_send_ready (by omega) hc hw hlen]
          -- ring buffer vs queue after the write
          have hR : R ⟨p.cap, p.ws, p.rs⟩ b' ⟨p.q ++ m, p.closed⟩ := by
            obtain ⟨a1, a2, a3, a4, a5, a6, _⟩ := writeMsg_spec h.buf.inv hwm
            exact ⟨a2, by rw [a1, h.buf.abs_eq], by rw [a3, h.buf.closed_eq], by rw [a4, h.buf.cap_eq],
              by rw [a5, h.buf.ws_eq], by rw [a6, h.buf.rs_eq]⟩
          have hcr' : b'.canRead = Spec.canRead { p with q := p.q ++ m, next := p.next + 1 } := by
            have := hR.obs_eq
            simp only [Buf.obs, specObs, Obs.mk.injEq] at this
            exact this.2.1
          have hsh1 : ShardsOk (sendS1 s b').shards (sendS1 s b').next :=
            h.shards.mono (Nat.le_succ _)
          obtain ⟨w1, w2, w3, w4, w5, w6, w7⟩ :=
            waitingWake_spec (sendS1 s b') (i + 1) hsh1 (by simp [sendS1]; omega)
          refine ⟨rfl, ?_, ⟨?_, ?_, ?_, ?_, ?_, ?_⟩⟩
          · intro w hw'
            simp only [List.mem_append] at hw' ⊢
            rcases hw' with hw' | hw'
            · right
              exact w7 _ (h.parked _ _ (mem_parkedAt hw') (by omega))
            · left
              rw [hcr']
              split at hw'
              · rename_i hcr; rw [if_pos hcr, h.sr_eq]; exact hw'
              · cases hw'
          · rw [w2]; exact hR
          · rw [w1]; simp only [sendS1, Spec.afterSend]; omega
          · rw [w3]; exact h.wr_eq
          · rw [w4]; simp only [sendS1, Spec.afterSend]; rw [hcr', h.sr_eq]
          · rw [w1]; exact w5
          · intro j t' hm hgt
            simp only [Spec.afterSend, List.mem_filter] at hm hgt
            exact w6 _ _ (h.parked j t' hm.1 (by omega)) (by simp only []; omega)
    · -- closed
      have e1 : step s (.pollSend t i m) = .error "writing on a closed stream" := by
        simp only [step]
        rw [if_neg h1, if_pos h2, hcl, hc]
        simp
      have e2 : p.step (.pollSend t i m) = none := by
        simp only [Spec.step]
        rw [if_neg (show ¬ i < p.next by omega), if_pos (show i = p.next by omega), hc]
        simp
      rw [e1, e2]; trivial
  · obtain ⟨s', hs', hsr⟩ := park_sim h i t (by omega)
    have e1 : step s (.pollSend t i m) = .ok (s', ⟨.pending, []⟩) := by
      simp only [step]
      rw [if_neg h1, if_neg h2, hs']
    have e2 : p.step (.pollSend t i m) = some (p.park i t, .pending, []) := by
      simp only [Spec.step]
      rw [if_neg (show ¬ i < p.next by omega), if_neg (show ¬ i = p.next by omega)]
    rw [e1, e2]
    exact ⟨rfl, by simp, hsr⟩

theorem R_close {c : Cfg} {b : Buf} {q : List Nat} (r : R c b ⟨q, false⟩) :
    R c { b with closed := true } ⟨q, true⟩ :=
  ⟨⟨r.inv.wsPos, r.inv.rsPos, r.inv.capPos, r.inv.wsCap, r.inv.wsRs, r.inv.rLt, r.inv.wLt,
     r.inv.rAl, r.inv.wAl, r.inv.ahead⟩, r.abs_eq, rfl, r.cap_eq, r.ws_eq, r.rs_eq⟩

def closeS1 (s : State) : State :=
  { s with buf := { s.buf with closed := true }, streamReady := none, next := s.next + 1 }

def Spec.afterClose (p : Spec) : Spec :=
  { p with closed := true, next := p.next + 1, readWait := none }

def Spec.afterTake (p : Spec) : Spec :=
  { p with q := p.q.drop (min p.rs p.q.length), fullWait := if p.canWrite then p.fullWait else none }

theorem sim_close {s : State} {p : Spec} (h : SR s p) (t : Task) (i : Nat) :
    Sim s p (.pollClose t i) := by
  have hn := h.next_eq
  have hcl := h.closed_eq
  unfold Sim
  by_cases h1 : s.next > i
  · have e1 : step s (.pollClose t i) = .error "attempt to write/close at index" := by
      simp only [step]; rw [if_pos h1]
    have e2 : p.step (.pollClose t i) = none := by
      simp only [Spec.step]; rw [if_pos (show i < p.next by omega)]
    rw [e1, e2]; trivial
  by_cases h2 : s.next = i
  · cases hc : p.closed
    · have e1 : step s (.pollClose t i) = .ok (closeS1 s, ⟨.ready, s.streamReady.toList⟩) := by
        simp only [step, Buf.close, closeS1]
        rw [if_neg h1, if_pos h2, hcl, hc]
        simp
      have e2 : p.step (.pollClose t i) = some (p.afterClose, .ready, p.readWait.toList) := by
        simp only [Spec.step, Spec.afterClose]
        rw [if_neg (show ¬ i < p.next by omega), if_pos (show i = p.next by omega), hc]
        simp
      rw [e1, e2]
      refine ⟨rfl, ?_, ⟨?_, ?_, h.wr_eq, rfl, h.shards.mono (Nat.le_succ _), ?_⟩⟩
      · intro w hw; rw [h.sr_eq]; exact hw
      · have := h.buf; rw [hc] at this; exact R_close this
      · simp only [closeS1, Spec.afterClose]; omega
      · intro j t' hm hgt
        exact h.parked j t' hm (by simp only [Spec.afterClose] at hgt; omega)
    · have e1 : step s (.pollClose t i) = .error "Already closed" := by
        simp only [step, Buf.close]
        rw [if_neg h1, if_pos h2, hcl, hc]
        simp
      have e2 : p.step (.pollClose t i) = none := by
        simp only [Spec.step]
        rw [if_neg (show ¬ i < p.next by omega), if_pos (show i = p.next by omega), hc]
        simp
      rw [e1, e2]; trivial
  · obtain ⟨s', hs', hsr⟩ := park_sim h i t (by omega)
    have e1 : step s (.pollClose t i) = .ok (s', ⟨.pending, []⟩) := by
      simp only [step]
      rw [if_neg h1, if_neg h2, hs']
    have e2 : p.step (.pollClose t i) = some (p.park i t, .pending, []) := by
      simp only [Spec.step]
      rw [if_neg (show ¬ i < p.next by omega), if_neg (show ¬ i = p.next by omega)]
    rw [e1, e2]
    exact ⟨rfl, by simp, hsr⟩

/-- State after a successful read, before `waiting.wake(next)`. -/
def takeS1 (s : State) : State :=
  { s with buf := s.buf.take.1, writeReady := if s.buf.canWrite then s.writeReady else none }

theorem step_take_ready {s : State} {t : Task} (hc : s.buf.canRead = true) :
    step s (.pollTake t) = .ok (((takeS1 s).waitingWake s.next).1,
      ⟨.chunk s.buf.take.2, (if s.buf.canWrite then [] else s.writeReady.toList) ++ ((takeS1 s).waitingWake s.next).2⟩) := by
  simp only [step, takeS1, hc, if_true]
  cases s.buf.canWrite <;> simp

theorem sim_take {s : State} {p : Spec} (h : SR s p) (t : Task) : Sim s p (.pollTake t) := by
  have hn := h.next_eq
  have hcl := h.closed_eq
  have hcw := h.canWrite_eq
  have hcr := h.canRead_eq
  unfold Sim
  cases hc : p.canRead
  · have e1 : step s (.pollTake t) = .ok ({ s with streamReady := some t },
        ⟨if p.closed then .finished else .pending, []⟩) := by
      simp only [step, hcr, hc, hcl]
      cases p.closed <;> simp
    have e2 : p.step (.pollTake t) = some ({ p with readWait := some t },
        if p.closed then .finished else .pending, []) := by
      simp only [Spec.step, hc]; simp
    rw [e1, e2]
    exact ⟨rfl, by simp, ⟨h.buf, hn, h.wr_eq, rfl, h.shards, h.parked⟩⟩
  · have hcr' : s.buf.canRead = true := by rw [hcr, hc]
    have e2 : p.step (.pollTake t) = some (p.afterTake,
        .chunk (p.q.take (min p.rs p.q.length)), if p.canWrite then [] else p.fullWait.toList) := by
      simp only [Spec.step, hc, if_true, Spec.afterTake]
    rw [step_take_ready hcr', e2]
    obtain ⟨a1, a2, a3, a4, a5, a6, a7, _⟩ := take_spec h.buf.inv hcr'
    have hl := h.buf.len_eq
    simp only [] at hl
    rw [h.buf.rs_eq, hl, h.buf.abs_eq] at a1 a2
    simp only [] at a1 a2
    have hsh1 : ShardsOk (takeS1 s).shards (takeS1 s).next := h.shards
    obtain ⟨w1, w2, w3, w4, w5, w6, w7⟩ := waitingWake_spec (takeS1 s) s.next hsh1 (Nat.le_refl _)
    refine ⟨by rw [a1], ?_, ⟨?_, ?_, ?_, ?_, ?_, ?_⟩⟩
    · intro w hw
      simp only [List.mem_append]
      left
      rw [hcw, h.wr_eq]; exact hw
    · rw [w2]
      show R ⟨p.cap, p.ws, p.rs⟩ s.buf.take.1 ⟨p.q.drop (min p.rs p.q.length), p.closed⟩
      exact ⟨a3, a2, by rw [a4, h.buf.closed_eq], by rw [a5, h.buf.cap_eq], by rw [a6, h.buf.ws_eq],
        by rw [a7, h.buf.rs_eq]⟩
    · rw [w1]; exact hn
    · rw [w3]; simp only [takeS1, Spec.afterTake]; rw [hcw, h.wr_eq]
    · rw [w4]; exact h.sr_eq
    · rw [w1]; exact w5
    · intro j t' hm hgt
      have hgt' : j > p.next := hgt
      exact w6 _ _ (h.parked j t' hm hgt') (by show j > s.next; omega)

theorem sim_step {s : State} {p : Spec} (h : SR s p) (op : Op) : Sim s p op := by
  cases op with
  | pollSend t i m => exact sim_send h t i m
  | pollClose t i => exact sim_close h t i
  | pollTake t => exact sim_take h t

theorem SR_init {cap ws rs : Nat} {s : State} (h : State.new cap ws rs = .ok s) :
    SR s { cap, ws, rs } := by
  unfold State.new at h
  cases hb : Buf.new cap ws rs with
  | error e => rw [hb] at h; cases h
  | ok b =>
    rw [hb] at h; cases h
    obtain ⟨hinv, habs, hcl, hcap, hws, hrs⟩ := new_inv hb
    exact ⟨⟨hinv, habs, hcl, hcap, hws, hrs⟩, rfl, rfl, rfl,
      ⟨fun _ => List.Pairwise.nil, fun _ => Nat.le_refl _⟩, fun _ _ hm => by cases hm⟩

end IpaVerif.OrderingSender
