import IpaVerif.Model.DzkpStore
/-!
Bit-level frame lemmas for the DZKP intermediate store (C03 `segment_packing`): what
`insert_segment_small` / `insert_segment_large` do to every global bit position, for all widths, record
ids and previous contents. Core Lean only.
-/
namespace IpaVerif.C03
open IpaVerif.DzkpStore IpaVerif.Generated.Dzkp

theorem setBits_testBit (b pos w v q : Nat) :
    (setBits b pos w v).testBit q = if pos ≤ q ∧ q < pos + w then v.testBit (q - pos) else b.testBit q := by
  unfold setBits
  simp only [Nat.testBit_or, Nat.testBit_xor, Nat.testBit_shiftLeft, Nat.testBit_mod_two_pow, Nat.testBit_shiftRight]
  by_cases h1 : pos ≤ q
  · have e : pos + (q - pos) = q := by omega
    by_cases h2 : q < pos + w
    · have h3 : q - pos < w := by omega
      simp [h1, h2, h3, e]
    · have h3 : ¬ q - pos < w := by omega
      simp [h1, h2, h3]
  · have : ¬ q ≥ pos := by omega
    simp [h1]

theorem nextPow2_small : ∀ w, w < 256 → 1 ≤ w →
    w ≤ nextPow2 w ∧ nextPow2 w ∈ [1, 2, 4, 8, 16, 32, 64, 128, 256] := by decide +kernel

/-- a small segment never crosses a block boundary. -/
theorem no_crossing (w id : Nat) (hw : w < 256) (h1 : 1 ≤ w) :
    (nextPow2 w * id) % 256 + w ≤ 256 := by
  obtain ⟨h, hm⟩ := nextPow2_small w hw h1
  simp only [List.mem_cons, List.mem_nil_iff, or_false] at hm
  rcases hm with e | e | e | e | e | e | e | e | e <;> rw [e] at h ⊢ <;> omega

/-- ranges of distinct records (stride `L ≥ w`) are disjoint. -/
theorem ranges_disjoint (L w i j n : Nat) (hL : w ≤ L) (hij : i ≠ j)
    (hi : L * i ≤ n ∧ n < L * i + w) : ¬ (L * j ≤ n ∧ n < L * j + w) := by
  intro hj
  rcases Nat.lt_or_gt_of_ne hij with h | h
  · have : L * (i + 1) ≤ L * j := Nat.mul_le_mul_left L h
    rw [Nat.mul_add] at this; omega
  · have : L * (j + 1) ≤ L * i := Nat.mul_le_mul_left L h
    rw [Nat.mul_add] at this; omega

theorem getD_growTo (vec : List Block) (n k : Nat) : (growTo vec n).getD k zeroBlock = vec.getD k zeroBlock := by
  unfold growTo
  by_cases h : k < vec.length
  · simp [List.getD_eq_getElem?_getD, List.getElem?_append_left h]
  · have h' : vec.length ≤ k := by omega
    simp only [List.getD_eq_getElem?_getD, List.getElem?_append_right h', List.getElem?_replicate]
    have : vec[k]? = none := by simp [h']
    rw [this]
    split <;> rfl

theorem length_growTo (vec : List Block) (n : Nat) : n ≤ (growTo vec n).length := by
  unfold growTo; simp; omega

/-- **small segments**: after `insert_segment_small` of record `id`, the global bit `n` of a field is the
segment's bit `n − L·id` if `n` lies in `[L·id, L·id + w)` (`L = next_power_of_two(w)`), and is unchanged
otherwise (bits of never-written positions of new blocks are zero). -/
theorem insertSmall_bits (f : Block → Nat) (fs : Segment → Nat)
    (hf : ∀ b pos w s sh, f (blockSetAll b pos w s sh) = setBits (f b) pos w (fs s >>> sh))
    (vec : List Block) (id : Nat) (s : Segment) (hw : s.width < 256) (h1 : 1 ≤ s.width) (n : Nat) :
    storeBit (insertSmall vec id s) f n =
      if nextPow2 s.width * id ≤ n ∧ n < nextPow2 s.width * id + s.width
      then (fs s).testBit (n - nextPow2 s.width * id) else storeBit vec f n := by
  have hc := no_crossing s.width id hw h1
  unfold insertSmall storeBit
  simp only [Nat.shiftRight_eq_div_pow, show (2 : Nat) ^ 8 = 256 by rfl]
  generalize hX : nextPow2 s.width * id = X at hc ⊢
  have hlen := length_growTo vec (X / 256 + 1)
  by_cases hk : n / 256 = X / 256
  · rw [hk, List.getD_eq_getElem?_getD, List.getElem?_set_self (by omega)]
    simp only [Option.getD_some, hf, setBits_testBit, getD_growTo, Nat.shiftRight_zero]
    by_cases hin : X % 256 ≤ n % 256 ∧ n % 256 < X % 256 + s.width
    · have h2 : X ≤ n ∧ n < X + s.width := by omega
      have e : n - X = n % 256 - X % 256 := by omega
      simp [hin, h2, e]
    · have h2 : ¬ (X ≤ n ∧ n < X + s.width) := by omega
      simp [hin, h2, ← hk]
  · have h2 : ¬ (X ≤ n ∧ n < X + s.width) := by omega
    rw [List.getD_eq_getElem?_getD, List.getElem?_set_ne (by omega), ← List.getD_eq_getElem?_getD, getD_growTo]
    simp [h2]

def largeStep (B : Nat) (s : Segment) (v : List Block) (i : Nat) : List Block :=
  let blk := blockSetAll zeroBlock 0 256 s (256 * i)
  if v.length > B + i then v.set (B + i) blk else v ++ [blk]

theorem insertLarge_eq (vec : List Block) (id : Nat) (s : Segment) :
    insertLarge vec id s =
      (List.range (s.width >>> 8)).foldl (largeStep ((s.width * id) >>> 8) s) (growTo vec ((s.width * id) >>> 8)) := rfl

theorem large_fold (B : Nat) (s : Segment) (v0 : List Block) (h0 : B ≤ v0.length) (t : Nat) :
    let vt := (List.range t).foldl (largeStep B s) v0
    B + t ≤ vt.length ∧
    ∀ k, vt.getD k zeroBlock =
      if B ≤ k ∧ k < B + t then blockSetAll zeroBlock 0 256 s (256 * (k - B)) else v0.getD k zeroBlock := by
  induction t with
  | zero =>
    simp only [List.range_zero, List.foldl_nil]
    refine ⟨by omega, fun k => ?_⟩
    have : ¬ (B ≤ k ∧ k < B + 0) := by omega
    rw [if_neg this]
  | succ t ih =>
    obtain ⟨hl, hg⟩ := ih
    simp only [List.range_succ, List.foldl_append, List.foldl_cons, List.foldl_nil]
    generalize (List.range t).foldl (largeStep B s) v0 = vt at hl hg
    unfold largeStep
    by_cases hlen : vt.length > B + t
    · simp only [hlen, if_true]
      refine ⟨by simp; omega, fun k => ?_⟩
      by_cases hk : k = B + t
      · subst hk
        have : B ≤ B + t ∧ B + t < B + (t + 1) := by omega
        simp [List.getD_eq_getElem?_getD, List.getElem?_set_self hlen, this]
      · rw [List.getD_eq_getElem?_getD, List.getElem?_set_ne (by omega), ← List.getD_eq_getElem?_getD, hg]
        by_cases hin : B ≤ k ∧ k < B + t
        · have : B ≤ k ∧ k < B + (t + 1) := by omega
          simp [hin, this]
        · have : ¬ (B ≤ k ∧ k < B + (t + 1)) := by omega
          simp [hin, this]
    · have hlen' : vt.length = B + t := by omega
      simp only [hlen, if_false]
      refine ⟨by simp; omega, fun k => ?_⟩
      by_cases hk : k < vt.length
      · rw [List.getD_eq_getElem?_getD, List.getElem?_append_left hk, ← List.getD_eq_getElem?_getD, hg]
        by_cases hin : B ≤ k ∧ k < B + t
        · have : B ≤ k ∧ k < B + (t + 1) := by omega
          simp [hin, this]
        · have : ¬ (B ≤ k ∧ k < B + (t + 1)) := by omega
          simp [hin, this]
      · by_cases hk2 : k = B + t
        · subst hk2
          have : B ≤ B + t ∧ B + t < B + (t + 1) := by omega
          simp [List.getD_eq_getElem?_getD, hlen', this]
        · have hgt : vt.length < k := by omega
          have h1 : ¬ (B ≤ k ∧ k < B + (t + 1)) := by omega
          have h2 : ¬ (B ≤ k ∧ k < B + t) := by omega
          have hv := hg k
          simp only [h2, if_false] at hv
          have hnone : vt.getD k zeroBlock = zeroBlock := by
            simp [List.getD_eq_getElem?_getD, List.getElem?_eq_none (by omega : vt.length ≤ k)]
          have : (vt ++ [blockSetAll zeroBlock 0 256 s (256 * t)]).getD k zeroBlock = zeroBlock := by
            simp [List.getD_eq_getElem?_getD, List.getElem?_eq_none (by simp; omega : (vt ++ [blockSetAll zeroBlock 0 256 s (256 * t)]).length ≤ k)]
          rw [this, if_neg h1, ← hv, hnone]

/-- **large segments** (width `256·m`): record `id` occupies exactly the `m` whole blocks
`[m·id, m·id + m)`; every other bit is unchanged. -/
theorem insertLarge_bits (f : Block → Nat) (fs : Segment → Nat)
    (hf : ∀ b pos w s sh, f (blockSetAll b pos w s sh) = setBits (f b) pos w (fs s >>> sh))
    (hz : f zeroBlock = 0)
    (vec : List Block) (id m : Nat) (s : Segment) (hw : s.width = 256 * m) (n : Nat) :
    storeBit (insertLarge vec id s) f n =
      if s.width * id ≤ n ∧ n < s.width * id + s.width
      then (fs s).testBit (n - s.width * id) else storeBit vec f n := by
  rw [insertLarge_eq]
  have hB : (s.width * id) >>> 8 = m * id := by
    rw [Nat.shiftRight_eq_div_pow, hw, Nat.mul_assoc]; exact Nat.mul_div_cancel_left _ (by decide)
  have hm : s.width >>> 8 = m := by
    rw [Nat.shiftRight_eq_div_pow, hw]; exact Nat.mul_div_cancel_left _ (by decide)
  rw [hB, hm]
  obtain ⟨_, hg⟩ := large_fold (m * id) s (growTo vec (m * id)) (length_growTo vec (m * id)) m
  unfold storeBit
  rw [hg, getD_growTo]
  have hX : s.width * id = 256 * (m * id) := by rw [hw, Nat.mul_assoc]
  rw [hX]
  by_cases hin : m * id ≤ n / 256 ∧ n / 256 < m * id + m
  · have h2 : 256 * (m * id) ≤ n ∧ n < 256 * (m * id) + s.width := by omega
    simp only [hin, h2, and_self, if_true, hf, hz, setBits_testBit]
    have hq : 0 ≤ n % 256 ∧ n % 256 < 0 + 256 := by omega
    simp only [hq, and_self, if_true, Nat.testBit_shiftRight, Nat.sub_zero]
    congr 1; omega
  · have h2 : ¬ (256 * (m * id) ≤ n ∧ n < 256 * (m * id) + s.width) := by omega
    simp [hin, h2]


/-- the seven (block field, segment entry) pairs. -/
def fieldPairs : List ((Block → Nat) × (Segment → Nat)) :=
  [((·.xl), (·.xl)), ((·.xr), (·.xr)), ((·.yl), (·.yl)), ((·.yr), (·.yr)), ((·.pl), (·.pl)), ((·.pr), (·.pr)),
   ((·.zr), (·.zr))]

theorem fieldPairs_ok : ∀ p ∈ fieldPairs,
    (∀ b pos w s sh, p.1 (blockSetAll b pos w s sh) = setBits (p.1 b) pos w (p.2 s >>> sh)) ∧ p.1 zeroBlock = 0 := by
  intro p hp
  simp only [fieldPairs, List.mem_cons, List.mem_nil_iff, or_false] at hp
  rcases hp with rfl | rfl | rfl | rfl | rfl | rfl | rfl <;> exact ⟨fun _ _ _ _ _ => rfl, rfl⟩

end IpaVerif.C03
