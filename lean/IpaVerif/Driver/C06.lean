import IpaVerif.Model.Util
import IpaVerif.Model.Prss
import IpaVerif.Model.UsedSetAtomic
import IpaVerif.Model.CrossShard
/-! Line-protocol handlers for property C06 (model side) and the spec-side oracle. Import-free.

Requests
  c06.pack index offset              → ok <u64> <display> | err:<kind>
  c06.unpack value                   → ok <index> <offset> | err:<kind>
  c06.agree seed gate index Z chunks → agree <blocks> distinct | panic:…
  c06.negotiate seed                 → agree <blocks> distinct
  c06.xshard seed shards             → agree <values>
  c06.xfault seed shards f1/f2/f3    → H1:<o|e per shard>:<distinct> H2:… H3:… nb=ok   (scripted leaders: ok | d:<followers reached> | d:-)
  c06.noreuse dzkp api ty n per seed → ok
  c06.race side T R seed             → accepted=<R> rounds=<R>   (T threads draw the same fresh index, R rounds)
  c06.used op,op,…                   → ok | panic:…     op = ib:gate:index:Z:chunks | il:… | ir:… | sq:gate:n
-/
namespace IpaVerif.Driver.C06
open IpaVerif.Util IpaVerif.Prss IpaVerif.Generated.Prss

def parseOp (s : String) : Option Op :=
  match s.splitOn ":" with
  | ["ib", g, i, z, c] => do pure (.indexedBoth g (← i.toNat?) (← z.toNat?) (← c.toNat?))
  | ["il", g, i, z, c] => do pure (.indexedOne g true (← i.toNat?) (← z.toNat?) (← c.toNat?))
  | ["ir", g, i, z, c] => do pure (.indexedOne g false (← i.toNat?) (← z.toNat?) (← c.toNat?))
  | ["sq", g, n] => do pure (.sequential g (← n.toNat?))
  | _ => none

/-- `ok` → every follower is reached; `d:<j,k,…>` → the listed ones; `d:-` → none -/
def parseFault (s : String) : Option (Nat → Bool) :=
  if s == "ok" then some (fun _ => true)
  else if s == "d:-" then some (fun _ => false)
  else if s.startsWith "d:" then do
    let l ← ((s.drop 2).toString.splitOn ",").mapM (·.toNat?)
    pure (fun j => l.contains j)
  else none

/-- one helper: outcomes of shards `0..n-1` under the fault pattern (abstract per-shard seeds `10 + j`, pairwise
different as PRSS values of different shards are) -/
def xfaultHelper (n : Nat) (deliver : Nat → Bool) : String :=
  let outs := (List.range n).map (IpaVerif.CrossShard.shardOutcome (fun j => 10 + j) deliver)
  let marks := String.ofList (outs.map fun o => match o with | .ok _ => 'o' | .endOfStream => 'e')
  s!"{marks}:{IpaVerif.CrossShard.distinctOk outs}"

def handle (toks : List String) : Option String :=
  match toks with
  | ["c06.pack", i, o] => some <| (do
      let i ← i.toNat?
      let o ← o.toNat?
      match pack i o with
      | .ok v => pure s!"ok {v} {i}:{o}"
      | .err m => pure s!"err:{m}"
      | .panic m => pure s!"panic:{m}").getD "bad-request"
  | ["c06.unpack", v] => some <| (do
      let v ← v.toNat?
      match unpack v with
      | .ok (i, o) => pure s!"ok {i} {o}"
      | .err m => pure s!"err:{m}"
      | .panic m => pure s!"panic:{m}").getD "bad-request"
  | ["c06.agree", _seed, _gate, i, z, c] => some <| (do
      let i ← i.toNat?
      let z ← z.toNat?
      let c ← c.toNat?
      -- each of the three endpoints draws left and right chunks of a fresh gate
      match step { items := [] } (.indexedBoth "g" i z c) with
      | .ok _ => pure s!"agree {z * c} distinct"
      | .panic m => pure s!"panic:{m}"
      | .err m => pure s!"err:{m}").getD "bad-request"
  | ["c06.negotiate", _seed] => some "agree 24 distinct"
  | ["c06.xshard", _seed, shards] => some <| (do
      let n ← shards.toNat?
      pure s!"agree {3 * n}").getD "bad-request"
  | ["c06.xfault", _seed, shards, scripts] => some <| (do
      let n ← shards.toNat?
      match scripts.splitOn "/" with
      | [a, b, c] =>
        let fa ← parseFault a
        let fb ← parseFault b
        let fc ← parseFault c
        pure s!"H1:{xfaultHelper n fa} H2:{xfaultHelper n fb} H3:{xfaultHelper n fc} nb=ok"
      | _ => none).getD "bad-request"
  | ["c06.noreuse", "dzkp", _api, _ty, _n, _per, _seed] => some "ok"
  | ["c06.noreuse", "mac", _n, _seed] => some "ok"
  | ["c06.race", side, threads, rounds, _seed] => some <| (do
      let k ← threads.toNat?
      let r ← rounds.toNat?
      if k == 0 || !(side == "left" || side == "right" || side == "both") then none else
      -- one round = `k` threads on one fresh index, each given the processor until its call has returned (any
      -- schedule gives the same count for the atomic step: theorem exactly_one_accept)
      let sched := (List.range k).flatMap fun t => [t, t]
      let perRound := (IpaVerif.UsedSetAtomic.run (IpaVerif.UsedSetAtomic.codeStep fun _ => 0) (IpaVerif.UsedSetAtomic.init []) sched).accepted.length
      pure s!"accepted={perRound * r} rounds={r}").getD "bad-request"
  | ["c06.used", ops] => some <| (do
      let ops ← (ops.splitOn ",").mapM parseOp
      match run ops with
      | .ok _ => pure "ok"
      | .panic m => pure s!"panic:{m}"
      | .err m => pure s!"err:{m}").getD "bad-request"
  | _ => none

/-- spec side: plain arithmetic, independent of the model's `pack`/`step`. -/
def oracle (toks : List String) (impl : String) : Option String :=
  let verdict (o : Option Bool) (why : String) : Option String :=
    match o with | some true => some "holds" | some false => some ("fails " ++ why) | none => some "unknown"
  match toks with
  | ["c06.pack", i, o] => verdict (do
      let i ← i.toNat?
      let o ← o.toNat?
      if o ≤ 2 ^ 11 then
        match impl.splitOn " " with
        | ["ok", v, _] => pure ((← v.toNat?) / 2 ^ 32 == i && (← v.toNat?) % 2 ^ 32 == o)
        | _ => pure false
      else pure (impl.startsWith "err")) "packed value does not determine (index, offset), or an offset above the cap was accepted"
  | ["c06.unpack", v] => verdict (do
      let v ← v.toNat?
      if v < 2 ^ 64 ∧ v % 2 ^ 32 ≤ 2 ^ 11 then pure (impl == s!"ok {v / 2 ^ 32} {v % 2 ^ 32}")
      else pure (impl.startsWith "err")) "unpacking is not the inverse of packing / out-of-range value accepted"
  | ["c06.agree", _, _, _, z, c] => verdict (do
      let z ← z.toNat?
      let c ← c.toNat?
      if z * c ≤ 2 ^ 11 + 1 then pure (impl == s!"agree {z * c} distinct")
      else pure (impl.startsWith "panic")) "neighbouring helpers derived different values, or values repeated across (step, index, offset), or an offset above the cap was served"
  | ["c06.negotiate", _] => verdict (some (impl.startsWith "agree" && impl.endsWith "distinct")) "negotiated endpoints disagree"
  | ["c06.xshard", _, _] => verdict (some (impl.startsWith "agree")) "shards of a helper / neighbouring helpers disagree on cross-shard randomness"
  | ["c06.xfault", _, _, scripts] =>
    -- spec, from the response alone: every shard that comes out Ok holds ONE stream per helper (the leader's),
    -- consistent with every Ok shard of the neighbouring helpers; fault-free runs succeed everywhere
    if impl.startsWith "panic" || impl.startsWith "timeout" then some s!"fails {impl}" else
    match impl.splitOn " " with
    | [h1, h2, h3, nb] =>
      let bad := [h1, h2, h3].filterMap fun h => match h.splitOn ":" with
        | [name, marks, d] => match d.toNat? with
          | some k => if k > 1 then some s!"shards of helper {name} hold {k} different cross-shard streams (outcomes {marks}: o = Ok, e = EndOfStream)" else none
          | none => some s!"malformed {h}"
        | _ => some s!"malformed {h}"
      match bad with
      | b :: _ => some s!"fails {b}"
      | [] =>
        if nb != "nb=ok" then some "fails an Ok shard of one helper and an Ok shard of its neighbour disagree on the shared cross-shard stream"
        else if scripts == "ok/ok/ok" && (impl.contains 'e' || impl.contains 'x') then some "fails a fault-free cross-shard setup failed on some shard"
        else some "holds"
    | _ => some s!"fails malformed response {impl}"
  | "c06.noreuse" :: _ =>
      verdict (some (impl == "ok")) "a multi-batch protocol run drew a (step, index, offset) twice (debug-build detector fired) or did not complete"
  | ["c06.race", _side, _threads, rounds, _seed] =>
    -- spec: every round offers ONE fresh index to all threads at once; never reused = exactly one draw per round succeeds
    match impl.splitOn " " with
    | [a, r] =>
      match (a.dropPrefix? "accepted=").bind (·.toString.toNat?), (r.dropPrefix? "rounds=").bind (·.toString.toNat?), rounds.toNat? with
      | some acc, some rr, some want =>
        if rr != want then some "fails the suite ran a different number of rounds"
        else if acc > rr then some s!"fails the same index was accepted more than once under one key: {acc} accepted draws in {rr} rounds of concurrent draws of one fresh index"
        else if acc < rr then some s!"fails a fresh index was refused to every caller in some round: {acc} accepted draws in {rr} rounds"
        else some "holds"
      | _, _, _ => some "unknown"
    | _ => if impl.startsWith "panic" || impl.startsWith "timeout" then some s!"fails {impl}" else some "unknown"
  | ["c06.used", ops] => verdict (do
      -- spec: a panic is required exactly when some (gate, side, index, offset) is drawn twice, a gate is used
      -- both ways, a sequential gate is requested twice, or an offset exceeds the cap
      let ops := ops.splitOn ","
      let mut seen : List (String × Bool × Nat × Nat) := []
      let mut kinds : List (String × Bool) := []
      let mut bad := false
      for op in ops do
        if bad then break
        match op.splitOn ":" with
        | [k, g, i, z, c] =>
            let i ← i.toNat?
            let z ← z.toNat?
            let c ← c.toNat?
            if kinds.contains (g, true) then bad := true
            else
              kinds := (g, false) :: kinds
              for off in [0:z * c] do
                for side in (if k == "ib" then [true, false] else if k == "il" then [true] else [false]) do
                  if off > 2 ^ 11 ∨ seen.contains (g, side, i, off) then bad := true
                  seen := (g, side, i, off) :: seen
        | ["sq", g, _] =>
            if kinds.any (·.1 == g) then bad := true
            kinds := (g, true) :: kinds
        | _ => none
      pure (if bad then impl.startsWith "panic" else impl == "ok")) "a (step, index, offset) was served twice, or a gate was used both indexed and sequential, without the debug-build detector firing"
  | _ => none

end IpaVerif.Driver.C06
