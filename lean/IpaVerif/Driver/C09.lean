import IpaVerif.Model.Util
import IpaVerif.Model.Serde
import IpaVerif.Model.Ristretto
import IpaVerif.Model.Transpose
import IpaVerif.Model.ReportPack
import IpaVerif.Model.QueryString
import IpaVerif.Generated.C09Wire
import IpaVerif.Generated.PrimeFields
import IpaVerif.Generated.C09Serde
/-!
Line-protocol handlers for property C09 (model side). Import-free.

Requests of the serde suites (`c09_small`, `c09_large`):

* `c09.blk <Ty> <suffix-hex|->`  for every first byte `b` in 0..255 decode `[b] ++ suffix`; response:
  256 entries joined by `,` with runs of equal entries compressed as `<entry>*<n>`; an entry is `e`
  (rejected) or the decoded leaves in hex joined by `:` followed by `!` if re-encoding differs.
* `c09.de <Ty> <hex> [ge-order]` → `ok <leaves> <re-encoded hex>` | `err` (the optional marker names
  the input class of known finding F9 and is ignored)
* `c09.en <Ty> <leaves>` → `<hex>`
* `c09.rp de <hex>`     → `ok <re-encoded hex>` | `err`   (RP25519)

`<Ty>` is `Leaf`, `share:Leaf`, `arrN:Leaf`, ….
-/
namespace IpaVerif.Driver.C09
open IpaVerif.Util IpaVerif.Serde

def rawTy (name : String) (bytes : Nat) : Ty := .bits { name := name, bits := 8 * bytes, bytes := bytes, fallible := false }

def bitsByName (n : String) : Option Ty := (IpaVerif.Generated.bitTypes.find? (·.name == n)).map .bits

open IpaVerif.Generated.Wire in
/-- composite wire types with their own `Serializable` impl -/
def namedTy (n : String) : Option Ty :=
  if n == "Hash" then some (rawTy "Hash" 32)
  else if n == "UniqueTag" then some (rawTy "UniqueTag" uniqueTagBytes)
  else if n == "HashArr" then some (.arr maxProofRecursion (rawTy "Hash" 32))
  else if n == "ProofDiff" then some (.arr (maxProofRecursion + 1) (.prime IpaVerif.Generated.fp61))
  else if n == "ProofArr" then some (.arr proofArrayLen (.prime IpaVerif.Generated.fp61))
  else if n == "Prf" then do
    let v ← bitsByName "BA3"
    let bk ← bitsByName "BA8"
    pure (.pair (rawTy "u64" prfMatchKeyBytes) (.pair (.share v) (.share bk)))
  else none

def leafTy (n : String) : Option Ty :=
  if let some t := namedTy n then some t else
  if n == "Boolean" then some .boolean
  else if n == "Fp25519" then some .fp25519
  else match IpaVerif.Generated.primeFields.find? (·.name == n) with
    | some P => some (.prime P)
    | none => (IpaVerif.Generated.bitTypes.find? (·.name == n)).map .bits

def wrapTy (w : String) (t : Ty) : Option Ty :=
  if w == "share" then some (.share t)
  else if w.startsWith "arr" then (w.drop 3).toString.toNat?.map (fun n => .arr n t)
  else none

/-- `share:arr16:Fp31` → `Ty.share (Ty.arr 16 (Ty.prime fp31))`. -/
def parseTy (s : String) : Option Ty :=
  match (s.splitOn ":").reverse with
  | [] => none
  | leaf :: wrappers => do
      let t ← leafTy leaf
      wrappers.foldlM (fun t w => wrapTy w t) t

def showLeaves (ls : List Nat) : String := String.intercalate ":" (ls.map natHex)

def parseLeaves (s : String) : Option (List Nat) := (s.splitOn ":").mapM parseHexNat

/-- run-length compression of equal neighbouring entries -/
def rle (xs : List String) : String :=
  let rec go : List String → Option (String × Nat) → List String → List String
    | [], none, acc => acc.reverse
    | [], some (e, n), acc => ((if n == 1 then e else s!"{e}*{n}") :: acc).reverse
    | x :: xs, none, acc => go xs (some (x, 1)) acc
    | x :: xs, some (e, n), acc =>
      if x == e then go xs (some (e, n + 1)) acc
      else go xs (some (x, 1)) ((if n == 1 then e else s!"{e}*{n}") :: acc)
  String.intercalate "," (go xs none [])

def entryOf (t : Ty) (bs : List Nat) : String :=
  match (codecOf t).dec bs with
  | .ok v => showLeaves (leaves t v) ++ (if (codecOf t).enc v == bs then "" else "!")
  | .err => "e"
  | .panic => "panic"

def serde (op : String) (t : Ty) (args : List String) : Option String :=
  match op, args with
  | "blk", [suffix] => do
      let suf ← parseHexBytes suffix
      pure (rle ((List.range 256).map (fun b => entryOf t (b :: suf))))
  | "de", h :: _ => do
      let bs ← parseHexBytes h
      match (codecOf t).dec bs with
      | .ok v => pure s!"ok {showLeaves (leaves t v)} {bytesHex ((codecOf t).enc v)}"
      | .err => pure "err"
      | .panic => pure "panic"
  | "en", [l] => do
      let ls ← parseLeaves l
      let (v, rest) ← build t ls
      if rest.isEmpty then pure (bytesHex ((codecOf t).enc v)) else none
  | _, _ => none

/-- `RP25519::deserialize` + re-serialize, with dalek's `decompress` replaced by the RFC 9496 reference;
the re-encoding of an accepted string is the string itself (`rp25519_lawful`). -/
def rp (op : String) (args : List String) : Option String :=
  match op, args with
  | "de", [h] => do
      let bs ← parseHexBytes h
      pure (if IpaVerif.Ristretto.valid bs then s!"ok {bytesHex bs}" else "err")
  | _, _ => none

/-! ### transposes (`c09_transpose`)

* `c09.tr <kind> <M> <N> <form> <left-hex> <right-hex|->` — `kind` names the macro
  (`ba_to_ba`, `bool_to_ba`, `bool_to_ba_small`, `ba_to_bool`, `ba_fn_to_bool`, `ba_to_bool_small`), the
  source is an `M × N` bit matrix given as rows of `⌈N/8⌉` bytes (left and right share separately);
  `form` is `arr` (the array impl), `shim` (Vec / BitDecomposed destination) or `shimvec` (`&Vec`
  source); response `<left rows> <right rows>` or `err <expected> <actual>` (LengthError).
* `c09.tr aggregation_transpose <M> <N> <B> <left-hex> <right-hex>` — `B` matrices, bit-major.
* `c09.tr-list` — the impls known (from the macro invocations). -/

open IpaVerif.Transpose in
def chunks (n : Nat) (bs : List Nat) : List (List Nat) :=
  if n = 0 then [] else
  let rec go : Nat → List Nat → List (List Nat)
    | 0, _ => []
    | fuel + 1, bs => if bs.isEmpty then [] else bs.take n :: go fuel (bs.drop n)
  go (bs.length + 1) bs

def rowsHex (m : List (List Nat)) : String := bytesHex m.flatten

def findImpl (kind : String) (M N : Nat) : Option Nat :=
  (IpaVerif.Generated.Transpose.impls.find? (fun e => e.1 == kind && e.2.1 == M && e.2.2.1 == N)).map (·.2.2.2)

/-- which shim forms take a fallible (`LengthError`) source -/
def fallibleForm (kind form : String) : Bool :=
  (form == "shim" && (kind == "bool_to_ba" || kind == "bool_to_ba_small")) || (form == "shimvec" && kind == "ba_to_bool_small")

def trOne (f : IpaVerif.Transpose.Rows → IpaVerif.Transpose.Rows) (l r : String) (rowBytes : Nat) : Option String := do
  let lb ← parseHexBytes l
  if r == "-" then pure (rowsHex (f (chunks rowBytes lb))) else
  let rb ← parseHexBytes r
  pure s!"{rowsHex (f (chunks rowBytes lb))} {rowsHex (f (chunks rowBytes rb))}"

def trDispatch (impl : Nat → Nat → Nat → Bool → IpaVerif.Transpose.Rows → IpaVerif.Transpose.Rows)
    (args : List String) : Option String :=
  match args with
  | [kind, ms, ns, form, l, r] => do
      let M ← ms.toNat?
      let N ← ns.toNat?
      let kernel ← findImpl kind M N
      let rowBytes := (N + 7) / 8
      if kind == "aggregation_transpose" then
        let B ← form.toNat?
        let lb ← parseHexBytes l
        let rb ← parseHexBytes r
        let per := M * rowBytes
        let f := fun (bs : List Nat) => (chunks per bs).map (fun mat => impl kernel M N true (chunks rowBytes mat))
        if lb.length != B * per || rb.length != B * per then none else
        pure s!"{bytesHex ((f lb).map List.flatten).flatten} {bytesHex ((f rb).map List.flatten).flatten}"
      else
        let lb ← parseHexBytes l
        let nrows := lb.length / rowBytes
        if nrows != M then
          (if fallibleForm kind form then pure s!"err {M} {nrows}" else none)
        else trOne (impl kernel M N (form != "arr")) l r rowBytes
  | _ => none

open IpaVerif.Transpose in
/-- the model of the code: tiling drivers + kernels; the array form of the padded variant keeps all `8⌈N/8⌉` rows -/
def trModel (kernel M N : Nat) (shim : Bool) (m : Rows) : Rows :=
  if kernel == 0 && !shim then tiled8 m ((M + 7) / 8) ((N + 7) / 8) else transposeImpl kernel M N m

open IpaVerif.Transpose in
/-- the specification: `refT m i j = m j i` -/
def trSpec (kernel M N : Nat) (shim : Bool) (m : Rows) : Rows :=
  if kernel == 0 && !shim then refT m M ((N + 7) / 8 * 8) else refT m M N

def implList : String :=
  String.intercalate "," (IpaVerif.Generated.Transpose.impls.map (fun e => s!"{e.1}:{e.2.1}x{e.2.2.1}"))

/-! ### composite wire types (`c09_wire`)

* `c09.vec <Ty> <leaves>;<leaves>;…|-` — `Vec<T>::to_bytes` (query result layout)
* `c09.pack hyb|agg <BK> <V> lr <field leaves…>` — `Shuffleable::left` / `right`; response `<l> <r>` (hex ints)
* `c09.pack hyb|agg <BK> <V> new <l> <r>` — `Shuffleable::new`; response the fields `mk.l:mk.r:v.l:v.r:bk.l:bk.r`
* `c09.info imp|conv en <fields…>` / `de <hex>` — `Hybrid*Info::to_bytes` / `from_bytes`
* `c09.rep imp|conv en <fields…>` / `de <hex>` — plaintext report layouts with BK = BA8, V = BA3
Rejections (error or panic) of `from_bytes` / `deserialize` on malformed input are reported as `rej`. -/

open IpaVerif.ReportPack

def bitsOf (n : String) : Option Nat := (IpaVerif.Generated.bitTypes.find? (·.name == n)).map (·.bits)

def hexNats (l : List String) : Option (List Nat) := l.mapM parseHexNat

def packWidths (kind bk v : String) : Option (List Nat × Nat) := do
  let b ← bitsOf bk
  let w ← bitsOf v
  if kind == "hyb" then pure ([64, w, b], IpaVerif.Generated.Wire.hybridShareBits)
  else if kind == "agg" then pure ([w, b], IpaVerif.Generated.Wire.aggShareBits)
  else none

def pack (args : List String) : Option String :=
  match args with
  | kind :: bk :: v :: "lr" :: fields => do
      let (ws, share) ← packWidths kind bk v
      let fs ← hexNats fields
      if fs.length != 2 * ws.length then none else
      if !fits ws share then pure "panic" else
      let ls := (List.range ws.length).map (fun i => fs.getD (2 * i) 0)
      let rs := (List.range ws.length).map (fun i => fs.getD (2 * i + 1) 0)
      pure s!"{natHex (joinFields (ws.zip ls))} {natHex (joinFields (ws.zip rs))}"
  | [kind, bk, v, "new", l, r] => do
      let (ws, share) ← packWidths kind bk v
      let l ← parseHexNat l
      let r ← parseHexNat r
      if !fits ws share then pure "panic" else
      let ls := splitFields ws l
      let rs := splitFields ws r
      pure (showLeaves ((ls.zip rs).flatMap (fun (a, b) => [a, b])))
  | _ => none

def showOutcome {α : Type} (o : Outcome α) (f : α → String) : String :=
  match o with
  | .ok v => "ok " ++ f v
  | _ => "rej"

def parseConv (args : List String) : Option ConvInfo :=
  match args with
  | [k, d, ts, e, sv] => do
      pure { keyId := ← parseHexNat k, domain := ← parseHexBytes d, timestamp := ← parseHexNat ts,
             epsilon := ← parseHexNat e, sensitivity := ← parseHexNat sv }
  | _ => none

def showConv (c : ConvInfo) : String :=
  s!"{natHex c.keyId} {bytesHex c.domain} {natHex c.timestamp} {natHex c.epsilon} {natHex c.sensitivity}"

def info (args : List String) : Option String :=
  match args with
  | ["imp", "en", k] => do pure (bytesHex (impInfoEnc (← parseHexNat k)))
  | ["imp", "de", h] => do
      pure (showOutcome (impInfoDec (← parseHexBytes h)) (fun k => s!"{natHex k} {bytesHex (impInfoEnc k)}"))
  | "conv" :: "en" :: rest => do pure (bytesHex (convInfoEnc (← parseConv rest)))
  | ["conv", "de", h] => do
      pure (showOutcome (convInfoDec (← parseHexBytes h)) (fun c => s!"{showConv c} {bytesHex (convInfoEnc c)}"))
  | _ => none

def rep (args : List String) : Option String := do
  let bk ← bitsByName "BA8"
  let v ← bitsByName "BA3"
  match args with
  | ["imp", "en", mkl, mkr, xl, xr, k] => do
      let x ← build bk [← parseHexNat xl]
      let y ← build bk [← parseHexNat xr]
      pure (bytesHex (reportEnc bk impInfoEnc ((← parseHexNat mkl, ← parseHexNat mkr), x.1, y.1, ← parseHexNat k)))
  | ["imp", "de", h] => do
      let bs ← parseHexBytes h
      pure (showOutcome (reportDec bk impInfoDec bs) (fun r =>
        s!"{showLeaves ([r.1.1, r.1.2] ++ leaves bk r.2.1 ++ leaves bk r.2.2.1)} {natHex r.2.2.2} {bytesHex (reportEnc bk impInfoEnc r)}"))
  | "conv" :: "en" :: mkl :: mkr :: xl :: xr :: rest => do
      let x ← build v [← parseHexNat xl]
      let y ← build v [← parseHexNat xr]
      pure (bytesHex (reportEnc v convInfoEnc ((← parseHexNat mkl, ← parseHexNat mkr), x.1, y.1, ← parseConv rest)))
  | ["conv", "de", h] => do
      let bs ← parseHexBytes h
      pure (showOutcome (reportDec v convInfoDec bs) (fun r =>
        s!"{showLeaves ([r.1.1, r.1.2] ++ leaves v r.2.1 ++ leaves v r.2.2.1)} {showConv r.2.2.2} {bytesHex (reportEnc v convInfoEnc r)}"))
  | _ => none

def vecToBytes (t : Ty) (arg : String) : Option String := do
  if arg == "-" then pure "-" else
  let rows ← (arg.splitOn ";").mapM (fun r => do
    let ls ← parseLeaves r
    let (v, rest) ← build t ls
    if rest.isEmpty then pure v else none)
  pure (bytesHex (encAll (codecOf t) rows))

/-! ### query string (`c09_query`)

* `c09.query str <qt> <field> <size> [<mbk> <dp> <eps-text> <pm>]` — `Display for QueryConfigQueryParams`
* `c09.query parse <query-string>` — the axum extractor; `ok <qt> <field> <size> [<mbk> <dp> <eps-text> <pm>]` | `err`
* `c09.query json <qt> <field> <size> […]` — `serde_json` round trip of `QueryConfig`; `rt-ok`.  The model answers
  `rt-ok` for EVERY configuration: since the fix C09-JSON-F64 ipa-core builds serde_json with `float_roundtrip`
  (translator item `wire.serde_json_float_roundtrip`), so the printed shortest form of `epsilon` parses back to the
  same `f64`; before the fix the default parser was up to one ULP off (e.g. 15.220688432552539, -9301983688401.117).
The generator only uses keys/values made of unreserved characters, so splitting at `&` and `=` is all
there is to url-decoding here. -/

open IpaVerif.QueryString in
def parseCfg (args : List String) : Option QueryConfig := do
  match args with
  | qt :: f :: size :: rest =>
    let fieldType ← if f == "Fp31" then some FieldType.fp31 else if f == "Fp32BitPrime" then some .fp32 else none
    let size ← size.toNat?
    let queryType ← match qt, rest with
      | "test-multiply", [] => some QueryType.testMultiply
      | "test-add", [] => some .testAdd
      | "test-sharded-shuffle", [] => some .testShardedShuffle
      | "malicious-hybrid", [mbk, dp, eps, pm] =>
        some (.maliciousHybrid { maxBreakdownKey := ← mbk.toNat?, withDp := ← dp.toNat?, epsilon := eps, plaintextMatchKeys := pm == "true" })
      | _, _ => none
    pure { size := size, fieldType := fieldType, queryType := queryType }
  | _ => none

open IpaVerif.QueryString in
def showScalar : Scalar → String
  | .nat n => toString n
  | .str s => s
  | .bool b => if b then "true" else "false"

open IpaVerif.QueryString in
def showCfg (c : QueryConfig) : String :=
  let base := s!"{queryTypeStr c.queryType} {fieldName c.fieldType} {c.size}"
  match c.queryType with
  | .maliciousHybrid p => s!"{base} {p.maxBreakdownKey} {p.withDp} {p.epsilon} {if p.plaintextMatchKeys then "true" else "false"}"
  | _ => base

open IpaVerif.QueryString in
/-- what serde_urlencoded does with a value, per key: numbers must be plain decimals, booleans `true`/`false` -/
def scalarFor (k v : String) : Option Scalar :=
  -- a malformed value is kept as text: it fails the typed lookup only if the extractor reads that key
  if k == "size" || k == "max_breakdown_key" || k == "with_dp" then
    (if v.all Char.isDigit then (v.toNat?.map .nat).orElse (fun _ => some (.str v)) else some (.str v))
  else if k == "plaintext_match_keys" then
    (if v == "true" then some (.bool true) else if v == "false" then some (.bool false) else some (.str v))
  else some (.str v)

open IpaVerif.QueryString in
def query (args : List String) : Option String :=
  match args with
  | "str" :: rest => do
      let c ← parseCfg rest
      pure (String.intercalate "&" ((toPairs c).map (fun (k, v) => s!"{k}={showScalar v}")))
  | ["parse", qs] =>
      let kvs := (qs.splitOn "&").map (fun kv => match kv.splitOn "=" with
        | [k, v] => some (k, v)
        | _ => none)
      if kvs.any Option.isNone then some "err" else
      let kvs := kvs.filterMap id
      let known := ["size", "field_type", "query_type", "max_breakdown_key", "with_dp", "epsilon", "plaintext_match_keys"]
      -- a malformed value of a key the extractor reads is an error; unknown keys are ignored
      let ps := kvs.filter (fun (k, _) => known.contains k)
      match ps.mapM (fun (k, v) => (scalarFor k v).map (fun s => (k, s))) with
      | none => some "err"
      | some ps =>
        match fromPairs ps with
        | some c => some ("ok " ++ showCfg c)
        | none => some "err"
  | "json" :: rest => (parseCfg rest).map (fun _ => "rt-ok")
  -- serde_json's grammar is not modelled: the verdict on a JSON body is the oracle's (size within 1..=10^9 or rejected)
  | ["jparse", _] => some "judge"
  | "rt" :: rest => do
      let c ← parseCfg rest
      match fromPairs (toPairs c) with
      | some c' => pure ("ok " ++ showCfg c')
      | none => pure "err"
  | _ => none

/-- `some response` if the request belongs to this property, else `none`. -/
def handle (toks : List String) : Option String :=
  match toks with
  | "c09.query" :: args => some ((query args).getD "bad-request")
  | ["c09.vec", ty, arg] => some ((do vecToBytes (← parseTy ty) arg).getD "bad-request")
  | "c09.pack" :: args => some ((pack args).getD "bad-request")
  | "c09.info" :: args => some ((info args).getD "bad-request")
  | "c09.rep" :: args => some ((rep args).getD "bad-request")
  | ["c09.tr-list"] => some implList
  | "c09.tr" :: args => some ((trDispatch trModel args).getD "bad-request")
  | "c09.rp" :: op :: args => some ((rp op args).getD "bad-request")
  | op :: ty :: args =>
    if op == "c09.blk" || op == "c09.de" || op == "c09.en" then
      match parseTy ty with
      | some t => some ((serde (op.drop 4).toString t args).getD "bad-request")
      | none => some "bad-request"
    else none
  | _ => none

/-! ### Spec-side oracle: "accepted iff canonical; value equals the little-endian integer;
re-encoding reproduces the input; the encoding is the concatenation of the leaves' LE bytes" —
written on the flat list of (size, bound) of the leaves, independently of `codecOf`. -/

/-- (bytes, exclusive bound on the little-endian integer) of every leaf in wire order. -/
def leafSpecs : Ty → List (Nat × Nat)
  | .prime P => [(P.storeBits / 8, P.p)]
  | .boolean => [(1, 2)]
  | .bits T => [(T.bytes, 2 ^ T.bits)]
  | .fp25519 => [(32, 2 ^ 252 + 27742317777372353535851937790883648493)]
  | .share t => leafSpecs t ++ leafSpecs t
  | .arr n t => (List.replicate n (leafSpecs t)).flatten
  | .pair a b => leafSpecs a ++ leafSpecs b

def leInt (bs : List Nat) : Nat := bs.foldr (fun b acc => b + 256 * acc) 0

/-- split by the leaf sizes; `none` if the length does not match -/
def splitLeaves : List (Nat × Nat) → List Nat → Option (List (Nat × Nat))
  | [], [] => some []
  | [], _ => none
  | (sz, bound) :: rest, bs =>
    if bs.length < sz then none else do
      let tl ← splitLeaves rest (bs.drop sz)
      pure ((leInt (bs.take sz), bound) :: tl)

/-- expected response entry for input `bs`: `none` = must be rejected -/
def specDecode (t : Ty) (bs : List Nat) : Option (List Nat) := do
  let ls ← splitLeaves (leafSpecs t) bs
  if ls.all (fun (v, bound) => v < bound) then some (ls.map (·.1)) else none

def specEntry (t : Ty) (bs : List Nat) : String :=
  match specDecode t bs with
  | some ls => showLeaves ls
  | none => "e"

def natBytes (v : Nat) (n : Nat) : List Nat := (List.range n).map (fun i => v / 256 ^ i % 256)

def verdict (b : Bool) (why : String) : Option String :=
  some (if b then "holds" else "fails " ++ why)

def serdeOracle (op : String) (t : Ty) (args : List String) (impl : String) : Option String :=
  match op, args with
  | "blk", [suffix] => do
      let suf ← parseHexBytes suffix
      let want := rle ((List.range 256).map (fun b => specEntry t (b :: suf)))
      verdict (impl == want) "some byte string is accepted although not canonical, rejected although canonical, decoded to a value other than its little-endian integer, or re-encoded differently"
  | "de", h :: _ => do
      let bs ← parseHexBytes h
      match specDecode t bs with
      | some ls => verdict (impl == s!"ok {showLeaves ls} {bytesHex bs}") "a canonical encoding must be accepted, decode to its little-endian integer(s) and re-encode to itself"
      | none => verdict (impl == "err") "a non-canonical byte string (out-of-range integer, non-zero padding, Boolean > 1) must be rejected"
  | "en", [l] => do
      let ls ← parseLeaves l
      let specs := leafSpecs t
      if ls.length != specs.length then none else
      if !(ls.zip specs).all (fun (v, (_, bound)) => v < bound) then some "unknown" else
      let want := ((ls.zip specs).map (fun (v, (sz, _)) => natBytes v sz)).flatten
      verdict (impl == bytesHex want) "the encoding must be the concatenation of the little-endian encodings of the components, of the advertised length"
  | _, _ => none

/-- Property oracle on (request, implementation response): `some "holds"`, `some "fails <why>"`, or `none`. -/
def oracle (toks : List String) (impl : String) : Option String :=
  match toks with
  | "c09.query" :: "json" :: _ => verdict (impl == "rt-ok") "QueryConfig must survive serde_json"
  | ["c09.query", "jparse", text] =>
      -- spec: the `size` member is a plain decimal within 1..=10^9 and is what the decoder returns, or the body is rejected
      match text.splitOn "\"size\":" with
      | [_, rest] =>
        let tok := String.ofList (rest.toList.takeWhile (fun c => c != ',' && c != '}'))
        (match (if tok.all Char.isDigit then tok.toNat? else none) with
         | some n =>
           if 0 < n && n ≤ IpaVerif.QueryString.maxSize then
             verdict (impl.startsWith "ok " && (impl.splitOn " ").getD 3 "" == toString n) "a query size within 1..=10^9 must be decoded to itself"
           else verdict (impl == "err") "a query size outside 1..=10^9 must be rejected when the JSON body is decoded"
         | none => verdict (impl == "err") "a size that is not a plain unsigned decimal must be rejected")
      | _ => some "unknown"
  | ["c09.query", "parse", qs] =>
      -- spec side, sizes only: whatever else the string says, an accepted configuration has a size within 1..=10^9
      match ((qs.splitOn "&").filterMap (fun kv => match kv.splitOn "=" with | ["size", v] => some v | _ => none)) with
      | [v] =>
        (match (if v.all Char.isDigit && !v.isEmpty then v.toNat? else none) with
         | some n =>
           if 0 < n && n ≤ IpaVerif.QueryString.maxSize then some "unknown"
           else verdict (impl == "err") "a query size outside 1..=10^9 must be rejected when the query string is decoded"
         | none => verdict (impl == "err") "a size that is not a plain unsigned decimal must be rejected")
      | _ => some "unknown"
  | "c09.query" :: "rt" :: rest =>
      -- the property itself: Display then the extractor returns the configuration
      verdict (impl == "ok " ++ String.intercalate " " rest) "parsing the query string written for a configuration must return that configuration"
  | ["c09.vec", ty, arg] =>
      -- the result layout is the concatenation of the fixed-size encodings of the rows
      match parseTy ty with
      | some t =>
        if arg == "-" then verdict (impl == "-") "empty result must be empty" else
        match (arg.splitOn ";").mapM parseLeaves with
        | some rows =>
          let specs := leafSpecs t
          let want := (rows.map (fun ls => ((ls.zip specs).map (fun (v, (sz, _)) => natBytes v sz)).flatten)).flatten
          verdict (impl == bytesHex want) "Vec<T>::to_bytes must be the concatenation of the rows' encodings"
        | none => some "unknown"
      | none => some "unknown"
  | "c09.pack" :: kind :: bk :: v :: "lr" :: fields =>
      -- spec: share = Σ fieldᵢ · 2^(offsetᵢ), offsets = running sum of the widths
      match packWidths kind bk v, hexNats fields with
      | some (ws, share), some fs =>
        if ws.foldl (· + ·) 0 > share then verdict (impl.startsWith "panic") "fields wider than the share type must not be packed silently" else
        let offs := (List.range ws.length).map (fun i => (ws.take i).foldl (· + ·) 0)
        let side := fun (o : Nat) => (List.range ws.length).foldl (fun acc i => acc + fs.getD (2 * i + o) 0 * 2 ^ offs.getD i 0) 0
        verdict (impl == s!"{natHex (side 0)} {natHex (side 1)}") "left()/right() must place field i at the bit offset Σ_{j<i} width j"
      | _, _ => some "unknown"
  | ["c09.pack", kind, bk, v, "new", l, r] =>
      match packWidths kind bk v, parseHexNat l, parseHexNat r with
      | some (ws, share), some l, some r =>
        if ws.foldl (· + ·) 0 > share then verdict (impl.startsWith "panic") "fields wider than the share type must not be unpacked silently" else
        let offs := (List.range ws.length).map (fun i => (ws.take i).foldl (· + ·) 0)
        let f := fun (x i : Nat) => x / 2 ^ offs.getD i 0 % 2 ^ ws.getD i 0
        let want := showLeaves ((List.range ws.length).flatMap (fun i => [f l i, f r i]))
        verdict (impl == want) "new(l, r) must read field i from the bit offset Σ_{j<i} width j"
      | _, _, _ => some "unknown"
  | "c09.info" :: _ :: "de" :: [h] | "c09.rep" :: _ :: "de" :: [h] =>
      -- accepted ⇒ the re-encoding (last token of the response) is the input
      if impl == "rej" then some "unknown"
      else verdict (impl.startsWith "ok " && (impl.splitOn " ").getLast? == some h) "an accepted byte string must be the canonical encoding of the decoded value (no trailing or missing bytes)"
  | ["c09.tr-list"] => verdict (impl == implList) "the harness and the source disagree on the list of transpose impls"
  | "c09.tr" :: args =>
      match trDispatch trSpec args with
      | some want => verdict (impl == want) "destination bit (i, j) must equal source bit (j, i) (or LengthError {expected, actual} for a source of the wrong height)"
      | none => some "unknown"
  | ["c09.rp", "de", h] =>
      -- accepted ⇒ the re-encoding is the input (only canonical encodings are accepted); whether a
      -- rejected string is really non-canonical is dalek's business (hypothesis) — the model above
      -- cross-checks it against RFC 9496
      if impl == "err" then some "unknown"
      else verdict (impl == s!"ok {h}") "an accepted point encoding must re-encode to itself"
  | op :: ty :: args =>
    if op == "c09.blk" || op == "c09.de" || op == "c09.en" then
      match parseTy ty with
      | some t => some ((serdeOracle (op.drop 4).toString t args impl).getD "unknown")
      | none => some "unknown"
    else none
  | _ => none

end IpaVerif.Driver.C09
