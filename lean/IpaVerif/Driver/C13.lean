import IpaVerif.Driver.C13Iso
import IpaVerif.Model.Util
import IpaVerif.Model.Channel
import IpaVerif.Generated.Gateway
/-! Line-protocol handlers for property C13 (model side). Import-free.

* `c13.config <active> <read_size> <record_size> <u|i|s<n>>` → `<total_capacity> <record_size> <read_size>` | `panic:<tag>`
* `c13.coll <op,…>` with `a<q>.<p>.<g>.<stream>` (add_stream), `w<q>.<p>.<g>.<waker>` (add_waker), `x` (clear)
  → per op `ok|<woken>` / `none` / `some<stream>` / `panic`
* `c13.chan <active> <read_size> <size> <i|s<n>> <op,…>` with `s<g>.<i>` (send record i on gate g, payload
  `payload g i`), `r<g>.<i>` (receive record i on gate g) → per op `ok` / `err:TooManyRecords` / `<hex>` / `eos`.
* `c13.window <base_active> <read_size> <w> <record_size> <u|i|s<n>>`: the REAL chain
  `GatewayConfig{base_active, read_size}.set_active_work(w)` → `SendChannelConfig::new_with`
  → `<active> <total_capacity> <record_size> <read_size>`
* `c13.qwindow <base_active> <read_size> <query_size>`: `set_active_work_from_query_config` → `<active> <read_size>`
* `c13.burst <base_active> <read_size> <w> <size> <n>`: a channel opened with the window `w` on a gateway
  configured with `base_active`; the sender pushes records `0..n` (total `n`) one after the other before the
  receiver polls at all, then the receiver takes them in order → `ok n=<n> digest=<d>` | `blocked at=<i>`
-/
namespace IpaVerif.Driver.C13
open IpaVerif.Util IpaVerif.Channel

/-! ### config -/

def parseTotal (s : String) : Option Total :=
  match s.toList with
  | ['u'] => some .unspecified
  | ['i'] => some .indeterminate
  | 's' :: rest => (String.ofList rest).toNat?.map .specified
  | _ => none

def isIndeterminate : Total → Bool
  | .indeterminate => true
  | _ => false

def config (active readCfg rec : Nat) (t : Total) : String :=
  match newWith active readCfg rec (isIndeterminate t) with
  | .ok c => s!"{c.totalCapacity} {c.recordSize} {c.readSize}"
  | .error e => s!"panic:{e}"

def isPow2 (n : Nat) : Bool := n != 0 && (n &&& (n - 1)) == 0

/-- Spec side of `new_with`: alignment (ipa#1300) and "largest power-of-two multiple of the record
size not above the configured read size", stated without the code's formula. -/
def configOracle (active readCfg rec : Nat) (t : Total) (impl : String) : Option String :=
  if rec = 0 then (if impl.startsWith "panic" then none else some "zero record size accepted") else
  match (impl.splitOn " ").mapM String.toNat? with
  | some [cap, r, rd] =>
    if cap ≠ active * rec then some "total capacity is not active * record size"
    else if r ≠ rec then some "record size changed"
    else if rd = 0 ∨ cap % rd ≠ 0 then some "read size does not divide the total capacity (ipa#1300)"
    else if rd % rec ≠ 0 then some "record size does not divide the read size"
    else if !isPow2 (rd / rec) then some "read size is not a power-of-two multiple of the record size"
    else if isIndeterminate t then (if rd = rec then none else some "indeterminate total must flush every record")
    else if rd > rec ∧ rd > readCfg then some "read size exceeds the configured read size"
    else if rd < cap ∧ 2 * rd ≤ readCfg then some "read size is not the largest admissible one"
    else none
  | _ => some s!"the constructor must not panic on valid input, got {impl}"

/-! ### StreamCollection -/

def parseKeyed (s : String) : Option (Key × Nat) :=
  match (s.splitOn ".").mapM String.toNat? with
  | some [q, p, g, x] => some ((q, p, g), x)
  | _ => none

def parseCollOp (s : String) : Option CollOp :=
  match s.toList with
  | ['x'] => some .clear
  | 'a' :: rest => (parseKeyed (String.ofList rest)).map (fun (k, x) => .addStream k x)
  | 'w' :: rest => (parseKeyed (String.ofList rest)).map (fun (k, x) => .addWaker k x)
  | _ => none

def parseCollOps (s : String) : Option (List CollOp) :=
  if s = "-" then some [] else (s.splitOn ",").mapM parseCollOp

def showCollOut : CollOut → String
  | .unit none => "ok|-"
  | .unit (some w) => s!"ok|{w}"
  | .got none => "none"
  | .got (some s) => s!"some{s}"
  | .panic => "panic"

def showOuts (l : List String) : String := if l.isEmpty then "-" else String.intercalate ";" l

/-- Spec side: the outcome of an operation on key `k` is a function of the earlier operations on the
*same* key since the last `clear` (a one-stream rendezvous), nothing else. -/
def collSpecState (k : Key) (hist : List CollOp) : Option StreamState :=
  -- hist is oldest-first
  hist.foldl (fun st op =>
    match op with
    | .clear => none
    | .addStream k' s => if k' == k then
        (match st with
         | none | some (.waiting _) => some (.ready s)
         | other => other) else st
    | .addWaker k' w => if k' == k then
        (match st with
         | none | some (.waiting _) => some (.waiting w)
         | some (.ready _) => some .completed
         | other => other) else st) none

def collSpecOut (hist : List CollOp) (op : CollOp) : String :=
  match op with
  | .clear => "ok|-"
  | .addStream k _ =>
    match collSpecState k hist with
    | none => "ok|-"
    | some (.waiting w) => s!"ok|{w}"
    | _ => "panic"
  | .addWaker k _ =>
    match collSpecState k hist with
    | some (.ready s) => s!"some{s}"
    | some .completed => "panic"
    | _ => "none"

def collSpec (ops : List CollOp) : List String :=
  (List.range ops.length).filterMap (fun n => (ops[n]?).map (collSpecOut (ops.take n)))

/-! ### channel -/

def payload (g i sz : Nat) : List Nat := (List.range sz).map (fun k => (g * 131 + i * 17 + k * 29 + 7) % 256)

inductive ChanOp where
  | send (g i : Nat)
  | recv (g i : Nat)
deriving Repr, BEq, DecidableEq

def parseChanOp (s : String) : Option ChanOp :=
  match s.toList with
  | 's' :: rest =>
    match ((String.ofList rest).splitOn ".").mapM String.toNat? with
    | some [g, i] => some (.send g i)
    | _ => none
  | 'r' :: rest =>
    match ((String.ofList rest).splitOn ".").mapM String.toNat? with
    | some [g, i] => some (.recv g i)
    | _ => none
  | _ => none

def parseChanOps (s : String) : Option (List ChanOp) := (s.splitOn ",").mapM parseChanOp

/-- Records that reach the wire on gate `g`: those `gatewaySend` lets through. -/
def sentOn (total : Total) (ops : List ChanOp) (g : Nat) : List Nat :=
  ops.filterMap (fun op => match op with
    | .send g' i => if g' = g ∧ gatewaySend total i ≠ .tooManyRecords then some i else none
    | _ => none)

/-- Channel-level model: a send is refused iff `gatewaySend` refuses it; `receive(i)` returns the
payload written by `send(i)` on the same gate; past a closed channel it is `EndOfStream`; a receive
that can never be served is `timeout`. -/
def chanModel (sz : Nat) (total : Total) (ops : List ChanOp) : List String :=
  ops.map (fun op => match op with
    | .send _ i => if gatewaySend total i = .tooManyRecords then "err:TooManyRecords" else "ok"
    | .recv g i =>
      let sent := sentOn total ops g
      -- served iff every record up to i is sent (the stream is ordered)
      if (List.range (i + 1)).all (fun j => sent.contains j) then bytesHex (payload g i sz)
      else match total with
        | .specified n => if i ≥ n ∧ (List.range n).all (fun j => sent.contains j) then "eos" else "timeout"
        | _ => "timeout")

def chanOracle (sz : Nat) (total : Total) (ops : List ChanOp) (impl : String) : Option String := Id.run do
  let items := impl.splitOn ";"
  if items.length ≠ ops.length then return some "one outcome per operation expected"
  for (op, it) in ops.zip items do
    match op with
    | .send _ i =>
      let beyond : Bool := match total with
        | .specified n => decide (i ≥ n)
        | _ => false
      if beyond && it != "err:TooManyRecords" then return some s!"send({i}) beyond the declared total must be an error, got {it}"
      if !beyond && it != "ok" then return some s!"send({i}) within the total failed: {it}"
    | .recv g i =>
      let within : Bool := match total with
        | .specified n => decide (i < n)
        | _ => true
      let wasSent := ops.any (fun o => o == .send g i) && within
      if wasSent then
        if it ≠ bytesHex (payload g i sz) then
          return some s!"receive({i}) on gate {g} returned {it}, the matching send wrote {bytesHex (payload g i sz)}"
      else if it != "eos" && it != "timeout" then
        return some s!"receive({i}) on gate {g} returned {it} but no such record was sent on this channel"
  return none

/-! ### the per-channel window -/

def windowModel (base readCfg w rec : Nat) (t : Total) : String :=
  match mpcSendCfg ⟨base, readCfg⟩ w rec (isIndeterminate t) with
  | .ok c => s!"{(setActiveWork ⟨base, readCfg⟩ w).active} {c.totalCapacity} {c.recordSize} {c.readSize}"
  | .error e => s!"panic:{e}"

/-- Spec side: a channel opened with the window `w` holds `w` outstanding records (the capacity rule of
the property: "as long as no more than the configured window of records is outstanding the exchange
cannot deadlock"), whatever the gateway's own window is; plus the alignment rules of `configOracle`. -/
def windowOracle (readCfg w rec : Nat) (t : Total) (impl : String) : Option String :=
  if rec = 0 then (if impl.startsWith "panic" then none else some "zero record size accepted") else
  match (impl.splitOn " ").mapM String.toNat? with
  | some [act, cap, r, rd] =>
    if act ≠ w then some s!"the channel was opened with the window {w} but is configured for {act} records"
    else if cap < w * rec then
      some s!"the send buffer ({cap} bytes) cannot hold the requested window of {w} records of {rec} bytes: record {cap / rec} of a batch kept outstanding blocks until the peer reads"
    else configOracle w readCfg rec t s!"{cap} {r} {rd}"
  | _ => some s!"the window override must not panic on valid input, got {impl}"

def qwindowModel (base readCfg size : Nat) : String :=
  let c := setActiveWorkFromQuery Generated.Gateway.defaultActive ⟨base, readCfg⟩ size
  s!"{c.active} {c.readSize}"

def qwindowOracle (readCfg size : Nat) (impl : String) : Option String :=
  match (impl.splitOn " ").mapM String.toNat? with
  | some [act, rd] =>
    let want := max 2 (min Generated.Gateway.defaultActive size)
    if !isPow2 act then some "active work is not a power of two"
    else if act < want then some s!"active work {act} is below max(2, min(default, query size)) = {want}"
    else if act ≥ 2 * want then some s!"active work {act} is not the next power of two of {want}"
    else if rd ≠ readCfg then some "read size changed"
    else none
  | _ => some s!"unexpected response {impl}"

def burstDigest (sz n : Nat) : Nat :=
  (List.range n).foldl (fun acc i =>
    (acc * 31 + (payload 0 i sz).foldl (fun a b => (a * 257 + b + 1) % 1000000007) 0) % 1000000007) 0

/-- Channel-level model: the first `total_capacity / record_size` records are buffered without the
reader (C14 `sender_refines_spec`); the next write waits for the stream to be polled. -/
def burstModel (base readCfg w sz n : Nat) : String :=
  match mpcSendCfg ⟨base, readCfg⟩ w sz false with
  | .ok c =>
    if n ≤ c.totalCapacity / sz then s!"ok n={n} digest={burstDigest sz n}" else s!"blocked at={c.totalCapacity / sz}"
  | .error e => s!"panic:{e}"

def burstOracle (w sz n : Nat) (impl : String) : Option String :=
  if n ≤ w then
    if impl = s!"ok n={n} digest={burstDigest sz n}" then none
    else some s!"{n} records outstanding on a channel opened with the window {w} must be accepted without the reader and received as sent; got {impl}"
  else
    match impl.splitOn "=" with
    | ["blocked at", k] =>
      match k.toNat? with
      | some k => if k ≥ w then none else some s!"the sender blocked at record {k}, inside the window {w}"
      | none => some s!"unexpected response {impl}"
    | _ => if impl = s!"ok n={n} digest={burstDigest sz n}" then none else some s!"unexpected response {impl}"

def handle (toks : List String) : Option String :=
  match toks with
  | ["c13.config", a, rd, r, t] => some <| Id.run do
      let some a := a.toNat? | return "bad-request"
      let some rd := rd.toNat? | return "bad-request"
      let some r := r.toNat? | return "bad-request"
      let some t := parseTotal t | return "bad-request"
      return config a rd r t
  | ["c13.coll", ops] => some <| Id.run do
      let some ops := parseCollOps ops | return "bad-request"
      return showOuts ((collRun [] ops).map showCollOut)
  | ["c13.chan", _a, _rd, sz, t, ops] => some <| Id.run do
      let some sz := sz.toNat? | return "bad-request"
      let some t := parseTotal t | return "bad-request"
      let some ops := parseChanOps ops | return "bad-request"
      return showOuts (chanModel sz t ops)
  | ["c13.window", b, rd, w, r, t] => some <| Id.run do
      let some b := b.toNat? | return "bad-request"
      let some rd := rd.toNat? | return "bad-request"
      let some w := w.toNat? | return "bad-request"
      let some r := r.toNat? | return "bad-request"
      let some t := parseTotal t | return "bad-request"
      return windowModel b rd w r t
  | ["c13.qwindow", b, rd, n] => some <| Id.run do
      let some b := b.toNat? | return "bad-request"
      let some rd := rd.toNat? | return "bad-request"
      let some n := n.toNat? | return "bad-request"
      return qwindowModel b rd n
  | ["c13.burst", b, rd, w, sz, n] => some <| Id.run do
      let some b := b.toNat? | return "bad-request"
      let some rd := rd.toNat? | return "bad-request"
      let some w := w.toNat? | return "bad-request"
      let some sz := sz.toNat? | return "bad-request"
      let some n := n.toNat? | return "bad-request"
      return burstModel b rd w sz n
  | _ => C13Iso.handle toks

def oracle (toks : List String) (impl : String) : Option String :=
  match toks with
  | ["c13.config", a, rd, r, t] => some <| Id.run do
      let some a := a.toNat? | return "unknown"
      let some rd := rd.toNat? | return "unknown"
      let some r := r.toNat? | return "unknown"
      let some t := parseTotal t | return "unknown"
      match configOracle a rd r t impl with
      | none => return "holds"
      | some why => return s!"fails {why}"
  | ["c13.coll", ops] => some <| Id.run do
      let some ops := parseCollOps ops | return "unknown"
      let want := showOuts (collSpec ops)
      if impl = want then return "holds"
      else return s!"fails stream rendezvous differs from the per-key specification: want {want}"
  | ["c13.chan", _a, _rd, sz, t, ops] => some <| Id.run do
      let some sz := sz.toNat? | return "unknown"
      let some t := parseTotal t | return "unknown"
      let some ops := parseChanOps ops | return "unknown"
      match chanOracle sz t ops impl with
      | none => return "holds"
      | some why => return s!"fails {why}"
  | ["c13.window", _b, rd, w, r, t] => some <| Id.run do
      let some rd := rd.toNat? | return "unknown"
      let some w := w.toNat? | return "unknown"
      let some r := r.toNat? | return "unknown"
      let some t := parseTotal t | return "unknown"
      match windowOracle rd w r t impl with
      | none => return "holds"
      | some why => return s!"fails {why}"
  | ["c13.qwindow", _b, rd, n] => some <| Id.run do
      let some rd := rd.toNat? | return "unknown"
      let some n := n.toNat? | return "unknown"
      match qwindowOracle rd n impl with
      | none => return "holds"
      | some why => return s!"fails {why}"
  | ["c13.burst", _b, _rd, w, sz, n] => some <| Id.run do
      let some w := w.toNat? | return "unknown"
      let some sz := sz.toNat? | return "unknown"
      let some n := n.toNat? | return "unknown"
      match burstOracle w sz n impl with
      | none => return "holds"
      | some why => return s!"fails {why}"
  | _ => C13Iso.oracle toks impl

end IpaVerif.Driver.C13
