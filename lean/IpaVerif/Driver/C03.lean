import IpaVerif.Model.Util
import IpaVerif.Model.Dzkp
import IpaVerif.Model.DzkpStore
import IpaVerif.Model.DzkpBatch
import IpaVerif.Model.DzkpValidator
import IpaVerif.Model.DzkpAtomic
import IpaVerif.Model.Batcher
import IpaVerif.Generated.BatcherConsts
/-! Line-protocol handlers for property C03 (model side) and the spec-side oracle. Import-free.

Requests
  c03.consts
  c03.table U|V                                   rows `a,b,c,d;…`
  c03.tableprod i j                               Σ_k U[i][k]·V[j][k]
  c03.indices prover|right|left xl xr yl yr pl pr zr      (32-byte little-endian hex each) → digit strings
  c03.lagrange from N M ys | at N r ys
  c03.proof compute us vs | next r us vs | masks us vs p q | gdiff first zkps chs sum ptq
            | final U|V digits chs mask
  c03.hash2field lefts rights combinedhex exclude
  c03.validate api ty count mpg seed dev           dev = `-` or helper:field:record:bit
  c03.store first max gate:record:width:f0.….f6;…   block dump per gate
  c03.batch seed prover uidx vidx dev rho mp mq chs    dev = `-` | alt:pos | two:pos ; rho/mp/mq/chs observed
  c03.vstore rpb|max total|- op;op;…               op = gate:record:width:f0.….f6 (push) | v<record>; dump of the validator's tables
  c03.order ty count rpb gates seed script[/script/script]   script = <gate letter><record> | v<batch>, comma separated
-/
namespace IpaVerif.Driver.C03
open IpaVerif.Util IpaVerif.PrimeField IpaVerif.Generated IpaVerif.Generated.Dzkp IpaVerif.Dzkp

def digits (xs : List Nat) : String := String.ofList (xs.map fun d => Char.ofNat (d + '0'.toNat))
def parseDigits (s : String) : Option (List Nat) :=
  if s = "-" then some [] else
  s.toList.mapM fun c => if '0' ≤ c ∧ c ≤ '7' then some (c.toNat - '0'.toNat) else none

def optList : Option (List Nat) → String
  | some l => showNatList l
  | none => "panic"
def optNat : Option Nat → String
  | some v => toString v
  | none => "panic"

def parseBlock (args : List String) : Option Block :=
  match args.mapM parseHexBytes with
  | some [xl, xr, yl, yr, pl, pr, zr] =>
      if [xl, xr, yl, yr, pl, pr, zr].all (·.length == 32) then
        some { xl := ofLeBytes xl, xr := ofLeBytes xr, yl := ofLeBytes yl, yr := ofLeBytes yr,
               pl := ofLeBytes pl, pr := ofLeBytes pr, zr := ofLeBytes zr }
      else none
  | _ => none

def rowsStr (t : List (List Nat)) : String := String.intercalate ";" (t.map showNats)

def rowDot (u v : List Nat) : Nat := (u.zip v).foldl (fun acc ab => fadd acc (fmul ab.1 ab.2)) 0

def fieldOfName : String → Option Flip
  | "xl" => some .xl | "xr" => some .xr | "yl" => some .yl | "yr" => some .yr
  | "pl" => some .pl | "pr" => some .pr | "zr" => some .zr | "z" => some .sentZ | _ => none

def parseDev (s : String) : Option (Option (Hid × Flip)) :=
  if s = "-" then some none else
  match s.splitOn ":" with
  | [h, f, _, _] => do
      let h ← h.toNat?
      if h ≥ 3 then none else
      let f ← fieldOfName f
      pure (some (Hid.ofIdx h, f))
  | _ => none

def verdicts (dev : Option (Hid × Flip)) : String :=
  match dev with
  | none => "ok,ok,ok"
  | some (j, f) =>
      String.intercalate "," (Hid.all.map fun h => if Hid.mem h (predictedRejecters j f) then "fail" else "ok")

def L := compressedL
def P := compressedP
def M := compressedM

def handleProof (op : String) (args : List String) : Option String :=
  match op, args with
  | "compute", [us, vs] => do
      let us ← parseNatList us
      let vs ← parseNatList vs
      let uv := collectUV L us vs
      match denominators L with
      | none => pure "panic"
      | some den => pure (optList (computeProofFromUv P (tableFrom L M den) uv.chunks))
  | "next", [r, us, vs] => do
      let r ← r.toNat?
      let us ← parseNatList us
      let vs ← parseNatList vs
      let uv := collectUV L us vs
      match denominators L with
      | none => pure "panic"
      | some den =>
        match evalChunksAt L den r uv.chunks with
        | none => pure "panic"
        | some l => pure (showNatList (l.map (·.1)) ++ " " ++ showNatList (l.map (·.2)))
  | "masks", [us, vs, p, q] => do
      let us ← parseNatList us
      let vs ← parseNatList vs
      let p ← p.toNat?
      let q ← q.toNat?
      let uv0 := collectUV L us vs
      match setMasks L uv0 p q with
      | none => pure (if uv0.length ≥ L then "err" else "panic")
      | some uv =>
        pure ("ok " ++ String.intercalate ";" (uv.chunks.map fun (u, v) => showNats u ++ "/" ++ showNats v))
  | "gdiff", [first, zk, chs, sum, ptq] => do
      let first ← parseNatList first
      let zk ← parseNatList zk
      let chs ← parseNatList chs
      let sum ← sum.toNat?
      let ptq ← ptq.toNat?
      let zkps := (List.range (zk.length / P)).map fun k => (zk.drop (k * P)).take P
      pure (optList (computeGDifferences L P firstL firstP first zkps chs sum ptq))
  | "final", [tb, ds, chs, mask] => do
      let table ← if tb == "U" then some tableU else if tb == "V" then some tableV else none
      let ds ← parseDigits ds
      let chs ← parseNatList chs
      let mask ← mask.toNat?
      pure (optNat (recursivelyComputeFinalCheck L firstL table ds chs mask))
  | _, _ => none


/-! ### `c03.store first max gate:record:width:f0.f1.….f6;…` -/

def parseSeg (width : Nat) (s : String) : Option IpaVerif.DzkpStore.Segment :=
  match (s.splitOn ".").mapM parseHexBytes with
  | some [a, b, c, d, e, f, g] =>
      some { width := width, xl := ofLeBytes a, xr := ofLeBytes b, yl := ofLeBytes c, yr := ofLeBytes d,
             pl := ofLeBytes e, pr := ofLeBytes f, zr := ofLeBytes g }
  | _ => none

def segFields : List (IpaVerif.DzkpStore.Segment → Nat) :=
  [(·.xl), (·.xr), (·.yl), (·.yr), (·.pl), (·.pr), (·.zr)]

def blockHex (b : Block) : String :=
  String.intercalate "." ([b.xl, b.xr, b.yl, b.yr, b.pl, b.pr, b.zr].map fun v => bytesHex (leBytes v 32))

def storeRun (first : Option Nat) (max : Nat) (ops : List String) : Option String := do
  let mut b : IpaVerif.DzkpStore.Batch := { max := max, first := first, inner := [] }
  for op in ops do
    match op.splitOn ":" with
    | [g, r, w, segs] =>
        let w ← w.toNat?
        let seg ← parseSeg w segs
        match b.push g (← r.toNat?) seg with
        | .ok b' => b := b'
        | .panic m => return s!"panic:{m}"
    | _ => none
  let gates := b.inner.map fun (g, st) =>
    s!" {g}=" ++ (if st.vec.isEmpty then "-" else String.intercalate "|" (st.vec.map blockHex))
  pure (s!"n={b.numberOfMultiplications} e={boolStr b.isEmpty}" ++ String.join gates)

/-- spec side of the store: every bit of every block is either the bit of the unique last-written record
covering it or zero — computed directly from the request, independently of `insertSmall`/`insertLarge`. -/
def storeSpec (first : Option Nat) (max : Nat) (ops : List String) : Option (Option String) := do
  -- returns `none` inside when a panic is expected
  let mut gates : List (String × Nat × Nat × List (Nat × IpaVerif.DzkpStore.Segment)) := []  -- gate, width, first, writes
  for op in ops do
    match op.splitOn ":" with
    | [g, r, w, segs] =>
        let w ← w.toNat?
        let r ← r.toNat?
        let seg ← parseSeg w segs
        if ¬ (w ≤ 256 ∨ w % 256 = 0) then return none
        match gates.find? (·.1 == g) with
        | none =>
            let f := first.getD r
            if r < f ∨ r ≥ f + max then return none
            gates := gates ++ [(g, w, f, [(r - f, seg)])]
        | some (_, w0, f, ws) =>
            if w ≠ w0 ∨ r < f ∨ r ≥ f + max then return none
            gates := gates.map fun x => if x.1 == g then (g, w0, f, ws ++ [(r - f, seg)]) else x
    | _ => none
  -- gate order: ascending by name
  let sorted := gates.toArray.qsort (fun a b => a.1 < b.1) |>.toList
  let render := sorted.map fun (g, w, _, ws) =>
    let stride := if w < 256 then (if w ≤ 1 then 1 else 2 ^ (Nat.log2 (w - 1) + 1)) else w
    let top := ws.foldl (fun (m : Nat) (x : Nat × IpaVerif.DzkpStore.Segment) => Nat.max m (stride * x.1 + w)) 0
    let nblocks := (top + 255) / 256
    let fieldVal (k : Nat) (f : IpaVerif.DzkpStore.Segment → Nat) : Nat :=
      (List.range 256).foldl (fun acc q =>
        let n := 256 * k + q
        -- last write covering bit n wins
        let bitv := ws.foldl (fun (cur : Bool) (x : Nat × IpaVerif.DzkpStore.Segment) =>
          if stride * x.1 ≤ n ∧ n < stride * x.1 + w then (f x.2).testBit (n - stride * x.1) else cur) false
        if bitv then acc + 2 ^ q else acc) 0
    let blocks := (List.range nblocks).map fun k =>
      String.intercalate "." (segFields.map fun f => bytesHex (leBytes (fieldVal k f) 32))
    (nblocks, s!" {g}=" ++ (if blocks.isEmpty then "-" else String.intercalate "|" blocks))
  let total := render.foldl (fun a x => a + 256 * x.1) 0
  pure (some (s!"n={total} e={boolStr (render.all fun x => x.1 == 0)}" ++ String.join (render.map (·.2))))


/-! ### `c03.batch seed prover uidx vidx dev rho mp mq chs`

One prover's `ProofBatch::generate` and its two verifiers (`IpaVerif.DzkpBatch` with the `Fp61BitPrime` operations).
`uidx`/`vidx`: the prover's own table indices; `dev`: `-` (honest), `alt:pos` (the left verifier recorded a flipped
`z_right` at `pos`: bit `e` of its `u` index differs; the prover follows the protocol on its own records),
`two:pos` (same, and the prover feeds the recursion with the verifier's view: "two-faced"). -/

structure BatchViews where
  first : List (Nat × Nat)
  recur : List (Nat × Nat)
  ul : List Nat
  vr : List Nat

def batchViews (u v : List Nat) (dev : String) : Option BatchViews :=
  if u.length ≠ v.length then none else
  let honest := u.zip v
  if dev = "-" then some { first := honest, recur := honest, ul := u, vr := v } else
  match dev.splitOn ":" with
  | [kind, pos] => do
      let pos ← pos.toNat?
      if pos ≥ u.length then none else
      let flip (x : Nat) : Nat := x ^^^ 4
      let ul := u.set pos (flip (u.getD pos 0))
      if kind = "two" then
        some { first := honest, recur := honest.set pos (flip (u.getD pos 0), v.getD pos 0), ul := ul, vr := v }
      else if kind = "alt" then some { first := honest, recur := honest, ul := ul, vr := v }
      else none
  | _ => none

def toV4 (l : List Nat) : IpaVerif.DzkpBatch.V4 Nat := ⟨l.getD 0 0, l.getD 1 0, l.getD 2 0, l.getD 3 0⟩
def toP7 (l : List Nat) : IpaVerif.DzkpBatch.P7 Nat :=
  ⟨l.getD 0 0, l.getD 1 0, l.getD 2 0, l.getD 3 0, l.getD 4 0, l.getD 5 0, l.getD 6 0⟩
def ofP7 (z : IpaVerif.DzkpBatch.P7 Nat) : List Nat := [z.p0, z.p1, z.p2, z.p3, z.p4, z.p5, z.p6]

def handleBatch (us vs dev rho mp mq chs : String) : Option String := do
  let u ← parseDigits us
  let v ← parseDigits vs
  let w ← batchViews u v dev
  let rho ← parseNatList rho
  let mp ← mp.toNat?
  let mq ← mq.toNat?
  let chs ← parseNatList chs
  if ¬ IpaVerif.DzkpBatch.shape_ok then pure "model-shape-mismatch" else
  let rowU (i : Nat) := toV4 (tableU.getD i [])
  let rowV (i : Nat) := toV4 (tableV.getD i [])
  let ins (l : List (Nat × Nat)) := l.map fun ij => (rowU ij.1, rowV ij.2)
  let rhoF (lvl : Nat) := toP7 ((rho.drop (7 * lvl)).take 7)
  let H (lvl : Nat) (_ _ : IpaVerif.DzkpBatch.P7 Nat) : Nat := chs.getD lvl 0
  let o := IpaVerif.DzkpBatch.natOps
  match IpaVerif.DzkpBatch.generate o (ins w.first) (ins w.recur) rhoF H mp mq with
  | none => pure "panic"
  | some left =>
    let right := (List.range left.length).map rhoF
    let cs := IpaVerif.DzkpBatch.challenges H left right
    let s := fmul (truncateFrom fp61 u.length) minusOneHalf
    match IpaVerif.DzkpBatch.finalCheck o (w.ul.map rowU) cs mp, IpaVerif.DzkpBatch.finalCheck o (w.vr.map rowV) cs mq,
          IpaVerif.DzkpBatch.verifyDiffs o (w.ul.map rowU) (w.vr.map rowV) left right H mp mq s with
    | some p, some q, some d =>
        let vd := if d.all (· == 0) then "ok" else "fail"
        pure s!"left={showNatList (left.flatMap ofP7)} p={p} q={q} v={vd} all={vd},{vd},{vd}"
    | _, _, _ => pure "panic"

/-- spec side of `c03.batch`: the verdict must be `ok` for an honest prover whose verifiers' triples are all
consistent, and `fail` whenever some triple `(a,c,e′)/(b,d,f)` seen by the two verifiers is inconsistent — whatever
the prover did with its proofs (bit formula `e′ = ab ⊕ cd ⊕ f` on the table indices; independent of the model). -/
def batchOracle (us vs dev impl : String) : Option String := do
  let u ← parseDigits us
  let v ← parseDigits vs
  let w ← batchViews u v dev
  let okPair (i j : Nat) : Bool :=
    let a := i % 2 == 1; let c := i / 2 % 2 == 1; let e := i / 4 % 2 == 1
    let b := j % 2 == 1; let d := j / 2 % 2 == 1; let f := j / 4 % 2 == 1
    e == ((a && b) ^^ (c && d) ^^ f)
  let consistent := (w.ul.zip w.vr).all fun (i, j) => okPair i j
  let fields := impl.splitOn " "
  let verdicts := (fields.filter (·.startsWith "all=")).flatMap fun f => (f.drop 4).toString.splitOn ","
  let single := (fields.filter (·.startsWith "v=")).map fun f => (f.drop 2).toString
  if verdicts.length ≠ 3 ∨ single.length ≠ 1 then
    pure "fails no verdicts (panic, timeout or malformed response)"
  else if consistent ∧ dev = "-" then
    pure (if (verdicts ++ single).all (· == "ok") then "holds" else "fails an honest batch of consistent multiplications was rejected")
  else if ¬ consistent then
    pure (if (verdicts ++ single).all (· == "fail") then "holds"
          else "fails a batch containing an inconsistent multiplication was accepted (the prover's proofs do not bind it to the verifiers' records)")
  else pure "unknown"


/-! ### `c03.vstore` and `c03.order`: the tables of a `MaliciousDZKPValidator`

The batcher bookkeeping is the C16 model (`IpaVerif.Batcher`): it says which constructor call built the batch a
record belongs to, and when a batch is complete. What the constructor closure passes to `Batch::new` and how
`Batch::push` files a segment is `IpaVerif.DzkpValidator` (anchor machine-translated). -/

structure VSt where
  bat : IpaVerif.Batcher.State
  tabs : IpaVerif.DzkpValidator.Tables

def batPanicMsg : IpaVerif.Batcher.Panic → String
  | .divZero => "divide by zero"
  | .alreadyValidated b => s!"Attempting to access batch {b}, which has already been validated"
  | .twice r => s!"validate_record called twice for record {r}"
  | .exceeds off tc => s!"record offset {off} exceeds batch size {tc}"
  | .expectedBatch tc => s!"Expected batch of {tc} records"
  | _ => ""

def VSt.new (rpb : Nat) (total : IpaVerif.Batcher.Total) : VSt :=
  { bat := IpaVerif.Batcher.State.new rpb total IpaVerif.Generated.targetProofSizeTest,
    tabs := IpaVerif.DzkpValidator.Tables.new rpb }

/-- `DZKPUpgraded::push`: `get_batch(record)` (C16 model: which constructor call), then `Batch::push`. -/
def VSt.push (st : VSt) (g : String) (r : Nat) (seg : IpaVerif.DzkpStore.Segment) : Except String VSt :=
  match IpaVerif.Batcher.getBatchPush st.bat r 0 with
  | (_, .error p) => .error ("panic:" ++ batPanicMsg p)
  | (bat', .ok (ctor, _)) =>
    match st.tabs.pushAt ctor g r seg with
    | .ok t => .ok { bat := bat', tabs := t }
    | .panic m => .error ("panic:" ++ m)

inductive VRes where
  | err (tag : String)
  | pend
  /-- this call completed the batch built by constructor call `ctor` -/
  | ready (ctor : Nat)

def VSt.validate (st : VSt) (r : Nat) : Except String (VSt × VRes) :=
  match IpaVerif.Batcher.validateRecord st.bat r with
  | (_, .panic p) => .error ("panic:" ++ batPanicMsg p)
  | (bat', .err .missingTotal) => .ok ({ st with bat := bat' }, .err "err:missing-total")
  | (bat', .err .outOfRange) => .ok ({ st with bat := bat' }, .err "err:out-of-range")
  | (bat', .err _) => .ok ({ st with bat := bat' }, .err "err")
  | (bat', .notReady _) => .ok ({ st with bat := bat' }, .pend)
  | (bat', .ready _ bs) => .ok ({ st with bat := bat' }, .ready bs.ctor)

def batchDump (b : IpaVerif.DzkpStore.Batch) : String :=
  let gates := b.inner.map fun (g, st) =>
    s!" {g}=" ++ (if st.vec.isEmpty then "-" else String.intercalate "|" (st.vec.map blockHex))
  let f := match b.first with | some r => toString r | none => "-"
  s!"f={f} n={b.numberOfMultiplications} e={boolStr b.isEmpty}" ++ String.join gates

def parseRpb (s : String) : Option Nat :=
  if s == "max" then some IpaVerif.Generated.DzkpValidator.usizeMax else s.toNat?

def parseTotalRecords (s : String) : Option IpaVerif.Batcher.Total :=
  if s == "-" then some .unspecified else s.toNat?.map .specified

def vstoreRun (rpb : Nat) (total : IpaVerif.Batcher.Total) (ops : List String) : Option String := do
  let mut st := VSt.new rpb total
  let mut outs : List String := []
  for op in ops do
    if op.startsWith "v" then
      let r ← (op.drop 1).toString.toNat?
      match st.validate r with
      | .error p => return p
      | .ok (st', res) =>
        st := st'
        match res with
        | .err t => outs := outs ++ [t]
        | .pend => outs := outs ++ ["pend"]
        -- an empty batch is accepted at once; a batch with content starts the proof exchange and waits for the peers
        | .ready ctor => outs := outs ++ [if (st.tabs.get ctor).isEmpty then "ok" else "pend"]
    else
      match op.splitOn ":" with
      | [g, r, w, segs] =>
        let seg ← parseSeg (← w.toNat?) segs
        match st.push g (← r.toNat?) seg with
        | .ok st' => st := st'
        | .error p => return p
      | _ => none
  let slots := st.bat.batches.map fun
    | none => "N"
    | some bs => batchDump (st.tabs.get bs.ctor)
  let o := if outs.isEmpty then "-" else String.intercalate "," outs
  let sl := if slots.isEmpty then "-" else String.intercalate " / " slots
  pure s!"{o} | x:{st.bat.firstBatch}:{sl} | drop={if st.bat.batches.isEmpty then "ok" else "unsafe"}"

def tyWidth (ty : String) : Option Nat :=
  if ty == "b1" then some 1 else if ty.startsWith "ba" then (ty.drop 2).toString.toNat? else none

inductive OTok where
  | push (g : String) (r : Nat)
  | validate (b : Nat)

def parseOrderScript (s : String) : Option (List OTok) :=
  (s.splitOn ",").mapM fun t => do
    let n ← (t.drop 1).toString.toNat?
    let c := (t.take 1).toString
    if c == "v" then pure (OTok.validate n) else if c == "a" ∨ c == "b" ∨ c == "c" then pure (OTok.push c n) else none

def orderScripts (s : String) : Option (List (List OTok)) :=
  match s.splitOn "/" with
  | [one] => do let sc ← parseOrderScript one; pure [sc, sc, sc]
  | [a, b, c] => [a, b, c].mapM parseOrderScript
  | _ => none

/-- one helper of `c03.order`: every push goes through the validator model (segment contents do not matter for
the layout); a completed batch of honest multiplications is accepted (`C03Batch.honest_accept`). -/
def orderHelper (width count rpb : Nat) (script : List OTok) : Except String String := do
  let zero : IpaVerif.DzkpStore.Segment := { width := width, xl := 0, xr := 0, yl := 0, yr := 0, pl := 0, pr := 0, zr := 0 }
  let mut st := VSt.new rpb (.specified count)
  let mut verdicts : List Char := List.replicate count '-'
  for tok in script do
    match tok with
    | .push g r => st ← st.push g r zero
    | .validate b =>
      let recs := (List.range count).filter fun r => r / rpb == b
      let mut completed := false
      let mut res : List (Nat × Char) := []
      for r in recs do
        let (st', v) ← st.validate r
        st := st'
        match v with
        | .err _ => res := res ++ [(r, 'e')]
        | .pend => res := res ++ [(r, 'o')]
        | .ready _ => completed := true; res := res ++ [(r, 'o')]
      if ¬ completed ∧ res.any (·.2 == 'o') then throw "timeout"
      for (r, c) in res do
        verdicts := verdicts.set r c
  pure (String.ofList verdicts)

def orderRun (ty count rpb script : String) : Option String := do
  let w ← tyWidth ty
  let count ← count.toNat?
  let rpb ← rpb.toNat?
  let scripts ← orderScripts script
  let rs := scripts.map (orderHelper w count rpb)
  match rs.find? (fun r => match r with | .error _ => true | .ok _ => false) with
  | some (.error p) => pure p
  | _ => pure (String.intercalate "," (rs.map fun r => match r with | .ok s => s | .error p => p))

/-- spec side of `c03.order`: whatever the order in which the (honest) multiplications of a batch report, every
record of every validated batch is accepted by every helper. Judged only for well-formed scripts (each gate
reports each record once, before its batch is validated; every batch validated once). -/
def orderOracle (count rpb gates script impl : String) : Option String := do
  let count ← count.toNat?
  let rpb ← rpb.toNat?
  let ngates ← gates.toNat?
  let scripts ← orderScripts script
  if rpb = 0 ∨ count = 0 then pure "unknown" else
  let nb := (count + rpb - 1) / rpb
  let letters := ["a", "b", "c"].take ngates
  let wellFormed (sc : List OTok) : Bool := Id.run do
    let mut pushed : List (String × Nat) := []
    let mut validated : List Nat := []
    let mut ok := true
    for t in sc do
      match t with
      | .push g r =>
        if r ≥ count ∨ ¬ letters.contains g ∨ pushed.contains (g, r) ∨ validated.contains (r / rpb) then ok := false
        pushed := (g, r) :: pushed
      | .validate b =>
        if b ≥ nb ∨ validated.contains b then ok := false
        -- every record of the batch has reported for every gate
        for r in (List.range count).filter (fun r => r / rpb == b) do
          for g in letters do
            if ¬ pushed.contains (g, r) then ok := false
        validated := b :: validated
    return ok && validated.length == nb && pushed.length == count * ngates
  if ¬ scripts.all wellFormed then pure "unknown" else
  let want := String.ofList (List.replicate count 'o')
  if impl == String.intercalate "," [want, want, want] then pure "holds"
  else pure "fails an honest batch was not accepted: the order in which records report their intermediates must not matter"

/-- spec side of `c03.vstore`: the dump must show, for every batch that is still open, exactly the in-order table
of the records pushed into it — layout anchored at `batch · rpb` whatever was pushed first (`storeSpec`, computed
from the request bit by bit) —, closed batches gone, and nothing else. Judged for scripts without a documented
panic (push into a closed batch, width mismatch, single-shot store with a record below the first pushed one). -/
def vstoreOracle (rpbS totalS : String) (ops : List String) (impl : String) : Option String := do
  let single := rpbS == "max"
  let rpb ← parseRpb rpbS
  let total : Option Nat := totalS.toNat?
  if rpb = 0 then pure "unknown" else
  let mut closed : List Nat := []
  let mut asked : List Nat := []
  let mut pushes : List (Nat × String) := []   -- (batch, op) in script order
  let mut touched : List Nat := []
  let mut outs : List String := []
  for op in ops do
    if op.startsWith "v" then
      let r ← (op.drop 1).toString.toNat?
      match total with
      | none => return "unknown"
      | some t =>
        let b := r / rpb
        if r ≥ t ∨ asked.contains r ∨ closed.contains b then return "unknown"
        asked := r :: asked
        touched := b :: touched
        let size := Nat.min rpb (t - b * rpb)
        if (asked.filter fun x => x / rpb == b).length == size then
          if pushes.any (·.1 == b) then return "unknown"
          closed := b :: closed
          outs := outs ++ ["ok"]
        else outs := outs ++ ["pend"]
    else
      match op.splitOn ":" with
      | [_, r, _, _] =>
        let r ← r.toNat?
        let b := r / rpb
        if closed.contains b then return "unknown"
        pushes := pushes ++ [(b, op)]
        touched := b :: touched
      | _ => none
  let top := touched.foldl Nat.max 0
  -- first open batch: every closed batch below it has been popped
  let firstBatch := ((List.range (top + 2)).find? fun b => ¬ closed.contains b).getD 0
  let mut slots : List String := []
  if ¬ touched.isEmpty then
    for b in List.range (top + 1) do
      if b ≥ firstBatch then
        if closed.contains b then slots := slots ++ ["N"] else
        let mine := (pushes.filter (·.1 == b)).map (·.2)
        match ← storeSpec (if single then none else some (b * rpb)) rpb mine with
        | none => return "unknown"
        | some dump => slots := slots ++ [(if single then "f=- " else s!"f={b * rpb} ") ++ dump]
  let o := if outs.isEmpty then "-" else String.intercalate "," outs
  let sl := if slots.isEmpty then "-" else String.intercalate " / " slots
  let want := s!"{o} | x:{firstBatch}:{sl} | drop={if slots.isEmpty then "ok" else "unsafe"}"
  if impl == want then pure "holds"
  else if impl.startsWith "panic" then
    pure "fails pushing the records of a batch in this order made the validator panic: an honest batch must be accepted whatever the order in which its records are pushed"
  else pure "fails the validator's tables are not the in-order tables of the pushed records (layout must be anchored at batch·records_per_batch, independent of the push order)"

/-- `c03.race`, model side (b21): ONE helper, `k` concurrent `DZKPUpgraded::push` calls of `k` different records of one
batch (one gate, one-bit segments with `x_left = 1`) through `DzkpAtomic.codeStep` (atomic or split, as the translator read
the sources) under the round-robin schedule `0 … k-1, 0 … k-1` — every call gets its first step before any gets its second,
the worst case for a read-modify-write. Every record's bit must be in the table (then the table is the in-order one,
`concurrent_push_eq_sequential`, and the honest batch validates); a lost segment is a rejected honest batch. -/
def raceModelOk (k : Nat) : Bool :=
  let sg : IpaVerif.DzkpStore.Segment := { width := 1, xl := 1, xr := 0, yl := 0, yr := 0, pl := 0, pr := 0, zr := 1 }
  let opOf : Nat → IpaVerif.DzkpAtomic.Op := fun i => ("a", i, sg)
  let sched := List.range k ++ List.range k
  match IpaVerif.DzkpAtomic.run (IpaVerif.DzkpAtomic.codeStep k opOf) (IpaVerif.DzkpAtomic.init (IpaVerif.DzkpValidator.Tables.new (max k 1))) sched with
  | .ok s =>
    s.done.length == k && (List.range k).all fun n =>
      ((s.t.store 0 "a").map fun st => IpaVerif.DzkpStore.storeBit st.vec (·.xl) n).getD false
  | .panic _ => false

def handle (toks : List String) : Option String :=
  match toks with
  | ["c03.consts"] => some s!"{inverseOfTwo} {minusOneHalf} {minusTwo}"
  | ["c03.table", "U"] => some (rowsStr tableU)
  | ["c03.table", "V"] => some (rowsStr tableV)
  | ["c03.tableprod", i, j] => some <| (do
      let i ← i.toNat?
      let j ← j.toNat?
      pure (toString (rowDot (tableU.getD i []) (tableV.getD j [])))).getD "bad-request"
  | "c03.indices" :: which :: args => some <| (do
      let B ← parseBlock args
      match which with
      | "prover" =>
          let l : List (Nat × Nat) := tableIndicesProver B
          pure (digits (l.map Prod.fst) ++ " " ++ digits (l.map Prod.snd))
      | "right" => pure (digits (tableIndicesFromRightProver B))
      | "left" => pure (digits (tableIndicesFromLeftProver B))
      | _ => none).getD "bad-request"
  | ["c03.lagrange", "from", n, m, ys] => some <| (do
      let n ← n.toNat?
      let m ← m.toNat?
      let ys ← parseNatList ys
      match denominators n with
      | none => pure "panic"
      | some den => pure (optList (evalTable (tableFrom n m den) ys))).getD "bad-request"
  | ["c03.lagrange", "at", n, r, ys] => some <| (do
      let n ← n.toNat?
      let r ← r.toNat?
      let ys ← parseNatList ys
      match denominators n with
      | none => pure "panic"
      | some den => pure (optNat (evalAt n den r ys))).getD "bad-request"
  | "c03.proof" :: op :: args => some ((handleProof op args).getD "bad-request")
  | ["c03.hash2field", _l, _r, h, ex] => some <| (do
      let bs ← parseHexBytes h
      let ex ← ex.toNat?
      pure (optNat (hashToField bs ex))).getD "bad-request"
  | ["c03.validate", _api, _ty, _count, _mpg, _seed, dev] => some <| (do
      let d ← parseDev dev
      pure (verdicts d)).getD "bad-request"
  | ["c03.store", first, max, ops] => some <| (do
      let f ← if first == "-" then some none else first.toNat?.map some
      storeRun f (← max.toNat?) (ops.splitOn ";")).getD "bad-request"
  | ["c03.batch", _seed, _pi, us, vs, dev, rho, mp, mq, chs] => some ((handleBatch us vs dev rho mp mq chs).getD "bad-request")
  | ["c03.vstore", rpb, total, ops] => some <| (do
      vstoreRun (← parseRpb rpb) (← parseTotalRecords total) (ops.splitOn ";")).getD "bad-request"
  | ["c03.order", ty, count, rpb, _gates, _seed, script] => some ((orderRun ty count rpb script).getD "bad-request")
  | ["c03.race", _ty, t, r, _rpb, _gates, _seed] => do
      let t ← t.toNat?; let r ← r.toNat?
      pure ("validated=" ++ toString (if raceModelOk t then r else 0) ++ " rounds=" ++ toString r)
  | _ => none

/-! ## spec side: plain arithmetic modulo p, Fermat inverses, bit formulas -/

def p : Nat := 2305843009213693951

def powMod (b e : Nat) : Nat := Id.run do
  let mut r := 1
  let mut b := b % p
  let mut e := e
  for _ in [0:64] do
    if e % 2 == 1 then r := r * b % p
    b := b * b % p
    e := e / 2
  return r

def inv (a : Nat) : Nat := powMod a (p - 2)
def subm (a b : Nat) : Nat := (a % p + p - b % p) % p

/-- Lagrange interpolation through (0,y0)…(n−1,y_{n−1}) evaluated at `x`, from the textbook formula. -/
def specInterp (ys : List Nat) (x : Nat) : Nat :=
  let n := ys.length
  ((List.range n).zip ys).foldl (fun acc (i, y) =>
    let num := ((List.range n).filter (· ≠ i)).foldl (fun a j => a * subm x j % p) 1
    let den := ((List.range n).filter (· ≠ i)).foldl (fun a j => a * subm i j % p) 1
    (acc + y % p * num % p * inv den) % p) 0

def bit (x j : Nat) : Nat := if x.testBit j then 1 else 0

def specIndices (i0 i1 i2 : Nat) : List Nat := (List.range 256).map fun j => bit i0 j + 2 * bit i1 j + 4 * bit i2 j

def chunks (L : Nat) (xs : List Nat) : List (List Nat) :=
  if L = 0 then [] else (List.range ((xs.length + L - 1) / L)).map fun k => (List.range L).map fun i => xs.getD (k * L + i) 0

def specFinal (tb : String) (ds chs : List Nat) (mask : Nat) : Option Nat := do
  -- table rows from the defining formulas, plain arithmetic
  let row (i : Nat) : List Nat :=
    let a := i % 2; let c := i / 2 % 2; let e := i / 4 % 2
    let s := subm 1 (2 * e)
    if tb == "U" then [subm 0 (2 * a * c * s % p), c * s % p, a * s % p, subm 0 (s * inv 2 % p)]
    else [a * c % 2 * s % p, c * s % p, a * s % p, s]
  let c0 ← chs.head?
  let first := ds.map fun d => specInterp (row d) c0
  let mids := (chs.drop 1).take (chs.length - 2)
  let vals := mids.foldl (fun it r => (chunks 4 it).map fun c => specInterp c r) first
  if vals.length ≥ 4 ∨ vals.isEmpty ∨ chs.length < 2 ∨ chs.length > 14 then none else
  let rl ← chs.getLast?
  let arr := [mask, vals.getD 1 0, vals.getD 2 0, vals.getD 0 0]
  pure (specInterp arr rl)

def verdictOracle (dev impl : String) : Option String :=
  let vs := impl.splitOn ","
  if vs.length ≠ 3 then some "fails malformed verdict vector" else
  if dev = "-" then
    if vs.all (· == "ok") then some "holds" else some "fails an honest batch was rejected (or errored) by some helper"
  else
    match parseDev dev with
    | some (some (j, f)) =>
        if vs.all (· == "ok") then some "fails a batch with a single flipped recorded/transmitted bit was accepted by every helper"
        else if f ∉ [Flip.pl, Flip.zr] ∧ vs.getD j.prev.toNat "" ≠ "fail" then
          some "fails the helper to the left of the deviating one did not reject"
        else some "holds"
    | _ => none

def oracle (toks : List String) (impl : String) : Option String :=
  let verdict (o : Option Bool) (why : String) : Option String :=
    match o with | some true => some "holds" | some false => some ("fails " ++ why) | none => some "unknown"
  match toks with
  | ["c03.consts"] => verdict (do
      match (impl.splitOn " ").mapM String.toNat? with
      | some [i2, mh, m2] => pure (2 * i2 % p == 1 && (mh + i2) % p == 0 && (m2 + 2) % p == 0 && i2 < p && mh < p && m2 < p)
      | _ => none) "DZKP constants are not 1/2, −1/2, −2 modulo the prime"
  | ["c03.tableprod", i, j] => verdict (do
      let i ← i.toNat?
      let j ← j.toNat?
      let r ← impl.toNat?
      let a := i % 2 == 1; let c := i / 2 % 2 == 1; let e := i / 4 % 2 == 1
      let b := j % 2 == 1; let d := j / 2 % 2 == 1; let f := j / 4 % 2 == 1
      let consistent := e == ((a && b) ^^ (c && d) ^^ f)
      pure (r < p && (2 * r + (if consistent then 1 else p - 1)) % p == 0)) "Σ U[i]·V[j] is not −1/2 for a consistent triple / +1/2 for an inconsistent one"
  | "c03.indices" :: which :: args => verdict (do
      let B ← parseBlock args
      match which with
      | "right" => pure (impl == digits (specIndices B.xr B.yr ((B.xr &&& B.yr) ^^^ B.pr ^^^ B.zr)))
      | "left" => pure (impl == digits (specIndices B.yl B.xl B.pl))
      | "prover" =>
          pure (impl == digits (specIndices B.xl B.yl ((B.xl &&& B.yr) ^^^ (B.yl &&& B.xr) ^^^ B.pr)) ++ " " ++
                        digits (specIndices B.yr B.xr B.pr))
      | _ => none) "table index at some position is not i0[j] + 2·i1[j] + 4·i2[j]"
  | ["c03.lagrange", "from", n, m, ys] => verdict (do
      let n ← n.toNat?
      let m ← m.toNat?
      let ys ← parseNatList ys
      let r ← parseNatList impl
      pure (ys.length == n && r == (List.range m).map fun k => specInterp ys (n + k))) "extrapolated values differ from the interpolating polynomial"
  | ["c03.lagrange", "at", _n, r, ys] => verdict (do
      let r ← r.toNat?
      let ys ← parseNatList ys
      pure ((← impl.toNat?) == specInterp ys r)) "value at r differs from the interpolating polynomial"
  | ["c03.proof", "compute", us, vs] => verdict (do
      let us ← parseNatList us
      let vs ← parseNatList vs
      let pr ← parseNatList impl
      let cu := chunks 4 us
      let cv := chunks 4 vs
      let expect := (List.range 7).map fun x =>
        (cu.zip cv).foldl (fun acc (u, v) => (acc + specInterp u x * specInterp v x) % p) 0
      let total := (us.zip vs).foldl (fun acc (u, v) => (acc + u * v) % p) 0
      pure (pr == expect && ((pr.take 4).foldl (· + ·) 0) % p == total)) "proof is not Σ_k u_k(x)·v_k(x) at x = 0..6, or its first L entries do not sum to Σ u·v"
  | ["c03.proof", "next", r, us, vs] => verdict (do
      let r ← r.toNat?
      let us ← parseNatList us
      let vs ← parseNatList vs
      match impl.splitOn " " with
      | [a, b] =>
          pure ((← parseNatList a) == (chunks 4 us).map (specInterp · r) && (← parseNatList b) == (chunks 4 vs).map (specInterp · r))
      | _ => none) "next-level u/v values are not the chunk polynomials evaluated at r"
  | ["c03.proof", "gdiff", first, zk, chs, sum, ptq] => verdict (do
      let first ← parseNatList first
      let zk ← parseNatList zk
      let chs ← parseNatList chs
      let sum ← sum.toNat?
      let ptq ← ptq.toNat?
      let zkps := (List.range (zk.length / 7)).map fun k => (zk.drop (k * 7)).take 7
      if zkps.isEmpty ∨ chs.isEmpty then pure (impl.startsWith "panic") else
      let r ← parseNatList impl
      let sums := ([first] ++ zkps.dropLast).map (fun z => (z.take 4).foldl (· + ·) 0 % p)
        ++ [((zkps.getLastD []).take 4).drop 1 |>.foldl (· + ·) 0 |> (· % p), ptq]
      let expected := [sum] ++ (chs.zip ([first] ++ zkps)).map fun (c, z) => specInterp z c
      pure (r == (sums.zip expected).map fun (g, e) => subm g e)) "g differences are not (sum of the first L proof entries) − (previous proof interpolated at the challenge)"
  | ["c03.proof", "final", tb, ds, chs, mask] => verdict (do
      let ds ← parseDigits ds
      let chs ← parseNatList chs
      let mask ← mask.toNat?
      match specFinal tb ds chs mask with
      | none => pure (impl.startsWith "panic")
      | some v => pure (impl == toString v)) "final p(r)/q(r) differs from the recursive evaluation of the u/v vector"
  | ["c03.hash2field", _l, _r, h, ex] => verdict (do
      let bs ← parseHexBytes h
      let ex ← ex.toNat?
      if 2 * ex ≥ p then pure (impl.startsWith "panic") else
      let r ← impl.toNat?
      pure (ex ≤ r && r < p && r == ofLeBytes (bs.take 16) % (p - ex) + ex)) "challenge lies inside the excluded interpolation domain or is not canonical"
  | ["c03.validate", _api, _ty, _count, _mpg, _seed, dev] => verdictOracle dev impl
  | ["c03.store", first, max, ops] => verdict (do
      let f ← if first == "-" then some none else first.toNat?.map some
      match ← storeSpec f (← max.toNat?) (ops.splitOn ";") with
      | none => pure (impl.startsWith "panic")
      | some exp => pure (impl == exp)) "stored blocks are not exactly the pushed segments at stride next_pow2(width) (others zero), or an out-of-range record was accepted"
  | ["c03.batch", _seed, _pi, us, vs, dev, _rho, _mp, _mq, _chs] => some ((batchOracle us vs dev impl).getD "unknown")
  | ["c03.vstore", rpb, total, ops] => some ((vstoreOracle rpb total (ops.splitOn ";") impl).getD "unknown")
  | ["c03.order", _ty, count, rpb, gates, _seed, script] => some ((orderOracle count rpb gates script impl).getD "unknown")
  | ["c03.race", ty, t, r, rpb, gates, _seed] => do
      -- spec: nobody deviates, so EVERY round's batch holds the in-order table and validates on all three helpers,
      -- whatever the thread scheduling
      let r ← r.toNat?
      match (impl.splitOn " ").map (·.splitOn "=") with
      | ["validated", n] :: ["rounds", r'] :: rest =>
        let n ← n.toNat?; let r' ← r'.toNat?
        if r' ≠ r then pure "fails malformed response" else
        pure (if n == r && rest.isEmpty then "holds"
          else "fails honest batch not accepted: only " ++ toString n ++ " of " ++ toString r ++ " honest batches (" ++ rpb ++
            " records x " ++ gates ++ " gates of " ++ ty ++ " multiplications) held the in-order table and validated when " ++ t ++
            " threads per helper push the intermediates of distinct records of the batch concurrently" ++
            (match rest with | [["first", f]] => " (first failing round:helper:what = " ++ f ++ ")" | _ => "") ++
            ": a pushed segment was lost or misplaced")
      | _ => pure (if impl == "timeout" then "fails timeout" else "fails malformed response")
  | "c03.table" :: _ => some "unknown"
  | "c03.proof" :: _ => some "unknown"
  | _ => none

end IpaVerif.Driver.C03
