import IpaVerif.Model.Util
/-! Line-protocol handlers for property C14 (model side). Import-free. -/
namespace IpaVerif.Driver.C14
open IpaVerif.Util

/-- `some response` if the request belongs to this property, else `none`. -/
def handle (_toks : List String) : Option String := none

/-- Property oracle on (request, implementation response): `some "holds"`, `some "fails <why>"`, or `none`. -/
def oracle (_toks : List String) (_impl : String) : Option String := none

end IpaVerif.Driver.C14
