import IpaVerif.Model.Util
import IpaVerif.Model.CircularBuf
import IpaVerif.Model.QueueSpec
/-! Line-protocol handlers for property C14 (model side). Import-free.

`c14.circ <cap> <ws> <rs> <op,op,…>` with ops `w<hex>` (next().write), `t` (take), `c` (close);
response: one item per op separated by `;`: `<out>|<len>|<can_read>|<can_write>|<closed>` where
`<out>` is `ok` or the hex of the bytes returned by `take` (`-` = empty); the trace ends with
`panic:<tag>` at the first panic; `new` panicking is the single item `panic:<tag>`. -/
namespace IpaVerif.Driver.C14
open IpaVerif.Util IpaVerif.CircularBuf

def parseCircOp (s : String) : Option Op :=
  match s.toList with
  | ['t'] => some .take
  | ['c'] => some .close
  | 'w' :: rest => (parseHexBytes (String.ofList rest)).map .write
  | _ => none

def parseCircOps (s : String) : Option (List Op) :=
  if s = "-" then some [] else (s.splitOn ",").mapM parseCircOp

def showObs (o : Obs) : String :=
  s!"{o.len}|{boolStr o.canRead}|{boolStr o.canWrite}|{boolStr o.closed}"

def showItem : Out × Option Obs → String
  | (.panic msg, _) => s!"panic:{msg}"
  | (.done, some o) => s!"ok|{showObs o}"
  | (.bytes v, some o) => s!"{bytesHex v}|{showObs o}"
  | (.done, none) => "ok"
  | (.bytes v, none) => bytesHex v

def showTrace (t : List (Out × Option Obs)) : String :=
  if t.isEmpty then "-" else String.intercalate ";" (t.map showItem)

def circ (cap ws rs : Nat) (ops : List Op) : String :=
  match Buf.new cap ws rs with
  | .error e => s!"panic:{e}"
  | .ok b => showTrace (run b ops)

/-- Panic items are compared up to their message by the oracle. -/
def stripPanic (s : String) : String :=
  String.intercalate ";" ((s.splitOn ";").map (fun it => if it.startsWith "panic" then "panic" else it))

/-- Spec side: the reference FIFO queue of `QueueSpec` (no cursors, no vector). -/
def circSpec (cap ws rs : Nat) (ops : List Op) : String :=
  if cap = 0 ∨ ws = 0 ∨ rs = 0 ∨ cap % ws ≠ 0 ∨ rs % ws ≠ 0 then "panic"
  else stripPanic (showTrace (specRun ⟨cap, ws, rs⟩ ⟨[], false⟩ ops))

def handle (toks : List String) : Option String :=
  match toks with
  | ["c14.circ", cap, ws, rs, ops] => some <| Id.run do
      let some cap := cap.toNat? | return "bad-request"
      let some ws := ws.toNat? | return "bad-request"
      let some rs := rs.toNat? | return "bad-request"
      let some ops := parseCircOps ops | return "bad-request"
      return circ cap ws rs ops
  | _ => none

def oracle (toks : List String) (impl : String) : Option String :=
  match toks with
  | ["c14.circ", cap, ws, rs, ops] => some <| Id.run do
      let some cap := cap.toNat? | return "unknown"
      let some ws := ws.toNat? | return "unknown"
      let some rs := rs.toNat? | return "unknown"
      let some ops := parseCircOps ops | return "unknown"
      let want := circSpec cap ws rs ops
      if stripPanic impl = want then return "holds"
      else return s!"fails ring buffer trace differs from the FIFO byte queue: want {want}"
  | _ => none

end IpaVerif.Driver.C14
