import IpaVerif.Model.Util
import IpaVerif.Model.CircularBuf
import IpaVerif.Model.QueueSpec
import IpaVerif.Model.OrderingSender
import IpaVerif.Model.SenderSpec
import IpaVerif.Model.UnorderedReceiver
import IpaVerif.Driver.C14Atomic
/-! Line-protocol handlers for property C14 (model side). Import-free.

`c14.circ <cap> <ws> <rs> <op,op,…>` with ops `w<hex>` (next().write), `t` (take), `c` (close);
response: one item per op separated by `;`: `<out>|<len>|<can_read>|<can_write>|<closed>` where
`<out>` is `ok` or the hex of the bytes returned by `take` (`-` = empty); the trace ends with
`panic:<tag>` at the first panic; `new` panicking is the single item `panic:<tag>`. -/
namespace IpaVerif.Driver.C14
open IpaVerif.Util

section Circ
open IpaVerif.CircularBuf

def parseCircOp (s : String) : Option Op :=
  match s.toList with
  | ['t'] => some .take
  | ['c'] => some .close
  | 'w' :: rest => (parseHexBytes (String.ofList rest)).map .write
  | _ => none

def parseCircOps (s : String) : Option (List Op) :=
  if s = "-" then some [] else (s.splitOn ",").mapM parseCircOp

def showObs (o : Obs) : String :=
  s!"{o.len}|{boolStr o.canRead}|{boolStr o.canWrite}|{boolStr o.closed}"

def showItem : Out × Option Obs → String
  | (.panic msg, _) => s!"panic:{msg}"
  | (.done, some o) => s!"ok|{showObs o}"
  | (.bytes v, some o) => s!"{bytesHex v}|{showObs o}"
  | (.done, none) => "ok"
  | (.bytes v, none) => bytesHex v

def showTrace (t : List (Out × Option Obs)) : String :=
  if t.isEmpty then "-" else String.intercalate ";" (t.map showItem)

def circ (cap ws rs : Nat) (ops : List Op) : String :=
  match Buf.new cap ws rs with
  | .error e => s!"panic:{e}"
  | .ok b => showTrace (run b ops)

/-- Panic items are compared up to their message by the oracle. -/
def stripPanic (s : String) : String :=
  String.intercalate ";" ((s.splitOn ";").map (fun it => if it.startsWith "panic" then "panic" else it))

/-- Spec side: the reference FIFO queue of `QueueSpec` (no cursors, no vector). -/
def circSpec (cap ws rs : Nat) (ops : List Op) : String :=
  if cap = 0 ∨ ws = 0 ∨ rs = 0 ∨ cap % ws ≠ 0 ∨ rs % ws ≠ 0 then "panic"
  else stripPanic (showTrace (specRun ⟨cap, ws, rs⟩ ⟨[], false⟩ ops))

end Circ

/-! ### `c14.sender <cap> <ws> <rs> <op,…>`: ops `s<t>.<i>.<hex>` (poll Send), `c<t>.<i>` (poll Close),
`t<t>` (poll take_next), `<t>` = waker id.  Response item per poll: `<res>|<woken>` with `<res>` ∈
`R` (Ready), `P` (Pending), `N` (Ready(None)), `=<hex>` (Ready(Some(chunk))) and `<woken>` the ids
woken during the poll in order, `.`-separated (`-` = none); the trace ends at `panic:<tag>`. -/
namespace Sender
open IpaVerif.OrderingSender

def parseOp (s : String) : Option Op :=
  match s.toList with
  | 's' :: rest =>
    match (String.ofList rest).splitOn "." with
    | [t, i, h] => do
        let m ← if h = "" then some [] else parseHexBytes h
        pure (.pollSend (← t.toNat?) (← i.toNat?) m)
    | _ => none
  | 'c' :: rest =>
    match (String.ofList rest).splitOn "." with
    | [t, i] => do pure (.pollClose (← t.toNat?) (← i.toNat?))
    | _ => none
  | 't' :: rest => do pure (.pollTake (← (String.ofList rest).toNat?))
  | _ => none

def parseOps (s : String) : Option (List Op) :=
  if s = "-" then some [] else (s.splitOn ",").mapM parseOp

def showRes : Res → String
  | .ready => "R"
  | .pending => "P"
  | .finished => "N"
  | .chunk v => "=" ++ bytesHex v

def showWoken (w : List Nat) : String :=
  if w.isEmpty then "-" else String.intercalate "." (w.map toString)

def showItem : Except String Out → String
  | .error e => s!"panic:{e}"
  | .ok o => s!"{showRes o.res}|{showWoken o.woken}"

def model (cap ws rs : Nat) (ops : List Op) : String :=
  match State.new cap ws rs with
  | .error e => s!"panic:{e}"
  | .ok s =>
    let t := run s ops
    if t.isEmpty then "-" else String.intercalate ";" (t.map showItem)

def parseWoken (s : String) : Option (List Nat) :=
  if s = "-" then some [] else (s.splitOn ".").mapM String.toNat?

/-- Spec-side check of an implementation trace: results equal those of `Spec`, every required
waker is among the woken ones, and (directly) the emitted chunks concatenate to a prefix of the
messages accepted, which were accepted in index order. -/
def check (cap ws rs : Nat) (ops : List Op) (impl : String) : Option String := Id.run do
  if cap = 0 ∨ ws = 0 ∨ rs = 0 ∨ cap % ws ≠ 0 ∨ rs % ws ≠ 0 then
    return (if impl.startsWith "panic" then none else some "constructor accepted an invalid configuration")
  let items := if impl = "-" then [] else impl.splitOn ";"
  let mut s : Spec := { cap, ws, rs }
  let mut rest := items
  let mut accepted : List Nat := []
  let mut emitted : List Nat := []
  let mut nextIdx := 0
  for op in ops do
    match rest with
    | [] => return some "trace shorter than the schedule"
    | it :: more =>
      rest := more
      match s.step op with
      | none =>
        if it.startsWith "panic" then return none
        else return some s!"expected a panic at {repr op}, got {it}"
      | some (s', r, req) =>
        match it.splitOn "|" with
        | [res, wk] =>
          if res ≠ showRes r then return some s!"result {res} but the ordered queue gives {showRes r}"
          let some woken := parseWoken wk | return some "unparsable woken list"
          for w in req do
            if !woken.contains w then return some s!"lost wake-up: waker {w} must be woken by this poll"
          match op, r with
          | .pollSend _ i m, .ready =>
            if i ≠ nextIdx then return some "message accepted out of index order"
            nextIdx := nextIdx + 1
            accepted := accepted ++ m
          | .pollClose _ i, .ready =>
            if i ≠ nextIdx then return some "close accepted out of index order"
            nextIdx := nextIdx + 1
          | _, .chunk v => emitted := emitted ++ v
          | _, _ => pure ()
          if !(emitted.isPrefixOf accepted) then return some "emitted bytes are not a prefix of msg0‖msg1‖…"
          s := s'
        | _ => return some s!"unparsable item {it}"
  if !rest.isEmpty then return some "trace longer than the schedule"
  return none

end Sender

/-! ### `c14.recv <sz> <cap> <op,…>`: ops `f<hex>` (a chunk becomes available; `f` = empty chunk),
`e` (the stream ends), `r<t>.<i>` (poll `recv(i)` with waker `t`).  Response item: `<res>|<woken>`,
`<res>` ∈ `-` (feed/end), `P`, `=<hex>` (Ready(Ok(msg))), `E<n>` (EndOfStream(n)); ends at `panic:<tag>`. -/
namespace Recv
open IpaVerif.UnorderedReceiver

def parseOp (s : String) : Option Op :=
  match s.toList with
  | ['e'] => some .finish
  | 'f' :: rest => if rest.isEmpty then some (.feed []) else (parseHexBytes (String.ofList rest)).map .feed
  | 'r' :: rest =>
    match (String.ofList rest).splitOn "." with
    | [t, i] => do pure (.recv (← t.toNat?) (← i.toNat?))
    | _ => none
  | _ => none

def parseOps (s : String) : Option (List Op) :=
  if s = "-" then some [] else (s.splitOn ",").mapM parseOp

def showRes : Res → String
  | .none => "-"
  | .pending => "P"
  | .ok m => "=" ++ bytesHex m
  | .eos n => s!"E{n}"

def showItem : Except String Out → String
  | .error e => s!"panic:{e}"
  | .ok o => s!"{showRes o.res}|{Sender.showWoken o.woken}"

def model (sz cap : Nat) (ops : List Op) : String :=
  match State.new sz cap with
  | .error e => s!"panic:{e}"
  | .ok s =>
    let t := run s ops
    if t.isEmpty then "-" else String.intercalate ";" (t.map showItem)

/-- Spec side, no ring, no spare: request `i` gets bytes `[i·sz, (i+1)·sz)` of everything fed so
far, in index order; `EndOfStream` iff the stream ended short; a request whose turn has come is
never left parked without a wake-up; a feed/end wakes the request that was waiting for data. -/
def check (sz cap : Nat) (ops : List Op) (impl : String) : Option String := Id.run do
  if cap < 2 then
    return (if impl.startsWith "panic" then none else some "capacity < 2 accepted")
  let items := if impl = "-" then [] else impl.splitOn ";"
  let mut rest := items
  let mut fed : List Nat := []
  let mut ended := false
  let mut next := 0
  let mut parked : List (Nat × Nat) := []     -- (index, waker) whose last poll was Pending
  let mut dataWait : Option Nat := none       -- waker of the poll of `next` that found no data
  for op in ops do
    match rest with
    | [] => return some "trace shorter than the schedule"
    | it :: more =>
      rest := more
      if it.startsWith "panic" then
        match op with
        | .recv _ i => if i < next then return none else return some s!"unexpected panic at recv({i})"
        | _ => return some "unexpected panic"
      match it.splitOn "|" with
      | [res, wk] =>
        let some woken := Sender.parseWoken wk | return some "unparsable woken list"
        match op with
        | .feed c =>
          fed := fed ++ c
          if res ≠ "-" then return some "feed result"
          if let some w := dataWait then
            if !woken.contains w then return some s!"lost wake-up: waker {w} waits for stream data"
          dataWait := none
        | .finish =>
          ended := true
          if let some w := dataWait then
            if !woken.contains w then return some s!"lost wake-up: waker {w} waits for the end of stream"
          dataWait := none
        | .recv t i =>
          if i < next then return some s!"recv({i}) after it was fulfilled must panic"
          let want :=
            if i > next then "P"
            else if (i + 1) * sz ≤ fed.length then "=" ++ bytesHex ((fed.drop (i * sz)).take sz)
            else if ended then s!"E{i}" else "P"
          if res ≠ want then return some s!"recv({i}) returned {res}, expected {want}"
          if res = "P" then
            parked := (i, t) :: parked.filter (fun p => p.1 != i)
            if i = next then dataWait := some t
          else
            parked := parked.filter (fun p => p.1 != i)
            if res.startsWith "=" then next := next + 1
        parked := parked.filter (fun p => !woken.contains p.2)
        -- a request whose turn has come must not be left parked (unless it waits for data itself)
        for p in parked do
          if p.1 = next ∧ dataWait ≠ some p.2 ∧ (next + 1) * sz ≤ fed.length then
            return some s!"lost wake-up: request {p.1} (waker {p.2}) is next but was never woken"
          if p.1 = next ∧ dataWait = none then
            return some s!"lost wake-up: request {p.1} (waker {p.2}) is next but was never woken"
      | _ => return some s!"unparsable item {it}"
  if !rest.isEmpty then return some "trace longer than the schedule"
  return none

end Recv

def handle (toks : List String) : Option String :=
  match toks with
  | ["c14.circ", cap, ws, rs, ops] => some <| Id.run do
      let some cap := cap.toNat? | return "bad-request"
      let some ws := ws.toNat? | return "bad-request"
      let some rs := rs.toNat? | return "bad-request"
      let some ops := parseCircOps ops | return "bad-request"
      return circ cap ws rs ops
  | ["c14.sender", cap, ws, rs, ops] => some <| Id.run do
      let some cap := cap.toNat? | return "bad-request"
      let some ws := ws.toNat? | return "bad-request"
      let some rs := rs.toNat? | return "bad-request"
      let some ops := Sender.parseOps ops | return "bad-request"
      return Sender.model cap ws rs ops
  | ["c14.recv", sz, cap, ops] => some <| Id.run do
      let some sz := sz.toNat? | return "bad-request"
      let some cap := cap.toNat? | return "bad-request"
      let some ops := Recv.parseOps ops | return "bad-request"
      return Recv.model sz cap ops
  | _ => C14Atomic.handle toks

def oracle (toks : List String) (impl : String) : Option String :=
  match toks with
  | ["c14.circ", cap, ws, rs, ops] => some <| Id.run do
      let some cap := cap.toNat? | return "unknown"
      let some ws := ws.toNat? | return "unknown"
      let some rs := rs.toNat? | return "unknown"
      let some ops := parseCircOps ops | return "unknown"
      let want := circSpec cap ws rs ops
      if stripPanic impl = want then return "holds"
      else return s!"fails ring buffer trace differs from the FIFO byte queue: want {want}"
  | ["c14.sender", cap, ws, rs, ops] => some <| Id.run do
      let some cap := cap.toNat? | return "unknown"
      let some ws := ws.toNat? | return "unknown"
      let some rs := rs.toNat? | return "unknown"
      let some ops := Sender.parseOps ops | return "unknown"
      match Sender.check cap ws rs ops impl with
      | none => return "holds"
      | some why => return s!"fails {why}"
  | ["c14.recv", sz, cap, ops] => some <| Id.run do
      let some sz := sz.toNat? | return "unknown"
      let some cap := cap.toNat? | return "unknown"
      let some ops := Recv.parseOps ops | return "unknown"
      match Recv.check sz cap ops impl with
      | none => return "holds"
      | some why => return s!"fails {why}"
  | _ => C14Atomic.oracle toks impl

end IpaVerif.Driver.C14
