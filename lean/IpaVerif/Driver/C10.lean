import IpaVerif.Model.Util
import IpaVerif.Model.ReportWire
import IpaVerif.Model.ReportWireQuery
import IpaVerif.Model.Hybrid
/-! Line-protocol handlers for property C10 (model side). Import-free.

Request grammar: see `harness/c10.rs`. The HPKE layer is replaced by the *ideal AEAD given by the log*
of the request (everything that was ever sealed): `open` succeeds exactly on logged tuples. -/
namespace IpaVerif.Driver.C10
open IpaVerif.Util IpaVerif.ReportWire IpaVerif.Generated

/-- one sealed item: base key, HPKE info, plaintext, encapsulated key, ciphertext‖tag -/
structure Entry where
  k : Nat
  info : Bytes
  plain : Bytes
  enc : Bytes
  ct : Bytes

def parseEntry (s : String) : Option Entry :=
  match s.splitOn ":" with
  | [k, i, p, e, c] => do
      pure { k := ← k.toNat?, info := ← parseHexBytes i, plain := ← parseHexBytes p,
             enc := ← parseHexBytes e, ct := ← parseHexBytes c }
  | _ => none

def parseLog (s : String) : Option (List Entry) :=
  if s = "-" then some [] else (s.splitOn ",").mapM parseEntry

/-- The ideal AEAD whose sealing oracle produced exactly `log`. -/
def tableAEAD (log : List Entry) : AEAD Nat where
  open' k enc ct info :=
    (log.find? (fun e => e.k == k && e.enc == enc && e.ct == ct && e.info == info)).map (·.plain)

/-- registry: key id = position in the list of base keys -/
def parseReg (s : String) : Option (Nat → Option Nat) := do
  let l ← parseNatList s
  pure (fun kid => l[kid]?)

def bitsOf (name : String) : Option Nat := (Report.baBits.find? (·.1 == "BA" ++ name)).map (·.2)

def parseTy (s : String) : Option Layout :=
  match s.splitOn "_" with
  | [a, b] => do pure (layoutOf (← bitsOf a) (← bitsOf b))
  | _ => none

def beNat (b : Bytes) : Nat := b.foldl (fun acc x => acc * 256 + x) 0

def beBytes (n : Nat) : Bytes := (leBytes n 8).reverse

def showErr : Err → String
  | .length a b => s!"err length {a} {b}"
  | .unknownEventType v => s!"err eventtype {v}"
  | .noSuchKey k => s!"err nosuchkey {k}"
  | .crypt => "err crypt"
  | .deser f => "err deser " ++ f.replace " " "_"
  | .nonAscii => "err nonascii"

def showConvInfo (c : ConvInfo) : String :=
  s!"{c.keyId} {bytesHex c.site} {beNat c.ts} {beNat c.eps} {beNat c.sens}"

def showReport (r : PlainReport) : String :=
  match r.info with
  | .imp i => s!"imp {bytesHex r.matchKey} {bytesHex r.btt} {i.keyId}"
  | .conv c => s!"conv {bytesHex r.matchKey} {bytesHex r.btt} {showConvInfo c}"

def showOutcome {α : Type} (f : α → String) : Outcome α → String
  | .ok a => "ok " ++ f a
  | .err e => showErr e
  | .panic t => "panic:" ++ t

def flipBit (r : Bytes) (bit : Nat) : Bytes :=
  r.mapIdx (fun i b => if i == bit / 8 then b ^^^ (1 <<< (bit % 8)) else b)

/-! toy sealer/AEAD used for the model side of `c10.rt` (the model really runs `process ∘ encrypt`) -/
def toyTag (k : Nat) (info plain : Bytes) : Bytes :=
  let h := (info ++ 255 :: plain).foldl (fun acc x => (acc * 131 + x + 7) % 340282366920938463463374607431768211297) (k + 1)
  leBytes h 16

def toySealer : Sealer Nat where
  sealFn k info plain r := (leBytes (k + 256 * r) 32, plain ++ toyTag k info plain)

def toyAEAD : AEAD Nat where
  open' k enc ct info :=
    let plain := ct.take (ct.length - 16)
    if ct.length ≥ 16 && enc.length == 32 && enc.head? == some (k % 256) && ct.drop (ct.length - 16) == toyTag k info plain
    then some plain else none

def rt (L : Layout) (kind : String) (kid : Nat) (reg : Nat → Option Nat) (mk btt site : Bytes)
    (ts eps sens seed : Nat) : String :=
  let infoO : Outcome Info :=
    if kind == "imp" then .ok (.imp { keyId := kid })
    else (ConvInfo.new kid site (beBytes ts) (beBytes eps) (beBytes sens)).bind (fun c => .ok (.conv c))
  match infoO with
  | .err e => showErr e
  | .panic t => "panic:" ++ t
  | .ok info =>
    match reg kid with
    | none => showErr (.noSuchKey kid)
    | some k =>
      let rep : PlainReport := { matchKey := mk, btt, info }
      let bytes := encrypt toySealer k kid rep seed (seed + 1)
      let out := process toyAEAD reg L bytes
      let same := match out with
        | .ok r => r == rep
        | _ => false
      let tail := bytes.drop (1 + keyIdOff L info.kind)
      s!"{showOutcome showReport out} len={bytes.length} declared={encryptedLen L info} delim=1 evt={bytes.headD 0} tail={bytesHex tail} same={boolStr same}"

def parseChunks (s : String) : Option Bytes :=
  if s = "-" then some [] else
  ((s.splitOn ",").mapM (fun c => if c = "e" then some [] else parseHexBytes c)).map List.flatten

def streamResp (A : AEAD Nat) (reg : Nat → Option Nat) (L : Layout) (body : Bytes) : String :=
  match processStream A reg L body with
  | none => "err"
  | some outs =>
    match outs.find? (·.isPanic) with
    | some (.panic t) => "panic:" ++ t
    | _ =>
      if outs.all (fun o => match o with | .ok _ => true | _ => false) then
        let reps := outs.filterMap (fun o => match o with | .ok r => some (showReport r) | _ => none)
        String.intercalate " | " (s!"ok {reps.length}" :: reps)
      else "err"

def infoResp (kind : String) (b : Bytes) : Option String :=
  match kind with
  | "imp" => some (showOutcome (fun (i : ImpInfo) => s!"{i.keyId} tobytes={bytesHex i.toBytes} enc={bytesHex i.toEncBytes}") (ImpInfo.fromBytes b))
  | "conv" => some (showOutcome (fun (c : ConvInfo) => s!"{showConvInfo c} tobytes={bytesHex c.toBytes} enc={bytesHex c.toEncBytes}") (ConvInfo.fromBytes b))
  | _ => none

def infoNewResp (kid : Nat) (site : Bytes) (ts eps sens : Nat) : String :=
  match ConvInfo.new kid site (beBytes ts) (beBytes eps) (beBytes sens) with
  | .ok c =>
    let back := match ConvInfo.fromBytes c.toBytes with
      | .ok c2 => if c2 == c then "same" else "diff " ++ showConvInfo c2
      | .err e => showErr e
      | .panic t => "panic:" ++ t
    s!"ok bytelen={c.byteLen} tobytes={bytesHex c.toBytes} enc={bytesHex c.toEncBytes} back={back}"
  | .err e => showErr e
  | .panic t => "panic:" ++ t

/-! `c10.query`: the input phase of the real `Query::execute` per helper (`ReportWire.queryInput`), then the
harness's rule about who is awaited. -/

def parseChunkList (s : String) : Option (List Bytes) :=
  if s = "-" then some [] else
  (s.splitOn ",").mapM (fun c => if c = "e" then some [] else parseHexBytes c)

/-- `err_str` of the harness with the `err ` prefix removed and spaces replaced -/
def errTag (e : Err) : String := (((showErr e).drop 4).toString).replace " " "_"

/-- the harness's `query_err_class` -/
def showInput : InputOutcome → String
  | .accepted rs => s!"accepted:{rs.length}"
  | .ioErr (.invalidData e) => "err:Io:InvalidData:" ++ errTag e
  | .ioErr .writeZero => "err:Io:WriteZero"
  | .reportErr e => "err:InvalidHybridReport:" ++ errTag e
  | .panic t => "panic:" ++ t

def isAccepted : InputOutcome → Option (List PlainReport)
  | .accepted rs => some rs
  | _ => none

/-- the report the three helpers hold replicated shares of (`x = x₁ ⊕ x₂ ⊕ x₃`, helper h holds `(x_h, x_{h+1})`,
serialized left half first), as a record of the C01 specification -/
def reconstruct (a b c : PlainReport) : Hybrid.Rec :=
  let left (p : Bytes) : Nat := ofLe (p.take (p.length / 2))
  let x (f : PlainReport → Bytes) : Nat := left (f a) ^^^ left (f b) ^^^ left (f c)
  match a.info with
  | .imp _ => { key := x (·.matchKey), bk := x (·.btt), v := 0 }
  | .conv _ => { key := x (·.matchKey), bk := 0, v := x (·.btt) }

def showHist (h : List Nat) : String :=
  let nz := (List.range h.length).zip h |>.filter (·.2 != 0)
  if nz.isEmpty then "-" else String.intercalate "," (nz.map (fun (i, v) => s!"{i}:{v}"))

/-- what the protocol computes from the accepted reports: the C01 specification (`Hybrid.spec`) with the widths of
`Query::execute` (BA8 breakdown keys, BA3 values, BA32 histogram values, 256 buckets) -/
def histOf (rs : List (List PlainReport)) : String :=
  match rs with
  | [a, b, c] =>
    let recs := (a.zip (b.zip c)).map (fun (x, y, z) => reconstruct x y z)
    showHist (Hybrid.spec { bkW := Report.prodBkBits, vW := Report.prodVBits, hvW := 32, buckets := 2 ^ Report.prodBkBits } recs)
  | _ => "?"

def queryResp (labels : List Char) (outs : List InputOutcome) : String :=
  let fmt (l : List String) : String :=
    String.intercalate " " ((List.range l.length).zipWith (fun i o => s!"H{i + 1}={o}") l)
  if labels.contains 'm' then
    -- only the helpers whose body was built malformed are awaited; a model that thinks such a helper
    -- accepts its input says so (and disagrees with any implementation response)
    fmt (labels.zipWith (fun l o => if l == 'm' then showInput o else "peer") outs)
  else
    match outs.mapM isAccepted with
    | some (rs :: rss) =>
      -- all three helpers enter the protocol; with equally many reports it completes (C01's subject)
      if rss.all (·.length == rs.length) then fmt (outs.map (fun _ => "ok")) ++ " hist=" ++ histOf (rs :: rss) else "judge"
    | some [] => "bad-request"
    | none =>
      -- every helper fails on its own input: all report; a mix of failing and accepting helpers leaves the
      -- accepting ones waiting for the others: not predicted
      if outs.all (fun o => (isAccepted o).isNone) then fmt (outs.map showInput) else "judge"

/-- `some response` if the request belongs to this property, else `none`. -/
def handle (toks : List String) : Option String :=
  match toks with
  | ["c10.parse", ty, reg, log, rec] => some <| (do
      let L ← parseTy ty
      let A := tableAEAD (← parseLog log)
      pure (showOutcome showReport (process A (← parseReg reg) L (← parseHexBytes rec)))).getD "bad-request"
  | ["c10.flip", ty, reg, log, rec, bit] => some <| (do
      let L ← parseTy ty
      let A := tableAEAD (← parseLog log)
      pure (showOutcome showReport (process A (← parseReg reg) L (flipBit (← parseHexBytes rec) (← bit.toNat?))))).getD "bad-request"
  | ["c10.rt", ty, kind, kid, reg, mk, btt, site, ts, eps, sens, seed] => some <| (do
      pure (rt (← parseTy ty) kind (← kid.toNat?) (← parseReg reg) (← parseHexBytes mk) (← parseHexBytes btt)
        (← parseHexBytes site) (← ts.toNat?) (← eps.toNat?) (← sens.toNat?) (← seed.toNat?))).getD "bad-request"
  | ["c10.info", kind, b] => some <| (do infoResp kind (← parseHexBytes b)).getD "bad-request"
  | ["c10.infonew", kid, site, ts, eps, sens] => some <| (do
      pure (infoNewResp (← kid.toNat?) (← parseHexBytes site) (← ts.toNat?) (← eps.toNat?) (← sens.toNat?))).getD "bad-request"
  | ["c10.stream", ty, reg, log, chunks] => some <| (do
      let L ← parseTy ty
      let A := tableAEAD (← parseLog log)
      pure (streamResp A (← parseReg reg) L (← parseChunks chunks))).getD "bad-request"
  | ["c10.query", sz, reg, log, labels, _, c1, c2, c3] => some <| (do
      let A := tableAEAD (← parseLog log)
      let r ← parseReg reg
      let n ← sz.toNat?
      let bodies ← [c1, c2, c3].mapM parseChunkList
      pure (queryResp labels.toList (bodies.map (queryInput A r prodLayout n)))).getD "bad-request"
  | t :: _ => if t.startsWith "c10." then some "bad-request" else none
  | _ => none

/-! ## Spec-side oracle

Independent of `ReportWire`: works on the request text and the implementation's response only.
* never `panic`/`timeout`;
* `c10.parse`: an `ok` answer is allowed only if the record is *literally* event byte ‖ enc₁ ‖ ct₁ ‖ enc₂ ‖ ct₂ ‖
  key id ‖ info for two logged sealings made to the key the registry holds under that key id, under the
  HPKE info string spelled by the returned metadata, with the returned plaintexts;
* `c10.flip`: must be an error;
* `c10.rt`: the original shares and metadata come back (or the documented refusal);
* `c10.info`: `from_bytes` followed by `to_bytes` reproduces the input. -/

def crashed (impl : String) : Bool := impl.startsWith "panic" || impl.startsWith "timeout"

def verdict (b : Bool) (why : String) : String := if b then "holds" else "fails " ++ why

def kv (toks : List String) (key : String) : Option String :=
  (toks.find? (·.startsWith (key ++ "="))).map (fun t => (t.drop (key.length + 1)).toString)

/-- HPKE info string spelled out from the fields the implementation returned. -/
def specInfoEnc (fields : List String) : Option (Bytes × Bytes × Nat) :=
  match fields with
  | ["imp", _, _, kid] => do
      let k ← kid.toNat?
      pure (Report.domain ++ Report.helperOrigin ++ [k], [k], 0)
  | ["conv", _, _, kid, site, ts, eps, sens] => do
      let k ← kid.toNat?
      let s ← parseHexBytes site
      let t := k :: (beBytes (← ts.toNat?) ++ beBytes (← eps.toNat?) ++ beBytes (← sens.toNat?))
      pure (Report.domain ++ Report.helperOrigin ++ s ++ t, s ++ 0 :: t, 1)
  | _ => none

def parseOracle (reg : String) (log : String) (rec : Bytes) (impl : String) : Option Bool := do
  if crashed impl then return false
  if impl.startsWith "err" then return true
  let toks := impl.splitOn " "
  match toks with
  | "ok" :: fields =>
    let (ie, wire, evt) ← specInfoEnc fields
    let mk ← parseHexBytes (← fields[1]?)
    let btt ← parseHexBytes (← fields[2]?)
    let entries ← parseLog log
    let regl ← parseNatList reg
    pure (entries.any (fun e1 => entries.any (fun e2 =>
      e1.info == ie && e2.info == ie && e1.plain == mk && e2.plain == btt && e1.k == e2.k &&
      (List.range 256).any (fun kid => regl[kid]? == some e1.k &&
        rec == evt :: (e1.enc ++ e1.ct ++ e2.enc ++ e2.ct ++ [kid] ++ wire)))))
  | _ => none

def rtOracle (kind : String) (kid : Nat) (reg : String) (mk btt site : String) (ts eps sens : String)
    (impl : String) : Option Bool := do
  if crashed impl then return false
  let regl ← parseNatList reg
  let siteB ← parseHexBytes site
  if kind == "conv" && (siteB.any (· ≥ 128) || siteB.contains 0) then return impl == "err nonascii"
  if regl[kid]?.isNone then return impl == s!"err nosuchkey {kid}"
  let toks := impl.splitOn " "
  let want := if kind == "imp" then ["ok", "imp", mk, btt, toString kid]
    else ["ok", "conv", mk, btt, toString kid, site, ts, eps, sens]
  let n := want.length
  pure (toks.take n == want && kv toks "same" == some "1" && kv toks "delim" == some "1"
    && kv toks "len" == kv toks "declared" && kv toks "evt" == some (if kind == "imp" then "0" else "1"))

def infoOracle (b : String) (impl : String) : Option Bool := do
  if crashed impl then return false
  if impl.startsWith "err" then return true
  pure (kv (impl.splitOn " ") "tobytes" == some b)

def infoNewOracle (site : String) (impl : String) : Option Bool := do
  if crashed impl then return false
  let s ← parseHexBytes site
  if s.any (· ≥ 128) || s.contains 0 then return impl == "err nonascii"
  pure (impl.startsWith "ok " && kv (impl.splitOn " ") "back" == some "same")

/-- `c10.query`: from the labels (how each helper's body was built) and the response only.
* nobody panics or hangs (`timeout`), whatever the body;
* a helper that was handed a malformed body (label `m`) returns an error value;
* when all three bodies are exactly `query_size` honest records (`vvv`) every helper completes;
* bodies with honest records but too few / something behind them (`s`, `l`): error or completion, both clean;
* a query that completes returns the histogram `EXP` of the request: the attribution (computed by the generator from
  the plaintext reports it encrypted) of the first `query_size` reports present. -/
def queryOracle (labels exp : String) (impl : String) : Option Bool := do
  if crashed impl then return false
  let fields := impl.splitOn " "
  let hist := kv fields "hist"
  let fields := fields.filter (fun f => !f.startsWith "hist=")
  let vals ← fields.mapM (fun f => match f.splitOn "=" with
    | [_, v] => some v
    | _ => none)
  let ls := labels.toList
  if vals.length != 3 || ls.length != 3 then none
  if vals.any crashed then return false
  let someM := ls.contains 'm'
  -- a completed query returns the histogram the generator expects from the reports it put into the bodies
  if vals.all (· == "ok") && hist != some exp then return false
  pure ((ls.zip vals).all (fun (l, v) =>
    if l == 'm' then v.startsWith "err:"
    else if someM then true
    else if ls.all (· == 'v') then v == "ok"
    else v == "ok" || v.startsWith "err:"))

/-- Property oracle on (request, implementation response). -/
def oracle (toks : List String) (impl : String) : Option String :=
  match toks with
  | ["c10.parse", _, reg, log, rec] =>
      match (do parseOracle reg log (← parseHexBytes rec) impl) with
      | some b => some (verdict b "a helper crashed on this record, or accepted a record that is not the concatenation of honestly sealed parts")
      | none => some "unknown"
  | ["c10.flip", _, _, _, _, _] =>
      some (verdict (impl.startsWith "err") "a record with one flipped bit was not rejected with an error")
  | ["c10.rt", _, kind, kid, reg, mk, btt, site, ts, eps, sens, _] =>
      match (do rtOracle kind (← kid.toNat?) reg mk btt site ts eps sens impl) with
      | some b => some (verdict b "encrypt→decrypt did not return the original shares and metadata")
      | none => some "unknown"
  | ["c10.info", _, b] =>
      match infoOracle b impl with
      | some b => some (verdict b "info parser crashed or accepted bytes that it does not serialize back to")
      | none => some "unknown"
  | ["c10.infonew", _, site, _, _, _] =>
      match infoNewOracle site impl with
      | some b => some (verdict b "accepted metadata does not survive to_bytes→from_bytes (or a clean site was refused)")
      | none => some "unknown"
  | ["c10.query", _, _, _, labels, exp, _, _, _] =>
      match queryOracle labels exp impl with
      | some b => some (verdict b "Query::execute panicked or hung on an input body, accepted a malformed body, failed on a valid one, or returned another histogram than that of the first query_size reports")
      | none => some "unknown"
  | ["c10.stream", _, _, _, _] =>
      some (verdict (!crashed impl) "the input path crashed or hung on a malformed length-delimited body")
  | t :: _ => if t.startsWith "c10." then some "unknown" else none
  | _ => none

end IpaVerif.Driver.C10
