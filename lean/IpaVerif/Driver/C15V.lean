import IpaVerif.Model.Util
import IpaVerif.Model.ValidatedJoin
/-! Line-protocol handlers for `validated_seq_join` (property C15, b14). Import-free.

  c15.vjoin <dzkp|sh> <n> <rpb> <op>…   the REAL `validated_seq_join` of a malicious DZKP (`dzkp`) or semi-honest (`sh`)
                             validator over `n` scripted tasks, total records `n`, `rpb` records per batch; ops:
                             `c<i>` task i completes with Ok(i), `f<i>` task i completes with Err, `p` one `poll_next`
                             of the joined stream (no-op waker).  Response: one token per `p` — `P` pending,
                             `o<i>` item Ok(i), `e` item Err, `end` stream finished, `end-unverified` the last poll panicked
                             (`ContextUnsafe`: the stream drops its validator while a batch was never validated), `done` polled after the end
                             (not executed) — then `| drop=ok` or `| drop=unverified` (the validator's `Drop` panicked with `ContextUnsafe`:
                             a batch some of whose records asked was never validated)
  c15.vcollect <dzkp|sh> <n> <rpb> <i|->  `validated_seq_join(..).try_collect()` on a real runtime: tasks `< i` complete
                             at once, task `i` fails at once, later tasks never complete (`-`: all complete).
                             Response `ok:<n>` | `err` | `timeout`
-/
namespace IpaVerif.Driver.C15V
open IpaVerif.Util IpaVerif.VJoin

def splitOp (t : String) : Option (Char × String) :=
  match t.toList with
  | c :: rest => some (c, String.ofList rest)
  | [] => none

/-- a batch size beyond the total means one batch for all records: the model then runs with batch size `max n 1` -/
def rpbEff (n rpb : Nat) : Nat := if rpb > n then max n 1 else rpb

def cfgFor (kind : String) (n rpb : Nat) : Cfg :=
  let mal := kind == "dzkp"
  -- `DZKPUpgraded::new`: the window is the batch size, except for batch sizes 1 and `usize::MAX` (and for the
  -- semi-honest validator), where it is the context's own window (larger than any `n` the suite uses)
  cfgOf mal n (rpbEff n rpb) (if mal && rpb != 1 && rpb < 4294967296 then rpb else 1000000)

def envOf (l : List (Nat × Bool)) : Nat → Option TaskRes := fun i =>
  match l.lookup i with
  | some true => some .ok
  | some false => some .err
  | none => none

def outStr : Out → String
  | .pending => "P"
  | .ok i => s!"o{i}"
  | .err _ => "e"
  | .finished => "end"
  | .finishedUnverified => "end-unverified"
  | .done => "done"

def vjoinOps (c : Cfg) : State → List (Nat × Bool) → List String → List String → Option (List String)
  | s, _, [], acc => some (acc.reverse ++ ["|", if s.ended || dropOk s.bs then "drop=ok" else "drop=unverified"])
  | s, dn, t :: ts, acc => do
    let (ch, arg) ← splitOp t
    match ch with
    | 'c' => vjoinOps c s (((← arg.toNat?), true) :: dn) ts acc
    | 'f' => vjoinOps c s (((← arg.toNat?), false) :: dn) ts acc
    | 'p' =>
      let (s', o) := step c (envOf dn) s
      vjoinOps c s' dn ts (outStr o :: acc)
    | _ => none

/-- `try_collect` on a runtime = poll until nothing can change any more -/
def collect (c : Cfg) (done : Nat → Option TaskRes) : Nat → State → String
  | 0, _ => "hang"
  | fuel + 1, s =>
    match step c done s with
    | (_, .err _) => "err"
    | (_, .finished) => s!"ok:{c.n}"
    | (_, .finishedUnverified) => "panic"
    | (s', _) => collect c done fuel s'

def handle (toks : List String) : Option String :=
  match toks with
  | "c15.vjoin" :: kind :: n :: rpb :: ops => some <| Id.run do
      let some n := n.toNat? | return "bad-request"
      let some rpb := rpb.toNat? | return "bad-request"
      match vjoinOps (cfgFor kind n rpb) State.init [] ops [] with
      | some r => return String.intercalate " " r
      | none => return "bad-request"
  | ["c15.vcollect", kind, n, rpb, e] => some <| Id.run do
      let some n := n.toNat? | return "bad-request"
      let some rpb := rpb.toNat? | return "bad-request"
      let done : Nat → Option TaskRes := match e.toNat? with
        | some e => fun i => if i < e then some .ok else if i = e then some .err else none
        | none => fun _ => some .ok
      return collect (cfgFor kind n rpb) done (4 * n + 8) State.init
  | _ => none

/-! ## Spec-side oracle (statement of C15 / C16, independent of the model of the join)

* the records come out in input order, each once: the k-th item is record k, `Ok` only if task k completed with Ok,
  `Err` only if it failed; `end` after exactly `n` items;
* malicious validator: record k is released as `Ok` only after every record of its batch (below the total) completed
  with Ok (C16: released only after the whole batch asked);
* **the first error is not withheld**: a poll made while record k — the next to come out — has already failed
  answers that error, whatever the other tasks and batches do;
* semi-honest validator (validation is a no-op): a poll made while record k has completed answers it. -/

structure OSt where
  k : Nat := 0
  okS : List Nat := []
  failS : List Nat := []
  ended : Bool := false

def oracle (toks : List String) (impl : String) : Option String :=
  match toks with
  | "c15.vjoin" :: kind :: n :: rpb :: ops => some <| Id.run do
      let some n := n.toNat? | return "unknown"
      let some rpb := rpb.toNat? | return "unknown"
      let rpb := rpbEff n rpb
      if impl.startsWith "panic" || impl == "timeout" then return s!"fails {impl.take 80}"
      let parts := impl.splitOn " | "
      let toksR := ((parts.headD "").splitOn " ").filter (· ≠ "")
      -- dropping a validator that still holds a batch some of whose records asked is refused loudly (C16)
      if parts.getD 1 "" ≠ "drop=ok" && parts.getD 1 "" ≠ "drop=unverified" then
        return s!"fails dropping the joined stream: {parts.getD 1 ""}"
      let mut st : OSt := {}
      let mut rs := toksR
      for op in ops do
        let some (ch, arg) := splitOp op | return "unknown"
        match ch with
        | 'c' => st := { st with okS := (arg.toNat?.getD 0) :: st.okS }
        | 'f' => st := { st with failS := (arg.toNat?.getD 0) :: st.failS }
        | _ =>
          let some r := rs.head? | return "fails fewer response tokens than polls"
          rs := rs.tail
          let k := st.k
          if r == "P" then
            if st.ended then return "fails pending after the end"
            if st.failS.contains k then
              return s!"fails the error of task {k} is withheld: it is the next record to come out and has already failed, yet poll_next answered Pending"
            if kind != "dzkp" && st.okS.contains k then
              return s!"fails record {k} has completed and validation is a no-op, yet poll_next answered Pending"
            if k ≥ n then return "fails pending although every record was handed out"
          else if r == "e" then
            if st.ended || !st.failS.contains k then return s!"fails an error came out at position {k} but task {k} has not failed"
            st := { st with k := k + 1 }
          else if r == "end" || r == "end-unverified" then
            if st.ended || k ≠ n then return s!"fails the stream ended after {k} of {n} records"
            -- the validator may refuse to go quietly only if some task failed (its batch is never validated)
            if r == "end-unverified" && st.failS.isEmpty then return "fails every task completed with Ok, yet the validator ends unverified"
            st := { st with ended := true }
          else if r == "done" then
            if !st.ended then return "fails harness answered done before the end"
          else if r.startsWith "o" then
            let i := (r.drop 1).toString.toNat?.getD (n + 1)
            if st.ended || i ≠ k then return s!"fails item {r} came out at position {k}: not in input order"
            if !st.okS.contains k then return s!"fails record {k} came out as Ok but its task has not completed with Ok"
            if kind == "dzkp" && rpb > 0 then
              let b := k / rpb
              if !((List.range rpb).all fun j => decide (b * rpb + j ≥ n) || st.okS.contains (b * rpb + j)) then
                return s!"fails record {k} was released before every record of its batch asked for validation"
            st := { st with k := k + 1 }
          else return s!"fails unexpected token {r}"
      if !rs.isEmpty then return "fails more response tokens than polls"
      if st.ended && parts.getD 1 "" ≠ "drop=ok" then return "fails every record was handed out, yet the validator refuses to be dropped"
      return "holds"
  | ["c15.vcollect", kind, n, rpb, e] => some <| Id.run do
      let some n := n.toNat? | return "unknown"
      let some rpb := rpb.toNat? | return "unknown"
      match e.toNat? with
      | none => if impl == s!"ok:{n}" then return "holds" else return s!"fails all tasks complete, expected ok:{n}"
      | some e =>
        -- all earlier batches are complete iff the failed record starts a batch (always with the no-op validator)
        if kind != "dzkp" || rpb == 0 || e % rpb == 0 then
          if impl == "err" then return "holds"
          else return s!"fails tasks 0..{e}-1 completed, task {e} failed, every earlier batch is complete: the join must report the error, got {impl.take 40}"
        else return "unknown"
  | _ => none

end IpaVerif.Driver.C15V
