import IpaVerif.Model.Util
/-! `c13.iso` — isolation between steps (gates), peers and shards: seven channel classes under
`TestWorld<WithShards<2>>` sharing gates and record ids, each with its own payload.  The expected
response is the *statement* of C13 itself (`recv_gets_sent` + `channel_isolation`): a receive on
channel (class, gate) for record `i` returns exactly the payload sent on THAT channel for `i`; a send
beyond the declared total is `TooManyRecords`; a receive past the end of a closed channel is
`EndOfStream`; a shard channel delivers its records in index order.  Import-free. -/
namespace IpaVerif.Driver.C13Iso
open IpaVerif.Util

def payload (c g i sz : Nat) : List Nat := (List.range sz).map fun k => (c * 53 + g * 131 + i * 17 + k * 29 + 7) % 256

structure IOp where
  send : Bool
  c : Nat
  g : Nat
  i : Nat

def parseOp (s : String) : Option IOp :=
  match s.toList with
  | k :: rest =>
    match (String.ofList rest).splitOn "." with
    | [c, g, i] => do
      let c ← c.toNat?; let g ← g.toNat?; let i ← i.toNat?
      if k = 's' then some ⟨true, c, g, i⟩ else if k = 'r' then some ⟨false, c, g, i⟩ else none
    | _ => none
  | [] => none

/-- total: `none` = indeterminate, `some n` = specified. -/
def parseTotal (s : String) : Option (Option Nat) :=
  match s.toList with
  | ['i'] => some none
  | 's' :: rest => (String.ofList rest).toNat?.map some
  | _ => none

def expect (sz : Nat) (total : Option Nat) (ops : List IOp) (op : IOp) : String :=
  let beyond := match total with | some n => decide (op.i ≥ n) | none => false
  let sent := fun i => ops.any fun o => o.send && o.c == op.c && o.g == op.g && o.i == i
  if op.send then (if beyond then "err:TooManyRecords" else "ok")
  else if op.c ≤ 3 then
    (if beyond then "eos" else if sent op.i then bytesHex (payload op.c op.g op.i sz) else "timeout")
  else
    let items := (List.range op.i).map fun j => bytesHex (payload op.c op.g j sz)
    if items.isEmpty then "-" else String.intercalate "+" items

def model (sz : Nat) (total : Option Nat) (ops : List IOp) : String :=
  String.intercalate ";" (ops.map (expect sz total ops))

def handle (toks : List String) : Option String :=
  match toks with
  | ["c13.iso", _a, _rd, sz, t, ops] => some <| Id.run do
      let some sz := sz.toNat? | return "bad-request"
      let some t := parseTotal t | return "bad-request"
      let some ops := (ops.splitOn ",").mapM parseOp | return "bad-request"
      return model sz t ops
  | _ => none

def oracle (toks : List String) (impl : String) : Option String :=
  match toks with
  | ["c13.iso", _a, _rd, sz, t, ops] => some <| Id.run do
      let some sz := sz.toNat? | return "unknown"
      let some t := parseTotal t | return "unknown"
      let some ops := (ops.splitOn ",").mapM parseOp | return "unknown"
      let resps := impl.splitOn ";"
      if resps.length ≠ ops.length then return s!"fails {impl}"
      for (op, r) in ops.zip resps do
        let want := expect sz t ops op
        if r ≠ want then
          let what := if op.send then "send" else "receive"
          return s!"fails {what} of record {op.i} on channel class {op.c}, gate {op.g}: got {r}, the channel's own record is {want}"
      return "holds"
  | _ => none

end IpaVerif.Driver.C13Iso
