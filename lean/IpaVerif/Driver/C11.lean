import IpaVerif.Model.Util
import IpaVerif.Model.Dedup
import IpaVerif.Generated.Dedup
/-! Line-protocol handlers for property C11 (model side + spec-side oracle). Import-free. -/
namespace IpaVerif.Driver.C11
open IpaVerif.Util IpaVerif.Dedup

def showVerdict : Option Nat → String
  | none => "ok"
  | some k => s!"dup:{k}"

/-- a sequence of `check_duplicate` calls, reporting each verdict -/
def seqVerdicts (v : Validator) : List Nat → List String
  | [] => []
  | t :: rest =>
    let (v', r) := checkDuplicate v t
    showVerdict r :: seqVerdicts v' rest

def parseTagLists (s : String) : Option (List (List Nat)) := (s.splitOn "/").mapM parseNatList

/-- `c11.uneven <n> <p> <own> <copies> <fill>`: the per-shard inputs of the request with abstract tags.
The duplicated report D has tag `p + n * 100000` (owned by shard `p`), the fillers have the tags
`0, 1, 2, …` (pairwise distinct, different from D's; where a real filler is routed is random, the
verdict does not depend on it).  Shard `p` gets `own` reports (one of them D if a copy is submitted
there), every other shard `fill` fillers plus the copies submitted there. -/
def unevenInputs (n p own : Nat) (copies : Option (Nat × Nat)) (fill : Nat) : Option (List (List Nat)) := do
  let onP := match copies with
    | some (a, b) => (if a == p then 1 else 0) + (if b == p then 1 else 0)
    | none => 0
  if !(p < n) || onP > 1 || onP > own then none else
  match copies with
  | some (a, b) => if !(a < n && b < n) then none else pure ()
  | none => pure ()
  let dTag := p + n * 100000
  let rec go (s : Nat) (fuel : Nat) (next : Nat) (acc : List (List Nat)) : List (List Nat) :=
    match fuel with
    | 0 => acc.reverse
    | fuel + 1 =>
      let k := if s == p then own - onP else fill
      let l := (List.range k).map (· + next)
      let l := match copies with
        | some (a, b) =>
          let l := if a == s then l.take (min l.length 1) ++ [dTag] ++ l.drop (min l.length 1) else l
          if b == s then l ++ [dTag] else l
        | none => l
      go (s + 1) fuel (next + k) (l :: acc)
  pure (go 0 n 0 [])

def parseCopies (s : String) : Option (Option (Nat × Nat)) :=
  if s == "-" then some none else
  match parseNatList s with
  | some [a, b] => some (some (a, b))
  | _ => none

def handle (toks : List String) : Option String :=
  match toks with
  | ["c11.uneven", n, p, own, copies, fill] => some <| (do
      let n ← n.toNat?
      let ls ← unevenInputs n (← p.toNat?) (← own.toNat?) (← parseCopies copies) (← fill.toNat?)
      let inputs := fun s => ls.getD s []
      -- the model of the code: the unguarded validator step on every shard
      let verdicts := (List.range n).map fun d => detectIf (fun _ _ => true) n inputs d
      pure (if verdicts.any Option.isSome then "rejected:on-picker-shard" else "accepted")).getD "bad-request"
  | ["c11.pick", hex, n] => some <| (do
      let bytes ← parseHexBytes hex
      if bytes.length != IpaVerif.Generated.Dedup.tagSize then none else
      match shardPicker (tagOfBytes bytes) (← n.toNat?) with
      | some r => pure (toString r)
      | none => pure "panic").getD "bad-request"
  | ["c11.seq", tags] => some <| (do
      let ts ← parseNatList tags
      pure (String.intercalate "," (seqVerdicts {} ts))).getD "bad-request"
  | ["c11.batch", tags] => some <| (do
      let ts ← parseNatList tags
      pure (showVerdict (checkDuplicates {} ts).2)).getD "bad-request"
  | ["c11.path", n, tags] => some <| (do
      let n ← n.toNat?
      let ls ← parseTagLists tags
      if ls.length != n then none else
      let out := (List.range n).map fun d => showVerdict (detect n (fun s => ls.getD s []) d)
      pure (String.intercalate "/" out)).getD "bad-request"
  | ["c11.e2e", n, lists] => some <| (do
      let n ← n.toNat?
      let ls ← parseTagLists lists
      if ls.length != n then none else
      -- distinct report indices stand for distinct tags (TagInjective); a repeated index is the same ciphertext
      let verdicts := (List.range n).map fun d => detect n (fun s => ls.getD s []) d
      -- NOTE: the model routes by `index mod n`; the real tags are random, so only the verdict is compared
      pure (if verdicts.any Option.isSome then "rejected:on-picker-shard" else "accepted")).getD "bad-request"
  -- `c11.big <count> <i> <j>`: ONE shard receives `count` encrypted reports, pairwise distinct except
  -- that the report at position `j` is a byte-identical copy of the one at position `i`
  | ["c11.big", count, i, j] => some <| (do
      let count ← count.toNat?
      let i ← i.toNat?
      let j ← j.toNat?
      if !(i < j && j < count) then none else
      let tags := (List.range count).map fun k => if k == j then i else k
      -- the validator step precedes the protocol (`dedup.check_before_protocol`): a rejected query has sent no
      -- record and drawn no shared randomness (one shard: resharding sends nothing)
      pure (if (detect 1 (fun _ => tags) 0).isSome then "rejected:on-picker-shard sent=0 prss=0" else "accepted")).getD "bad-request"
  | _ => none

/-! Spec-side oracle (independent of the model): a shard must report a duplicate iff two of the
tags routed to it (tag mod n) are equal; the reported index must point at a tag that occurred
before; inputs whose tags are pairwise distinct are never rejected. -/
def hasDup : List Nat → Bool
  | [] => false
  | t :: rest => rest.contains t || hasDup rest

def oracle (toks : List String) (impl : String) : Option String :=
  match toks with
  | ["c11.pick", hex, n] => some <| (do
      let bytes ← parseHexBytes hex
      let n ← n.toNat?
      if n == 0 then pure (if impl.startsWith "panic" then "holds" else "fails shard count 0 accepted") else
      let r ← impl.toNat?
      pure (if r < n && (ofLeBytes bytes + (n - r)) % n == 0 then "holds" else s!"fails shard {r} is not tag mod {n}")).getD "unknown"
  | ["c11.batch", tags] => some <| (do
      let ts ← parseNatList tags
      if hasDup ts then pure (if impl.startsWith "dup:" then "holds" else "fails duplicate tag not reported")
      else pure (if impl == "ok" then "holds" else "fails pairwise distinct tags rejected")).getD "unknown"
  | ["c11.seq", tags] => some <| (do
      let ts ← parseNatList tags
      let vs := impl.splitOn ","
      if ts.isEmpty then pure "holds" else
      if vs.length != ts.length then pure "fails wrong number of verdicts" else
      let ok := (List.range ts.length).all fun i =>
        let seenBefore := (ts.take i).contains (ts.getD i 0)
        (vs.getD i "") == (if seenBefore then s!"dup:{i + 1}" else "ok")
      pure (if ok then "holds" else "fails a verdict differs from 'tag was checked before'")).getD "unknown"
  | ["c11.path", n, tags] => some <| (do
      let n ← n.toNat?
      let ls ← parseTagLists tags
      if impl.startsWith "timeout" || impl.startsWith "panic" then pure s!"fails did not complete: {impl}" else
      let vs := impl.splitOn "/"
      if vs.length != n then pure "fails wrong number of shard verdicts" else
      let all := ls.flatten
      let ok := (List.range n).all fun d =>
        let mine := all.filter (· % n == d)
        (vs.getD d "").startsWith "dup:" == hasDup mine
      let anyDup := vs.any (·.startsWith "dup:")
      if !ok then pure "fails some shard's verdict differs from 'two equal tags are routed to it'"
      else if anyDup != hasDup all then pure "fails duplicate across the whole input not detected (or distinct input rejected)"
      else pure "holds").getD "unknown"
  | ["c11.e2e", _n, lists] => some <| (do
      let ls ← parseTagLists lists
      if hasDup ls.flatten then
        pure (if impl == "rejected:on-picker-shard" then "holds"
              else if impl.startsWith "rejected" then "fails duplicate reported by a shard other than shard_picker(tag)"
              else s!"fails the same encrypted report was submitted twice but the query was not rejected ({impl})")
      else pure (if impl == "accepted" then "holds" else s!"fails pairwise distinct reports were not accepted ({impl})")).getD "unknown"
  | ["c11.uneven", n, p, own, copies, _fill] => some <|
      (if copies == "-" then
        (if impl == "accepted" then "holds" else s!"fails pairwise distinct reports were not accepted ({impl})")
       else if impl == "rejected:on-picker-shard" then "holds"
       else if impl.startsWith "rejected" then "fails duplicate reported by a shard other than shard_picker(tag)"
       else s!"fails the same encrypted report was submitted twice (shards {copies} of {n}) and its tag is owned by shard {p}, which holds {own} report(s) of its own, but the query was not rejected ({impl})")
  | ["c11.big", count, i, j] => some <|
      (match impl.splitOn " " with
       | ["rejected:on-picker-shard", sent, prss] =>
         -- rejected — but BEFORE attribution starts? nothing may have left a helper, no shared randomness drawn
         (match (sent.dropPrefix? "sent=").bind (·.toString.toNat?), (prss.dropPrefix? "prss=").bind (·.toString.toNat?) with
          | some 0, some 0 => "holds"
          | some s, some p => s!"fails the duplicate (reports {i} and {j} of {count} on one shard) was rejected only AFTER attribution had started: {s} protocol record(s) sent and {p} PRSS value(s) drawn by the helpers before the query failed"
          | _, _ => s!"fails malformed response {impl}")
       | _ => s!"fails accepted-or-not-rejected: reports {i} and {j} of the {count} encrypted reports on one shard are byte-identical but the query did not fail with DuplicateBytes ({impl})")
  | _ => none

end IpaVerif.Driver.C11
