import IpaVerif.Model.Util
import IpaVerif.Model.OrderingSenderAtomic
/-! Line-protocol handler for the atomic-level replay suite of C14. Import-free.

`c14.atomic <cap> <ws> <rs> <base> <n> <closer> <schedule>` — see `harness/hooks/buffers.rs`
(`mod c14_atomic`) for the request/response format.  `model` runs the labelled transition system of
`Model/OrderingSenderAtomic.lean`; `check` is the spec side: it reads only the implementation's
observations and checks the property itself (no task is left parked at its turn without a wake-up in
flight; a writer blocked on a full buffer is woken by the take that makes room; the parked stream
is woken when a chunk becomes readable or the sender is closed; indices are accepted in order; the
emitted bytes are `msg base ‖ msg base+1 ‖ …`). -/
namespace IpaVerif.Driver.C14Atomic
open IpaVerif.Util IpaVerif.OrderingSender IpaVerif.OrderingSenderAtomic

def msgFor (i ws : Nat) : List Nat := (List.range ws).map (fun k => (i * 7 + k * 3 + 1) % 256)

structure Par where
  cap : Nat
  ws : Nat
  rs : Nat
  base : Nat
  n : Nat
  closer : Nat

def Par.cfg (p : Par) : Cfg :=
  let idx := fun t => if t ≥ 1000 then t - 1000 else p.base + t
  { writer := fun t => decide (t < p.n + p.closer) || (decide (1000 ≤ t) && decide (t < 1000 + p.base)),
    isClose := fun t => decide (p.closer = 1) && (t == p.n),
    idx := idx,
    msg := fun t => msgFor (idx t) p.ws,
    reader := 99 }

/-- `none` = the reader. -/
def parseSchedule (s : String) : Option (List (Option Nat)) :=
  if s = "-" then some [] else
  (s.splitOn ".").mapM (fun tok => if tok = "r" then some none else tok.toNat?.map some)

def showWoken (w : List Nat) : String :=
  if w.isEmpty then "-" else String.intercalate "." (w.map toString)

/-- The next action of a task, from its program counter. -/
def nextAct (c : Cfg) (a : AState) : Option Nat → Option Act
  | none => match a.rpc with
    | .idle | .finished => some .rTake
    | .took _ => some .rLoad
    | .loaded _ _ => some .rWake
  | some k => match a.pc k with
    | .fresh | .waitTurn | .waitSpace | .polling => some (.load k)
    | .loaded cu => if cu > c.idx k then some (.panicTwice k) else if cu = c.idx k then some (.cs k) else some (.add k)
    | .wrote => some (.inc k)
    | .incd => some (.wake k)
    | .done | .panicked => none

def prefixActs (base : Nat) : List Act :=
  (List.range base).flatMap (fun j => [.load (1000 + j), .cs (1000 + j), .inc (1000 + j), .wake (1000 + j)])

/-- the prefix: indices `0..base` by whole polls, each followed by one whole `take_next` -/
def runPrefix (c : Cfg) (a : AState) : Nat → Nat → Option AState
  | _, 0 => some a
  | j, k + 1 => do
    let (a1, _) ← runActs c a [.load (1000 + j), .cs (1000 + j), .inc (1000 + j), .wake (1000 + j)]
    let (a2, _) ← astep c a1 .rTake
    let a3 ← match a2.rpc with
      | .took _ => (runActs c a2 [.rLoad, .rWake]).map (·.1)
      | _ => some a2
    runPrefix c a3 (j + 1) k

def model (p : Par) (sched : List (Option Nat)) : String := Id.run do
  let c := p.cfg
  let .ok s0 := State.new p.cap p.ws p.rs | return "panic:new"
  let some a0 := runPrefix c (AState.init s0) 0 p.base | return "model:prefix-failed"
  let mut a := a0
  let mut items : List String := []
  for tok in sched do
    match nextAct c a tok with
    | none => items := "-|-" :: items
    | some act =>
      match astep c a act with
      | none => items := "!disabled|-" :: items
      | some (a', e) =>
        let tag := match act, a'.rpc with
          | .rTake, .took v => "T=" ++ bytesHex v
          | _, _ => e.tag
        items := s!"{tag}|{showWoken e.woken}" :: items
        a := a'
  let body := if items.isEmpty then "-" else String.intercalate "," items.reverse
  let w := (List.range 8).map (fun k => toString (a.s.shards k).wokenAt)
  return s!"{body};N={a.s.next};W={String.intercalate "." w}"

structure TaskSt where
  inPoll : Bool := false
  parkedTurn : Bool := false
  parkedSpace : Bool := false
  woken : Bool := false
  finished : Bool := false
deriving Inhabited

def parseWoken (s : String) : Option (List Nat) :=
  if s = "-" then some [] else (s.splitOn ".").mapM String.toNat?

/-- Spec-side check of the implementation's observations. `none` = holds. -/
def check (p : Par) (sched : List (Option Nat)) (impl : String) : Option String := Id.run do
  let parts := impl.splitOn ";"
  let some body := parts[0]? | return some "unparsable response"
  let items := if body = "-" then [] else body.splitOn ","
  if items.length ≠ sched.length then return some "number of observations differs from the schedule length"
  let ntasks := p.n + p.closer
  let mut ts : Array TaskSt := Array.replicate ntasks {}
  let mut next := p.base
  let mut inflight : List Nat := []        -- indices `i` for which a sender has a `wake(i)` still to execute
  let mut len := 0                          -- bytes buffered
  let mut closed := false
  let mut rParked := false
  let mut rWoken := false
  let mut emitted : List Nat := []
  let mut accepted : List Nat := []
  for (tok, it) in sched.zip items do
    let (obs, wk) ← match it.splitOn "|" with
      | [o, w] => match parseWoken w with
        | some l => pure (o, l)
        | none => return some s!"unparsable woken list in {it}"
      | _ => return some s!"unparsable item {it}"
    -- deliver wake-ups
    for w in wk do
      if w = 99 then rWoken := true
      else if w < ntasks then ts := ts.modify w (fun t => { t with woken := true })
    match tok with
    | none =>
      if obs.startsWith "T=" then
        let some v := parseHexBytes ((obs.drop 2).toString) | return some "unparsable chunk"
        emitted := emitted ++ v
        if !closed ∧ v.length ≠ p.rs then return some s!"chunk of {v.length} bytes before close (read size {p.rs})"
        len := len - v.length
        rParked := false
        -- the take made room: a writer blocked on a full buffer must have been woken
        for k in [0:ntasks] do
          if ts[k]!.parkedSpace ∧ !ts[k]!.woken then
            return some s!"lost wake-up: task {k} is blocked on a full buffer and the take that made room did not wake it"
      else if obs = "T:P" then
        if (closed ∧ len > 0) ∨ len ≥ p.rs then return some "stream returned Pending although a chunk is readable"
        rParked := true; rWoken := false
      else if obs = "T:N" then
        if !closed ∨ len > 0 then return some "stream ended before close / with bytes left"
        rParked := false
      else pure ()
    | some k =>
      if k ≥ ntasks then return some "bad task id"
      let idx := p.base + k
      let isClose := k ≥ p.n
      let t := ts[k]!
      if obs.startsWith "L" then
        if !t.inPoll then ts := ts.set! k { t with inPoll := true, woken := false, parkedTurn := false, parkedSpace := false }
      else if obs = "A+" then
        ts := ts.set! k { ts[k]! with inPoll := false, parkedTurn := true }
      else if obs = "A-" then pure ()
      else if obs = "C:P" then
        if p.cap - len ≥ p.ws then return some s!"task {k}: write refused although {p.cap - len} bytes are free"
        ts := ts.set! k { ts[k]! with inPoll := false, parkedSpace := true }
      else if obs = "C:R" then
        if idx ≠ next then return some s!"task {k} (index {idx}) entered the critical section at next = {next}"
        if isClose then
          closed := true
          if rParked ∧ !rWoken then return some "lost wake-up: the parked stream was not woken by close"
        else
          len := len + p.ws
          accepted := accepted ++ msgFor idx p.ws
          if len > p.cap then return some "buffer over capacity"
          if rParked ∧ !rWoken ∧ len ≥ p.rs then return some "lost wake-up: the parked stream was not woken when a chunk became readable"
      else if obs.startsWith "F" then
        let some prev := ((obs.drop 1).toString).toNat? | return some "unparsable fetch_add"
        if prev ≠ idx ∨ prev ≠ next then return some s!"fetch_add by index {idx} returned {prev} (next was {next})"
        next := next + 1
        if isClose then ts := ts.set! k { ts[k]! with inPoll := false, finished := true }
        else inflight := (idx + 1) :: inflight
      else if obs = "K" then
        inflight := inflight.erase (idx + 1)
        ts := ts.set! k { ts[k]! with inPoll := false, finished := true }
      else if obs = "-" then pure ()
      else return some s!"task {k}: unexpected outcome {obs}"
    -- THE PROPERTY: nobody is parked at its turn without a wake-up in flight
    for k in [0:ntasks] do
      let t := ts[k]!
      if t.parkedTurn ∧ !t.woken ∧ !t.inPoll then
        if p.base + k < next then
          return some s!"task {k} (index {p.base + k}) is parked although next = {next} has passed it"
        if p.base + k = next ∧ !inflight.contains next then
          return some s!"lost wake-up: task {k} (index {next}) is parked, next = {next}, and no wake({next}) is in flight"
  if !(emitted.isPrefixOf accepted) then return some "emitted bytes are not a prefix of the accepted messages in index order"
  match parts[1]? with
  | some ns => if ns ≠ s!"N={next}" then return some s!"final next is {ns}, the accepted indices give {next}"
  | none => return some "missing N="
  return none

def parsePar (cap ws rs base n closer : String) : Option Par := do
  pure { cap := ← cap.toNat?, ws := ← ws.toNat?, rs := ← rs.toNat?, base := ← base.toNat?,
         n := ← n.toNat?, closer := ← closer.toNat? }

def handle (toks : List String) : Option String :=
  match toks with
  | ["c14.atomic", cap, ws, rs, base, n, closer, sched] => some <| Id.run do
      let some p := parsePar cap ws rs base n closer | return "bad-request"
      let some sc := parseSchedule sched | return "bad-request"
      return model p sc
  -- shuttle exploration of the public API (supporting evidence, harness/shuttle): by
  -- `no_lost_wakeup_atomic` + `sender_stream_is_concat` every schedule completes with the right stream
  | ["c14.shuttle", _, _, _, _, _, _] => some "ok"
  | _ => none

def oracle (toks : List String) (impl : String) : Option String :=
  match toks with
  | ["c14.atomic", cap, ws, rs, base, n, closer, sched] => some <| Id.run do
      let some p := parsePar cap ws rs base n closer | return "unknown"
      let some sc := parseSchedule sched | return "unknown"
      match check p sc impl with
      | none => return "holds"
      | some why => return s!"fails {why}"
  | ["c14.shuttle", sched, n, _, _, iters, seed] => some <|
      if impl = "ok" then "holds"
      else if impl = "deadlock" then s!"fails lost wake-up: shuttle ({sched}, seed {seed}, <= {iters} schedules) found a deadlock of {n} writers + closer + reader"
      else s!"fails {impl}"
  | _ => none

end IpaVerif.Driver.C14Atomic
