import IpaVerif.Model.Util
import IpaVerif.Model.Dp
import IpaVerif.Model.Circuits
import IpaVerif.Model.Padding
import IpaVerif.Generated.C12Consts
/-! Line-protocol handlers for property C12 (model side) and the spec-side oracle. Import-free.

Model side: the `f64` code transcribed over IEEE doubles (`floatArith`; `+ − × ÷` are correctly rounded, so the
transcription is bit-exact; `e^{-ε}` and `1 − e^{-1/s}` are taken from the request).
Oracle side: exact dyadic rationals — the documented law itself (smallest `n ≥ Δ` whose tail mass is `≤ δ`),
with the stated tolerance band `1e-9` for decisions that hinge on float rounding (`float-boundary`). -/
namespace IpaVerif.Driver.C12
open IpaVerif.Util IpaVerif.Dp

def cap : Nat := IpaVerif.Generated.C12.cap

def fl (s : String) : Option Float := do
  let n ← s.toNat?
  if n < 2 ^ 64 then pure (Float.ofBits n.toUInt64) else none

def showCtor : Except CtorErr String → String
  | .ok s => s
  | .error e => "err " ++ e.name

/-- `ok` iff the constructor the sampler request needs succeeds (`unwrap()` otherwise panics). -/
def sampleOp (kind : String) (s p : Float) (pInt shift : Nat) (script : List Nat) : String :=
  let done (r : Option (Int × List Nat)) : String :=
    match r with
    | some (v, rest) => s!"{v} {script.length - rest.length}"
    | none => "panic:script exhausted"
  match kind with
  | "geo" =>
      match geometricNew floatArith p with
      | .error _ => "panic:called `Result::unwrap()`"
      | .ok () => done ((geometric pInt (script.length + 1) script 0).map fun (a, r) => ((a : Int), r))
  | "dg" =>
      match doubleGeometricNew floatArith cap s shift p with
      | .error _ => "panic:called `Result::unwrap()`"
      | .ok () => done (doubleGeometric pInt shift script)
  | "tdg" =>
      match truncatedNew floatArith cap s shift p with
      | .error _ => "panic:called `Result::unwrap()`"
      | .ok _ => done ((truncatedSample pInt shift (script.length + 1) script).map fun (a, r) => ((a : Int), r))
  | _ => "bad-request"

/-! ### `dp_for_histogram`, DiscreteLaplace: three passes over `B` buckets -/

def e2eModel (eps delta r p : Float) (ssBits pInt w : Nat) (hist s1 s2 s3 : List Nat) : String :=
  match oprfNew floatArith cap eps delta (2 ^ ssBits) r p with
  | .error e => "err " ++ e.name
  | .ok shift =>
    match laplaceModulus w with
    | none => "panic:assertion failed: bit_size <= 32"
    | some modulus =>
      match (do
        let h1 ← e2ePass pInt shift w modulus hist s1
        let h2 ← e2ePass pInt shift w modulus h1 s2
        e2ePass pInt shift w modulus h2 s3) with
      | none => "panic:script exhausted"
      | some out => s!"{showNatList out} ok"

/-! ### `apply_dp_padding`: dummy rows of the three passes -/

/-- bit `h` set iff helper `h` holds only zero shares of the row `(mk, bk, v)` generated with excluded helper `e`. -/
def zeroMask (mk bk v e : Nat) : Nat :=
  ((List.range 3).map fun h =>
    if IpaVerif.Padding.placeShares mk e h == (0, 0) && IpaVerif.Padding.placeShares bk e h == (0, 0)
      && IpaVerif.Padding.placeShares v e h == (0, 0) then 2 ^ h else 0).sum

def rowStr (mk bk v e : Nat) : String := s!"{mk}.{bk}.{v}.{zeroMask mk bk v e}"

/-- model of `apply_dp_padding::<_, IndistinguishableHybridReport<BK, V>, B>` on an empty input. -/
def padOprfModel (pInt shift cardCap : Nat) (streams : List (List Nat)) : String :=
  let passes := streams.zipIdx.map fun (s, i) => (IpaVerif.Padding.excludedOfPass (i + 1), IpaVerif.Padding.oprfPass pInt shift cardCap s)
  if passes.any (fun p => p.2.isNone) then "panic:script exhausted" else
  let rows := passes.flatMap fun (e, r) =>
    match r with
    | some (gs, _) => (IpaVerif.Padding.oprfRows gs).map fun rec => rowStr rec.key rec.bk rec.v e
    | none => []
  let lensOk := passes.all fun (_, r) =>
    match r with
    | some (gs, rest) => IpaVerif.Padding.oprfTotal gs == (IpaVerif.Padding.oprfRows gs).length && rest.isEmpty
    | none => false
  s!"{if rows.isEmpty then "-" else ",".intercalate rows} ok {if lensOk then "lens-equal" else "lens-differ"}"

def padAggModel (pInt shift b bkBits : Nat) (streams : List (List Nat)) : String :=
  let passes := streams.zipIdx.map fun (s, i) => (IpaVerif.Padding.excludedOfPass (i + 1), IpaVerif.Padding.aggPass pInt shift b s)
  if passes.any (fun p => p.2.isNone) then "panic:script exhausted" else
  let rows := passes.flatMap fun (e, r) =>
    match r with
    | some (l, _) => (IpaVerif.Padding.aggRows bkBits l).map fun row => rowStr 0 row.1 row.2 e
    | none => []
  let lensOk := passes.all fun (_, r) =>
    match r with
    | some (l, rest) => IpaVerif.Padding.aggTotal l == (IpaVerif.Padding.aggRows bkBits l).length && rest.isEmpty
    | none => false
  s!"{if rows.isEmpty then "-" else ",".intercalate rows} ok {if lensOk then "lens-equal" else "lens-differ"}"

def handle (toks : List String) : Option String :=
  match toks with
  | ["c12.oprf", eps, delta, sens, r, p] => some <| (do
      let n := oprfNew floatArith cap (← fl eps) (← fl delta) (← sens.toNat?) (← fl r) (← fl p)
      pure (showCtor (n.map fun n => s!"ok {n}"))).getD "bad-request"
  | ["c12.tdg", s, shift, p] => some <| (do
      pure (showCtor ((truncatedNew floatArith cap (← fl s) (← shift.toNat?) (← fl p)).map fun d => s!"ok {d}"))).getD "bad-request"
  | ["c12.dg", s, shift, p] => some <| (do
      pure (showCtor ((doubleGeometricNew floatArith cap (← fl s) (← shift.toNat?) (← fl p)).map fun _ => "ok"))).getD "bad-request"
  | ["c12.geo", p] => some <| (do
      pure (showCtor ((geometricNew floatArith (← fl p)).map fun _ => "ok"))).getD "bad-request"
  | ["c12.noise", e, d, sp, dims, qs, l1, l2, li] => some <| (do
      match noiseParamsNew floatArith (← fl e) (← fl d) (← fl sp) (← fl dims) (← fl qs) (← fl l1) (← fl l2) (← fl li) with
      | .ok () => pure "ok"
      | .error m => pure ("err " ++ m)).getD "bad-request"
  | ["c12.maxeps"] => some (toString IpaVerif.Generated.C12.maxEpsilonBits)
  | ["c12.e2e", _mode, b, w, ss, _seed, eps, delta, r, p, pInt, hist, s1, s2, s3] => some <| (do
      let hist ← parseNatList hist
      if hist.length ≠ (← b.toNat?) then pure "bad-request" else
      pure (e2eModel (← fl eps) (← fl delta) (← fl r) (← fl p) (← ss.toNat?) (← pInt.toNat?) (← w.toNat?) hist
        (← parseNatList s1) (← parseNatList s2) (← parseNatList s3))).getD "bad-request"
  | "c12.e2e-broken" :: _ => some "streams-replayed"
  | "c12.pad-broken" :: _ => some "streams-replayed"
  | ["c12.pad", "oprf", _mode, _seed, eps, delta, sens, cardCap, r, p, pInt, s1, s2, s3] => some <| (do
      match oprfNew floatArith cap (← fl eps) (← fl delta) (← sens.toNat?) (← fl r) (← fl p) with
      | .error e => pure ("err " ++ e.name)
      | .ok shift => pure (padOprfModel (← pInt.toNat?) shift (← cardCap.toNat?) [← parseNatList s1, ← parseNatList s2, ← parseNatList s3])).getD "bad-request"
  | ["c12.pad", "agg", _mode, _seed, b, bkBits, eps, delta, sens, r, p, pInt, s1, s2, s3] => some <| (do
      match oprfNew floatArith cap (← fl eps) (← fl delta) (← sens.toNat?) (← fl r) (← fl p) with
      | .error e => pure ("err " ++ e.name)
      | .ok shift => pure (padAggModel (← pInt.toNat?) shift (← b.toNat?) (← bkBits.toNat?) [← parseNatList s1, ← parseNatList s2, ← parseNatList s3])).getD "bad-request"
  | ["c12.sample", kind, s, p, pInt, shift, script] => some <| (do
      pure (sampleOp kind (← fl s) (← fl p) (← pInt.toNat?) (← shift.toNat?) (← parseNatList script))).getD "bad-request"
  | ["c12.shares", eps, delta, sens, r, p, pInt, bitSize, ov, dir, script] => some <| (do
      let script ← parseNatList script
      match oprfNew floatArith cap (← fl eps) (← fl delta) (← sens.toNat?) (← fl r) (← fl p) with
      | .error e => pure ("err " ++ e.name)
      | .ok shift =>
        match laplaceModulus (← bitSize.toNat?) with
        | none => pure "panic:assertion failed: bit_size <= 32"
        | some modulus =>
          match truncatedSample (← pInt.toNat?) shift (script.length + 1) script with
          | none => pure "panic:script exhausted"
          | some (sample, rest) =>
            let (l, rr) := sampleShares modulus (← ov.toNat?) sample shift (dir == "L")
            pure s!"{shift} {l} {rr} {script.length - rest.length}").getD "bad-request"
  | _ => none

/-! ### oracle: exact dyadic rationals -/

/-- `m / 2^e` -/
structure Dy where
  m : Int
  e : Nat

inductive FClass where
  | nan | posInf | negInf | fin (d : Dy)

def classify (b : Nat) : FClass :=
  let sign := b / 2 ^ 63 % 2
  let ex := b / 2 ^ 52 % 2048
  let frac := b % 2 ^ 52
  if ex == 2047 then (if frac != 0 then .nan else if sign == 1 then .negInf else .posInf)
  else
    let mant : Nat := if ex == 0 then frac else 2 ^ 52 + frac
    let e2 : Int := ((if ex == 0 then 1 else ex : Nat) : Int) - 1075
    let m : Int := if sign == 1 then -(mant : Int) else mant
    if e2 ≥ 0 then .fin ⟨m * 2 ^ e2.toNat, 0⟩ else .fin ⟨m, (-e2).toNat⟩

def Dy.le (a b : Dy) : Bool := a.m * 2 ^ b.e ≤ b.m * 2 ^ a.e
def Dy.lt (a b : Dy) : Bool := a.m * 2 ^ b.e < b.m * 2 ^ a.e
def Dy.ofNat (n : Nat) : Dy := ⟨n, 0⟩

/-- `tail(n) − δ` as a pair `(lhs, rhs)` of integers with `tail(n) ≤ δ ⟺ lhs ≤ rhs`, `rhs > 0`:
`tail(n) = (r^{n−Δ+1} − r^{n+1}) / (1 + r − 2 r^{n+1})`, all scaled by `2^{e(n+1)}`. -/
def tailCmp (rm re : Nat) (dm de : Nat) (n bigDelta : Nat) : Int × Int :=
  let R (k : Nat) : Int := (rm ^ k * 2 ^ (re * (n + 1 - k)) : Nat)
  let num : Int := R (n - bigDelta + 1) - R (n + 1)
  let den : Int := (2 ^ (re * (n + 1)) : Nat) + R 1 - 2 * R (n + 1)
  (num * 2 ^ de, dm * den)

/-- `-1` tail clearly ≤ δ, `+1` clearly > δ, `0` within the tolerance band `|tail − δ|/δ ≤ 1e-9`. -/
def tailSide (rm re dm de n bigDelta : Nat) : Int :=
  let (l, r) := tailCmp rm re dm de n bigDelta
  let diff := l - r
  if diff.natAbs * 1000000000 ≤ r.natAbs then 0 else if diff ≤ 0 then -1 else 1

def isErr (impl : String) : Bool := impl.startsWith "err"

/-- documented open range `(lo, hi)`: `some true` inside, `some false` outside (NaN is outside),
`none` exactly on a boundary (the documentation and the comparison operators disagree only there). -/
def inOpen (x : FClass) (lo : Dy) (hi : Option Dy) : Option Bool :=
  match x with
  | .nan | .negInf => some false
  | .posInf => some (hi.isNone)
  | .fin d =>
    if d.le lo && lo.le d then none
    else match hi with
      | some h => if d.le h && h.le d then none else some (lo.lt d && d.lt h)
      | none => some (lo.lt d)

def minPosDy : Dy := ⟨1, 1022⟩
def oneDy : Dy := ⟨1, 0⟩
def zeroDy : Dy := ⟨0, 0⟩

def and3 (a b : Option Bool) : Option Bool :=
  match a, b with
  | some false, _ | _, some false => some false
  | some true, some true => some true
  | _, _ => none

def verdict (b : Option Bool) (why : String) : Option String :=
  match b with
  | some true => some "holds"
  | some false => some ("fails " ++ why)
  | none => some "unknown"

/-- spec for `OPRFPaddingDp::new`. -/
def oracleOprf (epsB deltaB sens rB : Nat) (impl : String) : Option String :=
  let rangeOk := and3 (and3 (inOpen (classify epsB) minPosDy none) (inOpen (classify deltaB) minPosDy (some oneDy)))
    (some (decide (sens ≤ cap)))
  if impl.startsWith "timeout" then some "fails the constructor does not return" else
  if impl.startsWith "panic" then some s!"fails {impl}" else
  match rangeOk with
  | some false => verdict (some (isErr impl)) "parameters outside the documented range were accepted"
  | none => some "holds boundary-unspecified"
  | some true =>
    match classify rB, classify deltaB with
    | .fin r, .fin d =>
      if ¬ (zeroDy.lt r && r.lt oneDy) then
        -- e^{-ε} rounded to 0 or 1: the documented law is degenerate in f64; only "no crash" is required
        some "holds degenerate-r"
      else
      let rm := r.m.toNat
      let dm := d.m.toNat
      match impl.splitOn " " with
      | ["ok", n] =>
        match n.toNat? with
        | none => some "unknown"
        | some n =>
          if n < sens ∨ n > cap then some s!"fails truncation point {n} outside [Δ, cap]" else
          let here := tailSide rm r.e dm d.e n sens
          let below := if n == sens then 1 else tailSide rm r.e dm d.e (n - 1) sens
          if here == 1 then some s!"fails tail mass at n={n} exceeds delta (sensitivity {sens})"
          else if below == -1 then some s!"fails n={n} is not the smallest: tail mass at n-1 is already <= delta"
          else if here == 0 ∨ below == 0 then some "holds float-boundary"
          else some "holds"
      | ["err", "BadShiftValue"] =>
        -- correct iff even n = cap does not reach δ; exact evaluation at n = 10^6 is affordable only for short mantissas
        if r.e * (cap + 1) > 80000000 then some "unknown"
        else if tailSide rm r.e dm d.e cap sens == -1 then some "fails admissible parameters rejected: tail mass at n = cap is <= delta"
        else some "holds"
      | ["err", "BadGeometricProb"] | ["err", "BadS"] =>
        -- 1/ε or 1 − e^{-ε} left the sampler's range although ε is admissible: only for extreme ε
        some "unknown"
      | _ => some s!"fails admissible parameters rejected ({impl})"
    | _, _ => some "unknown"

def oracleSimpleCtor (kind : String) (sB shift pB : Nat) (impl : String) : Option String :=
  let sOk := if kind == "geo" then some true else inOpen (classify sB) minPosDy none
  let pOk := match classify pB with
    | .fin p => if p.lt minPosDy then some false else if oneDy.lt p then some false else some true
    | _ => some false
  let shOk := some (decide (shift ≤ cap))
  if impl.startsWith "panic" ∨ impl.startsWith "timeout" then some s!"fails {impl}" else
  match and3 (and3 sOk pOk) shOk with
  | some true => verdict (some (impl.startsWith "ok")) s!"admissible parameters rejected ({impl})"
  | some false => verdict (some (isErr impl)) "parameters outside the documented range were accepted"
  | none => some "holds boundary-unspecified"

def gtZero (b : Nat) : Option Bool :=
  match classify b with
  | .nan | .negInf => some false
  | .posInf => some true
  | .fin d => some (zeroDy.lt d)

def oracleNoise (bs : List Nat) (impl : String) : Option String :=
  match bs with
  | [e, d, sp, dims, qs, l1, l2, li] =>
    let spOk := match classify sp with
      | .fin p => some (zeroDy.le p && p.le oneDy)
      | _ => some false
    -- `NoiseParams::new` documents only "delta must be > 0.0"
    let deltaOk := gtZero d
    let all := [gtZero e, deltaOk, spOk, gtZero dims, gtZero qs, gtZero l1, gtZero l2, gtZero li].foldl and3 (some true)
    if impl.startsWith "panic" then some s!"fails {impl}" else
    match all with
    | some true => verdict (some (impl == "ok")) s!"admissible parameters rejected ({impl})"
    | some false => verdict (some (isErr impl)) "a parameter outside the documented range (<= 0, NaN, success_prob outside [0,1]) was accepted"
    | none => some "unknown"
  | _ => none

/-- spec sampler: number of leading stream values that are NOT below `p_int`. -/
def specGeo (pInt : Nat) (s : List Nat) : Option (Nat × List Nat) :=
  if pInt == alwaysTrue then some (0, s) else
  match s.findIdx? (· < pInt) with
  | some i => some (i, s.drop (i + 1))
  | none => none

def specDg (pInt shift : Nat) (s : List Nat) : Option (Int × List Nat) := do
  let (a1, s1) ← specGeo pInt s
  let (a2, s2) ← specGeo pInt s1
  pure ((shift : Int) + a1 - a2, s2)

partial def specTdg (pInt shift : Nat) (s : List Nat) : Option (Int × List Nat) :=
  match specDg pInt shift s with
  | none => none
  | some (v, rest) => if 0 ≤ v ∧ v ≤ 2 * (shift : Int) then some (v, rest) else
      if rest.length < s.length then specTdg pInt shift rest else none

def oracleSample (kind : String) (pInt shift : Nat) (script : List Nat) (impl : String) : Option String :=
  let spec := match kind with
    | "geo" => (specGeo pInt script).map fun (a, r) => ((a : Int), r)
    | "dg" => specDg pInt shift script
    | _ => specTdg pInt shift script
  if impl.startsWith "panic:called" then some "unknown" else
  match spec with
  | none => verdict (some (impl.startsWith "panic:script exhausted")) s!"the sampler returned {impl} although the stream never yields an accepted sample"
  | some ((v : Int), (rest : List Nat)) =>
    verdict (some (impl == s!"{v} {script.length - rest.length}")) s!"sampler returned {impl}, the outcome stream determines {v} after {script.length - rest.length} draws"

def oracleShares (pInt bitSize ov : Nat) (dirLeft : Bool) (script : List Nat) (impl : String) : Option String :=
  if bitSize > 32 then verdict (some (impl.startsWith "panic:assertion failed: bit_size <= 32")) "bit_size > 32 must be refused" else
  match impl.splitOn " " with
  | [shift, l, r, _] =>
    match shift.toNat?, l.toNat?, r.toNat? with
    | some shift, some l, some r =>
      match specTdg pInt shift script with
      | none => some "unknown"
      | some (sample, _) =>
        let w := min bitSize ov
        let v := if dirLeft then r else l
        let z := if dirLeft then l else r
        -- the value placed in the shares represents sample − shift modulo 2^w
        let want := ((sample - (shift : Int)) % (2 ^ w : Nat)).toNat
        if z ≠ 0 then some "fails the share component towards the excluded helper is not zero"
        else if v % 2 ^ w ≠ want then some s!"fails noise {sample - (shift : Int)} (sample {sample}, shift {shift}) is placed as {v}, expected {want} = noise mod 2^{w}"
        else some "holds"
    | _, _, _ => some "unknown"
  | _ => if impl.startsWith "err" ∨ impl.startsWith "panic" then some s!"fails {impl}" else some "unknown"

/-- spec side of `c12_noise_e2e`: the released bucket is the exact bucket plus the three pairwise draws, re-centred
(`d − n`), modulo `2^w`; the draws are re-derived from the three streams by the outcome-stream reading of the
sampler (`specTdg`), the truncation point `n` by the exact-rational law is checked separately (`c12.oprf`), here it
is inferred from the model's constructor.  Also the weaker sampler-independent invariant: total noise ∈ [−3n, 3n]. -/
def specDraws (pInt shift : Nat) : Nat → List Nat → Option (List Int)
  | 0, _ => some []
  | k + 1, script =>
    match specTdg pInt shift script with
    | none => none
    | some (v, rest) => (specDraws pInt shift k rest).map ((v - (shift : Int)) :: ·)

def oracleE2e (shift pInt w : Nat) (hist s1 s2 s3 : List Nat) (impl : String) : Option String :=
  match impl.splitOn " " with
  | [vals, fl] =>
    match parseNatList vals, specDraws pInt shift hist.length s1, specDraws pInt shift hist.length s2, specDraws pInt shift hist.length s3 with
    | some vals, some d1, some d2, some d3 =>
      if fl ≠ "ok" then some "fails the released histogram is not a consistent sharing"
      else if vals.length ≠ hist.length then some s!"fails {vals.length} buckets released, {hist.length} expected"
      else
        let bad := (List.range hist.length).findSome? fun i =>
          let noise : Int := d1.getD i 0 + d2.getD i 0 + d3.getD i 0
          let want := (((hist.getD i 0 : Nat) : Int) + noise) % ((2 ^ w : Nat) : Int)
          let got : Int := ((vals.getD i 0 : Nat) : Int)
          -- sampler-independent invariant: (noisy − exact) mod 2^w is within [−3n, 3n]
          let diff := (got - ((hist.getD i 0 : Nat) : Int)) % ((2 ^ w : Nat) : Int)
          let inBand := diff ≤ 3 * (shift : Int) ∨ diff ≥ ((2 ^ w : Nat) : Int) - 3 * (shift : Int)
          if got ≠ want then
            some s!"bucket {i}: exact {hist.getD i 0}, draws {d1.getD i 0}, {d2.getD i 0}, {d3.getD i 0}: released {got}, expected {want} = (exact + d1 + d2 + d3) mod 2^{w}"
          else if ¬ inBand then some s!"bucket {i}: noise outside [-3n, 3n], n = {shift}"
          else none
        match bad with
        | some why => some ("fails " ++ why)
        | none => some "holds"
    | _, _, _, _ => some "unknown"
  | _ => if impl.startsWith "err" ∨ impl.startsWith "panic" ∨ impl.startsWith "timeout" then some s!"fails {impl}" else some "unknown"

/-! ### spec side of `c12_dummies` (written without the `Padding` model: `specTdg` + list walking) -/

structure PadRow where
  key : Nat
  bk : Nat
  v : Nat
  mask : Nat

def parsePadRows (s : String) : Option (List PadRow) :=
  if s = "-" then some [] else
  (s.splitOn ",").mapM fun r =>
    match r.splitOn "." with
    | [a, b, c, d] => do pure ⟨← a.toNat?, ← b.toNat?, ← c.toNat?, ← d.toNat?⟩
    | _ => none

/-- expected dummies of one OPRF pass: list of `(key, cardinality)` groups in order. -/
partial def specOprfGroups (pInt shift : Nat) (c cardCap : Nat) (s : List Nat) : Option (List (Nat × Nat)) :=
  if c > cardCap then some [] else
  match specTdg pInt shift s with
  | none => none
  | some (sample, rest) =>
    let n := sample.toNat
    let keys := (List.range n).map fun j => rest.getD (2 * j) 0 % 2 ^ 64
    if rest.length < 2 * n then none else
    (specOprfGroups pInt shift (c + 1) cardCap (rest.drop (2 * n))).map fun more => keys.map (·, c) ++ more

partial def specAggCounts (pInt shift : Nat) (bk b : Nat) (s : List Nat) : Option (List (Nat × Nat)) :=
  if bk ≥ b then some [] else
  match specTdg pInt shift s with
  | none => none
  | some (sample, rest) => (specAggCounts pInt shift (bk + 1) b rest).map fun more => (bk, sample.toNat) :: more

/-- walk the implementation's rows: every expected group `(key, bk, count)` of a pass with excluded helper `e`
must appear as `count` consecutive rows with that key / breakdown key, zero value, and all-zero shares at `e`. -/
def walkGroups (e : Nat) : List (Nat × Nat × Nat) → List PadRow → Except String (List PadRow)
  | [], rows => .ok rows
  | (key, bk, cnt) :: gs, rows =>
    let grp := rows.take cnt
    if grp.length < cnt then .error s!"fewer dummy rows than the sampler's draws determine (group key={key} bk={bk} of {cnt} rows)"
    else match grp.find? fun r => r.key ≠ key ∨ r.bk ≠ bk ∨ r.v ≠ 0 ∨ (r.mask / 2 ^ e) % 2 ≠ 1 with
      | some r => .error s!"dummy row mk={r.key} bk={r.bk} v={r.v} zero-mask={r.mask}: expected mk={key} bk={bk} v=0 and zero shares at helper {e + 1}"
      | none => walkGroups e gs (rows.drop cnt)

def oraclePad (groupsOfPass : List (Option (List (Nat × Nat × Nat)))) (impl : String) : Option String :=
  match impl.splitOn " " with
  | [rows, fl, lens] =>
    match parsePadRows rows with
    | none => some "unknown"
    | some rows =>
      if fl ≠ "ok" then some "fails a dummy row is not a consistent replicated sharing"
      else if lens ≠ "lens-equal" then some "fails the three helpers appended different numbers of rows"
      else if groupsOfPass.any (·.isNone) then some "unknown"
      else
        let r := (groupsOfPass.zipIdx).foldl (fun (acc : Except String (List PadRow)) (g, i) =>
          match acc with
          | .error e => .error e
          | .ok rest => walkGroups (3 - (i + 1)) (g.getD []) rest) (.ok rows)
        match r with
        | .error why => some ("fails " ++ why)
        | .ok [] => some "holds"
        | .ok rest => some s!"fails {rest.length} more rows than the three passes' draws determine"
  | _ => if impl.startsWith "err" ∨ impl.startsWith "panic" ∨ impl.startsWith "timeout" then some s!"fails {impl}" else some "unknown"

def oracle (toks : List String) (impl : String) : Option String :=
  match toks with
  | ["c12.oprf", eps, delta, sens, r, _p] => (do
      oracleOprf (← eps.toNat?) (← delta.toNat?) (← sens.toNat?) (← r.toNat?) impl) <|> some "unknown"
  | ["c12.tdg", s, shift, p] => (do oracleSimpleCtor "tdg" (← s.toNat?) (← shift.toNat?) (← p.toNat?) impl) <|> some "unknown"
  | ["c12.dg", s, shift, p] => (do oracleSimpleCtor "dg" (← s.toNat?) (← shift.toNat?) (← p.toNat?) impl) <|> some "unknown"
  | ["c12.geo", p] => (do oracleSimpleCtor "geo" 0 0 (← p.toNat?) impl) <|> some "unknown"
  | "c12.noise" :: rest => (do oracleNoise (← rest.mapM String.toNat?) impl) <|> some "unknown"
  | ["c12.maxeps"] => some (if impl == toString IpaVerif.Generated.C12.maxEpsilonBits then "holds" else "fails MAX_EPSILON differs from the extracted constant")
  | ["c12.e2e", _mode, _b, w, ss, _seed, eps, delta, r, p, pInt, hist, s1, s2, s3] => (do
      match oprfNew floatArith cap (← fl eps) (← fl delta) (2 ^ (← ss.toNat?)) (← fl r) (← fl p) with
      | .error _ => some "unknown"
      | .ok shift =>
        oracleE2e shift (← pInt.toNat?) (← w.toNat?) (← parseNatList hist) (← parseNatList s1) (← parseNatList s2) (← parseNatList s3) impl) <|> some "unknown"
  | ["c12.pad", "oprf", _mode, _seed, eps, delta, sens, cardCap, r, p, pInt, s1, s2, s3] => (do
      match oprfNew floatArith cap (← fl eps) (← fl delta) (← sens.toNat?) (← fl r) (← fl p) with
      | .error _ => some "unknown"
      | .ok shift =>
        let pInt ← pInt.toNat?
        let cardCap ← cardCap.toNat?
        let gp (s : List Nat) := (specOprfGroups pInt shift 1 cardCap s).map fun l => l.map fun (k, c) => (k, 0, c)
        oraclePad [gp (← parseNatList s1), gp (← parseNatList s2), gp (← parseNatList s3)] impl) <|> some "unknown"
  | ["c12.pad", "agg", _mode, _seed, b, bkBits, eps, delta, sens, r, p, pInt, s1, s2, s3] => (do
      match oprfNew floatArith cap (← fl eps) (← fl delta) (← sens.toNat?) (← fl r) (← fl p) with
      | .error _ => some "unknown"
      | .ok shift =>
        let pInt ← pInt.toNat?
        let b ← b.toNat?
        let bkBits ← bkBits.toNat?
        let gp (s : List Nat) := (specAggCounts pInt shift 0 b s).map fun l => l.map fun (bk, cnt) => (0, bk % 2 ^ bkBits, cnt)
        oraclePad [gp (← parseNatList s1), gp (← parseNatList s2), gp (← parseNatList s3)] impl) <|> some "unknown"
  | "c12.pad-broken" :: why => some ("fails the pairwise PRSS streams could not be replayed: " ++ " ".intercalate why)
  | "c12.e2e-broken" :: why => some ("fails the pairwise PRSS streams could not be replayed: " ++ " ".intercalate why)
  | ["c12.sample", kind, _s, _p, pInt, shift, script] => (do
      oracleSample kind (← pInt.toNat?) (← shift.toNat?) (← parseNatList script) impl) <|> some "unknown"
  | ["c12.shares", _eps, _delta, _sens, _r, _p, pInt, bitSize, ov, dir, script] => (do
      oracleShares (← pInt.toNat?) (← bitSize.toNat?) (← ov.toNat?) (dir == "L") (← parseNatList script) impl) <|> some "unknown"
  | _ => none

end IpaVerif.Driver.C12
