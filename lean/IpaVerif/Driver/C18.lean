import IpaVerif.Model.Util
import IpaVerif.Model.Lifecycle
/-! Line-protocol handlers for property C18 (model side + spec-side oracle). Import-free. -/
namespace IpaVerif.Driver.C18
open IpaVerif.Util IpaVerif.Lifecycle IpaVerif.Generated.Lifecycle

def statusByName (n : String) : Option Status := allStatuses.find? (·.name == n)
def kindByName (n : String) : Option Kind := allKinds.find? (·.name == n)

def showErr : Err → String
  | .alreadyRunning => "AlreadyRunning"
  | .invalidState f t => s!"InvalidState:{f.name}:{t.name}"
  | .noSuchQuery => "NoSuchQuery"
  | .wrongTarget => "WrongTarget"
  | .notLeader => "NotLeader"
  | .leader => "Leader"
  | .differentStatus m o => s!"DifferentStatus:{m.name}:{o.name}"
  | .mpcTransport => "MpcTransport"
  | .shardBroadcast => "ShardBroadcast"
  | .shardError => "ShardError"
  | .execution => "Execution"

def showResp : Resp → String
  | .ok => "ok"
  | .started id => s!"ok:{id}"
  | .status s => s!"ok:{s.name}"
  | .err e => s!"err:{showErr e}"
  | .pending id => s!"pending:{id}"
  | .stored => "stored"
  | .dropped => "dropped"
  | .resolved r => s!"resolved:{showResp r}"
  | .panic => "panic"

def showPassive (s : St) : String :=
  match s.entry with
  | none => "none"
  | some q => match statusOf q with
    | some st => st.name
    | none => "panic"

def parseReplies (s : String) : Option (List Reply) :=
  s.toList.mapM fun c => if c == 'o' then some Reply.accept else if c == 'e' then some Reply.reject else none

def parseSReplies (s : String) : Option (List SReply) :=
  s.toList.mapM fun c =>
    if c == 'o' then some SReply.same
    else if c == 'x' then some SReply.other
    else if '0' ≤ c ∧ c ≤ '4' then (allStatuses[c.toNat - '0'.toNat]?).map SReply.differ
    else none

def parseOp (s : String) : Option Op :=
  match s.splitOn ":" with
  | ["nq", p, r] => do pure (.newQuery (← parseReplies p) (← parseReplies r))
  | ["ph", r] => do pure (.prepareHelper (← parseReplies r))
  | ["ph"] => some (.prepareHelper [])
  | ["ps"] => some .prepareShard
  | ["ri"] => some .receiveInputs
  | ["qs", r] => do pure (.queryStatus (← parseSReplies r))
  | ["qs"] => some (.queryStatus [])
  | ["ss", k] => do pure (.shardStatus (← allStatuses[(← k.toNat?)]?))
  | ["co", r] => do pure (.complete (← parseReplies r))
  | ["co"] => some (.complete [])
  | ["ki"] => some .kill
  | ["to", id] => do pure (.taskReturns (← id.toNat?) .ok)
  | ["te", id] => do pure (.taskReturns (← id.toNat?) .err)
  | _ => none

def showTr : TrOut → String
  | .ok => "ok"
  | .alreadyRunning => "AlreadyRunning"
  | .invalidState f t => s!"InvalidState:{f.name}:{t.name}"
  | .panic => "panic"

/-- `some response` if the request belongs to this property, else `none`. -/
def handle (toks : List String) : Option String :=
  match toks with
  | ["c18.min", a, b] => some <| (do pure (minStatus (← statusByName a) (← statusByName b)).name).getD "bad-request"
  | ["c18.tr", a, b] => some <| (do pure (showTr (transition (← kindByName a) (← kindByName b)))).getD "bad-request"
  | ["c18.status", a] => some <| (do
      match kindStatus (← kindByName a) with
      | some s => pure s.name
      | none => pure "panic").getD "bad-request"
  | ["c18.hist", h, s, _n, ops] => some <| (do
      let p : Pos := { helper := (← h.toNat?), leader := (← s.toNat?) == 0 }
      let ops ← (ops.splitOn ",").mapM parseOp
      let out := run p {} ops
      pure (String.intercalate "," (out.map fun (r, st) => s!"{showResp r}/{showPassive st}"))).getD "bad-request"
  | _ => none

/-! ## Spec-side oracle

Written from the property text only (ranks of the five statuses, which requests may create /
remove a query, what an error may change); it looks at the implementation's responses and at the
request, never at the model above. -/

def rankOfName : String → Option Nat
  | "Preparing" => some 0
  | "AwaitingInputs" => some 1
  | "Running" => some 2
  | "AwaitingCompletion" => some 3
  | "Completed" => some 4
  | _ => none

def nameOfRank : Nat → String
  | 0 => "Preparing" | 1 => "AwaitingInputs" | 2 => "Running" | 3 => "AwaitingCompletion" | _ => "Completed"

/-- errors that mean "this request is not valid in the current state / at this processor" -/
def invalidClass (res : String) : Bool :=
  ["err:AlreadyRunning", "err:InvalidState", "err:NoSuchQuery", "err:WrongTarget", "err:NotLeader",
   "err:Leader", "err:DifferentStatus"].any (res.startsWith ·)

structure OSt where
  before : String := "none"
  awaiting : Option Nat := none   -- task awaited by the in-flight completion of the *current* query

def opName (op : String) : String := (op.splitOn ":").headD ""
def opArg (op : String) (i : Nat) : String := ((op.splitOn ":")[i]?).getD ""

/-- check one call: `op` from the request, `res/after` from the implementation. `none` = fine. -/
def checkCall (o : OSt) (op res after : String) : Option String :=
  let name := opName op
  let before := o.before
  if res.startsWith "panic" || res.startsWith "timeout" then some s!"{op}: the helper panicked or hung ({res})"
  else if (res.splitOn "+stray").length > 1 || res == "unresolved" then some s!"{op}: a completion finished/blocked out of turn ({res})"
  else if after == "panic" then some s!"{op}: stored state has no status"
  else
  -- forward only
  match rankOfName before, rankOfName after with
  | some a, some b =>
    if b < a then some s!"{op}: status went backwards {before} -> {after}" else
    if invalidClass res && !(before == after || (before == "Running" && after == "Completed")) then
      some s!"{op}: rejected with {res} but the state changed {before} -> {after}"
    else if (name == "nq" || name == "ph" || name == "ps") && before != after then
      some s!"{op}: a create request changed an existing query {before} -> {after}"
    else if name == "co" && (res == "ok" || res == "err:Execution") then
      some s!"{op}: results handed out but the query is still there ({after})"
    else if name == "qs" && res.startsWith "ok:" then
      let rs := (opArg op 1).toList
      let ranks := rs.filterMap fun c => if '0' ≤ c ∧ c ≤ '4' then some (c.toNat - '0'.toNat) else none
      let want := ranks.foldl min b
      if res == s!"ok:{nameOfRank want}" then none
      else some s!"{op}: reported {res} but the least advanced status is {nameOfRank want}"
    else if name == "ss" && res.startsWith "ok:" then
      if res == s!"ok:{after}" && rankOfName after == (opArg op 1).toNat? then none
      else some s!"{op}: shard reported {res} while in state {after}"
    else none
  | none, some _ =>
    -- a query appeared
    if (name == "nq" || name == "ph" || name == "ps") && res == "ok" then
      if after == "AwaitingInputs" then none else some s!"{op}: new query starts in {after}"
    else some s!"{op}: a query appeared ({after}) without a successful create request ({res})"
  | some _, none =>
    -- the query was forgotten: only by kill, by complete (results, execution error, shard error),
    -- or when the completion that was waiting for THIS query's task returns
    if name == "ki" && res == "ok" then none
    else if name == "co" && (res == "ok" || res == "err:Execution" || res == "err:ShardError") then none
    else if (name == "to" || name == "te") && res.startsWith "resolved:" then
      if o.awaiting.isSome && o.awaiting == (opArg op 1).toNat? then none
      else some s!"{op}: the completion of an earlier (killed) query removed the state ({before}) of the current query"
    else some s!"{op}: the query was forgotten ({before} -> none) by a request answered {res}"
  | none, none =>
    if (name == "nq" || name == "ph" || name == "ps") && res == "ok" then some s!"{op}: create succeeded but left no query"
    else if res.startsWith "ok" && name != "nq" && name != "ph" && name != "ps" then
      some s!"{op}: answered {res} although no query exists"
    else none

def advance (o : OSt) (res after : String) : OSt :=
  let aw :=
    if after != "AwaitingCompletion" then none
    else if res.startsWith "pending:" then (res.drop 8).toString.toNat?
    else o.awaiting
  { before := after, awaiting := aw }

def checkHist (ops : List String) (resps : List String) : Option String :=
  if ops.length != resps.length then some "number of responses differs from number of calls" else
  let rec go (o : OSt) : List (String × String) → Option String
    | [] => none
    | (op, r) :: rest =>
      match r.splitOn "/" with
      | [res, after] =>
        match checkCall o op res after with
        | some why => some why
        | none => go (advance o res after) rest
      | _ => some s!"{op}: malformed response {r}"
  go {} (ops.zip resps)

def allowedTransition (a b : String) : Bool :=
  (a, b) ∈ [("Empty", "Preparing"), ("Empty", "AwaitingInputs"), ("Preparing", "AwaitingInputs"), ("AwaitingInputs", "Running")]

/-- Property oracle on (request, implementation response). -/
def oracle (toks : List String) (impl : String) : Option String :=
  match toks with
  | ["c18.min", a, b] => some <|
      match rankOfName a, rankOfName b with
      | some x, some y => if impl == nameOfRank (min x y) then "holds" else s!"fails min_status({a},{b}) = {impl} is not the least advanced of the two"
      | _, _ => "unknown"
  | ["c18.tr", a, b] => some <|
      if allowedTransition a b then (if impl == "ok" then "holds" else s!"fails forward transition {a} -> {b} rejected ({impl})")
      else if impl == "ok" then s!"fails transition {a} -> {b} accepted" else "holds"
  | ["c18.status", a] => some <|
      if a == "Empty" then (if impl.startsWith "panic" then "holds" else "fails Empty has a status")
      else if impl == a then "holds" else s!"fails status of {a} reported as {impl}"
  | ["c18.hist", _, _, _, ops] => some <|
      if impl.startsWith "timeout" then "fails the history did not finish (hang)" else
      match checkHist (ops.splitOn ",") (impl.splitOn ",") with
      | none => "holds"
      | some why => s!"fails {why}"
  | _ => none

end IpaVerif.Driver.C18
