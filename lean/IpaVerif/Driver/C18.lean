import IpaVerif.Model.Util
import IpaVerif.Model.Lifecycle
import IpaVerif.Model.LifecycleApp
/-! Line-protocol handlers for property C18 (model side + spec-side oracle). Import-free. -/
namespace IpaVerif.Driver.C18
open IpaVerif.Util IpaVerif.Lifecycle IpaVerif.Generated.Lifecycle

def statusByName (n : String) : Option Status := allStatuses.find? (·.name == n)
def kindByName (n : String) : Option Kind := allKinds.find? (·.name == n)

def showErr : Err → String
  | .alreadyRunning => "AlreadyRunning"
  | .invalidState f t => s!"InvalidState:{f.name}:{t.name}"
  | .noSuchQuery => "NoSuchQuery"
  | .wrongTarget => "WrongTarget"
  | .notLeader => "NotLeader"
  | .leader => "Leader"
  | .differentStatus m o => s!"DifferentStatus:{m.name}:{o.name}"
  | .mpcTransport => "MpcTransport"
  | .shardBroadcast => "ShardBroadcast"
  | .shardError => "ShardError"
  | .execution => "Execution"

def showResp : Resp → String
  | .ok => "ok"
  | .started id => s!"ok:{id}"
  | .status s => s!"ok:{s.name}"
  | .err e => s!"err:{showErr e}"
  | .pending id => s!"pending:{id}"
  | .stored => "stored"
  | .dropped => "dropped"
  | .resolved r => s!"resolved:{showResp r}"
  | .panic => "panic"

def showPassive (s : St) : String :=
  match s.entry with
  | none => "none"
  | some q => match statusOf q with
    | some st => st.name
    | none => "panic"

def parseReplies (s : String) : Option (List Reply) :=
  s.toList.mapM fun c => if c == 'o' then some Reply.accept else if c == 'e' then some Reply.reject else none

def parseSReplies (s : String) : Option (List SReply) :=
  s.toList.mapM fun c =>
    if c == 'o' then some SReply.same
    else if c == 'x' then some SReply.other
    else if '0' ≤ c ∧ c ≤ '4' then (allStatuses[c.toNat - '0'.toNat]?).map SReply.differ
    else none

def parseOp (s : String) : Option Op :=
  match s.splitOn ":" with
  | ["nq", p, r] => do pure (.newQuery (← parseReplies p) (← parseReplies r))
  | ["ph", r] => do pure (.prepareHelper (← parseReplies r))
  | ["ph"] => some (.prepareHelper [])
  | ["ps"] => some .prepareShard
  | ["ri"] => some .receiveInputs
  | ["qs", r] => do pure (.queryStatus (← parseSReplies r))
  | ["qs"] => some (.queryStatus [])
  | ["ss", k] => do pure (.shardStatus (← allStatuses[(← k.toNat?)]?))
  | ["co", r] => do pure (.complete (← parseReplies r))
  | ["co"] => some (.complete [])
  | ["ki"] => some .kill
  | ["to", id] => do pure (.taskReturns (← id.toNat?) .ok)
  | ["te", id] => do pure (.taskReturns (← id.toNat?) .err)
  | _ => none

def showTr : TrOut → String
  | .ok => "ok"
  | .alreadyRunning => "AlreadyRunning"
  | .invalidState f t => s!"InvalidState:{f.name}:{t.name}"
  | .panic => "panic"

/-! ## App / request-handler level (suite `c18_app`)

Request `c18.app <h> <s> <n> <item,item,…>`; an item is `<name>[!<mod>…][@<origin>][:<arg>…]`:

* `nq:<pp>:<r…>` ReceiveQuery, `ph:<r…>` PrepareQuery, `ri` QueryInput, `qs:<r…>` QueryStatus,
  `co:<r…>` CompleteQuery, `ki` KillQuery, `me` Metrics, `rec` Records — on the
  `RequestHandler<HelperIdentity>` of the app; `ps` PrepareQuery, `ss:<k>` QueryStatus, `sco:<r…>`
  CompleteQuery, `srec` `snq` `sri` `ski` `sme` (routes it does not serve) — on the
  `RequestHandler<ShardIndex>`; `anq:<pp>:<r…>` `ari` `aqs:<r…>` `aco:<r…>` the `HelperApp` methods;
  `to:<id>` / `te:<id>` task events. Replies are scripted as in `c18.hist`.
* mods: `noid` (`Addr.query_id = None`), `p0`…`p5` (`Addr.params` that is not the JSON of the expected
  type), `p6` (the proper JSON plus an unknown field); `@k` sets `Addr.origin`.

Response per item: `<response class>/<passive status after>`. -/

open IpaVerif.LifecycleApp

structure Item where
  name : String
  mods : List String
  origin : Option Nat
  args : List String

def parseItem (tok : String) : Option Item :=
  match tok.splitOn ":" with
  | [] => none
  | head :: args =>
    let (h', origin) := match head.splitOn "@" with
      | [a, o] => (a, o.toNat?)
      | _ => (head, none)
    match h'.splitOn "!" with
    | [] => none
    | name :: mods => some { name, mods, origin, args }

def Item.arg (it : Item) (i : Nat) : String := (it.args[i]?).getD ""

/-- `Addr.params` for an op whose handler arm deserializes type `t`. -/
def paramsOf (it : Item) (t : PType) (st : Status) : Params :=
  if it.mods.any (fun m => m ∈ ["p0", "p1", "p2", "p3", "p4", "p5"]) then .other
  else if it.mods.contains "p6" then .extra t st
  else .proper t st

def mkReq (it : Item) (side : Side) (route : Route) (params : Params) (env : Env) : Req :=
  { side, route, hasId := !it.mods.contains "noid", origin := it.origin, params, env }

def parseAppOp (tok : String) : Option AppOp := do
  let it ← parseItem tok
  let st0 : Status := .preparing
  match it.name with
  | "nq" => pure <| .request (mkReq it .mpc .receiveQuery (paramsOf it .queryConfig st0)
      { peers := (← parseReplies (it.arg 0)), shards := (← parseReplies (it.arg 1)) })
  | "ph" => pure <| .request (mkReq it .mpc .prepareQuery (paramsOf it .prepareQuery st0) { shards := (← parseReplies (it.arg 0)) })
  | "ri" => pure <| .request (mkReq it .mpc .queryInput .other {})
  | "qs" => pure <| .request (mkReq it .mpc .queryStatus .other { sshards := (← parseSReplies (it.arg 0)) })
  | "co" => pure <| .request (mkReq it .mpc .completeQuery .other { shards := (← parseReplies (it.arg 0)) })
  | "ki" => pure <| .request (mkReq it .mpc .killQuery .other {})
  | "me" => pure <| .request (mkReq it .mpc .metrics .other {})
  | "rec" => pure <| .request (mkReq it .mpc .records .other {})
  | "ps" => pure <| .request (mkReq it .shard .prepareQuery (paramsOf it .prepareQuery st0) {})
  | "ss" => do
      let st ← allStatuses[(← (it.arg 0).toNat?)]?
      pure <| .request (mkReq it .shard .queryStatus (paramsOf it .compareStatus st) {})
  | "sco" => pure <| .request (mkReq it .shard .completeQuery .other { shards := (← parseReplies (it.arg 0)) })
  | "srec" => pure <| .request (mkReq it .shard .records .other {})
  | "snq" => pure <| .request (mkReq it .shard .receiveQuery (paramsOf it .queryConfig st0) {})
  | "sri" => pure <| .request (mkReq it .shard .queryInput .other {})
  | "ski" => pure <| .request (mkReq it .shard .killQuery .other {})
  | "sme" => pure <| .request (mkReq it .shard .metrics .other {})
  | "anq" => pure <| .method .startQuery { peers := (← parseReplies (it.arg 0)), shards := (← parseReplies (it.arg 1)) }
  | "ari" => pure <| .method .executeQuery {}
  | "aqs" => pure <| .method .queryStatus { sshards := (← parseSReplies (it.arg 0)) }
  | "aco" => pure <| .method .completeQuery { shards := (← parseReplies (it.arg 0)) }
  | "to" => pure <| .taskReturns (← (it.arg 0).toNat?) .ok
  | "te" => pure <| .taskReturns (← (it.arg 0).toNat?) .err
  | _ => none

def apiName : Api → String
  | .newQuery => "NewQuery"
  | .queryInput => "QueryInput"
  | .queryPrepare => "QueryPrepare"
  | .queryCompletion => "QueryCompletion"
  | .queryStatus => "QueryStatus"
  | .queryKill => "QueryKill"

def showHErr : HErr → String
  | .badRequest => "BadRequest"
  | .deserialization => "DeserializationFailure"
  | .api a e => s!"{apiName a}:{showErr e}"

/-- `rid`: identifier of the task whose result a `result` payload carries (the harness gives every
stub task a payload that encodes its identifier). -/
def showHResp (rid : Nat) : HResp → String
  | .ok .empty => "ok:empty"
  | .ok .prepared => "ok:prepared"
  | .ok (.status s) => s!"ok:status:{s.name}"
  | .ok .result => s!"ok:result:{rid}"
  | .ok .killed => "ok:killed"
  | .ok .metrics => "ok:metrics"
  | .err e => s!"err:{showHErr e}"
  | .pending id => s!"pending:{id}"
  | .panic => "panic"

/-- The task of the query in the table is the most recently started one. -/
def showAResp (before : St) (op : AppOp) : AResp → String
  | .resp h => showHResp (before.next - 1) h
  | .stored => "stored"
  | .dropped => "dropped"
  | .resolved h =>
    let id := match op with
      | .taskReturns id _ => id
      | _ => 0
    s!"resolved:{showHResp id h}"

def runAppShow (p : Pos) : St → List AppOp → List String
  | _, [] => []
  | s, op :: rest =>
    let (s', r) := appStep p s op
    s!"{showAResp s op r}/{showPassive s'}" :: runAppShow p s' rest

def handleApp (toks : List String) : Option String :=
  match toks with
  | ["c18.app", h, s, _n, items] => some <| (do
      let p : Pos := { helper := (← h.toNat?), leader := (← s.toNat?) == 0 }
      let ops ← (items.splitOn ",").mapM parseAppOp
      pure (String.intercalate "," (runAppShow p {} ops))).getD "bad-request"
  | _ => none

/-- `some response` if the request belongs to this property, else `none`. -/
def handle (toks : List String) : Option String :=
  match toks with
  | ["c18.min", a, b] => some <| (do pure (minStatus (← statusByName a) (← statusByName b)).name).getD "bad-request"
  | ["c18.tr", a, b] => some <| (do pure (showTr (transition (← kindByName a) (← kindByName b)))).getD "bad-request"
  | ["c18.status", a] => some <| (do
      match kindStatus (← kindByName a) with
      | some s => pure s.name
      | none => pure "panic").getD "bad-request"
  | ["c18.hist", h, s, _n, ops] => some <| (do
      let p : Pos := { helper := (← h.toNat?), leader := (← s.toNat?) == 0 }
      let ops ← (ops.splitOn ",").mapM parseOp
      let out := run p {} ops
      pure (String.intercalate "," (out.map fun (r, st) => s!"{showResp r}/{showPassive st}"))).getD "bad-request"
  | "c18.app" :: _ => handleApp toks
  | _ => none

/-! ## Spec-side oracle

Written from the property text only (ranks of the five statuses, which requests may create /
remove a query, what an error may change); it looks at the implementation's responses and at the
request, never at the model above. -/

def rankOfName : String → Option Nat
  | "Preparing" => some 0
  | "AwaitingInputs" => some 1
  | "Running" => some 2
  | "AwaitingCompletion" => some 3
  | "Completed" => some 4
  | _ => none

def nameOfRank : Nat → String
  | 0 => "Preparing" | 1 => "AwaitingInputs" | 2 => "Running" | 3 => "AwaitingCompletion" | _ => "Completed"

/-- errors that mean "this request is not valid in the current state / at this processor" -/
def invalidClass (res : String) : Bool :=
  ["err:AlreadyRunning", "err:InvalidState", "err:NoSuchQuery", "err:WrongTarget", "err:NotLeader",
   "err:Leader", "err:DifferentStatus"].any (res.startsWith ·)

structure OSt where
  before : String := "none"
  awaiting : Option Nat := none   -- task awaited by the in-flight completion of the *current* query

def opName (op : String) : String := (op.splitOn ":").headD ""
def opArg (op : String) (i : Nat) : String := ((op.splitOn ":")[i]?).getD ""

/-- check one call: `op` from the request, `res/after` from the implementation. `none` = fine. -/
def checkCall (o : OSt) (op res after : String) : Option String :=
  let name := opName op
  let before := o.before
  if res.startsWith "panic" || res.startsWith "timeout" then some s!"{op}: the helper panicked or hung ({res})"
  else if (res.splitOn "+stray").length > 1 || res == "unresolved" then some s!"{op}: a completion finished/blocked out of turn ({res})"
  else if after == "panic" then some s!"{op}: stored state has no status"
  else
  -- forward only
  match rankOfName before, rankOfName after with
  | some a, some b =>
    if b < a then some s!"{op}: status went backwards {before} -> {after}" else
    if invalidClass res && !(before == after || (before == "Running" && after == "Completed")) then
      some s!"{op}: rejected with {res} but the state changed {before} -> {after}"
    else if (name == "nq" || name == "ph" || name == "ps") && before != after then
      some s!"{op}: a create request changed an existing query {before} -> {after}"
    else if name == "co" && (res == "ok" || res == "err:Execution") then
      some s!"{op}: results handed out but the query is still there ({after})"
    else if name == "co" && before == "Completed" && res.startsWith "err:InvalidState" then
      -- complete IS valid for a finished query, whether its task returned a result or an error: the stored outcome is
      -- handed out once and the query forgotten (seed C18g: a stored error fell through to the invalid-state arm)
      some s!"{op}: the outcome of a finished query was not handed out ({res}) and the query stays ({after}), so no new query can start"
    else if name == "qs" && res.startsWith "ok:" then
      let rs := (opArg op 1).toList
      let ranks := rs.filterMap fun c => if '0' ≤ c ∧ c ≤ '4' then some (c.toNat - '0'.toNat) else none
      let want := ranks.foldl min b
      if res == s!"ok:{nameOfRank want}" then none
      else some s!"{op}: reported {res} but the least advanced status is {nameOfRank want}"
    else if name == "ss" && res.startsWith "ok:" then
      if res == s!"ok:{after}" && rankOfName after == (opArg op 1).toNat? then none
      else some s!"{op}: shard reported {res} while in state {after}"
    else none
  | none, some _ =>
    -- a query appeared
    if (name == "nq" || name == "ph" || name == "ps") && res == "ok" then
      if after == "AwaitingInputs" then none else some s!"{op}: new query starts in {after}"
    else some s!"{op}: a query appeared ({after}) without a successful create request ({res})"
  | some _, none =>
    -- the query was forgotten: only by kill, by complete (results, execution error, shard error),
    -- or when the completion that was waiting for THIS query's task returns
    if name == "ki" && res == "ok" then none
    else if name == "co" && (res == "ok" || res == "err:Execution" || res == "err:ShardError") then none
    else if (name == "to" || name == "te") && res.startsWith "resolved:" then
      if o.awaiting.isSome && o.awaiting == (opArg op 1).toNat? then none
      else some s!"{op}: the completion of an earlier (killed) query removed the state ({before}) of the current query"
    else some s!"{op}: the query was forgotten ({before} -> none) by a request answered {res}"
  | none, none =>
    if (name == "nq" || name == "ph" || name == "ps") && res == "ok" then some s!"{op}: create succeeded but left no query"
    else if res.startsWith "ok" && name != "nq" && name != "ph" && name != "ps" then
      some s!"{op}: answered {res} although no query exists"
    else none

def advance (o : OSt) (res after : String) : OSt :=
  let aw :=
    if after != "AwaitingCompletion" then none
    else if res.startsWith "pending:" then (res.drop 8).toString.toNat?
    else o.awaiting
  { before := after, awaiting := aw }

def checkHist (ops : List String) (resps : List String) : Option String :=
  if ops.length != resps.length then some "number of responses differs from number of calls" else
  let rec go (o : OSt) : List (String × String) → Option String
    | [] => none
    | (op, r) :: rest =>
      match r.splitOn "/" with
      | [res, after] =>
        match checkCall o op res after with
        | some why => some why
        | none => go (advance o res after) rest
      | _ => some s!"{op}: malformed response {r}"
  go {} (ops.zip resps)

/-! ### Spec-side oracle for `c18.app`

From the API contract only: which routes a handler serves, which need `Addr.query_id`, which need
`Addr.params` of a given type; the payload class each route answers with; and the lifecycle rules of
`checkCall` above. It never consults `LifecycleApp.handle` / `Lifecycle.step`. -/

structure AOSt where
  o : OSt := {}
  started : Nat := 0        -- successful QueryInput requests so far (= task ids handed to the harness)
  handed : List Nat := []   -- ids of the results handed out so far

/-- processor-level name of an app-level item (for `checkCall`) -/
def histName : String → String
  | "nq" | "anq" => "nq"
  | "ph" => "ph"
  | "ps" => "ps"
  | "ri" | "ari" => "ri"
  | "qs" | "aqs" => "qs"
  | "ss" => "ss"
  | "co" | "sco" | "aco" => "co"
  | "ki" => "ki"
  | "to" => "to"
  | "te" => "te"
  | _ => ""

def unservedNames : List String := ["rec", "srec", "snq", "sri", "ski", "sme"]
def needsIdNames : List String := ["ri", "qs", "co", "ki", "sco"]
def paramNames : List String := ["nq", "ph", "ps", "ss"]

/-- `some class` if the request must be refused whatever the state is. -/
def malformedClass (it : Item) : Option String :=
  if unservedNames.contains it.name then some "err:BadRequest"
  else if needsIdNames.contains it.name && it.mods.contains "noid" then some "err:BadRequest"
  else if paramNames.contains it.name && it.mods.any (fun m => m ∈ ["p0", "p1", "p2", "p3", "p4", "p5"]) then
    some "err:DeserializationFailure"
  else none

/-- `ApiError` variant a processor error of this request must be wrapped in -/
def errPrefix : String → String
  | "nq" | "anq" => "err:NewQuery:"
  | "ph" | "ps" => "err:QueryPrepare:"
  | "ri" | "ari" => "err:QueryInput:"
  | "qs" | "aqs" | "ss" => "err:QueryStatus:"
  | "co" | "sco" | "aco" => "err:QueryCompletion:"
  | "ki" => "err:QueryKill:"
  | _ => "err:?"

/-- payload class of a successful answer -/
def okPrefix : String → String
  | "nq" | "anq" => "ok:prepared"
  | "ph" | "ps" | "ri" | "ari" => "ok:empty"
  | "qs" | "aqs" | "ss" => "ok:status:"
  | "co" | "sco" | "aco" => "ok:result:"
  | "ki" => "ok:killed"
  | "me" => "ok:metrics"
  | _ => "ok:?"

def afterPrefix (pre s : String) : String := String.intercalate pre ((s.splitOn pre).drop 1)

/-- handler response class -> processor-level response of `c18.hist` -/
def toHistRes (name res : String) : String :=
  if res.startsWith "ok:status:" then s!"ok:{afterPrefix "ok:status:" res}"
  else if res.startsWith "ok:" then "ok"
  else if res.startsWith (errPrefix name) then s!"err:{afterPrefix (errPrefix name) res}"
  else res

/-- checks of one item; `none` = fine -/
def checkApp (a : AOSt) (tok res after : String) : Option String :=
  match parseItem tok with
  | none => some s!"{tok}: unparsable item"
  | some it =>
  let before := a.o.before
  let isTask := it.name == "to" || it.name == "te"
  if res.startsWith "panic" || res.startsWith "timeout" then some s!"{tok}: the handler panicked or hung ({res})"
  else if (res.splitOn "+stray").length > 1 || res == "unresolved" then some s!"{tok}: a completion finished/blocked out of turn ({res})"
  else
  -- every request gets a response of one of the two classes (or stays in flight: CompleteQuery only)
  let inner := if isTask && res.startsWith "resolved:" then afterPrefix "resolved:" res else res
  let cname := if isTask then "co" else it.name
  if isTask && !(res == "stored" || res == "dropped" || res.startsWith "resolved:") then some s!"{tok}: bad task event answer {res}"
  else if !isTask && res.startsWith "pending:" && histName it.name != "co" then some s!"{tok}: request left in flight ({res})"
  else if (!isTask || res.startsWith "resolved:") && !(inner.startsWith "ok:" || inner.startsWith "err:" || (!isTask && inner.startsWith "pending:")) then
    some s!"{tok}: response {res} is neither ok:<payload> nor err:<error>"
  else
  match malformedClass it with
  | some cls =>
    -- malformed: refused with the state-independent error, state untouched
    if res != cls then some s!"{tok}: malformed request answered {res}, expected {cls}"
    else if after != before then some s!"{tok}: malformed request changed the state {before} -> {after}"
    else none
  | none =>
    if inner == "err:BadRequest" || inner == "err:DeserializationFailure" then some s!"{tok}: well-formed request refused with {res}"
    else if it.name == "me" then
      if res != "ok:metrics" then some s!"{tok}: Metrics answered {res}"
      else if after != before then some s!"{tok}: Metrics changed the state {before} -> {after}" else none
    else if inner.startsWith "ok:" && !inner.startsWith (okPrefix cname) then some s!"{tok}: success payload {inner} is not {okPrefix cname}…"
    else if inner.startsWith "err:" && !inner.startsWith (errPrefix cname) then some s!"{tok}: error {inner} is not wrapped as {errPrefix cname}…"
    else
    -- results: of a started task, of the current query, at most once
    let resultErr : Option String :=
      if inner.startsWith "ok:result:" then
        match (afterPrefix "ok:result:" inner).toNat? with
        | none => some s!"{tok}: result payload is not a task's result ({inner})"
        | some k =>
          if k ≥ a.started then some s!"{tok}: result of task {k} which was never started"
          else if a.handed.contains k then some s!"{tok}: result of task {k} handed out twice"
          else if isTask && some k != (it.arg 0).toNat? then some s!"{tok}: completion resolved with the result of task {k}"
          else if !isTask && k + 1 != a.started then some s!"{tok}: result of task {k} handed out for the query of task {a.started - 1}"
          else none
      else none
    match resultErr with
    | some why => some why
    | none =>
      let op' := String.intercalate ":" (histName it.name :: it.args)
      let res' := if isTask && res.startsWith "resolved:" then s!"resolved:{toHistRes "co" inner}" else toHistRes it.name res
      checkCall a.o op' res' after

def advanceApp (a : AOSt) (tok res after : String) : AOSt :=
  match parseItem tok with
  | none => a
  | some it =>
    let inner := if res.startsWith "resolved:" then afterPrefix "resolved:" res else res
    let started := if (it.name == "ri" || it.name == "ari") && res.startsWith "ok:" then a.started + 1 else a.started
    let handed := if inner.startsWith "ok:result:" then
        match (afterPrefix "ok:result:" inner).toNat? with
        | some k => k :: a.handed
        | none => a.handed
      else a.handed
    { o := advance a.o (toHistRes it.name res) after, started, handed }

def checkAppHist (items : List String) (resps : List String) : Option String :=
  if items.length != resps.length then some "number of responses differs from number of requests" else
  let rec go (a : AOSt) : List (String × String) → Option String
    | [] => none
    | (tok, r) :: rest =>
      match r.splitOn "/" with
      | [res, after] =>
        match checkApp a tok res after with
        | some why => some why
        | none => go (advanceApp a tok res after) rest
      | _ => some s!"{tok}: malformed response {r}"
  go {} (items.zip resps)

def allowedTransition (a b : String) : Bool :=
  (a, b) ∈ [("Empty", "Preparing"), ("Empty", "AwaitingInputs"), ("Preparing", "AwaitingInputs"), ("AwaitingInputs", "Running")]

/-- Property oracle on (request, implementation response). -/
def oracle (toks : List String) (impl : String) : Option String :=
  match toks with
  | ["c18.min", a, b] => some <|
      match rankOfName a, rankOfName b with
      | some x, some y => if impl == nameOfRank (min x y) then "holds" else s!"fails min_status({a},{b}) = {impl} is not the least advanced of the two"
      | _, _ => "unknown"
  | ["c18.tr", a, b] => some <|
      if allowedTransition a b then (if impl == "ok" then "holds" else s!"fails forward transition {a} -> {b} rejected ({impl})")
      else if impl == "ok" then s!"fails transition {a} -> {b} accepted" else "holds"
  | ["c18.status", a] => some <|
      if a == "Empty" then (if impl.startsWith "panic" then "holds" else "fails Empty has a status")
      else if impl == a then "holds" else s!"fails status of {a} reported as {impl}"
  | ["c18.hist", _, _, _, ops] => some <|
      if impl.startsWith "timeout" then "fails the history did not finish (hang)" else
      match checkHist (ops.splitOn ",") (impl.splitOn ",") with
      | none => "holds"
      | some why => s!"fails {why}"
  | ["c18.app", _, _, _, items] => some <|
      if impl.startsWith "timeout" then "fails the history did not finish (hang)" else
      if impl.startsWith "panic" then s!"fails a request handler panicked ({impl})" else
      match checkAppHist (items.splitOn ",") (impl.splitOn ",") with
      | none => "holds"
      | some why => s!"fails {why}"
  | _ => none

end IpaVerif.Driver.C18
