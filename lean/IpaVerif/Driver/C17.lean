import IpaVerif.Model.Util
import IpaVerif.Model.Streams
import IpaVerif.Generated.StreamConsts
/-! Line-protocol handlers for property C17 (model side). Import-free.

Upstream chunk lists: comma-separated, `-` = empty chunk, `!` = upstream error, `.` = no item at all.

  c17.records <single|batch> <ty> <chunks>   ty: r1..r8 (record of N bytes, invalid iff first byte = ff),
                                              fp31 (1 byte, invalid iff ≥ 31), fp32 (4 bytes LE, invalid iff ≥ 2^32-5)
  c17.ld <chunks>                             length-delimited records (invalid iff first byte = ff)
  c17.buffered <sz> <chunks>
  c17.slice <N> <n>       c17.streamchunks <N> <items>      c17.unpack <N> <M> <F|P<len>> <datalen>
  c17.flatten <lists>     c17.fixed <len> <n>
-/
namespace IpaVerif.Driver.C17
open IpaVerif.Util IpaVerif.Streams

def parseUp (s : String) : Option (List Up) :=
  if s = "." then some [] else
  (s.splitOn ",").mapM fun t =>
    if t = "!" then some Up.err else (parseHexBytes t).map Up.chunk

structure RecTy where
  sz : Nat
  bad : Bytes → Bool

def recTy (s : String) : Option RecTy :=
  if s = "fp31" then some ⟨1, fun b => b.getD 0 0 ≥ IpaVerif.Generated.c17Fp31Prime⟩
  else if s = "fp32" then some ⟨4, fun b => ofLeBytes b ≥ IpaVerif.Generated.c17Fp32Prime⟩
  else match s.toList with
    | ['r', d] => (hexDigit d).bind fun n => if 1 ≤ n ∧ n ≤ 8 then some ⟨n, fun b => b.getD 0 0 == 255⟩ else none
    | _ => none

def plusHex (l : List Bytes) : String := "[" ++ String.intercalate "+" (l.map bytesHex) ++ "]"

/-- apply the record type to the raw items: stop with `E:parse` at the first invalid record
(a batch containing an invalid record is lost as a whole). -/
def render (bad : Bytes → Bool) : List Item → List String
  | [] => []
  | .record b :: rest => if bad b then ["E:parse"] else bytesHex b :: render bad rest
  | .batch l :: rest => if l.any bad then ["E:parse"] else plusHex l :: render bad rest
  | .errTrailing n :: _ => [s!"E:trailing:{n}"]
  | .errUpstream :: _ => ["E:upstream"]
  | .done :: _ => ["end"]
  | .panic :: _ => ["panic"]

def join (l : List String) : String := String.intercalate " " l

def ctStr : ChunkType → String
  | .full => "F"
  | .part n => s!"P{n}"

def parseCt (s : String) : Option ChunkType :=
  if s = "F" then some .full
  else match s.toList with
    | 'P' :: r => (String.ofList r).toNat?.map .part
    | _ => none

def plusNat (l : List Nat) : String := if l.isEmpty then "-" else String.intercalate "+" (l.map toString)

def parsePlus (s : String) : Option (List Nat) :=
  if s = "-" then some [] else (s.splitOn "+").mapM String.toNat?

def chunkStr : Nat × ChunkType × List Nat → String
  | (i, ct, d) => s!"{i}:{ctStr ct}:{plusNat d}"

def handle (toks : List String) : Option String :=
  match toks with
  | ["c17.records", mode, ty, chunks] => some <| Id.run do
      let some t := recTy ty | return "bad-request"
      let some up := parseUp chunks | return "bad-request"
      let batch := mode == "batch"
      return join (render t.bad (records batch t.sz up))
  | ["c17.ld", chunks] => some <| Id.run do
      let some up := parseUp chunks | return "bad-request"
      return join (render (fun b => b.getD 0 0 == 255) (lengthDelimited up))
  | ["c17.buffered", sz, chunks] => some <| Id.run do
      let some sz := sz.toNat? | return "bad-request"
      let some up := parseUp chunks | return "bad-request"
      return join (render (fun _ => false) (buffered sz up))
  | ["c17.slice", n, len] => some <| Id.run do
      let some n := n.toNat? | return "bad-request"
      let some len := len.toNat? | return "bad-request"
      let l := (List.range len).map (· + 1)
      let cs := sliceChunks n 0 l
      let flat := cs.flatMap fun (_, ct, d) => chunkIter n (ct, d)
      return join (cs.map chunkStr ++ ["|", "flat=" ++ plusNat flat])
  | ["c17.streamchunks", n, items] => some <| Id.run do
      let some n := n.toNat? | return "bad-request"
      let its : Option (List (TItem Nat)) :=
        if items = "." then some [] else
        (items.splitOn ",").mapM fun t => if t = "!" then some TItem.err else t.toNat?.map TItem.ok
      let some its := its | return "bad-request"
      return join ((streamChunks n 0 its).map fun
        | .ok c => chunkStr c
        | .err => "E")
  | ["c17.unpack", n, m, ct, dl] => some <| Id.run do
      let some n := n.toNat? | return "bad-request"
      let some m := m.toNat? | return "bad-request"
      let some ct := parseCt ct | return "bad-request"
      let some dl := dl.toNat? | return "bad-request"
      match unpack n m ct (List.range dl) with
      | .panic => return "panic"
      | .ok l => return join ("ok" :: l.map fun (c, x) => s!"{ctStr c}:{x}")
  | ["c17.flatten", lists] => some <| Id.run do
      let its : Option (List (TItem (List Nat))) :=
        if lists = "." then some [] else
        (lists.splitOn ",").mapM fun t => if t = "!" then some TItem.err else (parsePlus t).map TItem.ok
      let some its := its | return "bad-request"
      return join ((tryFlatten its).map (fun | .ok x => toString x | .err => "E") ++ ["end"])
  | ["c17.fixed", len, n] => some <| Id.run do
      let some len := len.toNat? | return "bad-request"
      let some n := n.toNat? | return "bad-request"
      let (items, bad) := fixedLength len (List.range n)
      if bad then return "panic" else return s!"ok {items.length}"
  | t :: _ => if t.startsWith "c17." then some "bad-request" else none
  | [] => none

/-! ## Spec-side oracle: written from the statement of C17 (concatenate, cut, compare). -/

def concatBefore : List Up → Bytes × Bool
  | [] => ([], false)
  | .err :: _ => ([], true)
  | .chunk c :: r => let (b, e) := concatBefore r; (c ++ b, e)

/-- cut into records of `sz` bytes; the remainder is returned separately. -/
def cut (sz : Nat) (fuel : Nat) (bs : Bytes) : List Bytes × Bytes :=
  match fuel with
  | 0 => ([], bs)
  | f + 1 => if sz = 0 ∨ bs.length < sz then ([], bs) else
      let (r, rem) := cut sz f (bs.drop sz); (bs.take sz :: r, rem)

/-- decode `u16 LE length ‖ payload` records; the undecodable tail is returned separately. -/
def decodeLd (fuel : Nat) (bs : Bytes) : List Bytes × Bytes :=
  match fuel with
  | 0 => ([], bs)
  | f + 1 =>
    match bs with
    | a :: b :: rest =>
      let len := a + 256 * b
      if rest.length < len then ([], bs) else
      let (r, rem) := decodeLd f (rest.drop len); (rest.take len :: r, rem)
    | _ => ([], bs)

def parseBracket (t : String) : Option (List Bytes) :=
  if t.startsWith "[" ∧ t.endsWith "]" then
    let inner := ((t.drop 1).dropEnd 1).toString
    (inner.splitOn "+").mapM parseHexBytes
  else none

/-- flatten the implementation's data tokens; returns (records, batch sizes ok, terminal token). -/
def flattenImpl (toks : List String) : Option (List Bytes × Bool × String) :=
  match toks.reverse with
  | [] => none
  | term :: revData => do
    let mut recs : List Bytes := []
    let mut okSizes := true
    for t in revData.reverse do
      if t.startsWith "[" then
        let l ← parseBracket t
        if l.isEmpty then okSizes := false
        recs := recs ++ l
      else
        recs := recs ++ [← parseHexBytes t]
    pure (recs, okSizes, term)

def judge (what : String) (recs : List Bytes) (bad : Bytes → Bool) (single : Bool) (hasErr : Bool)
    (remLen : Nat) (impl : String) : String :=
  match flattenImpl (impl.splitOn " ") with
  | none => s!"fails {what}: unparsable response"
  | some (got, okSizes, term) =>
    if !okSizes then s!"fails {what}: empty batch emitted" else
    let firstBad := recs.findIdx? bad
    match firstBad with
    | some k =>
      if term != "E:parse" then s!"fails {what}: record {k} is invalid but the stream answered {term}"
      else if got != recs.take got.length then s!"fails {what}: emitted records are not a prefix of the encoded records"
      else if got.length > k then s!"fails {what}: records after the invalid record {k} were emitted"
      else if single && got.length != k then s!"fails {what}: error reported at record {got.length}, the invalid record is {k}"
      else "holds"
    | none =>
      if got != recs then
        s!"fails {what}: emitted {got.length} records, the bytes encode {recs.length} (lost, duplicated, reordered or altered)"
      else if hasErr then (if term == "E:upstream" then "holds" else s!"fails {what}: upstream error answered {term}")
      else if remLen != 0 then
        (if term.startsWith "E:trailing" then "holds" else s!"fails {what}: {remLen} trailing bytes answered {term}")
      else if term == "end" then "holds" else s!"fails {what}: clean end of stream answered {term}"

def oracle (toks : List String) (impl : String) : Option String :=
  if impl.startsWith "panic" ∧ (toks.head? ∈ [some "c17.records", some "c17.ld", some "c17.buffered",
      some "c17.slice", some "c17.streamchunks", some "c17.flatten"]) then
    some "fails parser panicked"
  else
  match toks with
  | ["c17.records", mode, ty, chunks] => some <| Id.run do
      let some t := recTy ty | return "unknown"
      let some up := parseUp chunks | return "unknown"
      let (bytes, hasErr) := concatBefore up
      let (recs, rem) := cut t.sz (bytes.length + 1) bytes
      return judge "records" recs t.bad (mode == "single") hasErr rem.length impl
  | ["c17.ld", chunks] => some <| Id.run do
      let some up := parseUp chunks | return "unknown"
      let (bytes, hasErr) := concatBefore up
      let (recs, rem) := decodeLd (bytes.length + 1) bytes
      return judge "length-delimited" recs (fun b => b.getD 0 0 == 255) false hasErr rem.length impl
  | ["c17.buffered", sz, chunks] => some <| Id.run do
      let some sz := sz.toNat? | return "unknown"
      let some up := parseUp chunks | return "unknown"
      let (bytes, hasErr) := concatBefore up
      let some (got, _, term) := flattenImpl (impl.splitOn " ") | return "fails buffered: unparsable response"
      -- an upstream error is passed on as soon as it is seen: only whole items precede it
      let want := if hasErr then bytes.take (bytes.length / sz * sz) else bytes
      if got.flatten != want then return "fails buffered: concatenated output differs from concatenated input"
      if !((if hasErr then got else got.dropLast).all (·.length == sz)) then return s!"fails buffered: an item other than the last is not {sz} bytes"
      if !(got.all (fun g => 0 < g.length ∧ g.length ≤ sz)) then return "fails buffered: empty or oversized item"
      if term != (if hasErr then "E:upstream" else "end") then return s!"fails buffered: terminal {term}"
      return "holds"
  | ["c17.slice", n, len] => some <| Id.run do
      let some n := n.toNat? | return "unknown"
      let some len := len.toNat? | return "unknown"
      let parts := impl.splitOn "| flat="
      let some flat := (parts.getD 1 "?") |> parsePlus | return "fails slice: unparsable"
      let cs := (parts.getD 0 "").splitOn " " |>.filter (· ≠ "")
      if flat != (List.range len).map (· + 1) then return "fails slice: flattened chunks differ from the input"
      if cs.length != (len + n - 1) / n then return s!"fails slice: {cs.length} chunks for {len} items of width {n}"
      let okShape := (List.range cs.length).all fun i =>
        let want := if i + 1 == cs.length ∧ len % n ≠ 0 then s!"{i}:P{len % n}:" else s!"{i}:F:"
        let c := cs.getD i ""
        c.startsWith want && ((((c.splitOn ":").getD 2 "").splitOn "+").length == n)
      if !okShape then return "fails slice: wrong chunk index/type/width"
      return "holds"
  | ["c17.flatten", lists] => some <| Id.run do
      let its := if lists = "." then [] else lists.splitOn ","
      let before := its.takeWhile (· ≠ "!")
      let want := (before.filterMap parsePlus).flatten.map toString ++ (if before.length < its.length then ["E"] else []) ++ ["end"]
      return if impl.splitOn " " == want then "holds" else "fails flatten: not the concatenation up to the first error"
  | ["c17.streamchunks", n, items] => some <| Id.run do
      let some n := n.toNat? | return "unknown"
      let its := if items = "." then [] else items.splitOn ","
      let before := (its.takeWhile (· ≠ "!")).filterMap String.toNat?
      let hasErr := before.length < its.length
      let toks := impl.splitOn " " |>.filter (· ≠ "")
      let data := toks.filter (· ≠ "E")
      let flat := data.flatMap fun c =>
        let f := c.splitOn ":"
        let d := (parsePlus (f.getD 2 "-")).getD []
        match parseCt (f.getD 1 "F") with
        | some (.part k) => d.take k
        | _ => d
      if hasErr then
        if toks.getLast? != some "E" then return "fails streamchunks: upstream error not passed on"
        if flat != before.take flat.length ∨ flat.length != before.length / n * n then
          return "fails streamchunks: chunks before the error are not the full chunks of the input"
        return "holds"
      else
        if flat != before then return "fails streamchunks: flattened chunks differ from the input"
        if data.length != (before.length + n - 1) / n then return "fails streamchunks: wrong number of chunks"
        return "holds"
  | ["c17.unpack", n, m, ct, dl] => some <| Id.run do
      let some n := n.toNat? | return "unknown"
      let some m := m.toNat? | return "unknown"
      let some ct := parseCt ct | return "unknown"
      let some dl := dl.toNat? | return "unknown"
      if m = 0 ∨ n % m ≠ 0 then return (if impl.startsWith "panic" then "holds" else "unknown")
      let len := match ct with | .part l => l | .full => n
      let pre := match ct with | .part l => (l + m - 1) / m ≤ dl ∧ dl ≤ n / m | .full => dl = n / m
      if !pre then return (if impl.startsWith "panic" then "holds" else "fails unpack: precondition violated silently")
      if impl.startsWith "panic" then return "fails unpack: panicked under its documented precondition"
      let subs := (impl.splitOn " ").drop 1
      let lens := subs.map fun s => match parseCt ((s.splitOn ":").getD 0 "") with
        | some (.part k) => k | _ => m
      if lens.foldl (· + ·) 0 != len then return "fails unpack: sub-chunk lengths do not add up"
      if subs.length != (len + m - 1) / m then return "fails unpack: wrong number of sub-chunks"
      return "holds"
  | ["c17.fixed", _, _] => some "unknown"
  | _ => none

end IpaVerif.Driver.C17
