import IpaVerif.Model.Util
import IpaVerif.Model.PrimeField
import IpaVerif.Generated.PrimeFields
/-! Line-protocol handlers for property C08 (model side). Import-free. -/
namespace IpaVerif.Driver.C08
open IpaVerif.Util IpaVerif.PrimeField

def fieldByName (n : String) : Option Params :=
  IpaVerif.Generated.primeFields.find? (·.name == n)

def optNat : Option Nat → String
  | some v => s!"ok {v}"
  | none => "err"

def pf (P : Params) (op : String) (args : List String) : Option String :=
  match op, args with
  | "add", [a, b] | "addassign", [a, b] => do pure (toString (add P (← a.toNat?) (← b.toNat?)))
  | "sub", [a, b] | "subassign", [a, b] => do pure (toString (sub P (← a.toNat?) (← b.toNat?)))
  | "mul", [a, b] | "mulassign", [a, b] => do pure (toString (mul P (← a.toNat?) (← b.toNat?)))
  | "neg", [a] => do pure (toString (neg P (← a.toNat?)))
  | "inv", [a] => do
      match invert P (← a.toNat?) with
      | some r => pure (toString r)
      | none => pure "panic"
  | "trunc", [v] => do pure (toString (truncateFrom P (← v.toNat?)))
  | "tryfrom", [v] => do pure (optNat (tryFrom P (← v.toNat?)))
  | "ser", [a] => do pure (bytesHex (serialize P (← a.toNat?)))
  | "deser", [h] => do pure (optNat (deserialize P (← parseHexBytes h)))
  | "batchinv", [l] => do
      match batchInvert P (← parseNatList l) with
      | some r => pure (showNatList r)
      | none => pure "panic"
  | "dot", [a, b] => do
      let a ← parseNatList a
      let b ← parseNatList b
      match accDot P (if P.mersenne then IpaVerif.Generated.accInterval else 1) (a.zip b) with
      | some r => pure (toString r)
      | none => pure "panic"
  | "sum", [l] => do pure (toString ((← parseNatList l).foldl (add P) 0))
  | _, _ => none

/-- `some response` if the request belongs to this property, else `none`. -/
def handle (toks : List String) : Option String :=
  match toks with
  | "c08.pf" :: f :: op :: args =>
      match fieldByName f with
      | some P => some ((pf P op args).getD "bad-request")
      | none => some "bad-request"
  | _ => none

/-- Spec-side oracle (independent of the model of the code): plain arithmetic modulo `p`. -/
def pfOracle (P : Params) (op : String) (args : List String) (impl : String) : Option Bool :=
  let p := P.p
  match op, args with
  | "add", [a, b] | "addassign", [a, b] => do pure ((← impl.toNat?) == ((← a.toNat?) + (← b.toNat?)) % p)
  | "sub", [a, b] | "subassign", [a, b] => do
      let r ← impl.toNat?
      pure (r < p && (r + (← b.toNat?)) % p == (← a.toNat?) % p)
  | "mul", [a, b] | "mulassign", [a, b] => do pure ((← impl.toNat?) == ((← a.toNat?) * (← b.toNat?)) % p)
  | "neg", [a] => do
      let r ← impl.toNat?
      pure (r < p && (r + (← a.toNat?)) % p == 0)
  | "inv", [a] => do
      let a ← a.toNat?
      if a % p == 0 then pure (impl.startsWith "panic") else
      let r ← impl.toNat?
      pure (r < p && (r * a) % p == 1)
  | "trunc", [v] => do pure ((← impl.toNat?) == (← v.toNat?) % p)
  | "dot", [a, b] => do
      let a ← parseNatList a
      let b ← parseNatList b
      let s := (a.zip b).foldl (fun acc (x, y) => acc + x * y) 0
      pure ((← impl.toNat?) == s % p)
  | "sum", [l] => do pure ((← impl.toNat?) == ((← parseNatList l).foldl (· + ·) 0) % p)
  | "batchinv", [l] => do
      let xs ← parseNatList l
      if xs.any (· % p == 0) then pure (impl.startsWith "panic") else
      let rs ← parseNatList impl
      pure (rs.length == xs.length && (xs.zip rs).all (fun (x, r) => r < p && (x * r) % p == 1))
  | "deser", [h] => do
      let bs ← parseHexBytes h
      let v := ofLeBytes bs
      if bs.length == P.storeBits / 8 && v < p then pure (impl == s!"ok {v}") else pure (impl == "err")
  | "ser", [a] => do pure (impl == bytesHex (leBytes (← a.toNat?) (P.storeBits / 8)))
  | _, _ => none

/-- Property oracle on (request, implementation response). -/
def oracle (toks : List String) (impl : String) : Option String :=
  match toks with
  | "c08.pf" :: f :: op :: args =>
      match fieldByName f with
      | some P =>
        match pfOracle P op args impl with
        | some true => some "holds"
        | some false => some "fails result differs from arithmetic modulo PRIME (or is not the canonical representative)"
        | none => some "unknown"
      | none => some "unknown"
  | _ => none

end IpaVerif.Driver.C08
