import IpaVerif.Model.Util
import IpaVerif.Model.PrimeField
import IpaVerif.Generated.PrimeFields
import IpaVerif.Model.Gf2k
import IpaVerif.Generated.BinaryFields
/-! Line-protocol handlers for property C08 (model side). Import-free. -/
namespace IpaVerif.Driver.C08
open IpaVerif.Util IpaVerif.PrimeField

def fieldByName (n : String) : Option Params :=
  IpaVerif.Generated.primeFields.find? (·.name == n)

def optNat : Option Nat → String
  | some v => s!"ok {v}"
  | none => "err"

def pf (P : Params) (op : String) (args : List String) : Option String :=
  match op, args with
  | "add", [a, b] | "addassign", [a, b] => do pure (toString (add P (← a.toNat?) (← b.toNat?)))
  | "sub", [a, b] | "subassign", [a, b] => do pure (toString (sub P (← a.toNat?) (← b.toNat?)))
  | "mul", [a, b] | "mulassign", [a, b] => do pure (toString (mul P (← a.toNat?) (← b.toNat?)))
  | "neg", [a] => do pure (toString (neg P (← a.toNat?)))
  | "inv", [a] => do
      match invert P (← a.toNat?) with
      | some r => pure (toString r)
      | none => pure "panic"
  | "trunc", [v] => do pure (toString (truncateFrom P (← v.toNat?)))
  | "tryfrom", [v] => do pure (optNat (tryFrom P (← v.toNat?)))
  | "ser", [a] => do pure (bytesHex (serialize P (← a.toNat?)))
  | "deser", [h] => do pure (optNat (deserialize P (← parseHexBytes h)))
  | "batchinv", [l] => do
      match batchInvert P (← parseNatList l) with
      | some r => pure (showNatList r)
      | none => pure "panic"
  | "dot", [a, b] => do
      let a ← parseNatList a
      let b ← parseNatList b
      match accDot P (if P.mersenne then IpaVerif.Generated.accInterval else 1) (a.zip b) with
      | some r => pure (toString r)
      | none => pure "panic"
  | "sum", [l] => do pure (toString ((← parseNatList l).foldl (add P) 0))
  | _, _ => none

/-! ### binary fields `c08.gf <Type> <op> <args…>`

Elements are canonical integers `< 2^BITS` in decimal. Arithmetic responses are
`<as_u128> <hex of serialize>` so that the representation (padding included) is compared too. -/
def gfByName (n : String) : Option Gf2k.Params :=
  IpaVerif.Generated.binaryFields.find? (·.name == n)

def gfElem (G : Gf2k.Params) (v : Nat) : String := s!"{v} {bytesHex (Gf2k.serialize G v)}"

def gf (G : Gf2k.Params) (op : String) (args : List String) : Option String :=
  match op, args with
  | "add", [a, b] | "addassign", [a, b] => do pure (gfElem G (Gf2k.add G (← a.toNat?) (← b.toNat?)))
  | "sub", [a, b] | "subassign", [a, b] => do pure (gfElem G (Gf2k.sub G (← a.toNat?) (← b.toNat?)))
  | "neg", [a] => do pure (gfElem G (Gf2k.neg G (← a.toNat?)))
  | "mul", [a, b] | "mulassign", [a, b] => do
      match Gf2k.mul G (← a.toNat?) (← b.toNat?) with
      | some r => pure (gfElem G r)
      | none => pure "panic"
  | "trunc", [v] => do pure (gfElem G (Gf2k.truncateFrom G (← v.toNat?)))
  | "tryfrom", [v] => do pure (optNat (Gf2k.tryFrom G (← v.toNat?)))
  | "deser", [h] => do pure (optNat (Gf2k.deserialize G (← parseHexBytes h)))
  | "fromslice", [h] => do pure (optNat (Gf2k.fromSlice G (← parseHexBytes h)))
  | "cmp", [a, b] => do pure (toString (Gf2k.cmp (← a.toNat?) (← b.toNat?)))
  | _, _ => none

/-- `some response` if the request belongs to this property, else `none`. -/
def handle (toks : List String) : Option String :=
  match toks with
  | "c08.gf" :: f :: op :: args =>
      match gfByName f with
      | some G => some ((gf G op args).getD "bad-request")
      | none => some "bad-request"
  | "c08.pf" :: f :: op :: args =>
      match fieldByName f with
      | some P => some ((pf P op args).getD "bad-request")
      | none => some "bad-request"
  | _ => none

/-- Spec-side oracle (independent of the model of the code): plain arithmetic modulo `p`. -/
def pfOracle (P : Params) (op : String) (args : List String) (impl : String) : Option Bool :=
  let p := P.p
  match op, args with
  | "add", [a, b] | "addassign", [a, b] => do pure ((← impl.toNat?) == ((← a.toNat?) + (← b.toNat?)) % p)
  | "sub", [a, b] | "subassign", [a, b] => do
      let r ← impl.toNat?
      pure (r < p && (r + (← b.toNat?)) % p == (← a.toNat?) % p)
  | "mul", [a, b] | "mulassign", [a, b] => do pure ((← impl.toNat?) == ((← a.toNat?) * (← b.toNat?)) % p)
  | "neg", [a] => do
      let r ← impl.toNat?
      pure (r < p && (r + (← a.toNat?)) % p == 0)
  | "inv", [a] => do
      let a ← a.toNat?
      if a % p == 0 then pure (impl.startsWith "panic") else
      let r ← impl.toNat?
      pure (r < p && (r * a) % p == 1)
  | "trunc", [v] => do pure ((← impl.toNat?) == (← v.toNat?) % p)
  | "dot", [a, b] => do
      let a ← parseNatList a
      let b ← parseNatList b
      let s := (a.zip b).foldl (fun acc (x, y) => acc + x * y) 0
      pure ((← impl.toNat?) == s % p)
  | "sum", [l] => do pure ((← impl.toNat?) == ((← parseNatList l).foldl (· + ·) 0) % p)
  | "batchinv", [l] => do
      let xs ← parseNatList l
      if xs.any (· % p == 0) then pure (impl.startsWith "panic") else
      let rs ← parseNatList impl
      pure (rs.length == xs.length && (xs.zip rs).all (fun (x, r) => r < p && (x * r) % p == 1))
  | "deser", [h] => do
      let bs ← parseHexBytes h
      let v := ofLeBytes bs
      if bs.length == P.storeBits / 8 && v < p then pure (impl == s!"ok {v}") else pure (impl == "err")
  | "ser", [a] => do pure (impl == bytesHex (leBytes (← a.toNat?) (P.storeBits / 8)))
  | _, _ => none

/-! Spec side for the binary fields, written independently of the model of the code: schoolbook
polynomial multiplication over GF(2) with `Nat.testBit`, then long division by `POLYNOMIAL` from the
leading coefficient (degree via `Nat.log2`). -/
def polyMul (a b : Nat) : Nat :=
  (List.range (b.log2 + 1)).foldl (fun acc i => if b.testBit i then acc ^^^ (a * 2 ^ i) else acc) 0

def polyMod (x m : Nat) : Nat → Nat
  | 0 => x
  | fuel + 1 => if m = 0 ∨ x = 0 ∨ x.log2 < m.log2 then x else polyMod (x ^^^ (m * 2 ^ (x.log2 - m.log2))) m fuel

def polyMulMod (a b m : Nat) : Nat := polyMod (polyMul a b) m 400

def parseGfElem (G : Gf2k.Params) (impl : String) : Option Nat :=
  match impl.splitOn " " with
  | [v, h] => do
      let v ← v.toNat?
      -- canonical: value below 2^BITS, store = little-endian bytes of the value (zero padding)
      if v < 2 ^ G.bits && h == bytesHex (leBytes v G.storeBytes) then pure v else none
  | _ => none

def gfOracle (G : Gf2k.Params) (op : String) (args : List String) (impl : String) : Option String :=
  let ok (b : Bool) (why : String) : Option String := some (if b then "holds" else "fails " ++ why)
  match op, args with
  | "add", [a, b] | "addassign", [a, b] | "sub", [a, b] | "subassign", [a, b] => do
      let a ← a.toNat?
      let b ← b.toNat?
      match parseGfElem G impl with
      | none => ok false "result is not a canonical element (value out of range or non-zero padding)"
      | some r => ok (r == (a ^^^ b)) "sum/difference differs from the coefficient-wise sum over GF(2)"
  | "neg", [a] => do
      let a ← a.toNat?
      match parseGfElem G impl with
      | none => ok false "result is not a canonical element (value out of range or non-zero padding)"
      | some r => ok ((r ^^^ a) == 0) "a + (-a) is not zero"
  | "mul", [a, b] | "mulassign", [a, b] => do
      let a ← a.toNat?
      let b ← b.toNat?
      match parseGfElem G impl with
      | none => ok false "product is not a canonical element (panic, value out of range or non-zero padding)"
      | some r =>
        if r != polyMulMod a b G.poly then ok false "product differs from polynomial multiplication modulo POLYNOMIAL"
        else if r == 0 && a != 0 && b != 0 then ok false "zero divisor: the product of two non-zero elements is zero, so POLYNOMIAL is reducible and the type is not a field"
        else ok true ""
  | "trunc", [v] => do
      let v ← v.toNat?
      match parseGfElem G impl with
      | none => ok false "result is not a canonical element"
      | some r => ok (r == v % 2 ^ G.bits) "truncate_from differs from v mod 2^BITS"
  | "tryfrom", [v] => do
      let v ← v.toNat?
      ok (impl == (if v < 2 ^ G.bits then s!"ok {v}" else "err")) "try_from must accept exactly the values below 2^BITS"
  | "deser", [h] => do
      let bs ← parseHexBytes h
      let v := ofLeBytes bs
      ok (impl == (if bs.length == G.storeBytes && v < 2 ^ G.bits then s!"ok {v}" else "err")) "deserialize must accept exactly the canonical encodings"
  | "cmp", [a, b] => do
      let a ← a.toNat?
      let b ← b.toNat?
      ok (impl == (if a < b then "0" else if a == b then "1" else "2")) "ordering differs from the integer ordering"
  | _, _ => none

/-- Property oracle on (request, implementation response). -/
def oracle (toks : List String) (impl : String) : Option String :=
  match toks with
  | "c08.gf" :: f :: op :: args =>
      match gfByName f with
      | some G => some ((gfOracle G op args impl).getD "unknown")
      | none => some "unknown"
  | "c08.pf" :: f :: op :: args =>
      match fieldByName f with
      | some P =>
        match pfOracle P op args impl with
        | some true => some "holds"
        | some false => some "fails result differs from arithmetic modulo PRIME (or is not the canonical representative)"
        | none => some "unknown"
      | none => some "unknown"
  | _ => none

end IpaVerif.Driver.C08
