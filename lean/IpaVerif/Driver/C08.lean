import IpaVerif.Model.Util
import IpaVerif.Model.PrimeField
import IpaVerif.Generated.PrimeFields
import IpaVerif.Model.Gf2k
import IpaVerif.Generated.BinaryFields
import IpaVerif.Model.BoolArray
import IpaVerif.Generated.BoolArrays
import IpaVerif.Generated.DzkpConstants
/-! Line-protocol handlers for property C08 (model side). Import-free. -/
namespace IpaVerif.Driver.C08
open IpaVerif.Util IpaVerif.PrimeField

def fieldByName (n : String) : Option Params :=
  IpaVerif.Generated.primeFields.find? (·.name == n)

def optNat : Option Nat → String
  | some v => s!"ok {v}"
  | none => "err"

def pf (P : Params) (op : String) (args : List String) : Option String :=
  match op, args with
  | "add", [a, b] | "addassign", [a, b] => do pure (toString (add P (← a.toNat?) (← b.toNat?)))
  | "sub", [a, b] | "subassign", [a, b] => do pure (toString (sub P (← a.toNat?) (← b.toNat?)))
  | "mul", [a, b] | "mulassign", [a, b] => do pure (toString (mul P (← a.toNat?) (← b.toNat?)))
  | "neg", [a] => do pure (toString (neg P (← a.toNat?)))
  | "inv", [a] => do
      match invert P (← a.toNat?) with
      | some r => pure (toString r)
      | none => pure "panic"
  | "trunc", [v] => do pure (toString (truncateFrom P (← v.toNat?)))
  | "tryfrom", [v] => do pure (optNat (tryFrom P (← v.toNat?)))
  | "ser", [a] => do pure (bytesHex (serialize P (← a.toNat?)))
  | "deser", [h] => do pure (optNat (deserialize P (← parseHexBytes h)))
  | "batchinv", [l] => do
      match batchInvert P (← parseNatList l) with
      | some r => pure (showNatList r)
      | none => pure "panic"
  | "dot", [a, b] => do
      let a ← parseNatList a
      let b ← parseNatList b
      match accDot P (if P.mersenne then IpaVerif.Generated.accInterval else 1) (a.zip b) with
      | some r => pure (toString r)
      | none => pure "panic"
  | "dotarr", [a, b] => do
      let a ← parseNatList a
      let b ← parseNatList b
      let iv := if P.mersenne then IpaVerif.Generated.accInterval else 1
      match accDot P iv (a.zip b), accDot P iv (b.zip b) with
      | some r0, some r1 => pure s!"{r0},{r1}"
      | _, _ => pure "panic"
  | "sum", [l] => do pure (toString ((← parseNatList l).foldl (add P) 0))
  | _, _ => none

/-! ### binary fields `c08.gf <Type> <op> <args…>`

Elements are canonical integers `< 2^BITS` in decimal. Arithmetic responses are
`<as_u128> <hex of serialize>` so that the representation (padding included) is compared too. -/
def gfByName (n : String) : Option Gf2k.Params :=
  IpaVerif.Generated.binaryFields.find? (·.name == n)

def gfElem (G : Gf2k.Params) (v : Nat) : String := s!"{v} {bytesHex (Gf2k.serialize G v)}"

def gf (G : Gf2k.Params) (op : String) (args : List String) : Option String :=
  match op, args with
  | "add", [a, b] | "addassign", [a, b] => do pure (gfElem G (Gf2k.add G (← a.toNat?) (← b.toNat?)))
  | "sub", [a, b] | "subassign", [a, b] => do pure (gfElem G (Gf2k.sub G (← a.toNat?) (← b.toNat?)))
  | "neg", [a] => do pure (gfElem G (Gf2k.neg G (← a.toNat?)))
  | "mul", [a, b] | "mulassign", [a, b] => do
      match Gf2k.mul G (← a.toNat?) (← b.toNat?) with
      | some r => pure (gfElem G r)
      | none => pure "panic"
  | "trunc", [v] => do pure (gfElem G (Gf2k.truncateFrom G (← v.toNat?)))
  | "tryfrom", [v] => do pure (optNat (Gf2k.tryFrom G (← v.toNat?)))
  | "deser", [h] => do pure (optNat (Gf2k.deserialize G (← parseHexBytes h)))
  | "fromslice", [h] => do pure (optNat (Gf2k.fromSlice G (← parseHexBytes h)))
  | "cmp", [a, b] => do pure (toString (Gf2k.cmp (← a.toNat?) (← b.toNat?)))
  | _, _ => none

/-! ### Boolean arrays `c08.ba <Type> <op> <args…>` and `c08.bool <op> <args…>`

Array elements are the hex of the raw store (`serialize`), padding bits included. -/
def baByName (n : String) : Option BoolArray.Params :=
  IpaVerif.Generated.boolArrays.find? (·.name == n)

def baElem (B : BoolArray.Params) (h : String) : Option Nat := do
  let bs ← parseHexBytes h
  if bs.length == B.storeBytes then pure (ofLeBytes bs) else none

def baShow (B : BoolArray.Params) (v : Nat) : String := bytesHex (BoolArray.serialize B v)

def parseBit (s : String) : Option Bool :=
  if s == "1" then some true else if s == "0" then some false else none

def parseBits (s : String) : Option (List Bool) :=
  if s == "-" then some [] else s.toList.mapM (fun c => if c == '1' then some true else if c == '0' then some false else none)

def showBits (bs : List Bool) : String := if bs.isEmpty then "-" else String.ofList (bs.map (fun b => if b then '1' else '0'))

def optBa (B : BoolArray.Params) : Option Nat → String
  | some v => s!"ok {baShow B v}"
  | none => "err"

def ba (B : BoolArray.Params) (op : String) (args : List String) : Option String :=
  match op, args with
  | "add", [a, b] | "addassign", [a, b] => do pure (baShow B (BoolArray.add B (← baElem B a) (← baElem B b)))
  | "sub", [a, b] | "subassign", [a, b] => do pure (baShow B (BoolArray.sub B (← baElem B a) (← baElem B b)))
  | "mul", [a, b] | "mulassign", [a, b] => do pure (baShow B (BoolArray.mul B (← baElem B a) (← baElem B b)))
  | "neg", [a] => do pure (baShow B (BoolArray.neg B (← baElem B a)))
  | "not", [a] => do pure (baShow B (BoolArray.not B (← baElem B a)))
  | "mulbool", [a, c] => do pure (baShow B (BoolArray.mulBool B (← baElem B a) (← parseBit c)))
  | "eq", [a, b] => do pure (boolStr ((← baElem B a) == (← baElem B b)))
  | "deser", [h] => do pure (optBa B (BoolArray.deserialize B (← parseHexBytes h)))
  | "get", [a, i] => do
      match BoolArray.get B (← baElem B a) (← i.toNat?) with
      | some b => pure s!"some {boolStr b}"
      | none => pure "none"
  | "set", [a, i, b] => do pure (baShow B (BoolArray.set B (← baElem B a) (← i.toNat?) (← parseBit b)))
  | "expand", [b] => do pure (baShow B (BoolArray.expand B (← parseBit b)))
  | "fromiter", [bs] => do
      match BoolArray.fromIter B (← parseBits bs) with
      | some v => pure (baShow B v)
      | none => pure "panic:Expected iterator to produce"
  | "tryfromvec", [bs] => do pure (optBa B (BoolArray.tryFromVec B (← parseBits bs)))
  | "iter", [a] => do pure (showBits (BoolArray.toBits B (← baElem B a)))
  | "togf32", [a] => do pure (showNatList (BoolArray.toGf32 B (← baElem B a)))
  | "trunc", [v] => do if B.small then pure (baShow B (BoolArray.truncateFrom B (← v.toNat?))) else none
  | "tryfrom", [v] => do if B.small then pure (optBa B (BoolArray.tryFrom B (← v.toNat?))) else none
  | "asu128", [a] => do if B.small then pure (toString (BoolArray.asU128 B (← baElem B a))) else none
  | "fromrandom", [ws] => do if B.small then none else pure (baShow B (BoolArray.fromRandom B (← parseNatList ws)))
  | _, _ => none

def optBool : Option Bool → String
  | some b => s!"ok {boolStr b}"
  | none => "err"

def boolean (op : String) (args : List String) : Option String :=
  match op, args with
  | "add", [a, b] | "addassign", [a, b] => do pure (boolStr (BoolArray.Boolean.add (← parseBit a) (← parseBit b)))
  | "sub", [a, b] | "subassign", [a, b] => do pure (boolStr (BoolArray.Boolean.sub (← parseBit a) (← parseBit b)))
  | "mul", [a, b] | "mulassign", [a, b] => do pure (boolStr (BoolArray.Boolean.mul (← parseBit a) (← parseBit b)))
  | "neg", [a] => do pure (boolStr (BoolArray.Boolean.neg (← parseBit a)))
  | "not", [a] => do pure (boolStr (BoolArray.Boolean.not (← parseBit a)))
  | "trunc", [v] => do pure (boolStr (BoolArray.Boolean.truncateFrom (← v.toNat?)))
  | "tryfrom", [v] => do pure (optBool (BoolArray.Boolean.tryFrom (← v.toNat?)))
  | "asu128", [a] => do pure (toString (BoolArray.Boolean.asU128 (← parseBit a)))
  | "ser", [a] => do pure (bytesHex (BoolArray.Boolean.serialize (← parseBit a)))
  | "deser", [h] => do pure (optBool (BoolArray.Boolean.deserialize (← parseHexBytes h)))
  | _, _ => none

/-! ### replicated shares `c08.share3 <Field> <op> s0 s1 s2 [t0 t1 t2 | c]` and DZKP constants `c08.const <NAME>`

A 3-party replicated sharing is `s0 s1 s2`; helper `i` holds `(s_i, s_{i+1})`. The response lists the
three helpers' result pairs `l0 r0 l1 r1 l2 r2` after the *local* operation. -/
def share3 (P : Params) (op : String) (args : List String) : Option String := do
  let ns ← args.mapM String.toNat?
  let out (f : Nat → Nat) : String :=
    String.intercalate " " ([0, 1, 2].map (fun i => s!"{f i} {f ((i + 1) % 3)}"))
  match op, ns with
  | "add", [s0, s1, s2, t0, t1, t2] =>
      let s := [s0, s1, s2]; let t := [t0, t1, t2]
      pure (out (fun i => add P (s.getD i 0) (t.getD i 0)))
  | "sub", [s0, s1, s2, t0, t1, t2] =>
      let s := [s0, s1, s2]; let t := [t0, t1, t2]
      pure (out (fun i => sub P (s.getD i 0) (t.getD i 0)))
  | "neg", [s0, s1, s2] =>
      let s := [s0, s1, s2]
      pure (out (fun i => neg P (s.getD i 0)))
  | "mulconst", [s0, s1, s2, c] =>
      let s := [s0, s1, s2]
      pure (out (fun i => mul P (s.getD i 0) c))
  | _, _ => none

def dzkpConst (n : String) : Option Nat :=
  match n with
  | "INVERSE_OF_TWO" => some IpaVerif.Generated.dzkpInverseOfTwo
  | "MINUS_ONE_HALF" => some IpaVerif.Generated.dzkpMinusOneHalf
  | "MINUS_TWO" => some IpaVerif.Generated.dzkpMinusTwo
  | _ => none

/-- `some response` if the request belongs to this property, else `none`. -/
def handle (toks : List String) : Option String :=
  match toks with
  | "c08.share3" :: f :: op :: args =>
      match fieldByName f with
      | some P => some ((share3 P op args).getD "bad-request")
      | none => some "bad-request"
  | ["c08.const", n] => some (((dzkpConst n).map toString).getD "bad-request")
  | "c08.ba" :: f :: op :: args =>
      match baByName f with
      | some B => some ((ba B op args).getD "bad-request")
      | none => some "bad-request"
  | "c08.bool" :: op :: args => some ((boolean op args).getD "bad-request")
  | "c08.gf" :: f :: op :: args =>
      match gfByName f with
      | some G => some ((gf G op args).getD "bad-request")
      | none => some "bad-request"
  | "c08.pf" :: f :: op :: args =>
      match fieldByName f with
      | some P => some ((pf P op args).getD "bad-request")
      | none => some "bad-request"
  | _ => none

/-- Spec-side oracle (independent of the model of the code): plain arithmetic modulo `p`. -/
def pfOracle (P : Params) (op : String) (args : List String) (impl : String) : Option Bool :=
  let p := P.p
  match op, args with
  | "add", [a, b] | "addassign", [a, b] => do pure ((← impl.toNat?) == ((← a.toNat?) + (← b.toNat?)) % p)
  | "sub", [a, b] | "subassign", [a, b] => do
      let r ← impl.toNat?
      pure (r < p && (r + (← b.toNat?)) % p == (← a.toNat?) % p)
  | "mul", [a, b] | "mulassign", [a, b] => do pure ((← impl.toNat?) == ((← a.toNat?) * (← b.toNat?)) % p)
  | "neg", [a] => do
      let r ← impl.toNat?
      pure (r < p && (r + (← a.toNat?)) % p == 0)
  | "inv", [a] => do
      let a ← a.toNat?
      if a % p == 0 then pure (impl.startsWith "panic") else
      let r ← impl.toNat?
      pure (r < p && (r * a) % p == 1)
  | "trunc", [v] => do pure ((← impl.toNat?) == (← v.toNat?) % p)
  | "dot", [a, b] => do
      let a ← parseNatList a
      let b ← parseNatList b
      let s := (a.zip b).foldl (fun acc (x, y) => acc + x * y) 0
      pure ((← impl.toNat?) == s % p)
  | "dotarr", [a, b] => do
      let a ← parseNatList a
      let b ← parseNatList b
      let s0 := (a.zip b).foldl (fun acc (x, y) => acc + x * y) 0
      let s1 := (b.zip b).foldl (fun acc (x, y) => acc + x * y) 0
      pure (impl == s!"{s0 % p},{s1 % p}")
  | "sum", [l] => do pure ((← impl.toNat?) == ((← parseNatList l).foldl (· + ·) 0) % p)
  | "batchinv", [l] => do
      let xs ← parseNatList l
      if xs.any (· % p == 0) then pure (impl.startsWith "panic") else
      let rs ← parseNatList impl
      pure (rs.length == xs.length && (xs.zip rs).all (fun (x, r) => r < p && (x * r) % p == 1))
  | "deser", [h] => do
      let bs ← parseHexBytes h
      let v := ofLeBytes bs
      if bs.length == P.storeBits / 8 && v < p then pure (impl == s!"ok {v}") else pure (impl == "err")
  | "ser", [a] => do pure (impl == bytesHex (leBytes (← a.toNat?) (P.storeBits / 8)))
  | _, _ => none

/-! Spec side for the binary fields, written independently of the model of the code: schoolbook
polynomial multiplication over GF(2) with `Nat.testBit`, then long division by `POLYNOMIAL` from the
leading coefficient (degree via `Nat.log2`). -/
def polyMul (a b : Nat) : Nat :=
  (List.range (b.log2 + 1)).foldl (fun acc i => if b.testBit i then acc ^^^ (a * 2 ^ i) else acc) 0

def polyMod (x m : Nat) : Nat → Nat
  | 0 => x
  | fuel + 1 => if m = 0 ∨ x = 0 ∨ x.log2 < m.log2 then x else polyMod (x ^^^ (m * 2 ^ (x.log2 - m.log2))) m fuel

def polyMulMod (a b m : Nat) : Nat := polyMod (polyMul a b) m 400

def parseGfElem (G : Gf2k.Params) (impl : String) : Option Nat :=
  match impl.splitOn " " with
  | [v, h] => do
      let v ← v.toNat?
      -- canonical: value below 2^BITS, store = little-endian bytes of the value (zero padding)
      if v < 2 ^ G.bits && h == bytesHex (leBytes v G.storeBytes) then pure v else none
  | _ => none

def gfOracle (G : Gf2k.Params) (op : String) (args : List String) (impl : String) : Option String :=
  let ok (b : Bool) (why : String) : Option String := some (if b then "holds" else "fails " ++ why)
  match op, args with
  | "add", [a, b] | "addassign", [a, b] | "sub", [a, b] | "subassign", [a, b] => do
      let a ← a.toNat?
      let b ← b.toNat?
      match parseGfElem G impl with
      | none => ok false "result is not a canonical element (value out of range or non-zero padding)"
      | some r => ok (r == (a ^^^ b)) "sum/difference differs from the coefficient-wise sum over GF(2)"
  | "neg", [a] => do
      let a ← a.toNat?
      match parseGfElem G impl with
      | none => ok false "result is not a canonical element (value out of range or non-zero padding)"
      | some r => ok ((r ^^^ a) == 0) "a + (-a) is not zero"
  | "mul", [a, b] | "mulassign", [a, b] => do
      let a ← a.toNat?
      let b ← b.toNat?
      match parseGfElem G impl with
      | none => ok false "product is not a canonical element (panic, value out of range or non-zero padding)"
      | some r =>
        if r != polyMulMod a b G.poly then ok false "product differs from polynomial multiplication modulo POLYNOMIAL"
        else if r == 0 && a != 0 && b != 0 then ok false "zero divisor: the product of two non-zero elements is zero, so POLYNOMIAL is reducible and the type is not a field"
        else ok true ""
  | "trunc", [v] => do
      let v ← v.toNat?
      match parseGfElem G impl with
      | none => ok false "result is not a canonical element"
      | some r => ok (r == v % 2 ^ G.bits) "truncate_from differs from v mod 2^BITS"
  | "tryfrom", [v] => do
      let v ← v.toNat?
      ok (impl == (if v < 2 ^ G.bits then s!"ok {v}" else "err")) "try_from must accept exactly the values below 2^BITS"
  | "deser", [h] => do
      let bs ← parseHexBytes h
      let v := ofLeBytes bs
      ok (impl == (if bs.length == G.storeBytes && v < 2 ^ G.bits then s!"ok {v}" else "err")) "deserialize must accept exactly the canonical encodings"
  | "cmp", [a, b] => do
      let a ← a.toNat?
      let b ← b.toNat?
      ok (impl == (if a < b then "0" else if a == b then "1" else "2")) "ordering differs from the integer ordering"
  | "fromslice", [h] => do
      let bs ← parseHexBytes h
      let v := ofLeBytes bs
      if impl == "err" then ok (bs.length * 8 > G.bits || v ≥ 2 ^ G.bits || bs.length > G.bits / 8) "a slice that fits the element was rejected"
      else ok (impl == s!"ok {v}" && v < 2 ^ G.bits) "TryFrom<&[u8]> produced a non-canonical element (bits beyond BITS set) or a wrong value"
  | _, _ => none

/-! Spec side for Boolean arrays: an array is the vector of its `BITS` bits (a number below `2^BITS`);
a response is acceptable only if its store is that number with **zero padding**. -/
def baCanon (B : BoolArray.Params) (h : String) : Option Nat := do
  let bs ← parseHexBytes h
  let v := ofLeBytes bs
  if bs.length == B.storeBytes && v < 2 ^ B.bits then pure v else none

def baOracle (B : BoolArray.Params) (op : String) (args : List String) (impl : String) : Option String :=
  let ok (b : Bool) (why : String) : Option String := some (if b then "holds" else "fails " ++ why)
  let elemIs (want : Nat) (why : String) : Option String :=
    match baCanon B impl with
    | none => ok false "result is not canonical: padding bits of the store are set (it compares unequal to the same value built otherwise, leaks through as_u128 and is rejected by deserialize)"
    | some r => ok (r == want) why
  let n := 2 ^ B.bits
  match op, args with
  | "add", [a, b] | "addassign", [a, b] | "sub", [a, b] | "subassign", [a, b] => do
      elemIs ((← baCanon B a) ^^^ (← baCanon B b)) "sum differs from the bitwise sum over GF(2)"
  | "mul", [a, b] | "mulassign", [a, b] => do
      elemIs ((← baCanon B a) &&& (← baCanon B b)) "product differs from the bitwise product"
  | "neg", [a] => do elemIs (← baCanon B a) "negation must be the identity in characteristic 2"
  | "not", [a] => do elemIs (n - 1 - (← baCanon B a)) "complement differs from flipping exactly the BITS bits"
  | "mulbool", [a, c] => do
      let c ← parseBit c
      let a ← baCanon B a
      elemIs (if c then a else 0) "scalar multiple differs"
  | "eq", [a, b] => do ok (impl == boolStr ((← baCanon B a) == (← baCanon B b))) "equality differs from equality of values"
  | "deser", [h] => do
      let bs ← parseHexBytes h
      let v := ofLeBytes bs
      ok (impl == (if bs.length == B.storeBytes && v < n then s!"ok {h}" else "err")) "deserialize must accept exactly the canonical encodings"
  | "set", [a, i, b] => do
      let a ← baCanon B a
      let i ← i.toNat?
      let b ← parseBit b
      elemIs (a - (a / 2 ^ i % 2) * 2 ^ i + (if b then 2 ^ i else 0)) "set changed something other than bit i"
  | "expand", [b] => do
      let b ← parseBit b
      elemIs (if b then n - 1 else 0) "expand differs"
  | "trunc", [v] => do elemIs ((← v.toNat?) % n) "truncate_from differs from v mod 2^BITS"
  | "tryfrom", [v] => do
      let v ← v.toNat?
      ok (impl == (if v < n then s!"ok {bytesHex (leBytes v B.storeBytes)}" else "err")) "try_from must accept exactly the values below 2^BITS"
  | "asu128", [a] => do ok (impl == toString (← baCanon B a)) "as_u128 differs from the value of the BITS bits"
  | "fromrandom", [_] => do
      match parseHexBytes impl with
      | some bs => ok (bs.length == B.storeBytes && ofLeBytes bs < n) "from_random produced a non-canonical element"
      | none => none
  | _, _ => none

def boolOracle (op : String) (args : List String) (impl : String) : Option String :=
  let ok (b : Bool) (why : String) : Option String := some (if b then "holds" else "fails " ++ why)
  let v (s : String) : Option Nat := (parseBit s).map (fun b => if b then 1 else 0)
  match op, args with
  | "add", [a, b] | "addassign", [a, b] | "sub", [a, b] | "subassign", [a, b] => do
      ok (impl == toString (((← v a) + (← v b)) % 2)) "differs from arithmetic modulo 2"
  | "mul", [a, b] | "mulassign", [a, b] => do ok (impl == toString (((← v a) * (← v b)) % 2)) "differs from arithmetic modulo 2"
  | "neg", [a] => do ok (impl == toString ((2 - (← v a)) % 2)) "differs from arithmetic modulo 2"
  | "not", [a] => do ok (impl == toString (1 - (← v a))) "differs from the complement"
  | "trunc", [x] => do ok (impl == toString ((← x.toNat?) % 2)) "truncate_from differs from v mod 2"
  | "tryfrom", [x] => do
      let x ← x.toNat?
      ok (impl == (if x < 2 then s!"ok {x}" else "err")) "try_from must accept exactly 0 and 1"
  | "deser", [h] => do
      let bs ← parseHexBytes h
      ok (impl == (match bs with | [b] => if b < 2 then s!"ok {b}" else "err" | _ => "err")) "deserialize must accept exactly the bytes 00 and 01"
  | _, _ => none

/-- spec side for shares: the results are a consistent sharing of `op` applied to the secrets. -/
def share3Oracle (P : Params) (op : String) (args : List String) (impl : String) : Option String := do
  let p := P.p
  let ns ← args.mapM String.toNat?
  let rs ← (impl.splitOn " ").mapM String.toNat?
  match rs with
  | [l0, r0, l1, r1, l2, r2] =>
      if !(r0 == l1 && r1 == l2 && r2 == l0) then pure "fails the three helpers' results are not a consistent replicated sharing" else
      if !(l0 < p && l1 < p && l2 < p) then pure "fails a share is not a canonical field element" else
      let got := (l0 + l1 + l2) % p
      let want ← match op, ns with
        | "add", [s0, s1, s2, t0, t1, t2] => some ((s0 + s1 + s2 + (t0 + t1 + t2)) % p)
        | "sub", [s0, s1, s2, t0, t1, t2] => some ((s0 + s1 + s2 + 3 * p - (t0 + t1 + t2)) % p)
        | "neg", [s0, s1, s2] => some ((3 * p - (s0 + s1 + s2)) % p)
        | "mulconst", [s0, s1, s2, c] => some (((s0 + s1 + s2) * c) % p)
        | _, _ => none
      pure (if got == want then "holds" else "fails the local operation on shares does not commute with reconstruction")
  | _ => pure "fails malformed result"

def constOracle (n : String) (impl : String) : Option String := do
  let p := IpaVerif.Generated.fp61.p
  let v ← impl.toNat?
  if v ≥ p then pure "fails constant is not canonical" else
  match n with
  | "INVERSE_OF_TWO" => pure (if (2 * v) % p == 1 then "holds" else "fails 2 * INVERSE_OF_TWO != 1")
  | "MINUS_ONE_HALF" => pure (if (2 * v + 1) % p == 0 then "holds" else "fails 2 * MINUS_ONE_HALF + 1 != 0")
  | "MINUS_TWO" => pure (if (v + 2) % p == 0 then "holds" else "fails MINUS_TWO + 2 != 0")
  | _ => none

/-- Property oracle on (request, implementation response). -/
def oracle (toks : List String) (impl : String) : Option String :=
  match toks with
  | "c08.share3" :: f :: op :: args =>
      match fieldByName f with
      | some P => some ((share3Oracle P op args impl).getD "unknown")
      | none => some "unknown"
  | ["c08.const", n] => some ((constOracle n impl).getD "unknown")
  | "c08.ba" :: f :: op :: args =>
      match baByName f with
      | some B => some ((baOracle B op args impl).getD "unknown")
      | none => some "unknown"
  | "c08.bool" :: op :: args => some ((boolOracle op args impl).getD "unknown")
  | "c08.gf" :: f :: op :: args =>
      match gfByName f with
      | some G => some ((gfOracle G op args impl).getD "unknown")
      | none => some "unknown"
  | "c08.pf" :: f :: op :: args =>
      match fieldByName f with
      | some P =>
        let mayPanic := match op, args with
          | "inv", [a] => a.toNat? == some 0
          | "batchinv", [l] => ((parseNatList l).getD []).any (· % P.p == 0) || l == "-"
          | _, _ => false
        if impl.startsWith "panic" && !mayPanic then
          some "fails the operation panicked on canonical operands (overflow of the operation store / failed unwrap)"
        else
        match pfOracle P op args impl with
        | some true => some "holds"
        | some false => some "fails result differs from arithmetic modulo PRIME (or is not the canonical representative)"
        | none => some "unknown"
      | none => some "unknown"
  | _ => none

end IpaVerif.Driver.C08
