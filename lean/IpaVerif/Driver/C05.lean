import IpaVerif.Model.Util
import IpaVerif.Model.Shuffle
/-! Line-protocol handlers for property C05 (model side). Import-free.

Request grammar: see `harness/hooks/shuffle.rs`. The real PRSS masks, destinations and permutations are
not observable, so `c05.e2e` runs the *model protocol* with pseudo-random round parameters of its own
(derived from the request's seed) and compares what the theorem says is invariant: the multiset of
reconstructed rows and the consistency of the sharing. -/
namespace IpaVerif.Driver.C05
open IpaVerif.Util IpaVerif.Shuffle IpaVerif.Generated

/-- a small deterministic generator (values only need to vary, not to be good) -/
def mix (seed a b c : Nat) : Nat :=
  let x := (seed + 0x9E3779B97F4A7C15 * (a + 1) + 0xBF58476D1CE4E5B9 * (b + 1) + 0x94D049BB133111EB * (c + 1)) % 18446744073709551616
  let y := (x ^^^ (x >>> 29)) * 0xD6E8FEB86659FD93 % 18446744073709551616
  y ^^^ (y >>> 32)

def rotate {α : Type} (l : List α) (k : Nat) : List α :=
  if l.isEmpty then l else l.drop (k % l.length) ++ l.take (k % l.length)

def mkRound (seed tag S bits : Nat) : Round where
  mask j i := (mix seed tag j i * 18446744073709551629 + mix seed (tag + 7) j i) % 2 ^ bits
  dest j i := mix seed (tag + 1) j i % S
  shuf d l := if mix seed (tag + 2) d 0 % 2 == 0 then rotate l (mix seed (tag + 3) d 1) else (rotate l (mix seed (tag + 3) d 1)).reverse

/-- input distribution over shards (only the *shape* matters for the model) -/
def distribute (dist : String) (S seed : Nat) (rows : List Nat) : List (List Nat) :=
  let idx := List.range rows.length
  let shardOf (i : Nat) : Nat :=
    match dist with
    | "rr" => i % S
    | "last" => S - 1
    | "first" => 0
    | _ => mix seed 99 i 0 % S
  (List.range S).map (fun s => (idx.zip rows).filterMap (fun (i, r) => if shardOf i == s then some r else none))

def sortNat (l : List Nat) : List Nat := l.mergeSort (fun a b => a ≤ b)

def consistentOut (o : HelperOut × HelperOut × HelperOut) : Bool :=
  o.1.right == o.2.1.left && o.2.1.right == o.2.2.left && o.2.2.right == o.1.left

def e2e (bits S : Nat) (dist : String) (seed : Nat) (rows : List Nat) : String :=
  let x := distribute dist S seed rows
  let s1 : Table := x.mapIdx (fun j l => l.mapIdx (fun i _ => mix seed 11 j i % 2 ^ bits))
  let s2 : Table := x.mapIdx (fun j l => l.mapIdx (fun i _ => mix seed 12 j i % 2 ^ bits))
  let s3 : Table := txor (txor x s1) s2
  -- H1 holds (s1, s2), H2 holds (s2, s3)
  let ρ : Rand := { r12 := mkRound seed 20 S bits, r23 := mkRound seed 30 S bits, r31 := mkRound seed 40 S bits,
                    a := fun d i => mix seed 50 d i % 2 ^ bits, b := fun d i => mix seed 60 d i % 2 ^ bits }
  let out := (shuffle S ρ { left := s1, right := s2 } { left := s2, right := s3 }).1
  s!"ok consistent={boolStr (consistentOut out)} rows={showNatList (sortNat (reconstruct out).flatten)}"

/-! ### cardinality message with the observed destinations -/

/-- the input shape of `n` rows under a deterministic distribution -/
def inShape (dist : String) (S n : Nat) : Option (List Nat) :=
  match dist with
  | "rr" => some ((List.range S).map (fun s => ((List.range n).filter (fun i => i % S == s)).length))
  | "last" => some ((List.range S).map (fun s => if s + 1 == S then n else 0))
  | "first" => some ((List.range S).map (fun s => if s == 0 then n else 0))
  | _ => none

/-- `d0/d1/…`: per shard the destinations of record ids 0, 1, … as digits (`-` = none) -/
def parseDests (s : String) : Option (Array (Array Nat)) :=
  ((s.splitOn "/").mapM (fun t =>
    if t = "-" then some #[] else (t.toList.mapM (fun (c : Char) => if c.isDigit then some (c.toNat - 48) else none)).map List.toArray)).map List.toArray

def destFn (a : Array (Array Nat)) : Nat → Nat → Nat := fun j i => (a.getD j #[]).getD i 0

def observedRound (a : Array (Array Nat)) : Round := { mask := fun _ _ => 0, dest := destFn a, shuf := fun _ l => l }

/-- Model: all three helpers' tables have the announced cardinalities (`output_sizes_equal`). -/
def cardResp (S : Nat) (sh : List Nat) (d12 d31 d23 : Array (Array Nat)) : String :=
  let ρ : Rand := { r12 := observedRound d12, r23 := observedRound d23, r31 := observedRound d31, a := fun _ _ => 0, b := fun _ _ => 0 }
  let c := showNatList (cardinalities S ρ sh)
  s!"ok h1={c} h2={c} h3={c}"

/-- Spec side: the three helpers hold the same number of rows on every shard, one entry per shard, and
no row is lost or invented (the sizes add up to the number of input rows). -/
def cardOracle (S n : Nat) (impl : String) : Option String :=
  match impl.splitOn " " with
  | ["ok", h1, h2, h3] =>
    match (h1.dropPrefix? "h1=", h2.dropPrefix? "h2=", h3.dropPrefix? "h3=") with
    | (some a, some b, some c) =>
      match (parseNatList a.toString, parseNatList b.toString, parseNatList c.toString) with
      | (some a, some b, some c) =>
        if a ≠ b ∨ b ≠ c then some s!"the helpers' output tables differ in length: H1 {a}, H2 {b}, H3 {c} rows per shard"
        else if a.length ≠ S then some "one output table per shard expected"
        else if a.sum ≠ n then some s!"{n} rows in, {a.sum} rows out"
        else none
      | _ => some s!"unexpected response {impl}"
    | _ => some s!"unexpected response {impl}"
  | _ => some s!"the shuffle of an honest run failed or hung: {impl}"

def parseHexList (s : String) : Option (List (List Nat)) :=
  if s = "-" then some [] else (s.splitOn ",").mapM parseHexBytes

def tagsResp (bits : Nat) (keys : List Nat) (rows : List (List Nat)) : String :=
  "ok " ++ showNatList (rows.map (rowCheck bits keys))

def addTagsResp (bits : Nat) (key : Nat) (rows : List Nat) : String :=
  let kb := toLe ((bits + 7) / 8) key
  let keys := words (kb.length + 1) kb
  let out := rows.map (fun r => bytesHex (addTag bits keys r))
  if out.isEmpty then "ok -" else "ok " ++ String.intercalate "," out

def controlGate (g : String) : Bool := g == "cardinality" || g.startsWith "hash"

def tamperResp (nrows : Nat) (gate : String) : String :=
  if nrows > 0 || controlGate gate then "hit=1 detected=1" else "hit=0 detected=0 intact=1"

/-- `some response` if the request belongs to this property, else `none`. -/
def handle (toks : List String) : Option String :=
  match toks with
  | ["c05.e2e", _mode, bits, shards, dist, seed, rows] => some <| (do
      pure (e2e (← bits.toNat?) (← shards.toNat?) dist (← seed.toNat?) (← parseNatList rows))).getD "bad-request"
  | ["c05.card", _mode, _bits, shards, dist, _seed, n, d12, d31, d23] => some <| (do
      let S ← shards.toNat?
      pure (cardResp S (← inShape dist S (← n.toNat?)) (← parseDests d12) (← parseDests d31) (← parseDests d23))).getD "bad-request"
  | ["c05.tags", bits, keys, rows, _expect] => some <| (do
      pure (tagsResp (← bits.toNat?) (← parseNatList keys) (← parseHexList rows))).getD "bad-request"
  | ["c05.addtags", bits, _seed, key, rows] => some <| (do
      pure (addTagsResp (← bits.toNat?) (← key.toNat?) (← parseNatList rows))).getD "bad-request"
  | ["c05.tamper", _bits, _shards, _seed, nrows, _att, gate, _dest, _byte, _mask, _nth] => some <| (do
      pure (tamperResp (← nrows.toNat?) gate)).getD "bad-request"
  | t :: _ => if t.startsWith "c05." then some "bad-request" else none
  | _ => none

/-! ## Spec-side oracle (independent of `Model/Shuffle`)

* `c05.e2e`: the reconstructed output rows are the input rows as a multiset and the sharing is consistent;
* `c05.tags` / `c05.addtags`: `Σ keyᵢ·wordᵢ (+ tag)` with a shift-and-reduce ("Russian peasant") multiplication in
  GF(2)[x]/(x^32+x^7+x^3+x^2+1), written independently of the model's clmul-then-reduce;
* `c05.tamper`: whenever the attacker changed a message, an honest helper returned an error; otherwise
  the result is intact. -/

def peasantMul (a b : Nat) : Nat :=
  let step (st : Nat × Nat × Nat) (_ : Nat) : Nat × Nat × Nat :=
    let (acc, x, y) := st
    let acc := if y % 2 == 1 then acc ^^^ x else acc
    let x := x * 2
    let x := if x ≥ 4294967296 then x ^^^ 4294967437 else x
    (acc, x, y / 2)
  ((List.range 32).foldl step (0, a % 4294967296, b % 4294967296)).1

def specWords (bytes : List Nat) : List Nat :=
  let rec go : Nat → List Nat → List Nat
    | 0, _ => []
    | _, [] => []
    | f + 1, bs => ofLeBytes (bs.take 4) :: go f (bs.drop 4)
  go (bytes.length + 1) bytes

def specCheck (bits : Nat) (keys : List Nat) (row : List Nat) : Nat :=
  let off := (bits + 7) / 8
  let ws := specWords (row.take off)
  let tag := ofLeBytes (row.drop off)
  (ws.zip keys).foldl (fun acc (w, k) => acc ^^^ peasantMul w k) tag

def verdict (b : Bool) (why : String) : String := if b then "holds" else "fails " ++ why

def oracle (toks : List String) (impl : String) : Option String :=
  match toks with
  | ["c05.e2e", _, _, _, _, _, rows] =>
      match parseNatList rows with
      | some rs => some (verdict (impl == s!"ok consistent=1 rows={showNatList (sortNat rs)}")
          "shuffle output is not a consistent re-sharing of the input multiset (or a helper failed/hung)")
      | none => some "unknown"
  | ["c05.card", _, _, shards, _, _, n, _, _, _] =>
      match (shards.toNat?, n.toNat?) with
      | (some S, some n) =>
        match cardOracle S n impl with
        | none => some "holds"
        | some why => some ("fails " ++ why)
      | _ => some "unknown"
  | ["c05.tags", bits, keys, rows, _] =>
      match (do pure (impl == "ok " ++ showNatList ((← parseHexList rows).map (specCheck (← bits.toNat?) (← parseNatList keys))))) with
      | some b => some (verdict b "hashed tag values differ from Σ keyᵢ·wordᵢ + tag over GF(2^32)")
      | none => some "unknown"
  | ["c05.addtags", bits, _, key, rows] =>
      match (do
        let bits ← bits.toNat?
        let nb := (bits + 7) / 8
        let keys := specWords (leBytes (← key.toNat?) nb)
        let want := (← parseNatList rows).map (fun r =>
          let rb := leBytes r nb
          bytesHex (rb ++ leBytes ((specWords rb |>.zip keys).foldl (fun acc (w, k) => acc ^^^ peasantMul w k) 0) 4))
        pure (impl == (if want.isEmpty then "ok -" else "ok " ++ String.intercalate "," want))) with
      | some b => some (verdict b "MPC tag is not Σ keyᵢ·wordᵢ over GF(2^32)")
      | none => some "unknown"
  | ["c05.tamper", _, _, _, _, _, _, _, _, _, _] =>
      some (verdict (impl == "hit=1 detected=1" || impl == "hit=0 detected=0 intact=1")
        "a helper altered a shuffle message and no honest helper reported an error (or an untouched run was not intact)")
  | t :: _ => if t.startsWith "c05." then some "unknown" else none
  | _ => none

end IpaVerif.Driver.C05
