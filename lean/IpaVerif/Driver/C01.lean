import IpaVerif.Model.Util
import IpaVerif.Model.Hybrid
import IpaVerif.Generated.HybridConsts
/-! Line-protocol handlers for property C01 (model side). Import-free.
Widths, bucket count and the aggregation proof-chunk size come from the translator
(`Generated/HybridConsts.lean`, re-read from query/runner/hybrid.rs, aggregation/mod.rs, dzkp_validator.rs). -/
namespace IpaVerif.Driver.C01
open IpaVerif.Util IpaVerif.Hybrid
open IpaVerif.Generated.Hybrid (bkBits vBits hvBits buckets aggProofChunk targetProofSizeTest)

/-- `aggregate_values_proof_chunk(B, V::BITS)` with the cfg(test) TARGET_PROOF_SIZE of the harness build. -/
def aggChunk : Nat := aggProofChunk targetProofSizeTest

/-- the instantiation of `Query::execute` (`hybrid_protocol::<_, BA8, BA3, BA32, 3, 256>`). -/
def prodW : Widths := { bkW := bkBits, vW := vBits, hvW := hvBits, buckets := buckets }

def widthsOf : String → Option Widths
  | "prod" => some prodW
  | "small" => some { prodW with hvW := 8 }
  | _ => none

def parseRec (s : String) : Option Rec :=
  match s.splitOn ":" with
  | ["i", k, bk] => do pure { key := ← k.toNat?, bk := ← bk.toNat?, v := 0 }
  | ["c", k, v] => do pure { key := ← k.toNat?, bk := 0, v := ← v.toNat? }
  | _ => none

def parseRecs (s : String) : Option (List Rec) :=
  if s = "-" then some [] else (s.splitOn ",").mapM parseRec

/-- distribute records to shards according to the assignment (order within a shard = input order). -/
def distribute (n : Nat) (assign : List Nat) (recs : List Rec) : List (List Rec) :=
  (List.range n).map (fun d => ((assign.zip recs).filter (fun ar => ar.1 % n == d)).map (·.2))

structure Req where
  w : Widths
  shards : Nat
  assign : List Nat
  recs : List Rec

def parseReq (toks : List String) : Option Req :=
  match toks with
  | ["c01.e2e", _mode, shards, _pad, inst, assign, recs] => do
      let w ← widthsOf inst
      let recs ← parseRecs recs
      -- `rnd`: the fixture's seeded Random distribution (unobservable): any assignment gives the same
      -- modelled result, round robin is used
      let assign ← if assign = "rnd" then some (List.range recs.length) else parseNatList assign
      pure { w := w, shards := ← shards.toNat?, assign := assign, recs := recs }
  -- `Query::execute`: production instantiation, default padding, malicious contexts
  | ["c01.query", shards, assign, recs] => do
      pure { w := prodW, shards := ← shards.toNat?, assign := ← parseNatList assign, recs := ← parseRecs recs }
  | _ => none

def parseRows (s : String) : Option (List Row) :=
  if s = "-" then some [] else
  (s.splitOn ",").mapM (fun r => match r.splitOn ":" with
    | [a, b] => do pure ((← a.toNat?), (← b.toNat?))
    | _ => none)

def showRows (rows : List Row) : String :=
  if rows.isEmpty then "-" else String.intercalate "," (rows.map (fun r => s!"{r.1}:{r.2}"))

def handle (toks : List String) : Option String :=
  match toks with
  | ["c01.agg", _mode, tags, recs] =>
    match parseNatList tags, parseRecs recs with
    | some ts, some rs => some (showRows (aggregateReports prodW (ts.zip rs)))
    | _, _ => some "bad-request"
  | ["c01.brk", _mode, hv, rows] =>
    match hv.toNat?, parseRows rows with
    | some hv, some rows =>
      let w : Widths := { prodW with hvW := hv }
      if rows.isEmpty then some (showNatList (List.replicate w.buckets 0))
      else some (showNatList (finalize w [shardHistogram w aggChunk rows]))
    | _, _ => some "bad-request"
  | "c01.e2e" :: _ =>
    match parseReq toks with
    | none => some "bad-request"
    | some r =>
      let shards := distribute r.shards r.assign r.recs
      -- F8 (repaired): a shard without rows takes part in every collective step, so the query completes
      -- whatever the shards hold (`query_completes_with_spec`: for ALL row counts observed after the
      -- shuffles; the driver evaluates the counts of the canonical run)
      match runOutcome r.w aggChunk shards (canonicalCounts r.w shards) with
      | none => some "hang"
      | some h => some (showNatList h)
  | "c01.query" :: _ =>
    -- the encrypted reports are first resharded by their unique tag (unobservable here), so the shard a
    -- report is received on does not determine where it is processed: by `pipeline_eq_spec` the result
    -- does not depend on the distribution
    match parseReq toks with
    | none => some "bad-request"
    | some r => some (showNatList (run r.w aggChunk (distribute r.shards r.assign r.recs)))
  | _ => none

/-- spec-side: rows of `aggregate_reports` = for every pseudonym carried by exactly two reports (in
pseudonym order) the wrapped sums; bucket totals of `breakdown_reveal_aggregation` = saturated sums. -/
def oracle (toks : List String) (impl : String) : Option String :=
  match toks with
  | ["c01.agg", _mode, tags, recs] =>
    match parseNatList tags, parseRecs recs with
    | some ts, some rs =>
      let tr := ts.zip rs
      let keys := (dedupKeys ts).mergeSort (· ≤ ·)
      let expect := keys.filterMap (fun k => match (tr.filter (·.1 == k)).map (·.2) with
        | [r1, r2] => some ((r1.bk + r2.bk) % 256, (r1.v + r2.v) % 8)
        | _ => none)
      if impl = showRows expect then some "holds" else some "fails rows differ from the pairs of reports sharing a pseudonym"
    | _, _ => some "unknown"
  | ["c01.brk", _mode, hv, rows] =>
    match hv.toNat?, parseRows rows with
    | some hv, some rows =>
      let expect := (List.range 256).map (fun b => min (((rows.filter (·.1 == b)).map (·.2)).sum) (2 ^ hv - 1))
      if impl = showNatList expect then some "holds" else some "fails bucket totals differ from the saturated sums"
    | _, _ => some "unknown"
  | "c01.e2e" :: _ | "c01.query" :: _ =>
    match parseReq toks with
    | none => some "unknown"
    | some r =>
      match parseNatList impl with
      | some h =>
        if h = spec r.w r.recs then some "holds"
        else some "fails histogram differs from in-the-clear attribution of the input"
      | none => some s!"fails no histogram produced ({impl.take 60}) although every input has an in-the-clear result"
  | _ => none

end IpaVerif.Driver.C01
