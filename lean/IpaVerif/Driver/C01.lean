import IpaVerif.Model.Util
import IpaVerif.Model.Hybrid
/-! Line-protocol handlers for property C01 (model side). Import-free. -/
namespace IpaVerif.Driver.C01
open IpaVerif.Util IpaVerif.Hybrid

def widthsOf : String → Option Widths
  | "prod" => some { bkW := 8, vW := 3, hvW := 32, buckets := 256 }
  | "small" => some { bkW := 8, vW := 3, hvW := 8, buckets := 256 }
  | _ => none

def parseRec (s : String) : Option Rec :=
  match s.splitOn ":" with
  | ["i", k, bk] => do pure { key := ← k.toNat?, bk := ← bk.toNat?, v := 0 }
  | ["c", k, v] => do pure { key := ← k.toNat?, bk := 0, v := ← v.toNat? }
  | _ => none

def parseRecs (s : String) : Option (List Rec) :=
  if s = "-" then some [] else (s.splitOn ",").mapM parseRec

/-- distribute records to shards according to the assignment (order within a shard = input order). -/
def distribute (n : Nat) (assign : List Nat) (recs : List Rec) : List (List Rec) :=
  (List.range n).map (fun d => ((assign.zip recs).filter (fun ar => ar.1 % n == d)).map (·.2))

structure Req where
  w : Widths
  shards : Nat
  assign : List Nat
  recs : List Rec

def parseReq (toks : List String) : Option Req :=
  match toks with
  | ["c01.e2e", _mode, shards, _pad, inst, assign, recs] => do
      let w ← widthsOf inst
      pure { w := w, shards := ← shards.toNat?, assign := ← parseNatList assign, recs := ← parseRecs recs }
  | _ => none

/-- aggregate_values_proof_chunk(256, 3) with the cfg(test) TARGET_PROOF_SIZE of the harness build. -/
def aggChunk : Nat := 8

def handle (toks : List String) : Option String :=
  match toks with
  | "c01.e2e" :: _ =>
    match parseReq toks with
    | none => some "bad-request"
    | some r =>
      let shards := distribute r.shards r.assign r.recs
      -- known finding F8: with more than one shard, a shard that enters with no rows while others
      -- have rows leaves the collective shuffle and the query never completes
      match runOutcome r.w aggChunk shards with
      | none => some "hang"
      | some h => some (showNatList h)
  | _ => none

def oracle (toks : List String) (impl : String) : Option String :=
  match toks with
  | "c01.e2e" :: _ =>
    match parseReq toks with
    | none => some "unknown"
    | some r =>
      match parseNatList impl with
      | some h =>
        if h = spec r.w r.recs then some "holds"
        else some "fails histogram differs from in-the-clear attribution of the input"
      | none => some s!"fails no histogram produced ({impl.take 60}) although every input has an in-the-clear result"
  | _ => none

end IpaVerif.Driver.C01
