import IpaVerif.Model.Util
import IpaVerif.Model.Batcher
import IpaVerif.Generated.BatcherConsts
/-! Line-protocol handlers for property C16 (model side). Import-free.

Request:  `c16.batcher <rpb> <total|-|inf> <failing batches|-> <op>…`
  ops: `g<r>` get_batch(r) and push r · `v<r>` validate_record(r) (future created, not polled) ·
       `p<i>` poll future i once · `r<b>` let the validation closure of batch b complete ·
       `d<i>` drop future i · `t<n>`/`ti`/`tu` set_total_records · `s` into_single_batch ·
       `e` is_empty · `x` dump of the private state
Response: one token per op, then `| inv=<closure invocation log>`.
-/
namespace IpaVerif.Driver.C16
open IpaVerif.Util IpaVerif.Batcher

def panicTag : Panic → String
  | .divZero => "panic:divzero"
  | .alreadyValidated b => s!"panic:validated:{b}"
  | .twice r => s!"panic:twice:{r}"
  | .exceeds o t => s!"panic:exceeds:{o}:{t}"
  | .expectedBatch t => s!"panic:expected:{t}"
  | .needsSpecific => "panic:needs-specific"
  | .badTransition => "panic:bad-transition"
  | .firstBatchNonzero => "panic:first-batch"
  | .multipleBatches => "panic:multi"
  | .senderDropped => "panic:sender-dropped"

def errTag : Err → String
  | .missingTotal => "err:MissingTotal"
  | .outOfRange => "err:OutOfRange"
  | .parallelFailed => "err:Parallel"
  | .validationFailed => "err:DZKP"

def plusList (l : List Nat) : String :=
  if l.isEmpty then "-" else String.intercalate "+" (l.map toString)

def setIdx (l : List Bool) : List Nat :=
  (List.range l.length).filter (fun j => l.getD j false)

def slotStr : Option BatchState → String
  | none => "N"
  | some b => s!"{b.ctor}.{b.pendingCount}.{b.pendingRecords.length}.{plusList (setIdx b.pendingRecords)}"

def stateStr (s : State) : String :=
  s!"x:{s.firstBatch}:" ++ (if s.batches.isEmpty then "-" else String.intercalate "/" (s.batches.map slotStr))

def parseTotal (s : String) : Option Total :=
  if s = "-" then some .unspecified
  else if s = "inf" then some .indeterminate
  else s.toNat?.map .specified

def invStr (l : List (Nat × Nat × List Nat)) : String :=
  if l.isEmpty then "-" else String.intercalate ";" (l.map fun (b, c, p) => s!"{b}:{c}:{plusList p}")

/-- split `g12` into ('g', "12"). -/
def splitOp (t : String) : Option (Char × String) :=
  match t.toList with
  | c :: rest => some (c, String.ofList rest)
  | [] => none

def stepOp (w : World) (t : String) : Option (World × String) := do
  let (c, arg) ← splitOp t
  match c with
  | 'g' =>
    let r ← arg.toNat?
    match w.batcher with
    | none => pure (w, "gone")
    | some s =>
      match getBatchPush s r r with
      | (s', .ok (ctor, pl)) => pure ({ w with batcher := some s' }, s!"g:{ctor}:{plusList pl}")
      | (s', .error p) => pure ({ w with batcher := some s' }, panicTag p)
  | 'v' =>
    let r ← arg.toNat?
    match w.batcher with
    | none => pure (w, "gone")
    | some _ =>
      match w.validate r with
      | (w', .ok i) => pure (w', s!"f{i}")
      | (w', .error p) => pure (w', panicTag p)
  | 'p' =>
    let i ← arg.toNat?
    let (w', o) := w.poll i
    pure (w', match o with
      | .pending => "pend" | .ok => "ok" | .err e => errTag e | .panic p => panicTag p | .gone => "gone")
  | 'r' => do let b ← arg.toNat?; pure (w.release b, "r")
  | 'd' => do let i ← arg.toNat?; pure (w.dropFut i, "d")
  | 't' =>
    let t ← (if arg = "i" then some Total.indeterminate else if arg = "u" then some Total.unspecified
             else arg.toNat?.map Total.specified)
    match w.batcher with
    | none => pure (w, "gone")
    | some s =>
      match setTotal s t with
      | .ok s' => pure ({ w with batcher := some s' }, "t")
      | .error p => pure (w, panicTag p)
  | 's' =>
    if arg ≠ "" then none else
    match w.batcher with
    | none => pure (w, "gone")
    | some _ =>
      match w.intoSingle with
      | (w', .ok (ctor, pl)) => pure (w', s!"s:{ctor}:{plusList pl}")
      | (w', .error p) => pure (w', panicTag p)
  | 'e' =>
    match w.batcher with
    | none => pure (w, "gone")
    | some s => pure (w, if s.batches.isEmpty then "e1" else "e0")
  | 'x' =>
    match w.batcher with
    | none => pure (w, "gone")
    | some s => pure (w, stateStr s)
  | _ => none

def runOps : World → List String → List String → Option (World × List String)
  | w, [], acc => some (w, acc.reverse)
  | w, t :: ts, acc => do
    let (w', o) ← stepOp w t
    runOps w' ts (o :: acc)

def batcher (args : List String) : Option String :=
  match args with
  | rpb :: total :: fail :: ops => do
    let rpb ← rpb.toNat?
    let total ← parseTotal total
    let fail ← parseNatList fail
    let w := World.new rpb total IpaVerif.Generated.targetProofSizeTest fail
    let (w', outs) ← runOps w ops []
    pure (String.intercalate " " (outs ++ ["|", "inv=" ++ invStr w'.invoked]))
  | _ => none

/-- `some response` if the request belongs to this property, else `none`. -/
def handle (toks : List String) : Option String :=
  match toks with
  | "c16.batcher" :: args => some ((batcher args).getD "bad-request")
  | _ => none

/-! ## Spec-side oracle

Written against the statement of C16, not against the model of the code: it replays the request
keeping only *which records asked for validation* and checks, on the implementation's response,
that (1) a future of a legitimate record completes only once every record of its batch has asked
for validation, the batch check ran (appears in the invocation log) after having been released,
and with the verdict of that check; (2) no batch is checked twice, with the right content;
(3) a misuse call (record seen twice, beyond the total, batch already complete, no total) is
answered by an error or a panic — never `pend`/`ok`. -/

structure OSt where
  rpb : Nat
  total : Option Nat
  seen : List Nat := []
  /-- future index ↦ (record, legit) -/
  futs : List (Nat × Bool) := []
  polled : List Nat := []        -- futures polled at least once
  released : List Nat := []
  broken : List Nat := []        -- batches whose checking future was dropped / batcher consumed
  pushes : List Nat := []        -- successful get_batch pushes
  consumed : Bool := false
  bad : Option String := none

def batchRecords (rpb total b : Nat) : List Nat :=
  (List.range (min rpb (total - b * rpb))).map (b * rpb + ·)

def wholeBatch (o : OSt) (b : Nat) : Bool :=
  match o.total with
  | none => false
  | some n => b * o.rpb < n && (batchRecords o.rpb n b).all (o.seen.contains ·)

def flag (o : OSt) (why : String) : OSt := if o.bad.isSome then o else { o with bad := some why }

/-- the future that runs the check of batch `b` is the one of the last record of `b` to arrive. -/
def checkerOf (o : OSt) (b : Nat) : Option Nat :=
  let idx := (List.range o.futs.length).filter (fun i =>
    let (r, legit) := o.futs.getD i (0, false); legit && r / o.rpb == b)
  idx.getLast?

def oStep (fail : List Nat) (o : OSt) (t resp : String) : OSt :=
  match splitOp t with
  | none => o
  | some (c, arg) =>
    let n := arg.toNat?.getD 0
    match c with
    | 'g' => if resp.startsWith "g:" then { o with pushes := o.pushes ++ [n] } else o
    | 'v' =>
      if o.consumed then o else
      let loud := match o.total with
        | none => true
        | some tot => n ≥ tot || o.seen.contains n || wholeBatch o (n / o.rpb)
      if resp.startsWith "f" then
        if loud then { o with futs := o.futs ++ [(n, false)] }
        else { o with futs := o.futs ++ [(n, true)], seen := o.seen ++ [n] }
      else if loud then o
      else flag o s!"validate_record({n}) was legitimate but answered {resp}"
    | 'p' =>
      if resp == "gone" then o else
      match o.futs[n]? with
      | none => o
      | some (r, legit) =>
        let first := !o.polled.contains n
        let o := { o with polled := o.polled ++ [n] }
        let b := r / o.rpb
        if !legit then
          if first && (resp == "pend" || resp == "ok") then
            flag o s!"misuse validate_record({r}) silently accepted: first poll answered {resp}"
          else o
        else if resp == "pend" then o
        else if resp == "panic:sender-dropped" then
          if o.broken.contains b then o else flag o s!"record {r}: waiter panicked although the check of batch {b} was not abandoned"
        else if resp.startsWith "panic" then flag o s!"record {r}: legitimate wait panicked: {resp}"
        else
          let isChecker := checkerOf o b == some n
          let good := !fail.contains b
          let want := if good then "ok" else if isChecker then "err:DZKP" else "err:Parallel"
          if !wholeBatch o b then flag o s!"record {r} released before every record of batch {b} asked for validation"
          else if !o.released.contains b then flag o s!"record {r} released before the check of batch {b} finished"
          else if !isChecker && !((checkerOf o b).any (o.polled.contains ·)) then
            flag o s!"record {r} released before the check of batch {b} ran"
          else if resp != want then flag o s!"record {r} got {resp}, verdict of batch {b} is {want}"
          else o
    | 'r' => { o with released := o.released ++ [n] }
    | 'd' =>
      match o.futs[n]? with
      | some (r, true) =>
        if checkerOf o (r / o.rpb) == some n && wholeBatch o (r / o.rpb) then { o with broken := o.broken ++ [r / o.rpb] } else o
      | _ => o
    | 't' =>
      if resp != "t" then o else
      if arg == "i" then { o with total := none } else if arg == "u" then o else { o with total := some n }
    | 's' => { o with consumed := true, broken := o.broken ++ List.range (o.seen.foldl max 0 / (max o.rpb 1) + 1) }
    | _ => o

def parseInv (s : String) : Option (List (Nat × Nat × List Nat)) :=
  if s = "-" then some [] else
  (s.splitOn ";").mapM fun e =>
    match e.splitOn ":" with
    | [b, c, p] => do
      let p ← if p = "-" then some [] else (p.splitOn "+").mapM String.toNat?
      pure (← b.toNat?, ← c.toNat?, p)
    | _ => none

def oFinal (o : OSt) (inv : List (Nat × Nat × List Nat)) : OSt := Id.run do
  let mut o := o
  let bs := inv.map (·.1)
  for (b, c, p) in inv do
    if (bs.filter (· == b)).length ≠ 1 then o := flag o s!"batch {b} was checked more than once"
    if c ≠ b then o := flag o s!"batch {b} was built by constructor call {c}"
    if !wholeBatch o b then o := flag o s!"batch {b} was checked before all of its records asked for validation"
    if p ≠ o.pushes.filter (· / o.rpb == b) then o := flag o s!"batch {b} was checked with content {p}"
  -- every complete batch whose checking future was polled has been checked
  match o.total with
  | none => pure ()
  | some n =>
    for b in List.range ((n + o.rpb - 1) / o.rpb) do
      if wholeBatch o b then
        match checkerOf o b with
        | some i => if o.polled.contains i && !bs.contains b then o := flag o s!"batch {b} is complete and its future was polled, but it was never checked"
        | none => pure ()
  return o

def batcherOracle (args : List String) (impl : String) : Option String :=
  match args with
  | rpb :: total :: fail :: ops => do
    let rpb ← rpb.toNat?
    if rpb = 0 then none else
    let total ← parseTotal total
    let fail ← parseNatList fail
    let toks := impl.splitOn " "
    let resps := toks.takeWhile (· ≠ "|")
    if resps.length ≠ ops.length then none else
    let invTok ← toks.getLast?
    if !invTok.startsWith "inv=" then none else
    let inv ← parseInv (invTok.drop 4).toString
    let o0 : OSt := { rpb := rpb, total := total.count }
    let o := (ops.zip resps).foldl (fun o (t, r) => oStep fail o t r) o0
    let o := oFinal o inv
    match o.bad with
    | some why => pure ("fails " ++ why)
    | none => pure "holds"
  | _ => none

/-- Property oracle on (request, implementation response). -/
def oracle (toks : List String) (impl : String) : Option String :=
  match toks with
  | "c16.batcher" :: args => some ((batcherOracle args impl).getD "unknown")
  | _ => none

end IpaVerif.Driver.C16
