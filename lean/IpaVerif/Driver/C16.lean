import IpaVerif.Model.Util
import IpaVerif.Model.Batcher
import IpaVerif.Model.Validators
import IpaVerif.Model.BatcherAtomic
import IpaVerif.Generated.BatcherConsts
/-! Line-protocol handlers for property C16 (model side). Import-free.

Request:  `c16.batcher <rpb> <total|-|inf> <failing batches|-> <op>…`
  ops: `g<r>` get_batch(r) and push r · `v<r>` validate_record(r) (future created, not polled) ·
       `p<i>` poll future i once · `r<b>` let the validation closure of batch b complete ·
       `d<i>` drop future i · `t<n>`/`ti`/`tu` set_total_records · `s` into_single_batch ·
       `e` is_empty · `x` dump of the private state
Response: one token per op, then `| inv=<closure invocation log>`.

Request:  `c16.val <dzkp|mac> <context total|-|inf> <records per batch / active work> <op>…`
  the REAL validators (wrappers around the batcher) under a malicious `TestWorld` context:
  `t<n>`/`ti`/`tu` `DZKPValidator::set_total_records` · `v<r>` `ctx.validate_record(r)` created and
  polled once · `p<i>` poll future i again (MAC: all three helpers, until it completes or nothing moves) ·
  `d<i>` drop future i · `s`/`s<k>` `validate()` / `validate_indexed(k)` · `e` `is_verified`
Response: one token per op, then `| drop=<outcome of dropping the validator>`.
-/
namespace IpaVerif.Driver.C16
open IpaVerif.Util IpaVerif.Batcher

def panicTag : Panic → String
  | .divZero => "panic:divzero"
  | .alreadyValidated b => s!"panic:validated:{b}"
  | .twice r => s!"panic:twice:{r}"
  | .exceeds o t => s!"panic:exceeds:{o}:{t}"
  | .expectedBatch t => s!"panic:expected:{t}"
  | .needsSpecific => "panic:needs-specific"
  | .badTransition => "panic:bad-transition"
  | .firstBatchNonzero => "panic:first-batch"
  | .multipleBatches => "panic:multi"
  | .senderDropped => "panic:sender-dropped"

def errTag : Err → String
  | .missingTotal => "err:MissingTotal"
  | .outOfRange => "err:OutOfRange"
  | .parallelFailed => "err:Parallel"
  | .validationFailed => "err:DZKP"

def plusList (l : List Nat) : String :=
  if l.isEmpty then "-" else String.intercalate "+" (l.map toString)

def setIdx (l : List Bool) : List Nat :=
  (List.range l.length).filter (fun j => l.getD j false)

def slotStr : Option BatchState → String
  | none => "N"
  | some b => s!"{b.ctor}.{b.pendingCount}.{b.pendingRecords.length}.{plusList (setIdx b.pendingRecords)}"

def stateStr (s : State) : String :=
  s!"x:{s.firstBatch}:" ++ (if s.batches.isEmpty then "-" else String.intercalate "/" (s.batches.map slotStr))

def parseTotal (s : String) : Option Total :=
  if s = "-" then some .unspecified
  else if s = "inf" then some .indeterminate
  else s.toNat?.map .specified

def invStr (l : List (Nat × Nat × List Nat)) : String :=
  if l.isEmpty then "-" else String.intercalate ";" (l.map fun (b, c, p) => s!"{b}:{c}:{plusList p}")

/-- split `g12` into ('g', "12"). -/
def splitOp (t : String) : Option (Char × String) :=
  match t.toList with
  | c :: rest => some (c, String.ofList rest)
  | [] => none

def stepOp (w : World) (t : String) : Option (World × String) := do
  let (c, arg) ← splitOp t
  match c with
  | 'g' =>
    let r ← arg.toNat?
    match w.batcher with
    | none => pure (w, "gone")
    | some s =>
      match getBatchPush s r r with
      | (s', .ok (ctor, pl)) => pure ({ w with batcher := some s' }, s!"g:{ctor}:{plusList pl}")
      | (s', .error p) => pure ({ w with batcher := some s' }, panicTag p)
  | 'v' =>
    let r ← arg.toNat?
    match w.batcher with
    | none => pure (w, "gone")
    | some _ =>
      match w.validate r with
      | (w', .ok i) => pure (w', s!"f{i}")
      | (w', .error p) => pure (w', panicTag p)
  | 'p' =>
    let i ← arg.toNat?
    let (w', o) := w.poll i
    pure (w', match o with
      | .pending => "pend" | .ok => "ok" | .err e => errTag e | .panic p => panicTag p | .gone => "gone")
  | 'r' => do let b ← arg.toNat?; pure (w.release b, "r")
  | 'd' => do let i ← arg.toNat?; pure (w.dropFut i, "d")
  | 't' =>
    let t ← (if arg = "i" then some Total.indeterminate else if arg = "u" then some Total.unspecified
             else arg.toNat?.map Total.specified)
    match w.batcher with
    | none => pure (w, "gone")
    | some s =>
      match setTotal s t with
      | .ok s' => pure ({ w with batcher := some s' }, "t")
      | .error p => pure (w, panicTag p)
  | 's' =>
    if arg ≠ "" then none else
    match w.batcher with
    | none => pure (w, "gone")
    | some _ =>
      match w.intoSingle with
      | (w', .ok (ctor, pl)) => pure (w', s!"s:{ctor}:{plusList pl}")
      | (w', .error p) => pure (w', panicTag p)
  | 'e' =>
    match w.batcher with
    | none => pure (w, "gone")
    | some s => pure (w, if s.batches.isEmpty then "e1" else "e0")
  | 'x' =>
    match w.batcher with
    | none => pure (w, "gone")
    | some s => pure (w, stateStr s)
  | _ => none

def runOps : World → List String → List String → Option (World × List String)
  | w, [], acc => some (w, acc.reverse)
  | w, t :: ts, acc => do
    let (w', o) ← stepOp w t
    runOps w' ts (o :: acc)

def batcher (args : List String) : Option String :=
  match args with
  | rpb :: total :: fail :: ops => do
    let rpb ← rpb.toNat?
    let total ← parseTotal total
    let fail ← parseNatList fail
    let w := World.new rpb total IpaVerif.Generated.targetProofSizeTest fail
    let (w', outs) ← runOps w ops []
    pure (String.intercalate " " (outs ++ ["|", "inv=" ++ invStr w'.invoked]))
  | _ => none


/-! ## `c16.val`: the validator wrappers -/
open IpaVerif.Validators in
def wpanicTag : WPanic → String
  | .batcher p => panicTag p
  | .poisoned => "panic:poisoned"
  | .inactive => "panic:inactive"
  | .strongRef => "panic:strong-ref"
  | .zeroBatch => "panic:zero-batch"
  | .notPowerOfTwo => "panic:not-pow2"
  | .totalRequired => "panic:total-required"
  | .contextUnsafe => "panic:context-unsafe"

def pollTag : PollOut → String
  | .pending => "pend" | .ok => "ok" | .err e => errTag e | .panic p => panicTag p | .gone => "gone"

open IpaVerif.Validators in
/-- state: the validator and whether it was moved into `validate` / `validate_indexed`. -/
def valStep (st : V × Bool) (t : String) : Option ((V × Bool) × String) := do
  let (v, moved) := st
  let (c, arg) ← splitOp t
  let dz := v.kind == .dzkp
  match c with
  | 't' =>
    let tot ← (if arg = "i" then some Total.indeterminate else if arg = "u" then some Total.unspecified
               else arg.toNat?.map Total.specified)
    if !dz then pure (st, "na") else if moved then pure (st, "moved") else
    match v.setTotalRecords tot with
    | (v', .ok _) => pure ((v', moved), "t")
    | (v', .error p) => pure ((v', moved), wpanicTag p)
  | 'v' =>
    let r ← arg.toNat?
    match v.validateRecord r with
    | (v', .ok o) => pure ((v', moved), pollTag o)
    | (v', .error p) => pure ((v', moved), wpanicTag p)
  | 'p' =>
    let i ← arg.toNat?
    let (v', o) := v.poll i
    pure ((v', moved), pollTag o)
  | 'd' => do let i ← arg.toNat?; pure ((v.dropFut i, moved), "d")
  | 's' =>
    if arg ≠ "" && arg.toNat?.isNone then none else
    if !dz then pure (st, "na") else if moved then pure (st, "moved") else
    match v.validateIndexed with
    | (v', .ok _) => pure ((v', true), "s:ok")
    | (v', .error p) => pure ((v', true), wpanicTag p)
  | 'e' =>
    if !dz then pure (st, "na") else if moved then pure (st, "moved") else
    match v.isVerified with
    | .ok true => pure (st, "e1")
    | .ok false => pure (st, "e0")
    | .error p => pure (st, wpanicTag p)
  | _ => none

open IpaVerif.Validators in
def valRun : V × Bool → List String → List String → Option ((V × Bool) × List String)
  | st, [], acc => some (st, acc.reverse)
  | st, t :: ts, acc => do
    let (st', o) ← valStep st t
    valRun st' ts (o :: acc)

open IpaVerif.Validators in
def validators (args : List String) : Option String :=
  match args with
  | kind :: total :: rpb :: ops => do
    let rpb ← rpb.toNat?
    let total ← parseTotal total
    let tps := IpaVerif.Generated.targetProofSizeTest
    let made ← (if kind = "dzkp" then some (newDzkp total rpb tps)
                else if kind = "mac" then some (newMac total rpb tps) else none)
    match made with
    | .error p => pure (wpanicTag p)
    | .ok v =>
      let ((v', moved), outs) ← valRun (v, false) ops []
      let dropped := if moved then "ok" else match v'.dropOutcome with | none => "ok" | some p => wpanicTag p
      pure (String.intercalate " " (outs ++ ["|", "drop=" ++ dropped]))
  | _ => none

/-- `c16.race`, model side (b21): the calls `validate_record(0 … total-1)` through `BatcherAtomic.atomicStep` on the batcher
model under the round-robin schedule `0 … total-1, 0 … total-1`; every batch must be answered `Ready::Yes` exactly once and
every call accepted. Whether the code has that atomic shape is read from the sources (`codeIsAtomic`); the check-then-act
variant lets both of two callers see "ready" (`simpleCode`). -/
def raceModelOk (rpb total : Nat) : Bool :=
  let nb := (total + rpb - 1) / rpb
  let t := IpaVerif.BatcherAtomic.run (IpaVerif.BatcherAtomic.atomicStep total id)
    (IpaVerif.BatcherAtomic.init (IpaVerif.Batcher.State.new rpb (.specified total) IpaVerif.Generated.targetProofSizeTest))
    (List.range total ++ List.range total)
  let log := IpaVerif.BatcherAtomic.readyLog t.outs
  (List.range nb).all (fun b => log.count b == 1) && log.length == nb
    && (IpaVerif.BatcherAtomic.accepted id t.outs).length == total
    && (List.foldl (IpaVerif.BatcherAtomic.simpleCode 2) IpaVerif.BatcherAtomic.Simple.init [0, 1, 0, 1]).taken == 1

/-- `some response` if the request belongs to this property, else `none`. -/
def handle (toks : List String) : Option String :=
  match toks with
  | "c16.batcher" :: args => some ((batcher args).getD "bad-request")
  | "c16.val" :: args => some ((validators args).getD "bad-request")
  | ["c16.race", rpb, total, _t, r, _seed] => do
      let rpb ← rpb.toNat?; let total ← total.toNat?; let r ← r.toNat?
      if rpb == 0 then none else
      let nb := (total + rpb - 1) / rpb
      pure (if raceModelOk rpb total then s!"rounds={r} ok={r} validations={nb * r}" else s!"rounds={r} ok=0 validations={nb * r}")
  | _ => none

/-! ## Spec-side oracle

Written against the statement of C16, not against the model of the code: it replays the request
keeping only *which records asked for validation* and checks, on the implementation's response,
that (1) a future of a legitimate record completes only once every record of its batch has asked
for validation, the batch check ran (appears in the invocation log) after having been released,
and with the verdict of that check; (2) no batch is checked twice, with the right content;
(3) a misuse call (record seen twice, beyond the total, batch already complete, no total) is
answered by an error or a panic — never `pend`/`ok`. -/

structure OSt where
  rpb : Nat
  total : Option Nat
  seen : List Nat := []
  /-- future index ↦ (record, legit) -/
  futs : List (Nat × Bool) := []
  polled : List Nat := []        -- futures polled at least once
  released : List Nat := []
  broken : List Nat := []        -- batches whose checking future was dropped / batcher consumed
  pushes : List Nat := []        -- successful get_batch pushes
  consumed : Bool := false
  bad : Option String := none

def batchRecords (rpb total b : Nat) : List Nat :=
  (List.range (min rpb (total - b * rpb))).map (b * rpb + ·)

def wholeBatch (o : OSt) (b : Nat) : Bool :=
  match o.total with
  | none => false
  | some n => b * o.rpb < n && (batchRecords o.rpb n b).all (o.seen.contains ·)

def flag (o : OSt) (why : String) : OSt := if o.bad.isSome then o else { o with bad := some why }

/-- the future that runs the check of batch `b` is the one of the last record of `b` to arrive. -/
def checkerOf (o : OSt) (b : Nat) : Option Nat :=
  let idx := (List.range o.futs.length).filter (fun i =>
    let (r, legit) := o.futs.getD i (0, false); legit && r / o.rpb == b)
  idx.getLast?

def oStep (fail : List Nat) (o : OSt) (t resp : String) : OSt :=
  match splitOp t with
  | none => o
  | some (c, arg) =>
    let n := arg.toNat?.getD 0
    match c with
    | 'g' => if resp.startsWith "g:" then { o with pushes := o.pushes ++ [n] } else o
    | 'v' =>
      if o.consumed then o else
      let loud := match o.total with
        | none => true
        | some tot => n ≥ tot || o.seen.contains n || wholeBatch o (n / o.rpb)
      if resp.startsWith "f" then
        if loud then { o with futs := o.futs ++ [(n, false)] }
        else { o with futs := o.futs ++ [(n, true)], seen := o.seen ++ [n] }
      else if loud then o
      else flag o s!"validate_record({n}) was legitimate but answered {resp}"
    | 'p' =>
      if resp == "gone" then o else
      match o.futs[n]? with
      | none => o
      | some (r, legit) =>
        let first := !o.polled.contains n
        let o := { o with polled := o.polled ++ [n] }
        let b := r / o.rpb
        if !legit then
          if first && (resp == "pend" || resp == "ok") then
            flag o s!"misuse validate_record({r}) silently accepted: first poll answered {resp}"
          else o
        else if resp == "pend" then o
        else if resp == "panic:sender-dropped" then
          if o.broken.contains b then o else flag o s!"record {r}: waiter panicked although the check of batch {b} was not abandoned"
        else if resp.startsWith "panic" then flag o s!"record {r}: legitimate wait panicked: {resp}"
        else
          let isChecker := checkerOf o b == some n
          let good := !fail.contains b
          let want := if good then "ok" else if isChecker then "err:DZKP" else "err:Parallel"
          if !wholeBatch o b then flag o s!"record {r} released before every record of batch {b} asked for validation"
          else if !o.released.contains b then flag o s!"record {r} released before the check of batch {b} finished"
          else if !isChecker && !((checkerOf o b).any (o.polled.contains ·)) then
            flag o s!"record {r} released before the check of batch {b} ran"
          else if resp != want then flag o s!"record {r} got {resp}, verdict of batch {b} is {want}"
          else o
    | 'r' => { o with released := o.released ++ [n] }
    | 'd' =>
      match o.futs[n]? with
      | some (r, true) =>
        if checkerOf o (r / o.rpb) == some n && wholeBatch o (r / o.rpb) then { o with broken := o.broken ++ [r / o.rpb] } else o
      | _ => o
    | 't' =>
      if resp != "t" then o else
      if arg == "i" then { o with total := none } else if arg == "u" then o else { o with total := some n }
    | 's' => { o with consumed := true, broken := o.broken ++ List.range (o.seen.foldl max 0 / (max o.rpb 1) + 1) }
    | _ => o

def parseInv (s : String) : Option (List (Nat × Nat × List Nat)) :=
  if s = "-" then some [] else
  (s.splitOn ";").mapM fun e =>
    match e.splitOn ":" with
    | [b, c, p] => do
      let p ← if p = "-" then some [] else (p.splitOn "+").mapM String.toNat?
      pure (← b.toNat?, ← c.toNat?, p)
    | _ => none

def oFinal (o : OSt) (inv : List (Nat × Nat × List Nat)) : OSt := Id.run do
  let mut o := o
  let bs := inv.map (·.1)
  for (b, c, p) in inv do
    if (bs.filter (· == b)).length ≠ 1 then o := flag o s!"batch {b} was checked more than once"
    if c ≠ b then o := flag o s!"batch {b} was built by constructor call {c}"
    if !wholeBatch o b then o := flag o s!"batch {b} was checked before all of its records asked for validation"
    if p ≠ o.pushes.filter (· / o.rpb == b) then o := flag o s!"batch {b} was checked with content {p}"
  -- every complete batch whose checking future was polled has been checked
  match o.total with
  | none => pure ()
  | some n =>
    for b in List.range ((n + o.rpb - 1) / o.rpb) do
      if wholeBatch o b then
        match checkerOf o b with
        | some i => if o.polled.contains i && !bs.contains b then o := flag o s!"batch {b} is complete and its future was polled, but it was never checked"
        | none => pure ()
  return o

def batcherOracle (args : List String) (impl : String) : Option String :=
  match args with
  | rpb :: total :: fail :: ops => do
    let rpb ← rpb.toNat?
    if rpb = 0 then none else
    let total ← parseTotal total
    let fail ← parseNatList fail
    let toks := impl.splitOn " "
    let resps := toks.takeWhile (· ≠ "|")
    if resps.length ≠ ops.length then none else
    let invTok ← toks.getLast?
    if !invTok.startsWith "inv=" then none else
    let inv ← parseInv (invTok.drop 4).toString
    let o0 : OSt := { rpb := rpb, total := total.count }
    let o := (ops.zip resps).foldl (fun o (t, r) => oStep fail o t r) o0
    let o := oFinal o inv
    match o.bad with
    | some why => pure ("fails " ++ why)
    | none => pure "holds"
  | _ => none


/-! ## Spec-side oracle for `c16.val`

Again written against the statement of C16 only.  The total in force is the one DECLARED to the
validator: the total of the context it was created from, replaced by every `set_total_records` call
that was *accepted* (answered `t`).  On the implementation's response: (1) a wait (the `v` itself or a
later `p`) of a legitimate record completes only once every record of its batch below the declared
total has asked for validation; (2) conversely the call that completes a batch at the declared total
closes it (DZKP, nothing pushed: at once; MAC: when the checking future is polled to quiescence) and
the other records of the batch are then released with `ok`; (3) misuse is loud; (4) once a call
panicked the validator may answer anything loud, but never a silent `pend`/`ok` that breaks (1). -/

structure VSt where
  dzkp : Bool
  rpb : Nat
  total : Option Nat
  seen : List Nat := []
  /-- future index ↦ (record, legit, done) -/
  futs : List (Nat × Bool × Bool) := []
  dead : Bool := false
  consumed : Bool := false
  /-- batches for which some wait completed (so the check finished) -/
  checked : List Nat := []
  bad : Option String := none

def vflag (o : VSt) (why : String) : VSt := if o.bad.isSome then o else { o with bad := some why }

def vWhole (o : VSt) (b : Nat) : Bool :=
  match o.total with
  | none => false
  | some n => b * o.rpb < n && (batchRecords o.rpb n b).all (o.seen.contains ·)

def totStr (o : VSt) : String := match o.total with | some n => toString n | none => "none"

/-- the future of the last legitimate arrival of batch `b` -/
def vChecker (o : VSt) (b : Nat) : Option Nat :=
  ((List.range o.futs.length).filter (fun i =>
    let (r, legit, _) := o.futs.getD i (0, false, false); legit && r / o.rpb == b)).getLast?

def markDone (o : VSt) (i : Nat) : VSt :=
  match o.futs[i]? with
  | some (r, l, _) => { o with futs := o.futs.set i (r, l, true) }
  | none => o

/-- a completed wait of record `r` (future `i`) with response `resp`. -/
def vCompleted (o : VSt) (i r : Nat) (resp : String) : VSt :=
  let b := r / o.rpb
  let o := { markDone o i with checked := b :: o.checked }
  if !vWhole o b then
    vflag o s!"record {r} was released ({resp}) before every record of its batch {b} below the declared total {totStr o} asked for validation"
  else if resp != "ok" then vflag o s!"record {r} got {resp} although nothing was tampered with"
  else o

def vStep (o : VSt) (t resp : String) : VSt :=
  match splitOp t with
  | none => o
  | some (c, arg) =>
    let n := arg.toNat?.getD 0
    let loudResp := resp.startsWith "panic" || resp.startsWith "err"
    match c with
    | 't' =>
      if resp == "t" then
        if arg == "i" then { o with total := none } else if arg == "u" then o else { o with total := some n }
      else if resp.startsWith "panic" then { o with dead := true } else o
    | 'v' =>
      let misuse := o.consumed || (match o.total with
        | none => true
        | some tot => n ≥ tot || o.seen.contains n || vWhole o (n / o.rpb))
      let pushed := !resp.startsWith "panic"
      if misuse then
        let o := if pushed then { o with futs := o.futs ++ [(n, false, true)] } else { o with dead := true }
        if resp == "pend" || resp == "ok" then vflag o s!"misuse validate_record({n}) silently accepted ({resp}); declared total {totStr o}"
        else o
      else if loudResp then
        let o := if pushed then { o with futs := o.futs ++ [(n, false, true)] } else { o with dead := true }
        if o.dead then o else vflag o s!"validate_record({n}) was legitimate (declared total {totStr o}) but answered {resp}"
      else
        let i := o.futs.length
        let o := { o with futs := o.futs ++ [(n, true, false)], seen := o.seen ++ [n] }
        if resp == "pend" then
          if o.dzkp && vWhole o (n / o.rpb) then
            vflag o s!"record {n} completed batch {n / o.rpb} at the declared total {totStr o} but the batch did not close"
          else o
        else vCompleted o i n resp
    | 'p' =>
      match o.futs[n]? with
      | none => o
      | some (r, legit, done) =>
        if resp == "gone" then o else
        if !legit || done then
          (if resp == "pend" || resp == "ok" then vflag o s!"future {n} answered {resp} after it was finished" else o)
        else if resp == "pend" then
          let b := r / o.rpb
          let chk := vChecker o b
          let chkDone := o.checked.contains b
          -- MAC checks exchange messages on channels ordered by batch index: batch b can only be
          -- checked after the checks of the earlier batches
          let earlier := o.dzkp || (List.range b).all (o.checked.contains ·)
          if vWhole o b && earlier && (chk == some n || chkDone) then
            vflag o s!"record {r} still waits although every record of batch {b} below the declared total {totStr o} asked and the check was driven"
          else o
        else if resp == "panic:sender-dropped" then markDone o n
        else if resp.startsWith "panic" then
          vflag (markDone o n) s!"record {r}: legitimate wait panicked: {resp}"
        else vCompleted o n r resp
    | 'd' => markDone o n
    | 's' =>
      if resp == "na" || resp == "moved" then o
      else if resp == "s:ok" then { o with consumed := true }
      -- a refused `validate` gives the validator up, but pending waits may keep the batcher alive
      else { o with dead := true }
    | _ => o

def valOracle (args : List String) (impl : String) : Option String :=
  match args with
  | kind :: total :: rpb :: ops => do
    let rpb ← rpb.toNat?
    let total ← parseTotal total
    let toks := impl.splitOn " "
    let resps := toks.takeWhile (· ≠ "|")
    -- construction refused loudly: nothing to check
    if resps.length == 1 && ops.length != 1 && (resps.headD "").startsWith "panic" then pure "holds" else
    if toks.length == 1 && (toks.headD "").startsWith "panic" then pure "holds" else
    if rpb = 0 then none else
    if resps.length ≠ ops.length then none else
    let o0 : VSt := { dzkp := kind == "dzkp", rpb := rpb, total := total.count }
    let o := (ops.zip resps).foldl (fun o (t, r) => vStep o t r) o0
    -- (5) misuse is loud: giving up a validator that still holds an unchecked batch must not be silent
    let dropTok := toks.getLast?.getD ""
    let unchecked := o.futs.filter (fun (r, legit, _) => legit && !vWhole o (r / o.rpb))
    let o := match unchecked.head? with
      | some (r, _, _) =>
        if o.dzkp && !o.consumed && !o.dead && dropTok == "drop=ok" then
          vflag o s!"the validator was dropped silently although record {r} asked for validation and its batch was never checked"
        else o
      | none => o
    match o.bad with
    | some why => pure ("fails " ++ why)
    | none => pure "holds"
  | _ => none

/-- Property oracle on (request, implementation response). -/
def oracle (toks : List String) (impl : String) : Option String :=
  match toks with
  | "c16.batcher" :: args => some ((batcherOracle args impl).getD "unknown")
  | "c16.val" :: args => some ((valOracle args impl).getD "unknown")
  | ["c16.race", rpb, total, t, r, _seed] => do
      -- spec: every record of every round is released with Ok after its whole batch asked, nobody hangs or panics, and the
      -- validation closure runs exactly once per batch: ok = rounds, validations = ceil(total / rpb) * rounds
      let rpbN ← rpb.toNat?; let totalN ← total.toNat?; let r ← r.toNat?
      if rpbN == 0 then none else
      let nb := (totalN + rpbN - 1) / rpbN
      match (impl.splitOn " ").map (·.splitOn "=") with
      | ["rounds", r'] :: ["ok", k] :: ["validations", v] :: rest =>
        let r' ← r'.toNat?; let k ← k.toNat?; let v ← v.toNat?
        if r' ≠ r then pure "fails malformed response" else
        pure (if k == r && v == nb * r && rest.isEmpty then "holds"
          else "fails " ++ toString k ++ " of " ++ toString r ++ " rounds released every record with Ok; the batch validation ran " ++
            toString v ++ " times for " ++ toString (nb * r) ++ " batches (" ++ total ++ " records, batches of " ++ rpb ++ ", " ++ t ++
            " threads calling validate_record concurrently)" ++
            (match rest with | [["first", f]] => " (first failing round:what = " ++ f ++ ")" | _ => "") ++
            ": a batch must be validated exactly once, after all its records asked, and every waiter must get the verdict")
      | _ => pure (if impl == "timeout" then "fails timeout" else "fails malformed response")
  | _ => none

end IpaVerif.Driver.C16
