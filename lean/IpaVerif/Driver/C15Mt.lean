import IpaVerif.Model.Util
import IpaVerif.Model.SeqJoinMt
/-! Line-protocol handlers for the multi-threaded sequential join (C15, b17). Import-free.

  c15mt.src <w> <n> <op>…    seq_join(w, source) of the multi-threaded implementation over a SCRIPTED source
       that is itself pending: `s<k>` the source may yield k more tasks (its waker is woken), `r<i>` task i is
       released (it completes on its worker thread), `p` ONE poll_next (only at moments at which the answer
       does not depend on thread timing: the next task to come out is unreleased, or nothing is in flight),
       `a` `next().await` (2 s limit = `T`)
       response: one token per op: `s`, `r`, `P` | `I<i>` | `N` | `T`
  c15mt.slow <w> <n> <gap> <collect|try> <errs>   a producer task feeds an unbounded channel, one
       immediately-ready task every <gap> ms (0 = one `yield_now` between sends) and then closes it; the
       consumer runs `seq_join(w, rx).collect()` / `.try_collect()` (the tasks in `errs` fail)
       response: `OK:<i+j+…>` | `ERR:<e>` | timeout
-/
namespace IpaVerif.Driver.C15Mt
open IpaVerif.Util IpaVerif.SeqJoinMt

def plus (l : List Nat) : String := if l.isEmpty then "-" else String.intercalate "+" (l.map toString)

def splitOp (t : String) : Option (Char × String) :=
  match t.toList with
  | c :: rest => some (c, String.ofList rest)
  | [] => none

def outStr : Out → String
  | .item i => s!"I{i}"
  | .pending => "P"
  | .finished => "N"

/-- the model side: replay the ops on `SeqJoinMt.step`; a released task has completed whenever the
scope is polled (`p` is only scripted when that cannot matter, `a` waits for it). `a` on a join that
stays pending is `T`. -/
def srcOps : State → Nat → List Nat → List String → List String → Option (List String)
  | _, _, _, [], acc => some acc.reverse
  | s, budget, rel, t :: ts, acc => do
    let (c, arg) ← splitOp t
    match c with
    | 's' => srcOps s (budget + (← arg.toNat?)) rel ts ("s" :: acc)
    | 'r' => srcOps s budget ((← arg.toNat?) :: rel) ts ("r" :: acc)
    | 'p' =>
      let (s', o, pulled) := step s { budget := budget, done := rel.contains }
      srcOps s' (budget - pulled) rel ts (outStr o :: acc)
    | 'a' =>
      let (s', o, pulled) := step s { budget := budget, done := rel.contains }
      srcOps s' (budget - pulled) rel ts ((if o == .pending then "T" else outStr o) :: acc)
    | _ => none

def handle (toks : List String) : Option String :=
  match toks with
  | "c15mt.src" :: w :: n :: ops => some <| Id.run do
      let some w := w.toNat? | return "bad-request"
      let some n := n.toNat? | return "bad-request"
      if w = 0 then return "bad-request"
      match srcOps (State.new n w) 0 [] ops [] with
      | some r => return String.intercalate " " r
      | none => return "bad-request"
  | ["c15mt.slow", w, n, _gap, _kind, errs] => some <| Id.run do
      let some _ := w.toNat? | return "bad-request"
      let some n := n.toNat? | return "bad-request"
      let some errs := parseNatList errs | return "bad-request"
      -- the items come out in input order, so `try_collect` stops at the first failing task in input order
      match (List.range n).find? (errs.contains ·) with
      | some e => return s!"ERR:{e}"
      | none => return s!"OK:{plus (List.range n)}"
  | _ => none

/-! Spec-side oracle (the statement, independent of the model of `poll_next`): every task's result
exactly once, in input order, none dropped — end-of-stream only after all `n` results; a task's result
only after the task was released and handed out by the source; the join never hangs in an `await` the
script makes only when the next result is available. -/
def oracle (toks : List String) (impl : String) : Option String :=
  match toks with
  | "c15mt.src" :: _ :: n :: ops => some <| Id.run do
      let some n := n.toNat? | return "unknown"
      let resps := impl.splitOn " "
      if resps.length ≠ ops.length then return s!"fails did not complete the script: {impl}"
      let mut emitted := 0
      let mut granted := 0
      let mut rel : List Nat := []
      for (t, r) in ops.zip resps do
        match splitOp t with
        | some ('s', a) => granted := granted + a.toNat?.getD 0
        | some ('r', a) => rel := a.toNat?.getD 0 :: rel
        | some (_, _) =>
          if r == "T" then return s!"fails next().await did not complete after {emitted} of {n} results although the next one was available"
          else if r == "N" then
            if emitted ≠ n then return s!"fails the stream ended after {emitted} of {n} results: the remaining tasks were dropped (source still open)"
          else if r.startsWith "I" then
            let id := ((r.drop 1).toString.toNat?).getD n
            if id ≠ emitted then return s!"fails result {id} handed out, expected {emitted} (input order, exactly once)"
            if id ≥ n ∨ !rel.contains id ∨ granted ≤ id then return s!"fails result {id} handed out before the task was yielded by the source and completed"
            emitted := emitted + 1
          else if r ≠ "P" then return "unknown"
        | none => pure ()
      return "holds"
  | ["c15mt.slow", _, n, _, _, errs] => some <| Id.run do
      let some n := n.toNat? | return "unknown"
      let some errs := parseNatList errs | return "unknown"
      match (List.range n).find? (errs.contains ·) with
      | some e => if impl = s!"ERR:{e}" then return "holds" else return s!"fails expected the first error {e} in input order, got {impl}"
      | none =>
        if impl = s!"OK:{plus (List.range n)}" then return "holds"
        else return s!"fails slow producer: expected every one of the {n} results once, in input order, got {impl}"
  | _ => none

end IpaVerif.Driver.C15Mt
