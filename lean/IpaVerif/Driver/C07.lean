import IpaVerif.Model.Util
import IpaVerif.Model.Sharing
import IpaVerif.Model.Circuits
import IpaVerif.Model.Conv
import IpaVerif.Generated.PrimeFields
import IpaVerif.Generated.C07Consts
/-! Line-protocol handlers for property C07 (model side) and the spec-side oracle. Import-free. -/
namespace IpaVerif.Driver.C07
open IpaVerif.Util IpaVerif.Sharing IpaVerif.Circuits

/-! ### value types -/

/-- carry-less multiplication (`clmul`, portable shift-xor loop). -/
def clmul (a b : Nat) (bits : Nat) : Nat :=
  (List.range bits).foldl (fun acc i => if b.testBit i then acc ^^^ (a <<< i) else acc) 0

/-- `Mul for $name` of `bit_array_impl!`: clmul, then the reduction loop over `POLYNOMIAL`. -/
def gfMul (bits poly a b : Nat) : Nat :=
  ((List.range (bits - 1)).reverse).foldl
    (fun prod i => let t := prod >>> (bits + i); prod ^^^ ((poly * t) <<< i)) (clmul a b bits)

def gfAlg (bits poly : Nat) : Alg Nat :=
  { zero := 0, one := 1, add := fun a b => a ^^^ b, sub := fun a b => a ^^^ b, mul := gfMul bits poly, neg := id }

/-- order ℓ of the Ristretto group = modulus of `Fp25519` (external primitive: curve25519-dalek `Scalar`). -/
def ell : Nat := 2 ^ 252 + 27742317777372353535851937790883648493

/-- the value type named in a request, as an `Alg Nat` plus its cardinality. -/
def algOf (name : String) : Option (Alg Nat × Nat) :=
  match IpaVerif.Generated.primeFields.find? (·.name == name) with
  | some P => some (modAlg P.p, P.p)
  | none =>
    match IpaVerif.Generated.C07.gfFields.find? (·.1 == name) with
    | some (_, bits, poly) => some (gfAlg bits poly, 2 ^ bits)
    | none =>
      if name == "Boolean" then some (gfAlg 1 2, 2)
      else if name == "Fp25519" then some (modAlg ell, ell)
      else none

/-- deterministic pseudo-random field elements for the share-level model (any values work: the theorems
`mul_reconstruct` / `reshare_value` hold for all masks). -/
def prg (seed i card : Nat) : Nat := ((seed + 1) * 6364136223846793005 + (i + 1) * 1442695040888963407 + seed * i * 2862933555777941757) % card

def shareOf (A : Alg Nat) (card x seed : Nat) : World Nat := share A x (prg seed 1 card) (prg seed 2 card)
def masksOf (card seed : Nat) : Masks Nat := ⟨prg seed 3 card, prg seed 4 card, prg seed 5 card⟩

def flagStr (b : Bool) : String := if b then "ok" else "inconsistent"

def fieldOp (A : Alg Nat) (card : Nat) (op : String) (arg : Nat) (xs ys : List Nat) : Option String := do
  let idx := List.range xs.length
  let run (f : Nat → Nat → Nat → World Nat) : String :=
    let ws := idx.map (fun i => f i (xs.getD i 0 % card) (ys.getD i 0 % card))
    showNatList (ws.map (reconstruct A)) ++ " " ++ flagStr (ws.all consistentB)
  match op with
  | "mul" => pure (run fun i x y => mulS A (masksOf card (i + x)) (shareOf A card x (3 * i)) (shareOf A card y (3 * i + 1)))
  | "orf" => pure (run fun i x y => orS A (masksOf card (i + y)) (shareOf A card x (3 * i)) (shareOf A card y (3 * i + 1)))
  | "reshare" => pure (run fun i x _ => reshareS A (masksOf card (i + 7)) arg (shareOf A card x (5 * i)))
  | "known" => pure (run fun _ _ _ => knownS A (arg % card))
  | _ => none

/-! ### Boolean circuits on plaintext bits -/

def mask (n v : Nat) : Nat := v % 2 ^ n

/-- result bits of one lane for a vector op, as a number; `none` = the code panics. -/
def laneOp (op : String) (n m x y : Nat) : Option Nat :=
  let xb := bitsOf n x
  let yb := bitsOf m y
  match op with
  | "add" => let r := integerAdd plainAlg [] xb yb; some (val (r.1 ++ [r.2]))
  | "satadd" => some (val (integerSatAdd plainAlg [] xb yb))
  | "gt" => some (compareGt plainAlg [] xb yb).toNat
  | "geq" => some (compareGeq plainAlg [] xb yb).toNat
  | "sub" => some (val (integerSub plainAlg [] xb yb))
  | "satsub" => some (val (integerSatSub plainAlg [] xb yb))
  | "mulint" => (integerMul plainAlg [] xb yb).map val
  | "or" => (boolOr plainAlg [] xb yb).map val
  | "and" => (boolAnd8 plainAlg [] xb yb).map val
  | "vmul" => some (plainAlg.mul [] (x % 2 == 1) (y % 2 == 1)).toNat
  | _ => none

def outLen (op : String) (n m : Nat) : Nat :=
  match op with
  | "add" => n + 1
  | "satadd" | "sub" | "satsub" | "or" | "and" => n
  | "mulint" => n + m
  | _ => 1

def panicMsg (op : String) (n m : Nat) : String :=
  match op with
  | "mulint" => "panic:attempt to subtract with overflow"
  | "and" => if n ≠ m then "panic:assertion" else "panic:Up to 8 bit values are supported"
  | _ => "panic:assertion"

def vecOp (op : String) (n m : Nat) (xs ys : List Nat) : String :=
  let rs := (List.range xs.length).map (fun i => laneOp op n m (xs.getD i 0) (ys.getD i 0))
  -- the code panics independently of the operand values (lengths only)
  match laneOp op n m 0 0 with
  | none => panicMsg op n m
  | some _ =>
    let vs := rs.map (·.getD 0)
    if op == "add" then
      s!"{n + 1} {showNatList (vs.map (mask n))} {showNatList (vs.map (· / 2 ^ n))} ok"
    else
      let len := if op == "mulint" then ((integerMul plainAlg [] (bitsOf n 0) (bitsOf m 0)).getD []).length else outLen op n m
      s!"{len} {showNatList vs} ok"

/-- transpose rows (each a list of column values) into columns; missing entries are 0. -/
def column (rows : List (List Nat)) (c : Nat) : List Nat := rows.map (·.getD c 0)

def aggOp (w tv : Nat) (rows : List (List Nat)) (cols : Nat) : String :=
  let vs := (List.range cols).map (fun c =>
    val (aggregateValues plainAlg [] w ((column rows c).map (bitsOf tv))))
  s!"{w} {showNatList vs} ok"

/-- cross-shard merge at the leader (`FinalizerContext::finalize`, `Histogram::merge`): the per-shard histograms are folded in
shard order with the model's `integerSatAdd` circuit per bucket (width `w`). -/
def mergeOp (w : Nat) (rows : List (List Nat)) (cols : Nat) : String :=
  let vs := (List.range cols).map (fun c =>
    match column rows c with
    | [] => 0
    | v :: rest => rest.foldl (fun acc x => val (integerSatAdd plainAlg [] (bitsOf w acc) (bitsOf w x))) (v % 2 ^ w))
  s!"{w} {showNatList vs} ok"

def parseRows (s : String) : Option (List (List Nat)) :=
  if s = "-" then some [] else (s.splitOn "/").mapM parseNatList

/-! ### eval_dy_prf -/

/-- an `Fp25519` element from its 32-byte little-endian hex serialisation -/
def fpOfHex (s : String) : Option Nat := do
  let bs ← parseHexBytes s
  if bs.length = 32 then pure (ofLeBytes bs) else none

def fpListOfHex (s : String) : Option (List Nat) :=
  if s = "-" then some [] else (s.splitOn ",").mapM fpOfHex

/-- does some match key hit the pole `x + k = 0` of the Dodis–Yampolskiy function? -/
def prfPole (k : Nat) (xs : List Nat) : Bool := xs.any fun x => (x + k) % ell == 0

def handle (toks : List String) : Option String :=
  match toks with
  | ["c07.mul", f, xs, ys] | ["c07.orf", f, xs, ys] => some <| (do
      let (A, card) ← algOf f
      fieldOp A card ((toks.headD "").drop 4).toString 0 (← parseNatList xs) (← parseNatList ys)).getD "bad-request"
  | ["c07.known", f, v] => some <| (do
      let (A, card) ← algOf f
      fieldOp A card "known" (← v.toNat?) [0] [0]).getD "bad-request"
  | ["c07.reshare", f, to, xs] => some <| (do
      let (A, card) ← algOf f
      fieldOp A card "reshare" (← to.toNat?) (← parseNatList xs) []).getD "bad-request"
  | ["c07.conv", _mode, bits, xs] => some <| (do
      -- `conv_value`: y = x + r + s does not wrap for |x| <= 127 and the three output shares sum to x (mod l)
      let bits ← bits.toNat?
      let xs ← parseNatList xs
      if bits + IpaVerif.Generated.C07.convSlack ≥ IpaVerif.Generated.C07.convBits then pure "panic:assertion failed" else
      -- run the executable model of `convert_to_fp25519` lane by lane, with pseudo-random PRSS outputs, input
      -- sharings and multiplication masks derived from the lane (theorem `conv_value`: the result does not depend on them)
      let B := IpaVerif.Generated.C07.convBits
      let rs : List IpaVerif.Conv.ConvResult := (List.range xs.length).map fun i =>
        let x := xs.getD i 0 % 2 ^ bits
        let rbits (k : Nat) : List Bool := (List.range B).map fun j => prg (7 * i + k + x % 1000) j 2 == 1
        let ρ : Path → Masks Bool := fun q =>
          let h := q.foldl (fun a b => (a * 31 + b + 1) % 1000003) (i + 1)
          ⟨prg h 1 2 == 1, prg h 2 2 == 1, prg h 3 2 == 1⟩
        let xsh : List (World Bool) := (bitsOf bits x).zipIdx.map fun (b, j) =>
          share boolAlg b (prg (i + 11) (2 * j) 2 == 1) (prg (i + 13) (2 * j + 1) 2 == 1)
        IpaVerif.Conv.convert ell B ρ [] (rbits 1) (rbits 2) xsh
      let okAll := rs.all fun (R : IpaVerif.Conv.ConvResult) => consistentB R.out && R.malOk && (R.y1 == R.y2)
      pure s!"{showNatList (rs.map fun (R : IpaVerif.Conv.ConvResult) => reconstruct (modAlg ell) R.out)} {flagStr okAll}").getD "bad-request"
  | ["c07.prf", _mode, _n, k, xs] => some <| (do
      -- the point -> u64 map is an external primitive: the model answers `judge` (the oracle decides); at the pole
      -- x + k = 0 (excluded by the hypothesis of `prf_value`) the debug build trips dalek's assertion
      let k ← fpOfHex k
      let xs ← fpListOfHex xs
      pure (if prfPole k xs then "panic:acc.pack() != Scalar::ZERO" else "judge")).getD "bad-request"
  | ["c07.vmul", _mode, _w, xs, ys] => some <| (do
      pure (vecOp "vmul" 1 1 (← parseNatList xs) (← parseNatList ys))).getD "bad-request"
  | [op, _mode, _w, n, m, xs, ys] =>
      if op ∈ ["c07.add", "c07.satadd", "c07.gt", "c07.mulint", "c07.or", "c07.and"] then some <| (do
        pure (vecOp (op.drop 4).toString (← n.toNat?) (← m.toNat?) (← parseNatList xs) (← parseNatList ys))).getD "bad-request"
      else none
  | ["c07.merge", _mode, _s, rows] => some <| (do
      pure (mergeOp 8 (← parseRows rows) 16)).getD "bad-request"
  | ["c07.agg", _mode, b, w, tv, rows] => some <| (do
      let rows ← parseRows rows
      let b ← b.toNat?
      let cols := match rows with | [] => b | r :: _ => min r.length b
      pure (aggOp (← w.toNat?) (← tv.toNat?) rows cols)).getD "bad-request"
  | [op, _mode, n, m, xs, ys] =>
      if op ∈ ["c07.sub", "c07.geq"] then some <| (do
        let xs ← parseNatList xs
        let n ← n.toNat?
        -- the reported length is that of the last record's output (0 when there are no records)
        let r := vecOp (op.drop 4).toString n (← m.toNat?) xs (← parseNatList ys)
        pure (if xs.isEmpty then s!"0 - ok" else r)).getD "bad-request"
      else if op == "c07.select" then some <| (do
        -- c07.select mode w conds ts fs
        let w ← n.toNat?
        let cs ← parseNatList m
        let ts ← parseNatList xs
        let fs ← parseNatList ys
        let vs := (List.range ts.length).map (fun i =>
          val (select plainAlg [] (cs.getD i 0 % 2 == 1) (bitsOf w (ts.getD i 0)) (bitsOf w (fs.getD i 0))))
        pure s!"{showNatList vs} ok").getD "bad-request"
      else none
  | ["c07.satsub", _mode, w, xs, ys] => some <| (do
      let w ← w.toNat?
      let xs ← parseNatList xs
      let ys ← parseNatList ys
      let vs := (List.range xs.length).map (fun i => (laneOp "satsub" w w (xs.getD i 0) (ys.getD i 0)).getD 0)
      pure s!"{showNatList vs} ok").getD "bad-request"
  | _ => none

/-! ### spec-side oracle: plain arithmetic, independent of the circuit model -/

def natsOf (s : String) : Option (List Nat) := parseNatList s

def checkAll (n : Nat) (f : Nat → Option String) : Option String :=
  (List.range n).findSome? f

/-- expected value of lane op by plain arithmetic. -/
def specLane (op : String) (n m x y : Nat) : Nat :=
  let x := x % 2 ^ n
  let y' := (y % 2 ^ m) % 2 ^ n
  match op with
  | "satadd" => min (x + y') (2 ^ n - 1)
  | "gt" => if x > y' then 1 else 0
  | "geq" => if x ≥ y' then 1 else 0
  | "sub" => (x + 2 ^ n - y') % 2 ^ n
  | "satsub" => x - y'
  | "or" => x ||| (y % 2 ^ m)
  | "and" => x &&& (y % 2 ^ m)
  | "vmul" => (x % 2) * (y % 2)
  | "mulint" =>
      let y := y % 2 ^ m
      let ysext := if m > 0 ∧ y ≥ 2 ^ (m - 1) then y + (2 ^ (n + m) - 2 ^ m) else y
      (x * ysext) % 2 ^ (n + m)
  | _ => 0

def verdict (r : Option (Option String)) : Option String :=
  match r with
  | some none => some "holds"
  | some (some why) => some ("fails " ++ why)
  | none => some "unknown"

def flagOk (impl : List String) : Option String :=
  if impl.getLast? == some "ok" then none else some "output sharing not consistent between adjacent helpers"

def oracleVec (op : String) (n m : Nat) (xs ys : List Nat) (impl : String) : Option (Option String) :=
  let parts := impl.splitOn " "
  if impl.startsWith "panic" then
    -- panics are specified only for length preconditions
    let expected := (op == "mulint" && m == 0) || ((op == "or" || op == "and") && n ≠ m) || (op == "and" && n > 8)
    some (if expected then none else some s!"unexpected {impl}")
  else if impl.startsWith "timeout" then some (some "timeout")
  else if op == "add" then
    match parts with
    | [len, sums, carries, _] => do
      let sums ← natsOf sums
      let carries ← natsOf carries
      let len ← len.toNat?
      if len ≠ n + 1 ∨ sums.length ≠ xs.length then pure (some s!"wrong output shape") else
      pure <| (flagOk parts).orElse fun _ => checkAll xs.length fun i =>
        let x := xs.getD i 0 % 2 ^ n
        let y' := (ys.getD i 0 % 2 ^ m) % 2 ^ n
        if sums.getD i 0 + 2 ^ n * carries.getD i 0 == x + y' ∧ sums.getD i 0 < 2 ^ n then none
        else some s!"lane {i}: x={x} y={ys.getD i 0} sum={sums.getD i 0} carry={carries.getD i 0}, expected sum+2^{n}*carry = {x + y'}"
    | _ => none
  else
    match parts with
    | [len, vals, _] => do
      let vals ← natsOf vals
      let len ← len.toNat?
      -- (`integer_mul` with an empty `x` returns fewer than `n + m` bits, all zero: only the value is specified)
      if (vals.length ≠ xs.length) ∨ (len ≠ outLen op n m ∧ ¬ xs.isEmpty ∧ ¬ (op == "mulint" ∧ n == 0)) then pure (some "wrong output shape") else
      pure <| (flagOk parts).orElse fun _ => checkAll xs.length fun i =>
        let e := specLane op n m (xs.getD i 0) (ys.getD i 0)
        if vals.getD i 0 == e then none
        else some s!"{op} n={n} m={m} lane {i}: x={xs.getD i 0} y={ys.getD i 0} got {vals.getD i 0}, expected {e}"
    | _ => none

def oracleField (name op : String) (arg : Nat) (xs ys : List Nat) (impl : String) : Option (Option String) := do
  let (A, card) ← algOf name
  let parts := impl.splitOn " "
  match parts with
  | [vals, _] =>
    let vals ← natsOf vals
    if vals.length ≠ xs.length then pure (some "wrong output shape") else
    pure <| (flagOk parts).orElse fun _ => checkAll xs.length fun i =>
      let x := xs.getD i 0 % card
      let y := ys.getD i 0 % card
      let e := match op with
        | "mul" => A.mul x y
        | "orf" => if x = 1 ∨ y = 1 then 1 else 0
        | "reshare" => x
        | _ => arg % card
      if vals.getD i 0 == e then none else some s!"{name} {op} #{i}: a={x} b={y} got {vals.getD i 0}, expected {e}"
  | _ => none

/-- spec side of `eval_dy_prf`, on the implementation's response
`<pseudonyms> <agree|disagree> <e_i hex> <h_i>` where the harness reports, computed DIRECTLY (no MPC), the scalar
`e_i = (x_i + k)⁻¹` and the external map `h_i = u64::from(RP25519::from(e_i))` (base-point multiple, compression,
HKDF-SHA256 — an oracle parameter): (1) `e_i` IS the inverse modulo `ℓ` by this driver's own arithmetic,
(2) the revealed pseudonym equals `h_i`, i.e. `hash((x+k)⁻¹ · G)`, for all three helpers,
(3) equal match keys ⇔ equal pseudonyms within the sample. -/
def oraclePrf (k : Nat) (xs : List Nat) (impl : String) : Option (Option String) :=
  match impl.splitOn " " with
  | [ps, agree, es, hs] => do
    let ps ← parseNatList ps
    let es ← fpListOfHex es
    let hs ← parseNatList hs
    if ps.length ≠ xs.length ∨ es.length ≠ xs.length ∨ hs.length ≠ xs.length then pure (some "wrong output shape") else
    if agree ≠ "agree" then pure (some "the three helpers computed different pseudonyms") else
    pure <| (checkAll xs.length fun i =>
      let x := xs.getD i 0
      let e := es.getD i 0
      if e ≥ ell ∨ (e * ((x + k) % ell)) % ell ≠ 1 then some s!"reported scalar #{i} is not (x+k)^-1 mod l"
      else if ps.getD i 0 ≠ hs.getD i 0 then
        some s!"pseudonym #{i} of x={x} is {ps.getD i 0}, but hash((x+k)^-1 G) = {hs.getD i 0}"
      else none).orElse fun _ =>
      checkAll xs.length fun i => checkAll i fun j =>
        let same := xs.getD i 0 % ell == xs.getD j 0 % ell
        let samep := ps.getD i 0 == ps.getD j 0
        if same == samep then none
        else some s!"match keys #{j}, #{i}: equal={same} but pseudonyms equal={samep}"
  | _ => none

def oracle (toks : List String) (impl : String) : Option String :=
  match toks with
  | ["c07.mul", f, xs, ys] | ["c07.orf", f, xs, ys] => verdict (do
      oracleField f ((toks.headD "").drop 4).toString 0 (← natsOf xs) (← natsOf ys) impl)
  | ["c07.known", f, v] => verdict (do oracleField f "known" (← v.toNat?) [0] [0] impl)
  | ["c07.reshare", f, _to, xs] => verdict (do oracleField f "reshare" 0 (← natsOf xs) [] impl)
  | ["c07.conv", _mode, bits, xs] => verdict (do
      let bits ← bits.toNat?
      let xs ← natsOf xs
      if impl.startsWith "panic" then pure (if bits ≥ 128 then none else some s!"unexpected {impl}") else
      match impl.splitOn " " with
      | [vals, fl] =>
        let vs := vals.splitOn ","
        if vs.length ≠ xs.length then pure (some "wrong output shape") else
        pure <| (flagOk [fl]).orElse fun _ => checkAll xs.length fun i =>
          if vs.getD i "" == toString (xs.getD i 0 % 2 ^ bits) then none
          else some s!"conversion of x={xs.getD i 0} ({bits} bits) reconstructs to {vs.getD i ""} in Fp25519"
      | _ => none)
  | ["c07.prf", _mode, _n, k, xs] => verdict (do
      let k ← fpOfHex k
      let xs ← fpListOfHex xs
      if prfPole k xs then none else
      if impl.startsWith "panic" ∨ impl.startsWith "timeout" ∨ impl.startsWith "err" then pure (some s!"unexpected {impl}") else
      oraclePrf k xs impl)
  | ["c07.vmul", _mode, _w, xs, ys] => verdict (do oracleVec "vmul" 1 1 (← natsOf xs) (← natsOf ys) impl)
  | [op, _mode, _w, n, m, xs, ys] =>
      if op ∈ ["c07.add", "c07.satadd", "c07.gt", "c07.mulint", "c07.or", "c07.and"] then verdict (do
        oracleVec (op.drop 4).toString (← n.toNat?) (← m.toNat?) (← natsOf xs) (← natsOf ys) impl)
      else none
  | ["c07.merge", _mode, sc, rows] => verdict (do
      let rows ← parseRows rows
      let sc ← sc.toNat?
      if rows.length ≠ sc then pure (some "one row per shard expected") else
      match impl.splitOn " " with
      | [len, vals, fl] =>
        let vals ← natsOf vals
        if vals.length ≠ 16 ∨ len.toNat? ≠ some 8 then pure (some "wrong output shape") else
        pure <| (flagOk [fl]).orElse fun _ => checkAll 16 fun c =>
          let s := (column rows c).foldl (fun a v => a + v % 256) 0
          let e := min s 255
          if vals.getD c 0 == e then none else some s!"merged bucket {c}: per-shard values {column rows c} got {vals.getD c 0}, expected min(sum, 255) = {e}"
      | _ => pure (some s!"unexpected {impl}"))
  | ["c07.agg", _mode, b, w, tv, rows] => verdict (do
      let rows ← parseRows rows
      let b ← b.toNat?
      let w ← w.toNat?
      let tv ← tv.toNat?
      let cols := match rows with | [] => b | r :: _ => min r.length b
      match impl.splitOn " " with
      | [len, vals, fl] =>
        let vals ← natsOf vals
        if vals.length ≠ cols ∨ len.toNat? ≠ some w then pure (some "wrong output shape") else
        if tv > w then none else
        pure <| (flagOk [fl]).orElse fun _ => checkAll cols fun c =>
          let s := (column rows c).foldl (fun a v => a + v % 2 ^ tv) 0
          let e := min s (2 ^ w - 1)
          if vals.getD c 0 == e then none else some s!"aggregate column {c}: values {column rows c} got {vals.getD c 0}, expected min(sum, 2^{w}-1) = {e}"
      | _ => none)
  | [op, _mode, n, m, xs, ys] =>
      if op ∈ ["c07.sub", "c07.geq"] then verdict (do
        oracleVec (op.drop 4).toString (← n.toNat?) (← m.toNat?) (← natsOf xs) (← natsOf ys) impl)
      else if op == "c07.select" then verdict (do
        let w ← n.toNat?
        let cs ← natsOf m
        let ts ← natsOf xs
        let fs ← natsOf ys
        match impl.splitOn " " with
        | [vals, fl] =>
          let vals ← natsOf vals
          if vals.length ≠ ts.length then pure (some "wrong output shape") else
          pure <| (flagOk [fl]).orElse fun _ => checkAll ts.length fun i =>
            let e := (if cs.getD i 0 % 2 == 1 then ts.getD i 0 else fs.getD i 0) % 2 ^ w
            if vals.getD i 0 == e then none else some s!"select #{i}: cond={cs.getD i 0} t={ts.getD i 0} f={fs.getD i 0} got {vals.getD i 0}"
        | _ => none)
      else none
  | ["c07.satsub", _mode, w, xs, ys] => verdict (do
      let w ← w.toNat?
      -- same shape as a vector op without the length field
      oracleVec "satsub" w w (← natsOf xs) (← natsOf ys) (if impl.startsWith "panic" ∨ impl.startsWith "timeout" then impl else s!"{w} {impl}"))
  | _ => none

end IpaVerif.Driver.C07
