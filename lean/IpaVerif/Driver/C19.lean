import IpaVerif.Model.Util
import IpaVerif.Model.Reshard
/-! Line-protocol handlers for property C19 (model side + spec-side oracle). Import-free. -/
namespace IpaVerif.Driver.C19
open IpaVerif.Util IpaVerif.Reshard

def parseLists (s : String) : Option (List (List Nat)) := (s.splitOn "/").mapM parseNatList

def parseInts (s : String) : Option (List Int) :=
  if s = "-" then some [] else (s.splitOn ",").mapM String.toInt?

def parseErrs (s : String) : List (Option Nat) :=
  if s = "-" then [] else (s.splitOn ",").map String.toNat?

def insertAt {α : Type} (l : List α) (k : Nat) (x : α) : List α := l.take k ++ [x] ++ l.drop k

structure Case where
  n : Nat
  dests : List (List Nat)
  hints : List Int
  errs : List (Option Nat)

def parseCase (variant n dests hints errs : String) : Option Case := do
  let n ← n.toNat?
  let d ← parseLists dests
  let h ← parseInts hints
  let tr := variant == "try"
  pure { n := n, dests := d, hints := if tr then h else [], errs := if tr then parseErrs errs else [] }

def Case.values (c : Case) (s : Nat) : List Nat := (List.range (c.dests.getD s []).length).map (s * 1000 + ·)
def Case.items (c : Case) (s : Nat) : List (Option Nat) :=
  let vs := (c.values s).map some
  match (c.errs[s]?).join with
  | some p => insertAt vs (min p vs.length) none
  | none => vs
def Case.hint (c : Case) (s : Nat) : Nat :=
  ((c.values s).length + (c.hints.getD s 0)).toNat
def Case.pick (c : Case) (src i : Nat) (_x : Nat) : Nat := (c.dests.getD src []).getD i 0

/-- `!` = the call returned `Err`, `~` = the call never returns (observed: still waiting when the
observation window closes). -/
def showShard : Outcome Nat → String
  | .err => "!"
  | .hang => "~"
  | .ok l => showNatList l

/-- `cut:<src>:<dst>:<k>` -/
def parseCut (s : String) : Option (Nat × Nat × Nat) :=
  match s.splitOn ":" with
  | ["cut", a, b, k] => do pure ((← a.toNat?), (← b.toNat?), (← k.toNat?))
  | _ => none

def handle (toks : List String) : Option String :=
  match toks with
  | ["c19.reshard", variant, n, dests, hints, errs] => some <| (do
      let c ← parseCase variant n dests hints errs
      if c.dests.length != c.n then none else
      let out := (List.range c.n).map fun d => showShard (shardOutcome c.n c.pick c.items c.hint d)
      pure (String.intercalate "/" out)).getD "bad-request"
  -- transport fault: the destination fails when the damaged stream ends; whether its peers have
  -- already received its end-of-stream by then depends on timing, so the spec-side oracle decides
  | ["c19.reshard", _, _, _, _, _, _fault] => some "judge"
  | _ => none

/-! Spec-side oracle, from the request only: if some input stream fails (error item, or more items
than its size hint) nobody may return `Ok`; otherwise every record sits on the shard chosen for it,
every input record appears exactly once over all shards, and each shard holds its records ordered
by (source shard, position in the source's input) — the order that is the same on all helpers. -/
def sortedStrict : List Nat → Bool
  | a :: b :: rest => a < b && sortedStrict (b :: rest)
  | _ => true

/-- the placement / exactly-once / order conditions on the shards that returned a list; `expectAll`:
also require that no record is missing over all shards -/
def checkLists (c : Case) (lists : List (List Nat × Nat)) (expectAll : Bool) : String :=
  let placed := lists.all fun (l, d) => l.all fun v => c.pick (v / 1000) (v % 1000) v == d && v % 1000 < (c.values (v / 1000)).length
  let total := (lists.map (·.1.length)).sum
  let expected := ((List.range c.n).map fun s => (c.values s).length).sum
  if !placed then "fails a record is on a shard it was not routed to"
  else if !(lists.all (sortedStrict ·.1)) then "fails a shard holds a record twice or not in (source shard, input position) order"
  else if expectAll && total != expected then s!"fails {total} records after resharding, {expected} before"
  else "holds"

def oracle (toks : List String) (impl : String) : Option String :=
  match toks with
  | ["c19.reshard", variant, n, dests, hints, errs, fault] => some <| (do
      -- a damaged shard-to-shard stream (bytes lost, never a whole record): the receiving shard must not
      -- return Ok; a shard that does return Ok holds exactly the records routed to it, all of them, in order
      let c ← parseCase variant n dests hints errs
      let (_, dst, _) ← parseCut fault
      if impl.startsWith "timeout" || impl.startsWith "panic" then pure s!"fails resharding did not come back: {impl}" else
      let shards := impl.splitOn "/"
      if shards.length != c.n then pure "fails wrong number of shard results" else
      if shards.any (· == "mixed") then pure "fails helpers disagree" else
      let dstRes := shards.getD dst ""
      if dstRes != "!" && dstRes != "~" then pure "fails the shard whose incoming stream lost bytes returned Ok" else
      let oks : List (String × Nat) := shards.zipIdx.filter (fun (xd : String × Nat) => xd.1 != "!" && xd.1 != "~")
      let lists : List (List Nat × Nat) ← oks.mapM (fun (xd : String × Nat) => do pure ((← parseNatList xd.1), xd.2))
      let complete := lists.all fun (l, d) =>
        l.length == ((List.range c.n).map fun s => ((List.range (c.values s).length).filter fun i => c.pick s i 0 == d).length).sum
      if !complete then pure "fails a shard returned Ok without all the records routed to it"
      else pure (checkLists c lists false)).getD "unknown"
  | ["c19.reshard", variant, n, dests, hints, errs] => some <| (do
      let c ← parseCase variant n dests hints errs
      if impl.startsWith "timeout" || impl.startsWith "panic" then pure s!"fails resharding did not complete: {impl}" else
      let shards := impl.splitOn "/"
      if shards.length != c.n then pure "fails wrong number of shard results" else
      let fails := fun (s : Nat) => (c.errs[s]?).join.isSome || (c.hint s < (c.values s).length)
      let failing := (List.range c.n).any fails
      if failing then
        -- the operation must FAIL where the stream failed, and no shard may return Ok (it would go on
        -- with records missing); a shard whose own stream is fine is allowed to wait forever (`~`)
        if !(shards.all (fun x => x == "!" || x == "~")) then pure "fails an input stream failed but some shard returned Ok (or helpers disagree)"
        else if (shards.zipIdx).any (fun (xs : String × Nat) => fails xs.2 && xs.1 != "!") then pure "fails the shard whose input stream failed did not return an error"
        else pure "holds"
      else
        if shards.any (fun x => x == "!" || x == "~" || x == "mixed") then pure "fails resharding of error-free input failed, did not return, or helpers disagree" else
        let lists ← shards.mapM parseNatList
        let placed := (lists.zipIdx).all fun (l, d) => l.all fun v => c.pick (v / 1000) (v % 1000) v == d && v % 1000 < (c.values (v / 1000)).length
        let total := (lists.map List.length).sum
        let expected := ((List.range c.n).map fun s => (c.values s).length).sum
        if !placed then pure "fails a record is on a shard it was not routed to"
        else if !(lists.all sortedStrict) then pure "fails a shard holds a record twice or not in (source shard, input position) order"
        else if total != expected then pure s!"fails {total} records after resharding, {expected} before"
        else pure "holds").getD "unknown"
  | _ => none

end IpaVerif.Driver.C19
