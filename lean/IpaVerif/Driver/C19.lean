import IpaVerif.Model.Util
import IpaVerif.Model.Reshard
/-! Line-protocol handlers for property C19 (model side + spec-side oracle). Import-free. -/
namespace IpaVerif.Driver.C19
open IpaVerif.Util IpaVerif.Reshard

def parseLists (s : String) : Option (List (List Nat)) := (s.splitOn "/").mapM parseNatList

def parseInts (s : String) : Option (List Int) :=
  if s = "-" then some [] else (s.splitOn ",").mapM String.toInt?

def parseErrs (s : String) : List (Option Nat) :=
  if s = "-" then [] else (s.splitOn ",").map String.toNat?

def insertAt {α : Type} (l : List α) (k : Nat) (x : α) : List α := l.take k ++ [x] ++ l.drop k

structure Case where
  n : Nat
  dests : List (List Nat)
  hints : List Int
  errs : List (Option Nat)

def parseCase (variant n dests hints errs : String) : Option Case := do
  let n ← n.toNat?
  let d ← parseLists dests
  let h ← parseInts hints
  let tr := variant == "try"
  pure { n := n, dests := d, hints := if tr then h else [], errs := if tr then parseErrs errs else [] }

def Case.values (c : Case) (s : Nat) : List Nat := (List.range (c.dests.getD s []).length).map (s * 1000 + ·)
def Case.items (c : Case) (s : Nat) : List (Option Nat) :=
  let vs := (c.values s).map some
  match (c.errs[s]?).join with
  | some p => insertAt vs (min p vs.length) none
  | none => vs
def Case.hint (c : Case) (s : Nat) : Nat :=
  ((c.values s).length + (c.hints.getD s 0)).toNat
def Case.pick (c : Case) (src i : Nat) (_x : Nat) : Nat := (c.dests.getD src []).getD i 0

def showShard : Option (List Nat) → String
  | none => "!"
  | some l => showNatList l

def handle (toks : List String) : Option String :=
  match toks with
  | ["c19.reshard", variant, n, dests, hints, errs] => some <| (do
      let c ← parseCase variant n dests hints errs
      if c.dests.length != c.n then none else
      let out := (List.range c.n).map fun d => showShard (shardResult c.n c.pick c.items c.hint d)
      pure (String.intercalate "/" out)).getD "bad-request"
  | _ => none

/-! Spec-side oracle, from the request only: if some input stream fails (error item, or more items
than its size hint) nobody may return `Ok`; otherwise every record sits on the shard chosen for it,
every input record appears exactly once over all shards, and each shard holds its records ordered
by (source shard, position in the source's input) — the order that is the same on all helpers. -/
def sortedStrict : List Nat → Bool
  | a :: b :: rest => a < b && sortedStrict (b :: rest)
  | _ => true

def oracle (toks : List String) (impl : String) : Option String :=
  match toks with
  | ["c19.reshard", variant, n, dests, hints, errs] => some <| (do
      let c ← parseCase variant n dests hints errs
      if impl.startsWith "timeout" || impl.startsWith "panic" then pure s!"fails resharding did not complete: {impl}" else
      let shards := impl.splitOn "/"
      if shards.length != c.n then pure "fails wrong number of shard results" else
      let failing := (List.range c.n).any fun s =>
        (c.errs[s]?).join.isSome || (c.hint s < (c.values s).length)
      if failing then
        pure (if shards.all (· == "!") then "holds" else "fails an input stream failed but some shard returned Ok (or helpers disagree)")
      else
        if shards.any (fun x => x == "!" || x == "mixed") then pure "fails resharding of error-free input failed or helpers disagree" else
        let lists ← shards.mapM parseNatList
        let placed := (lists.zipIdx).all fun (l, d) => l.all fun v => c.pick (v / 1000) (v % 1000) v == d && v % 1000 < (c.values (v / 1000)).length
        let total := (lists.map List.length).sum
        let expected := ((List.range c.n).map fun s => (c.values s).length).sum
        if !placed then pure "fails a record is on a shard it was not routed to"
        else if !(lists.all sortedStrict) then pure "fails a shard holds a record twice or not in (source shard, input position) order"
        else if total != expected then pure s!"fails {total} records after resharding, {expected} before"
        else pure "holds").getD "unknown"
  | _ => none

end IpaVerif.Driver.C19
