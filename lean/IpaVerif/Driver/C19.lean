import IpaVerif.Model.Util
import IpaVerif.Model.Reshard
/-! Line-protocol handlers for property C19 (model side + spec-side oracle). Import-free. -/
namespace IpaVerif.Driver.C19
open IpaVerif.Util IpaVerif.Reshard

def parseLists (s : String) : Option (List (List Nat)) := (s.splitOn "/").mapM parseNatList

def parseInts (s : String) : Option (List Int) :=
  if s = "-" then some [] else (s.splitOn ",").mapM String.toInt?

def parseErrs (s : String) : List (Option Nat) :=
  if s = "-" then [] else (s.splitOn ",").map String.toNat?

def insertAt {α : Type} (l : List α) (k : Nat) (x : α) : List α := l.take k ++ [x] ++ l.drop k

structure Case where
  n : Nat
  dests : List (List Nat)
  hints : List Int
  errs : List (Option Nat)

def parseCase (variant n dests hints errs : String) : Option Case := do
  let n ← n.toNat?
  let d ← parseLists dests
  let h ← parseInts hints
  let tr := variant == "try"
  pure { n := n, dests := d, hints := if tr then h else [], errs := if tr then parseErrs errs else [] }

def Case.values (c : Case) (s : Nat) : List Nat := (List.range (c.dests.getD s []).length).map (s * 1000 + ·)
def Case.items (c : Case) (s : Nat) : List (Option Nat) :=
  let vs := (c.values s).map some
  match (c.errs[s]?).join with
  | some p => insertAt vs (min p vs.length) none
  | none => vs
def Case.hint (c : Case) (s : Nat) : Nat :=
  ((c.values s).length + (c.hints.getD s 0)).toNat
def Case.pick (c : Case) (src i : Nat) (_x : Nat) : Nat := (c.dests.getD src []).getD i 0

/-- `!` = the call returned `Err`, `~` = the call never returns (observed: still waiting when the
observation window closes). -/
def showShard : Outcome Nat → String
  | .err => "!"
  | .hang => "~"
  | .ok l => showNatList l

/-- `cut:<src>:<dst>:<k>` -/
def parseCut (s : String) : Option (Nat × Nat × Nat) :=
  match s.splitOn ":" with
  | ["cut", a, b, k] => do pure ((← a.toNat?), (← b.toNat?), (← k.toNat?))
  | _ => none


/-! ### `c19.stall`: input streams that answer `Pending` at scripted positions -/

def tagBase : Nat := 500000

/-- one stall entry `<pos>[d][@<h>]`: position and the helper it is restricted to (`d` = delayed wake-up: the
same answer `Pending` as far as the model is concerned) -/
def parseStall (e : String) : Option (Nat × Option Nat) := do
  let (e, h) ← match e.splitOn "@" with
    | [a] => some (a, none)
    | [a, h] => do pure (a, some (← h.toNat?))
    | _ => none
  let e := if e.endsWith "d" then (e.dropEnd 1).toString else e
  pure ((← e.toNat?), h)

def parseStalls (s : String) : Option (List (List (Nat × Option Nat))) :=
  (s.splitOn "/").mapM fun l => if l = "-" then some [] else (l.splitOn ",").mapM parseStall

/-- the answers of shard `s`'s input stream on helper `h`: `Pending` as often as scripted before each item
(and before the end), the items in between -/
def stallEvents (c : Case) (stalls : List (List (Nat × Option Nat))) (aad : Bool) (h s : Nat) : List (Ev Nat Nat) :=
  let items : List (Ev Nat Nat) := (c.items s).map fun
    | some v => .ready v (if aad then tagBase + v else v)
    | none => .err
  let mine := (stalls.getD s []).filter fun e => e.2.isNone || e.2 == some h
  let count (i : Nat) : Nat := (mine.filter fun e => e.1 == i).length
  (items.zipIdx.flatMap fun (ev, i) => List.replicate (count i) .pending ++ [ev]) ++ List.replicate (count items.length) .pending

/-- the `reshard_aad` picker of the suite looks the destination up by the TAG it is handed -/
def Case.pickTag (c : Case) (_src _i : Nat) (a : Nat) : Nat :=
  (c.dests.getD ((a - tagBase) / 1000) []).getD ((a - tagBase) % 1000) 0

def showAad : AadOutcome Nat Nat → String
  | .err => "!"
  | .hang => "~"
  | .ok kept tags => showNatList kept ++ ";" ++ showNatList tags

def stallModel (func : String) (c : Case) (stalls : List (List (Nat × Option Nat))) : String :=
  let perHelper (h : Nat) : List String :=
    (List.range c.n).map fun d =>
      if func == "aad" then showAad (aadOutcome c.n c.pickTag (stallEvents c stalls true h) c.hint d)
      else showShard (polledOutcome c.n c.pick (fun s => (stallEvents c stalls false h s).map fun
        | .ready _ a => Ev.ready () a
        | .pending => .pending
        | .err => .err) c.hint d)
  let r0 := perHelper 0
  let r1 := perHelper 1
  let r2 := perHelper 2
  String.intercalate "/" ((r0.zip (r1.zip r2)).map fun (a, b, c) => if a == b && b == c then a else "mixed")

def handle (toks : List String) : Option String :=
  match toks with
  | ["c19.stall", func, _mode, n, dests, hints, errs, stalls] => some <| (do
      -- `try` semantics of hints / errors for `aad` and `try`; `stream` takes neither
      let c ← parseCase (if func == "stream" then "stream" else "try") n dests hints errs
      let st ← parseStalls stalls
      if c.dests.length != c.n then none else
      if !(st.length == c.n || stalls == "-") then none else
      pure (stallModel func c st)).getD "bad-request"
  | ["c19.reshard", variant, n, dests, hints, errs] => some <| (do
      let c ← parseCase variant n dests hints errs
      if c.dests.length != c.n then none else
      let out := (List.range c.n).map fun d => showShard (shardOutcome c.n c.pick c.items c.hint d)
      pure (String.intercalate "/" out)).getD "bad-request"
  -- transport fault: the destination fails when the damaged stream ends; whether its peers have
  -- already received its end-of-stream by then depends on timing, so the spec-side oracle decides
  | ["c19.reshard", _, _, _, _, _, _fault] => some "judge"
  | _ => none

/-! Spec-side oracle, from the request only: if some input stream fails (error item, or more items
than its size hint) nobody may return `Ok`; otherwise every record sits on the shard chosen for it,
every input record appears exactly once over all shards, and each shard holds its records ordered
by (source shard, position in the source's input) — the order that is the same on all helpers. -/
def sortedStrict : List Nat → Bool
  | a :: b :: rest => a < b && sortedStrict (b :: rest)
  | _ => true

/-- the placement / exactly-once / order conditions on the shards that returned a list; `expectAll`:
also require that no record is missing over all shards -/
def checkLists (c : Case) (lists : List (List Nat × Nat)) (expectAll : Bool) : String :=
  let placed := lists.all fun (l, d) => l.all fun v => c.pick (v / 1000) (v % 1000) v == d && v % 1000 < (c.values (v / 1000)).length
  let total := (lists.map (·.1.length)).sum
  let expected := ((List.range c.n).map fun s => (c.values s).length).sum
  if !placed then "fails a record is on a shard it was not routed to"
  else if !(lists.all (sortedStrict ·.1)) then "fails a shard holds a record twice or not in (source shard, input position) order"
  else if expectAll && total != expected then s!"fails {total} records after resharding, {expected} before"
  else "holds"

def oracle (toks : List String) (impl : String) : Option String :=
  match toks with
  | ["c19.stall", func, _mode, n, dests, hints, errs, _stalls] => some <| (do
      -- the timing of the input streams (the stall script) is NOT consulted: whatever it is, the outcome must be
      -- that of plain sequences of items
      let c ← parseCase (if func == "stream" then "stream" else "try") n dests hints errs
      if impl.startsWith "timeout" || impl.startsWith "panic" then pure s!"fails resharding did not complete: {impl}" else
      let shards := impl.splitOn "/"
      if shards.length != c.n then pure "fails wrong number of shard results" else
      let fails := fun (s : Nat) => (c.errs[s]?).join.isSome || (c.hint s < (c.values s).length)
      if (List.range c.n).any fails then
        if !(shards.all (fun x => x == "!" || x == "~")) then pure "fails an input stream failed but some shard returned Ok (or helpers disagree)"
        else if (shards.zipIdx).any (fun (xs : String × Nat) => fails xs.2 && xs.1 != "!") then pure "fails the shard whose input stream failed did not return an error"
        else pure "holds"
      else
        if shards.any (fun x => x == "!" || x == "~" || x == "mixed") then pure "fails resharding of error-free input failed, did not return, or helpers disagree" else
        if func == "aad" then
          let parts : List (List String) := shards.map fun (x : String) => x.splitOn ";"
          if parts.any (fun (p : List String) => p.length != 2) then pure "unknown" else
          let kept : List (List Nat) ← parts.mapM fun (p : List String) => parseNatList (p.getD 0 "")
          let tags : List (List Nat) ← parts.mapM fun (p : List String) => parseNatList (p.getD 1 "")
          -- every data record of the shard's own input is kept, in input order
          if (kept.zipIdx).any (fun (ls : List Nat × Nat) => ls.1 != c.values ls.2) then pure "fails a shard did not keep exactly its own data records in input order (records dropped?)"
          else if tags.any (fun (l : List Nat) => l.any (· < tagBase)) then pure "fails a received tag is not a tag of the input" else
          pure (checkLists c ((tags.map fun (l : List Nat) => l.map (· - tagBase)).zipIdx) true)
        else
          let lists ← shards.mapM parseNatList
          pure (checkLists c lists.zipIdx true)).getD "unknown"
  | ["c19.reshard", variant, n, dests, hints, errs, fault] => some <| (do
      -- a damaged shard-to-shard stream (bytes lost, never a whole record): the receiving shard must not
      -- return Ok; a shard that does return Ok holds exactly the records routed to it, all of them, in order
      let c ← parseCase variant n dests hints errs
      let (_, dst, _) ← parseCut fault
      if impl.startsWith "timeout" || impl.startsWith "panic" then pure s!"fails resharding did not come back: {impl}" else
      let shards := impl.splitOn "/"
      if shards.length != c.n then pure "fails wrong number of shard results" else
      if shards.any (· == "mixed") then pure "fails helpers disagree" else
      let dstRes := shards.getD dst ""
      if dstRes != "!" && dstRes != "~" then pure "fails the shard whose incoming stream lost bytes returned Ok" else
      let oks : List (String × Nat) := shards.zipIdx.filter (fun (xd : String × Nat) => xd.1 != "!" && xd.1 != "~")
      let lists : List (List Nat × Nat) ← oks.mapM (fun (xd : String × Nat) => do pure ((← parseNatList xd.1), xd.2))
      let complete := lists.all fun (l, d) =>
        l.length == ((List.range c.n).map fun s => ((List.range (c.values s).length).filter fun i => c.pick s i 0 == d).length).sum
      if !complete then pure "fails a shard returned Ok without all the records routed to it"
      else pure (checkLists c lists false)).getD "unknown"
  | ["c19.reshard", variant, n, dests, hints, errs] => some <| (do
      let c ← parseCase variant n dests hints errs
      if impl.startsWith "timeout" || impl.startsWith "panic" then pure s!"fails resharding did not complete: {impl}" else
      let shards := impl.splitOn "/"
      if shards.length != c.n then pure "fails wrong number of shard results" else
      let fails := fun (s : Nat) => (c.errs[s]?).join.isSome || (c.hint s < (c.values s).length)
      let failing := (List.range c.n).any fails
      if failing then
        -- the operation must FAIL where the stream failed, and no shard may return Ok (it would go on
        -- with records missing); a shard whose own stream is fine is allowed to wait forever (`~`)
        if !(shards.all (fun x => x == "!" || x == "~")) then pure "fails an input stream failed but some shard returned Ok (or helpers disagree)"
        else if (shards.zipIdx).any (fun (xs : String × Nat) => fails xs.2 && xs.1 != "!") then pure "fails the shard whose input stream failed did not return an error"
        else pure "holds"
      else
        if shards.any (fun x => x == "!" || x == "~" || x == "mixed") then pure "fails resharding of error-free input failed, did not return, or helpers disagree" else
        let lists ← shards.mapM parseNatList
        let placed := (lists.zipIdx).all fun (l, d) => l.all fun v => c.pick (v / 1000) (v % 1000) v == d && v % 1000 < (c.values (v / 1000)).length
        let total := (lists.map List.length).sum
        let expected := ((List.range c.n).map fun s => (c.values s).length).sum
        if !placed then pure "fails a record is on a shard it was not routed to"
        else if !(lists.all sortedStrict) then pure "fails a shard holds a record twice or not in (source shard, input position) order"
        else if total != expected then pure s!"fails {total} records after resharding, {expected} before"
        else pure "holds").getD "unknown"
  | _ => none

end IpaVerif.Driver.C19
