import IpaVerif.Model.Util
import IpaVerif.Model.Malicious
/-! Line-protocol handlers for property C02 (model side). Import-free.

The model does not predict the byte-level outcome of a tampered run (it depends on unobservable shared
randomness); it answers `judge`, and the verdict is the oracle's: the coverage table must classify every
observed channel, and a tampered run must end in `abort` or the untampered histogram (theorem
`one_tamperer_abort_or_same`). -/
namespace IpaVerif.Driver.C02
open IpaVerif.Util IpaVerif.Malicious

def handle (toks : List String) : Option String :=
  match toks with
  | "c02.channels" :: _ => some "judge"
  | "c02.tamper" :: _ => some "judge"
  | _ => none

def oracle (toks : List String) (impl : String) : Option String :=
  match toks with
  | "c02.channels" :: _ =>
    if impl.startsWith "abort" || impl.startsWith "panic" || impl == "timeout" then
      some "fails honest malicious-mode query did not complete"
    else
      let gates := impl.splitOn ","
      match gates.find? (fun g => (classify (g.splitOn "/")).isNone) with
      | some g => some s!"fails helper-to-helper channel not covered by any protection mechanism: {g}"
      | none => some "holds"
  | "c02.tamper" :: _ =>
    if impl.startsWith "abort-or-same" || impl == "untouched" then some "holds"
    else if impl.startsWith "changed" then some "fails tampered run was accepted with a different histogram"
    else some s!"fails unexpected outcome {impl.take 80}"
  | _ => none

end IpaVerif.Driver.C02
