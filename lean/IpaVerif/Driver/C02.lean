import IpaVerif.Model.Util
import IpaVerif.Model.Malicious
/-! Line-protocol handlers for property C02 (model side). Import-free.

The model does not predict the byte-level outcome of a tampered run (it depends on unobservable shared
randomness); it answers `judge`, and the verdict is the oracle's: the coverage table must classify every
observed channel, and a tampered run must end in `abort` or the untampered histogram (theorem
`one_tamperer_abort_or_same`). -/
namespace IpaVerif.Driver.C02
open IpaVerif.Util IpaVerif.Malicious

def handle (toks : List String) : Option String :=
  match toks with
  | "c02.channels" :: _ => some "judge"
  | "c02.tamper" :: _ => some "judge"
  | "c02.shardtraffic" :: _ => some "judge"
  | "c02.extraclasses" :: _ => some "judge"
  | "c02.recorded" :: _ => some "judge"
  | _ => none

def oracle (toks : List String) (impl : String) : Option String :=
  match toks with
  | "c02.channels" :: _ =>
    if impl.startsWith "abort" || impl.startsWith "panic" || impl == "timeout" then
      some "fails honest malicious-mode query did not complete"
    else
      let fields := (impl.splitOn ",").map (·.splitOn "|")
      -- helper-to-helper chunks: `<gate>|m|<src><dst>|<shard>`; shard-to-shard chunks `<gate>|x|…` are outside the
      -- single-corrupt-helper threat model and are only listed (suite distribution / `shardClass`)
      let evs : List Ev := fields.filterMap fun f =>
        match f with
        | [g, "m", sd, sh] =>
          some { gate := g.splitOn "/", src := (sd.take 1).toString.toNat!, dst := (sd.drop 1).toString.toNat!, shard := sh }
        | _ => none
      match fields.find? (fun f => match f with | [_, "m", _, _] => false | [_, "x", _, _] => false | _ => true) with
      | some f => some s!"fails malformed event {"|".intercalate f}"
      | none =>
      match evs.find? (fun e => (classify e.gate).isNone) with
      | some e => some s!"fails helper-to-helper channel not covered by any protection mechanism: {"/".intercalate e.gate}"
      | none =>
      match evs.find? (fun e => (tag e).isNone) with
      | some e => some s!"fails helper-to-helper channel belongs to no step of the execution order: {"/".intercalate e.gate}"
      | none =>
        let ts := evs.filterMap tag
        match opensSeen ts, validateBeforeOpen ts, validatedAtAll ts, stepOrderScan ts [] with
        | some w, _, _, _ => some s!"fails {w}"
        | _, some w, _, _ => some s!"fails validate-before-open: {w}"
        | _, _, some w, _ => some s!"fails {w}"
        | _, _, _, some w => some s!"fails step order: {w}"
        | none, none, none, none =>
          match shuffleTrafficSeen ts, keysAfterRows ts with
          | some w, _ => some s!"fails {w}"
          | _, some w => some s!"fails keys-after-rows: {w}"
          | none, none => some "holds"
  | "c02.shardtraffic" :: _ =>
    -- traffic between the shards of ONE helper: outside the single-corrupt-helper threat model, only classified.
    -- Every gate must belong to a step of the execution order or be one of the resharding steps.
    if impl.startsWith "abort" || impl.startsWith "panic" || impl == "timeout" then
      some "fails honest malicious-mode query did not complete"
    else if impl == "-" then some "holds"
    else
      let gates := (impl.splitOn ",").map fun x => ((x.splitOn ":").headD "").splitOn "/"
      match gates.find? (fun g => (phaseOf g).isNone && !(["reshard_by_prf", "reshard_by_tag"].contains (g.headD ""))) with
      | some g => some s!"fails unclassified shard-to-shard channel {"/".intercalate g}"
      | none => some "holds"
  | "c02.recorded" :: _ =>
    -- **every gate on which multiplication traffic is sent inside a DZKP-validated step has its intermediates recorded
    -- in that validator's batch** (the run-time side of theorem `dzkp_multiplications_recorded`): a helper-to-helper
    -- gate that classifies as `dzkp` (protocol gates of a step with a DZKP validator; the proof gates classify as
    -- `dzkpProof`) and is not an opening gate (`Generated.openGates`) must be among the gates pushed into a batch
    if impl.startsWith "abort" || impl.startsWith "panic" || impl == "timeout" then
      some "fails honest malicious-mode query did not complete"
    else
      match impl.splitOn " " with
      | [t, r] =>
        if !(t.startsWith "t:") || !(r.startsWith "r:") then some "fails malformed response" else
        let parse := fun (x : String) => if x == "-" then [] else x.splitOn ","
        let traffic := parse (t.drop 2).toString
        let recorded := parse (r.drop 2).toString
        if recorded.isEmpty then
          some "fails no gate at all was recorded in a DZKP batch (is the `c02_note_push` hook call in Batch::push of dzkp_validator.rs present?)"
        else
          let normGate := fun (g : String) => (g.splitOn "/").map normSeg
          let isOpen := fun (g : List String) => IpaVerif.Generated.openGates.any (fun o => isPrefix o g)
          let mulGates := traffic.filter fun g => classify (normGate g) == some "dzkp" && !isOpen (normGate g)
          if mulGates.isEmpty then some "fails no multiplication traffic of a DZKP step observed" else
          match mulGates.find? (fun g => !recorded.contains g) with
          | some g => some s!"fails multiplication traffic on gate {g} inside a DZKP-validated step, but the gate's intermediates were never recorded in the validator's batch: no proof covers it"
          | none =>
            -- and nothing is recorded outside the DZKP steps
            match recorded.find? (fun g => classify (normGate g) != some "dzkp") with
            | some g => some s!"fails gate {g} was recorded in a DZKP batch but belongs to no DZKP step of the coverage table"
            | none => some "holds"
      | _ => some "fails malformed response"
  | "c02.extraclasses" :: shards :: _ =>
    -- the last layers of the query must be there to be tampered with (suite c02_lastlayer): with two shards the
    -- saturating addition of the finalize step, with one shard and more than one proof chunk of rows the saturating
    -- addition of the second aggregation level; both halves (`add`, `select`), multiplication traffic from all three
    -- helpers; and every listed class is covered by a protection mechanism
    if impl.startsWith "abort" || impl.startsWith "panic" || impl == "timeout" then
      some "fails honest malicious-mode query did not complete"
    else
      let rows := (impl.splitOn ",").map fun x => (x.splitOn ":")
      let need : List String :=
        if shards == "2" then ["finalize/add/add/bit#", "finalize/add/select/bit#"]
        else ["aggregate/chunks#/fold#/saturating_add/add/bit#", "aggregate/chunks#/fold#/saturating_add/select/bit#"]
      match need.find? (fun c => !(rows.contains [c, "123"])) with
      | some c => some s!"fails gate class {c} (multiplication traffic from all three helpers) not observed: the last layer of the query is not exercised"
      | none =>
        match rows.find? (fun r => (classify ((r.headD "").splitOn "/")).isNone) with
        | some r => some s!"fails helper-to-helper channel not covered by any protection mechanism: {r.headD ""}"
        | none => some "holds"
  | "c02.tamper" :: _ =>
    if impl.startsWith "abort-or-same" || impl == "untouched" then some "holds"
    else if impl.startsWith "changed" then some "fails tampered run was accepted with a different histogram"
    else some s!"fails unexpected outcome {impl.take 80}"
  | _ => none

end IpaVerif.Driver.C02
