import IpaVerif.Model.Util
import IpaVerif.Model.Auth
/-! Line-protocol handlers for property C20 (model side + spec-side oracle). Import-free. -/
namespace IpaVerif.Driver.C20
open IpaVerif.Util IpaVerif.Auth IpaVerif.Generated.Routes

def parseMethod : String → Option Method
  | "GET" => some .get | "POST" => some .post | "PUT" => some .put | "DELETE" => some .delete
  | "PATCH" => some .patch | "HEAD" => some .head | "OPTIONS" => some .options
  | _ => none

/-- path part of `path?query`, split into non-empty segments -/
def segments (target : String) : List String :=
  (((target.splitOn "?").headD "").splitOn "/").filter (· ≠ "")

def showResp : Resp → String
  | .notFound => "404"
  | .methodNotAllowed => "405"
  | .unauthorized => "401"
  | .handled _ => "pass"

def tableOf : String → Option (List Entry)
  | "mpc" => some (flatten mpcRouter)
  | "shard" => some (flatten shardRouter)
  | _ => none

def parseIdent (flavor s : String) : Option (Option Nat) :=
  if flavor == "helper" then
    match s with
    | "A" => some (some 0) | "B" => some (some 1) | "C" => some (some 2)
    | _ => some none
  else
    -- ShardIndex: `s.parse::<u32>()` (decimal digits, one optional leading `+`, leading zeros allowed)
    let d : String := if s.startsWith "+" then (s.drop 1).toString else s
    match d.toNat? with
    | some n => if n < 4294967296 && d.all Char.isDigit then some (some n) else some none
    | none => some none

def showDerived : Derived Nat → String
  | .ext none => "ext:none"
  | .ext (some i) => s!"ext:{i}"
  | .rejected => "rejected"

def showLive : LiveResp → String
  | .connErr => "conn-err"
  | .rejected => "other:400"        -- `Error::InvalidHeader` → `StatusCode::BAD_REQUEST`
  | .resp .unauthorized => "401"
  | .resp .notFound => "other:404"
  | .resp .methodNotAllowed => "other:405"
  | .resp (.handled _) => "ok"      -- the suite sends well-formed requests to a stub request handler

/-- `none | h=<v> | s=<v>` → the identity header of the server's own flavor (a header of the other
flavor is never read) -/
def parseLiveHeader (server hdr : String) : Option (Option (Option Nat)) :=
  if hdr == "none" then some none
  else if hdr.startsWith "h=" then
    (if server == "mpc" then (parseIdent "helper" (hdr.drop 2).toString).map some else some none)
  else if hdr.startsWith "s=" then
    (if server == "shard" then (parseIdent "shard" (hdr.drop 2).toString).map some else some none)
  else none

def parseLiveCert (cert : String) : Option (ClientCert Nat) :=
  if cert == "none" then some .none
  else if cert == "x" then some .stranger
  else cert.toNat?.map .peer

def handle (toks : List String) : Option String :=
  match toks with
  | ["c20.live", server, proto, bind, _group, m, target, cert, hdr, _body] => some <| (do
      let routes ← tableOf server
      let tls ← if proto == "tls" then some true else if proto == "plain" then some false else none
      let pre ← if bind == "pre" then some true else if bind == "self" then some false else none
      let arm ← armFor (!tls) pre
      let c : Client Nat := { tls := tls, cert := (← parseLiveCert cert), header := (← parseLiveHeader server hdr) }
      let f : Flavor := if server == "mpc" then .helper else .shard
      pure (showLive (serve f routes arm c (segments target) (← parseMethod m)))).getD "bad-request"
  | ["c20.req", server, _group, m, target, ident, _body] => some <| (do
      let routes ← tableOf server
      let r : Req := { path := segments target, method := (← parseMethod m),
                       helperId := ident == "helper" || ident == "both", shardId := ident == "shard" || ident == "both" }
      pure (showResp (respond routes r))).getD "bad-request"
  | ["c20.ident", flavor, arm, cert, header] => some <| (do
      let a ← armFor (arm == "plain") true
      let c : Option Nat := if cert == "none" then none else cert.toNat?
      let h : Option (Option Nat) ← if header == "none" then some none else if header == "bad" then some (some none)
                                     else (parseIdent flavor header).map some
      pure (showDerived (deriveIdentity a { cert := c, header := h }))).getD "bad-request"
  | _ => none

/-! Spec-side oracle: a route mounted by `h2h_router` / `s2s_router` must answer 401 to a request
without the matching peer identity; collector routes must not answer 401; under TLS the header is
ignored; without TLS only the header counts. -/
def validIdentString (server v : String) : Bool :=
  if server == "mpc" then v == "A" || v == "B" || v == "C"
  else
    -- what `u32::from_str` accepts
    let d : String := if v.startsWith "+" then (v.drop 1).toString else v
    d.length > 0 && d.all Char.isDigit && (d.toNat?.getD 4294967296) < 4294967296

def oracle (toks : List String) (impl : String) : Option String :=
  match toks with
  | ["c20.live", server, proto, bind, group, _m, target, cert, hdr, _body] => some <|
      let protected_ := group == "h2h" || group == "s2s"
      let ownPrefix := if server == "mpc" then "h=" else "s="
      let ownHdr : Option String := if hdr.startsWith ownPrefix then some (hdr.drop 2).toString else none
      let arm := s!"{proto}/{bind}-bound"
      if proto == "tls" then
        -- under TLS the answer is a function of the certificate only
        if cert == "x" then
          (if impl == "conn-err" || impl == "401" || !protected_ then "holds"
           else s!"fails {arm}: {target} answered {impl} to a certificate that belongs to no peer")
        else if cert == "none" then
          if protected_ then
            (if impl == "401" then "holds"
             else s!"fails {arm}: {group} route {target} answered {impl} over TLS WITHOUT a client certificate (identity header {hdr})")
          else
            (if impl == "401" then s!"fails {arm}: report-collector route {target} requires a peer identity"
             else if impl == "conn-err" then s!"fails {arm}: report-collector route {target} unreachable without a client certificate"
             else if impl == "other:400" && hdr != "none" then s!"fails {arm}: identity header {hdr} has an effect under TLS ({impl})"
             else "holds")
        else
          (if impl == "401" && protected_ then s!"fails {arm}: peer with certificate {cert} refused on {target}"
           else if impl == "401" then s!"fails {arm}: report-collector route {target} requires a peer identity"
           else if impl == "conn-err" then s!"fails {arm}: peer certificate {cert} not accepted"
           else if impl == "other:400" && hdr != "none" then s!"fails {arm}: identity header {hdr} has an effect under TLS ({impl})"
           else "holds")
      else if cert != "none" then "unknown"
      else if !protected_ then
        (if impl == "401" then s!"fails {arm}: report-collector route {target} requires a peer identity"
         else if impl == "conn-err" then s!"fails {arm}: no response"
         else "holds")
      else match ownHdr with
        | none =>
          (if impl == "401" then "holds"
           else s!"fails {arm}: {group} route {target} answered {impl} without an identity header of its flavor (header {hdr})")
        | some v =>
          if validIdentString server v then
            (if impl == "401" || impl == "conn-err" then s!"fails {arm}: header identity {v} ignored although TLS is disabled ({impl})" else "holds")
          else
            (if impl == "401" || impl == "other:400" then "holds"
             else s!"fails {arm}: malformed identity header {v} accepted on {target} ({impl})")
  | ["c20.req", server, group, _m, _target, ident, _body] => some <|
      let hasHelper := ident == "helper" || ident == "both"
      let hasShard := ident == "shard" || ident == "both"
      if group == "h2h" then
        if !hasHelper then (if impl == "401" then "holds" else s!"fails helper-to-helper route answered {impl} to a caller without a helper identity")
        else (if impl == "401" then "fails authenticated helper refused" else "holds")
      else if group == "s2s" then
        if !hasShard then (if impl == "401" then "holds" else s!"fails shard-to-shard route answered {impl} to a caller without a shard identity")
        else (if impl == "401" then "fails authenticated shard refused" else "holds")
      else if group == "query" || group == "top" then
        (if impl == "401" then s!"fails report-collector route on the {server} server requires a peer identity" else "holds")
      else (if impl == "pass" then "fails a path outside the route table was served" else "holds")
  | ["c20.ident", _flavor, arm, cert, header] => some <|
      if arm == "tls" then
        (if impl == (if cert == "none" then "ext:none" else s!"ext:{cert}") then "holds"
         else s!"fails under TLS the identity is {impl} although the certificate identifies {cert} (header {header})")
      else
        if header == "none" then (if impl == "ext:none" then "holds" else s!"fails identity {impl} without certificate or header")
        else if impl == "ext:none" then "fails header ignored although TLS is disabled" else "holds"
  | _ => none

end IpaVerif.Driver.C20
