import IpaVerif.Model.Util
import IpaVerif.Model.Auth
/-! Line-protocol handlers for property C20 (model side + spec-side oracle). Import-free. -/
namespace IpaVerif.Driver.C20
open IpaVerif.Util IpaVerif.Auth IpaVerif.Generated.Routes

def parseMethod : String → Option Method
  | "GET" => some .get | "POST" => some .post | "PUT" => some .put | "DELETE" => some .delete
  | "PATCH" => some .patch | "HEAD" => some .head | "OPTIONS" => some .options
  | _ => none

/-- path part of `path?query`, split into non-empty segments -/
def segments (target : String) : List String :=
  (((target.splitOn "?").headD "").splitOn "/").filter (· ≠ "")

def showResp : Resp → String
  | .notFound => "404"
  | .methodNotAllowed => "405"
  | .unauthorized => "401"
  | .handled _ => "pass"

def tableOf : String → Option (List Entry)
  | "mpc" => some (flatten mpcRouter)
  | "shard" => some (flatten shardRouter)
  | _ => none

def parseIdent (flavor s : String) : Option (Option Nat) :=
  if flavor == "helper" then
    match s with
    | "A" => some (some 0) | "B" => some (some 1) | "C" => some (some 2)
    | _ => some none
  else
    -- ShardIndex: `s.parse::<u32>()` (decimal digits, one optional leading `+`, leading zeros allowed)
    let d : String := if s.startsWith "+" then (s.drop 1).toString else s
    match d.toNat? with
    | some n => if n < 4294967296 && d.all Char.isDigit then some (some n) else some none
    | none => some none

def showDerived : Derived Nat → String
  | .ext none => "ext:none"
  | .ext (some i) => s!"ext:{i}"
  | .rejected => "rejected"

def showLive : LiveResp → String
  | .connErr => "conn-err"
  | .rejected => "other:400"        -- `Error::InvalidHeader` → `StatusCode::BAD_REQUEST`
  | .resp .unauthorized => "401"
  | .resp .notFound => "other:404"
  | .resp .methodNotAllowed => "other:405"
  | .resp (.handled _) => "ok"      -- the suite sends well-formed requests to a stub request handler

/-- `none | h=<v> | s=<v>` → the identity header of the server's own flavor (a header of the other
flavor is never read) -/
def parseLiveHeader (server hdr : String) : Option (Option (Option Nat)) :=
  if hdr == "none" then some none
  else if hdr.startsWith "h=" then
    (if server == "mpc" then (parseIdent "helper" (hdr.drop 2).toString).map some else some none)
  else if hdr.startsWith "s=" then
    (if server == "shard" then (parseIdent "shard" (hdr.drop 2).toString).map some else some none)
  else none

def parseLiveCert (cert : String) : Option (ClientCert Nat) :=
  if cert == "none" then some .none
  else if cert == "x" then some .stranger
  else cert.toNat?.map .peer

/-! ### `c20.chain`: a client presenting a certificate chain -/

/-- `0|1|2` = test certificate i as on file, `r<i>` = re-issued for key i, `l<i>` = leaf for a fresh
key minted with key i -/
def parseTestCert (t : String) : Option TestCert :=
  if t.startsWith "r" then (t.drop 1).toString.toNat?.map .reissued
  else if t.startsWith "l" then (t.drop 1).toString.toNat?.map .leaf
  else t.toNat?.map .onFile

def parseChain (s : String) : Option (List TestCert) :=
  if s == "-" then some [] else (s.splitOn ",").mapM parseTestCert

/-- `-` (no key) | `k<i>` (key of test certificate i) | `kl<i>` (the fresh key of `l<i>`) -/
def parseKey (s : String) : Option (Option Nat) :=
  if s == "-" then some none
  else if s.startsWith "kl" then (s.drop 2).toString.toNat?.map (fun i => some (100 + i))
  else if s.startsWith "k" then (s.drop 1).toString.toNat?.map some else none

def isStepHandler (h : String) : Bool := h.startsWith "query::step::"

def showFrom : Option Nat → String
  | none => "none"
  | some i => toString i

/-- like `showLive`, plus the peer the step data was attributed to -/
def showChain (r : ChainResp Nat) : String :=
  match r.resp with
  | .resp (.handled h) => if isStepHandler h then s!"ok from={showFrom r.attributed}" else "ok"
  | other => showLive other

def handle (toks : List String) : Option String :=
  match toks with
  | ["c20.live", server, proto, bind, _group, m, target, cert, hdr, _body] => some <| (do
      let routes ← tableOf server
      let tls ← if proto == "tls" then some true else if proto == "plain" then some false else none
      let pre ← if bind == "pre" then some true else if bind == "self" then some false else none
      let arm ← armFor (!tls) pre
      let c : Client Nat := { tls := tls, cert := (← parseLiveCert cert), header := (← parseLiveHeader server hdr) }
      let f : Flavor := if server == "mpc" then .helper else .shard
      pure (showLive (serve f routes arm c (segments target) (← parseMethod m)))).getD "bad-request"
  | ["c20.chain", server, proto, bind, _group, m, target, key, chain, hdr, _body] => some <| (do
      let routes ← tableOf server
      let tls ← if proto == "tls" then some true else if proto == "plain" then some false else none
      let pre ← if bind == "pre" then some true else if bind == "self" then some false else none
      let arm ← armFor (!tls) pre
      let f : Flavor := if server == "mpc" then .helper else .shard
      let header ← parseLiveHeader server hdr
      let k ← parseKey key
      let ch ← parseChain chain
      let meth ← parseMethod m
      if tls then
        match k, ch with
        | none, [] =>
          pure (showChain (serveChain f routes arm (identifyCert (testPeers f)) TestCert.key (testAnchored f) 0 [] header (segments target) meth))
        | some kk, c :: t =>
          pure (showChain (serveChain f routes arm (identifyCert (testPeers f)) TestCert.key (testAnchored f) kk (c :: t) header (segments target) meth))
        | _, _ => none
      else
        -- plain HTTP: no certificate exists; the identity is the header's
        match k, ch with
        | none, [] =>
          let r := serve f routes arm { tls := false, cert := .none, header := header } (segments target) meth
          let id : Option Nat := match deriveIdentity arm { cert := (none : Option Nat), header := header } with
            | .ext i => i
            | .rejected => none
          pure (showChain ⟨r, match r with | .resp (.handled _) => id | _ => none⟩)
        | _, _ => none).getD "bad-request"
  | ["c20.ctor", server, dh, tlsTok, bind, hdr] => some <| (do
      let routes ← tableOf server
      let d ← if dh == "1" then some true else if dh == "0" then some false else none
      let t ← if tlsTok == "some" then some true else if tlsTok == "none" then some false else none
      let pre ← if bind == "pre" then some true else if bind == "self" then some false else none
      let f : Flavor := if server == "mpc" then .helper else .shard
      let header ← parseLiveHeader server hdr
      let o ← boot ⟨d, t⟩ pre
      match o with
      | .refuses => pure "no-start"
      | .serves _ =>
        let path := ["query", "0", "step", "a"]
        let ask (c : Client Nat) : String := showLive (serveBooted f routes (some o) c path .post)
        pure s!"plain={ask ⟨false, .none, header⟩} tls={ask ⟨true, .none, header⟩} cert={ask ⟨true, .peer 1, none⟩}").getD "bad-request"
  | ["c20.req", server, _group, m, target, ident, _body] => some <| (do
      let routes ← tableOf server
      let r : Req := { path := segments target, method := (← parseMethod m),
                       helperId := ident == "helper" || ident == "both", shardId := ident == "shard" || ident == "both" }
      pure (showResp (respond routes r))).getD "bad-request"
  | ["c20.ident", flavor, arm, cert, header] => some <| (do
      let a ← armFor (arm == "plain") true
      let c : Option Nat := if cert == "none" then none else cert.toNat?
      let h : Option (Option Nat) ← if header == "none" then some none else if header == "bad" then some (some none)
                                     else (parseIdent flavor header).map some
      pure (showDerived (deriveIdentity a { cert := c, header := h }))).getD "bad-request"
  | _ => none

/-! Spec-side oracle: a route mounted by `h2h_router` / `s2s_router` must answer 401 to a request
without the matching peer identity; collector routes must not answer 401; under TLS the header is
ignored; without TLS only the header counts. -/
def validIdentString (server v : String) : Bool :=
  if server == "mpc" then v == "A" || v == "B" || v == "C"
  else
    -- what `u32::from_str` accepts
    let d : String := if v.startsWith "+" then (v.drop 1).toString else v
    d.length > 0 && d.all Char.isDigit && (d.toNat?.getD 4294967296) < 4294967296

def oracle (toks : List String) (impl : String) : Option String :=
  match toks with
  | ["c20.live", server, proto, bind, group, _m, target, cert, hdr, _body] => some <|
      let protected_ := group == "h2h" || group == "s2s"
      let ownPrefix := if server == "mpc" then "h=" else "s="
      let ownHdr : Option String := if hdr.startsWith ownPrefix then some (hdr.drop 2).toString else none
      let arm := s!"{proto}/{bind}-bound"
      if proto == "tls" then
        -- under TLS the answer is a function of the certificate only
        if cert == "x" then
          (if impl == "conn-err" || impl == "401" || !protected_ then "holds"
           else s!"fails {arm}: {target} answered {impl} to a certificate that belongs to no peer")
        else if cert == "none" then
          if protected_ then
            (if impl == "401" then "holds"
             else s!"fails {arm}: {group} route {target} answered {impl} over TLS WITHOUT a client certificate (identity header {hdr})")
          else
            (if impl == "401" then s!"fails {arm}: report-collector route {target} requires a peer identity"
             else if impl == "conn-err" then s!"fails {arm}: report-collector route {target} unreachable without a client certificate"
             else if impl == "other:400" && hdr != "none" then s!"fails {arm}: identity header {hdr} has an effect under TLS ({impl})"
             else "holds")
        else
          (if impl == "401" && protected_ then s!"fails {arm}: peer with certificate {cert} refused on {target}"
           else if impl == "401" then s!"fails {arm}: report-collector route {target} requires a peer identity"
           else if impl == "conn-err" then s!"fails {arm}: peer certificate {cert} not accepted"
           else if impl == "other:400" && hdr != "none" then s!"fails {arm}: identity header {hdr} has an effect under TLS ({impl})"
           else "holds")
      else if cert != "none" then "unknown"
      else if !protected_ then
        (if impl == "401" then s!"fails {arm}: report-collector route {target} requires a peer identity"
         else if impl == "conn-err" then s!"fails {arm}: no response"
         else "holds")
      else match ownHdr with
        | none =>
          (if impl == "401" then "holds"
           else s!"fails {arm}: {group} route {target} answered {impl} without an identity header of its flavor (header {hdr})")
        | some v =>
          if validIdentString server v then
            (if impl == "401" || impl == "conn-err" then s!"fails {arm}: header identity {v} ignored although TLS is disabled ({impl})" else "holds")
          else
            (if impl == "401" || impl == "other:400" then "holds"
             else s!"fails {arm}: malformed identity header {v} accepted on {target} ({impl})")
  | ["c20.chain", server, proto, bind, group, _m, target, key, chain, hdr, _body] => some <|
      let protected_ := group == "h2h" || group == "s2s"
      let arm := s!"{proto}/{bind}-bound"
      let toks : List String := if chain == "-" then [] else chain.splitOn ","
      -- the peer the step data was attributed to, if the answer names one
      let from_ : Option String := if impl.startsWith "ok from=" then some (impl.drop 8).toString else none
      if proto == "tls" then
        -- spec: the only certificate the caller is authenticated for is the FIRST one, and only if it holds
        -- its key; it is a peer iff that certificate is byte for byte the one on file (0 or 1)
        let head := toks.headD "-"
        let headKey : String := if head.startsWith "r" then (head.drop 1).toString else head
        let possession := head != "-" && key == "k" ++ headKey
        let auth : Option String := if possession && (head == "0" || head == "1") then some head else none
        match from_ with
        | some j =>
          if auth == some j then "holds"
          else s!"fails {arm}: {target} processed as coming from peer {j}, but the caller (key {key}, chain {chain}) authenticated " ++
               (match auth with | some a => s!"as peer {a}" | none => "as nobody: its end-entity certificate is not on file / not its own") ++
               s!" (identity header {hdr})"
        | none =>
          if !possession && head != "-" then
            (if impl == "conn-err" || impl == "401" then "holds"
             else s!"fails {arm}: {target} answered {impl} to a caller presenting certificate {head} without holding its key ({key})")
          else match auth with
          | none =>
            if protected_ then
              (if impl == "401" || impl == "conn-err" then "holds"
               else s!"fails {arm}: {group} route {target} answered {impl} to a caller whose authenticated certificate ({head}) is on file for no peer (chain {chain}, header {hdr})")
            else
              (if impl == "401" then s!"fails {arm}: open route {target} requires a peer identity"
               else if impl == "other:400" && hdr != "none" then s!"fails {arm}: identity header {hdr} has an effect under TLS ({impl})"
               else "holds")
          | some a =>
            (if impl == "401" then s!"fails {arm}: peer {a} (own certificate first, chain {chain}) refused on {target}"
             else if impl == "conn-err" then s!"fails {arm}: peer certificate {a} with its key not accepted (chain {chain})"
             else if impl == "other:400" && hdr != "none" then s!"fails {arm}: identity header {hdr} has an effect under TLS ({impl})"
             else if impl == "ok from=none" then s!"fails {arm}: step data of peer {a} attributed to nobody"
             else "holds")
      else
        -- plain HTTP (test-only mode): the identity is what the header of the server's flavor says
        let ownPrefix := if server == "mpc" then "h=" else "s="
        let ownHdr : Option String := if hdr.startsWith ownPrefix then some (hdr.drop 2).toString else none
        let claimed : Option String := match ownHdr with
          | some v => if validIdentString server v then
                        some (if server == "mpc" then (if v == "A" then "0" else if v == "B" then "1" else "2")
                              else toString (((if v.startsWith "+" then (v.drop 1).toString else v).toNat?).getD 0))
                      else none
          | none => none
        match from_ with
        | some j => if claimed == some j then "holds" else s!"fails {arm}: {target} processed as coming from {j} but the header says {hdr}"
        | none =>
          if protected_ && claimed.isNone then
            (if impl == "401" || impl == "other:400" then "holds" else s!"fails {arm}: {group} route {target} answered {impl} without a valid identity header ({hdr})")
          else if impl == "401" then s!"fails {arm}: {target} refused although the header says {hdr}"
          else "holds"
  | ["c20.ctor", server, dh, tlsTok, bind, hdr] => some <|
      -- spec side, from the request tokens only: an identity header may count only if the caller of the
      -- constructor wrote `disable_https: true`; HTTPS needs key material; a valid configuration must serve
      let cfg := s!"ServerConfig(disable_https={if dh == "1" then "true" else "false"}, tls={tlsTok}) / {bind}-bound {server} server"
      let ownPrefix := if server == "mpc" then "h=" else "s="
      let ownHdr : Option String := if hdr.startsWith ownPrefix then some (hdr.drop 2).toString else none
      let claims : Bool := match ownHdr with | some v => validIdentString server v | none => false
      if impl == "no-start" then
        (if dh == "0" && tlsTok == "none" then "holds"
         else s!"fails {cfg}: a valid configuration refuses to start")
      else
        match impl.splitOn " " with
        | [p, t, c] =>
          let plain := (p.drop 6).toString
          let tls := (t.drop 4).toString
          let cert := (c.drop 5).toString
          if !(p.startsWith "plain=" && t.startsWith "tls=" && c.startsWith "cert=") then s!"fails malformed response {impl}"
          else if dh == "0" then
            -- TLS was NOT explicitly disabled: nothing may be served to a caller without a verified certificate
            if plain == "ok" then
              s!"fails {cfg}: TLS was never explicitly disabled, yet the step route answered ok over plain HTTP to a caller that only sent the identity header {hdr}"
            else if tls == "ok" then
              s!"fails {cfg}: the step route answered ok over TLS to a caller without certificate (identity header {hdr})"
            else if plain != "conn-err" then
              s!"fails {cfg}: HTTPS was requested but the server speaks plain HTTP ({plain})"
            else if tlsTok == "none" then
              s!"fails {cfg}: HTTPS was requested without key material, yet a server is running ({impl})"
            else if tls != "401" then s!"fails {cfg}: TLS caller without certificate got {tls} instead of 401"
            else if cert != "ok" then s!"fails {cfg}: the certificate of peer 1 was answered {cert}"
            else "holds"
          else
            -- TLS explicitly disabled (test-only mode): plain HTTP, the header of the server's flavor decides
            if tls == "ok" || cert == "ok" then s!"fails {cfg}: TLS is disabled but a TLS client was served ({impl})"
            else if claims then
              (if plain == "ok" then "holds" else s!"fails {cfg}: header identity {hdr} ignored although TLS is explicitly disabled ({plain})")
            else if ownHdr.isSome then
              (if plain == "401" || plain == "other:400" then "holds" else s!"fails {cfg}: malformed identity header {hdr} accepted ({plain})")
            else
              (if plain == "401" then "holds" else s!"fails {cfg}: the step route answered {plain} without an identity header of its flavor ({hdr})")
        | _ => s!"fails malformed response {impl}"
  | ["c20.req", server, group, _m, _target, ident, _body] => some <|
      let hasHelper := ident == "helper" || ident == "both"
      let hasShard := ident == "shard" || ident == "both"
      if group == "h2h" then
        if !hasHelper then (if impl == "401" then "holds" else s!"fails helper-to-helper route answered {impl} to a caller without a helper identity")
        else (if impl == "401" then "fails authenticated helper refused" else "holds")
      else if group == "s2s" then
        if !hasShard then (if impl == "401" then "holds" else s!"fails shard-to-shard route answered {impl} to a caller without a shard identity")
        else (if impl == "401" then "fails authenticated shard refused" else "holds")
      else if group == "query" || group == "top" then
        (if impl == "401" then s!"fails report-collector route on the {server} server requires a peer identity" else "holds")
      else (if impl == "pass" then "fails a path outside the route table was served" else "holds")
  | ["c20.ident", _flavor, arm, cert, header] => some <|
      if arm == "tls" then
        (if impl == (if cert == "none" then "ext:none" else s!"ext:{cert}") then "holds"
         else s!"fails under TLS the identity is {impl} although the certificate identifies {cert} (header {header})")
      else
        if header == "none" then (if impl == "ext:none" then "holds" else s!"fails identity {impl} without certificate or header")
        else if impl == "ext:none" then "fails header ignored although TLS is disabled" else "holds"
  | _ => none

end IpaVerif.Driver.C20
