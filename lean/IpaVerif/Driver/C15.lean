import IpaVerif.Model.Util
import IpaVerif.Model.SeqJoin
import IpaVerif.Driver.C15V
import IpaVerif.Driver.C15Mt
/-! Line-protocol handlers for property C15 (model side). Import-free.

  c15.join <w> <n> <op>…     seq_join over a source with a budget; ops: `s<k>` source may yield k more
                             items, `r<i>` future i becomes ready, `p` one poll_next
  c15.dep <w> <n> <d> <polls> every task k is ready once tasks k+1..k+d have been polled; source always ready
  c15.try <w> <n> <errs> <op>…  seq_try_join_all; ops `r<i>`, `p` (one poll of the TryCollect future)
  c15.par <n> <errs> <op>…      parallel_join (futures::try_join_all); ops `r<i>`, `p`
  c15.tryp <w> <n> <errs> <op>… seq_join(w, source).try_collect() over a source that may be Pending; ops `s<k>`, `r<i>`, `p`
  c15.hint <try|ctx|par> <shape> <w> <n> <d> <polls>   seq_try_join_all / SeqJoin::try_join / parallel_join over an
                             iterator whose size_hint lower bound is below the number of items (`exact`, `filter`,
                             `flatmap`, `takewhile`, `chain<k>`); task k is ready once tasks k+1..k+d were polled;
                             response `lo=<size_hint lower bound>` then one token per poll of the returned future
-/
namespace IpaVerif.Driver.C15
open IpaVerif.Util IpaVerif.SeqJoin

def plus (l : List Nat) : String := if l.isEmpty then "-" else String.intercalate "+" (l.map toString)

def splitOp (t : String) : Option (Char × String) :=
  match t.toList with
  | c :: rest => some (c, String.ofList rest)
  | [] => none

def obsStr (o : Obs) (len : Nat) : String :=
  match o.out with
  | .item i => s!"I{i}/{plus o.polled}/{o.pulled}@{len}"
  | .pending => s!"P/{plus o.polled}/{o.pulled}@{len}"
  | .finished => s!"N/{plus o.polled}/{o.pulled}@{len}"

def joinOps : State → Nat → List Nat → List String → List String → Option (List String)
  | _, _, _, [], acc => some acc.reverse
  | s, budget, rdy, t :: ts, acc => do
    let (c, arg) ← splitOp t
    match c with
    | 's' => joinOps s (budget + (← arg.toNat?)) rdy ts ("s" :: acc)
    | 'r' => joinOps s budget ((← arg.toNat?) :: rdy) ts ("r" :: acc)
    | 'p' =>
      let (s', o) := step s { budget := budget, ready := fun _ i => rdy.contains i }
      joinOps s' (budget - o.pulled) rdy ts (obsStr o s'.active.length :: acc)
    | _ => none

def depRun (n d : Nat) : Nat → State → List String → List String
  | 0, _, acc => acc.reverse
  | polls + 1, s, acc =>
    let (s', o) := step s { budget := s.cap + 1, ready := depReady n d }
    depRun n d polls s' (obsStr o s'.active.length :: acc)

def tryStr : TryOut → String
  | .pending => "P"
  | .ok ids => s!"OK:{plus ids}"
  | .err i => s!"ERR:{i}"

def tryOps (errs : List Nat) : Option (State × List Nat) → List Nat → List String → List String → Option (List String)
  | _, _, [], acc => some acc.reverse
  | st, rdy, t :: ts, acc => do
    let (c, arg) ← splitOp t
    match c with
    | 'r' => tryOps errs st ((← arg.toNat?) :: rdy) ts ("r" :: acc)
    | 'p' =>
      match st with
      | none => tryOps errs none rdy ts ("gone" :: acc)
      | some (s, collected) =>
        let (s', collected', o, polled) :=
          tryPoll (errs.contains ·) (fun _ i => rdy.contains i) (s.src.length + s.active.length + 2) s collected []
        let st' := if o == .pending then some (s', collected') else none
        tryOps errs st' rdy ts (s!"{tryStr o}/{plus polled}" :: acc)
    | _ => none

/-- `c15.tryp`: `seq_join(w, source).try_collect()` with a source that may be pending (`s<k>`). -/
def trypOps (errs : List Nat) : Option (State × List Nat) → Nat → List Nat → List String → List String → Option (List String)
  | _, _, _, [], acc => some acc.reverse
  | st, budget, rdy, t :: ts, acc => do
    let (c, arg) ← splitOp t
    match c with
    | 's' => trypOps errs st (budget + (← arg.toNat?)) rdy ts ("s" :: acc)
    | 'r' => trypOps errs st budget ((← arg.toNat?) :: rdy) ts ("r" :: acc)
    | 'p' =>
      match st with
      | none => trypOps errs none budget rdy ts ("gone" :: acc)
      | some (s, collected) =>
        let (s', b', collected', o, polled) :=
          tryPollB (errs.contains ·) (fun _ i => rdy.contains i) (s.src.length + s.active.length + 2) s budget collected []
        let st' := if o == .pending then some (s', collected') else none
        trypOps errs st' b' rdy ts (s!"{tryStr o}/{plus polled}" :: acc)
    | _ => none

def parOps (errs : List Nat) : Option (List (Nat × Bool)) → List Nat → List String → List String → Option (List String)
  | _, _, [], acc => some acc.reverse
  | st, rdy, t :: ts, acc => do
    let (c, arg) ← splitOp t
    match c with
    | 'r' => parOps errs st ((← arg.toNat?) :: rdy) ts ("r" :: acc)
    | 'p' =>
      match st with
      | none => parOps errs none rdy ts ("gone" :: acc)
      | some tasks =>
        let (tasks', o, polled) := parPoll (errs.contains ·) (rdy.contains ·) tasks
        let st' := if o == .pending then some tasks' else none
        parOps errs st' rdy ts (s!"{tryStr o}/{plus polled}" :: acc)
    | _ => none

/-- `size_hint().0` of the iterator shapes used by `c15.hint`. -/
def hintLower (shape : String) (n : Nat) : Option Nat :=
  if shape = "exact" then some n
  else if shape = "filter" ∨ shape = "flatmap" ∨ shape = "takewhile" then some 0
  else if shape.startsWith "chain" then (shape.drop 5).toString.toNat?.map (min · n)
  else none

def hintRun (n d : Nat) : Nat → Option (State × List Nat) → List String → List String
  | 0, _, acc => acc.reverse
  | polls + 1, none, acc => hintRun n d polls none ("gone" :: acc)
  | polls + 1, some (s, collected), acc =>
    let (s', collected', o, polled) :=
      tryPoll (fun _ => false) (depReady n d) (s.src.length + s.active.length + 2) s collected []
    hintRun n d polls (if o == .pending then some (s', collected') else none) (s!"{tryStr o}/{plus polled}" :: acc)

def join (l : List String) : String := String.intercalate " " l

def handle (toks : List String) : Option String :=
  match toks with
  | "c15.vjoin" :: _ => C15V.handle toks
  | "c15mt.src" :: _ => C15Mt.handle toks
  | "c15mt.slow" :: _ => C15Mt.handle toks
  | "c15.vcollect" :: _ => C15V.handle toks
  | "c15.join" :: w :: n :: ops => some <| Id.run do
      let some w := w.toNat? | return "bad-request"
      let some n := n.toNat? | return "bad-request"
      match joinOps (State.new n w) 0 [] ops [] with
      | some r => return join (s!"cap={w}" :: r)
      | none => return "bad-request"
  | ["c15.dep", w, n, d, polls] => some <| Id.run do
      let some w := w.toNat? | return "bad-request"
      let some n := n.toNat? | return "bad-request"
      let some d := d.toNat? | return "bad-request"
      let some polls := polls.toNat? | return "bad-request"
      return join (depRun n d polls (State.new n w) [])
  | "c15.try" :: w :: n :: errs :: ops => some <| Id.run do
      let some w := w.toNat? | return "bad-request"
      let some n := n.toNat? | return "bad-request"
      let some errs := parseNatList errs | return "bad-request"
      match tryOps errs (some (State.new n w, [])) [] ops [] with
      | some r => return join r
      | none => return "bad-request"
  | "c15.tryp" :: w :: n :: errs :: ops => some <| Id.run do
      let some w := w.toNat? | return "bad-request"
      let some n := n.toNat? | return "bad-request"
      let some errs := parseNatList errs | return "bad-request"
      match trypOps errs (some (State.new n w, [])) 0 [] ops [] with
      | some r => return join r
      | none => return "bad-request"
  | ["c15.hint", api, shape, w, n, d, polls] => some <| Id.run do
      let some w := w.toNat? | return "bad-request"
      let some n := n.toNat? | return "bad-request"
      let some d := d.toNat? | return "bad-request"
      let some polls := polls.toNat? | return "bad-request"
      let some lo := hintLower shape n | return "bad-request"
      if api = "par" then return "judge"
      if api ≠ "try" ∧ api ≠ "ctx" then return "bad-request"
      -- the window comes from `active` (= w) only
      return join (s!"lo={lo}" :: hintRun n d polls (some (seqTryJoinAllNew w n lo, [])) [])
  | "c15.par" :: n :: errs :: ops => some <| Id.run do
      let some n := n.toNat? | return "bad-request"
      let some errs := parseNatList errs | return "bad-request"
      match parOps errs (some ((List.range n).map (·, false))) [] ops [] with
      | some r => return join r
      | none => return "bad-request"
  -- multi-threaded implementation (outputs and order only)
  | ["c15mt.join", _, n, errs, _] => some <| Id.run do
      let some n := n.toNat? | return "bad-request"
      let some errs := parseNatList errs | return "bad-request"
      match (List.range n).find? (errs.contains ·) with
      | some e => return s!"ERR:{e}"
      | none => return s!"OK:{plus (List.range n)}"
  | ["c15mt.stream", _, n, _] => some <| Id.run do
      let some n := n.toNat? | return "bad-request"
      return s!"OK:{plus (List.range n)}"
  | ["c15mt.par", _, _, _] => some "judge"
  | ["c15mt.dep", w, n, d] => some <| Id.run do
      let some w := w.toNat? | return "bad-request"
      let some n := n.toNat? | return "bad-request"
      let some d := d.toNat? | return "bad-request"
      -- `window_dependency_progress`: completes when dependencies reach at most w-1 tasks ahead
      if d + 1 ≤ w ∨ n ≤ w then return s!"OK:{plus (List.range n)}" else return "hang"
  | t :: _ => if t.startsWith "c15." then some "bad-request" else none
  | [] => none

/-! ## Spec-side oracle (statement of C15, independent of the model of `poll_next`) -/

def parsePlus (s : String) : Option (List Nat) :=
  if s = "-" then some [] else (s.splitOn "+").mapM String.toNat?

structure JSt where
  emitted : Nat := 0          -- number of items emitted so far; must be 0,1,2,… in order
  pulled : Nat := 0
  budget : Nat := 0
  rdy : List Nat := []
  resolved : List Nat := []   -- tasks whose future has returned Ready
  finished : Bool := false
  bad : Option String := none

def jflag (o : JSt) (why : String) : JSt := if o.bad.isSome then o else { o with bad := some why }

def joinOracleStep (w n : Nat) (o : JSt) (t resp : String) : JSt :=
  match splitOp t with
  | some ('s', arg) => { o with budget := o.budget + arg.toNat?.getD 0 }
  | some ('r', arg) => { o with rdy := arg.toNat?.getD 0 :: o.rdy }
  | some ('p', _) =>
    match (resp.splitOn "@").getD 0 "" |>.splitOn "/" with
    | [out, polled, pulled] =>
      let polled := (parsePlus polled).getD []
      let pulledNow := pulled.toNat?.getD 0
      let o := { o with pulled := o.pulled + pulledNow, budget := o.budget - pulledNow,
                        resolved := o.resolved ++ polled.filter (o.rdy.contains ·) }
      let inflight := o.pulled - o.emitted
      let o := if polled.any (fun i => i < o.emitted ∨ i ≥ o.pulled) then jflag o "a future outside the window was polled" else o
      -- "a window of w": never more than w tasks drawn and not yet handed out (counted against the REQUESTED
      -- window, after this call's draws and before its result is handed out), however often the join is re-polled
      let o := if inflight > w then
          jflag o s!"{inflight} tasks in flight (drawn from the source, result not yet handed out) with a window of {w}" else o
      if out.startsWith "I" then
        let id := ((out.drop 1).toString.toNat?).getD 0
        let o := if id ≠ o.emitted then jflag o s!"item {id} emitted, expected {o.emitted} (order / exactly once)" else o
        let o := if !o.resolved.contains id then jflag o s!"item {id} emitted before its future completed" else o
        { o with emitted := o.emitted + 1 }
      else if out == "N" then
        let o := if o.emitted ≠ n then jflag o s!"stream ended after {o.emitted} of {n} items" else o
        { o with finished := true }
      else if out == "P" then
        -- window: while the source still has items and is willing to yield, at least w tasks are in flight
        let o := if o.pulled < n ∧ o.budget > 0 ∧ inflight < w then
            jflag o s!"only {inflight} tasks in flight while the source has items (window {w})" else o
        -- all in-flight unresolved futures were polled
        let want := (List.range inflight).map (· + o.emitted) |>.filter (fun i => !(o.resolved.contains i) ∨ polled.contains i)
        let o := if want.any (fun i => !polled.contains i) then jflag o "an in-flight pending future was not polled on Pending" else o
        -- head of line: Pending although the first unemitted task has completed
        if o.resolved.contains o.emitted ∧ inflight > 0 then jflag o "Pending although the next item is ready" else o
      else jflag o "unparsable response"
    | _ => jflag o "unparsable response"
  | _ => o

def oracle (toks : List String) (impl : String) : Option String :=
  match toks with
  | "c15.vjoin" :: _ => C15V.oracle toks impl
  | "c15mt.src" :: _ => C15Mt.oracle toks impl
  | "c15mt.slow" :: _ => C15Mt.oracle toks impl
  | "c15.vcollect" :: _ => C15V.oracle toks impl
  | "c15.join" :: w :: n :: ops => some <| Id.run do
      let some w := w.toNat? | return "unknown"
      let some n := n.toNat? | return "unknown"
      let resps := (impl.splitOn " ").drop 1
      if resps.length ≠ ops.length then return "unknown"
      let o := (ops.zip resps).foldl (fun o (t, r) => joinOracleStep w n o t r) {}
      match o.bad with
      | some why => return "fails " ++ why
      | none => return "holds"
  | ["c15.dep", w, n, d, polls] => some <| Id.run do
      let some w := w.toNat? | return "unknown"
      let some n := n.toNat? | return "unknown"
      let some d := d.toNat? | return "unknown"
      let some polls := polls.toNat? | return "unknown"
      let outs := (impl.splitOn " ").map fun r => (r.splitOn "/").getD 0 ""
      let items := outs.filter (·.startsWith "I")
      let want := (List.range n).map fun i => s!"I{i}"
      if items ≠ want.take items.length then return "fails items out of order"
      -- bounded window: tasks drawn minus results handed out never exceeds w (at the peak of each call)
      let mut drawn := 0
      let mut emitted := 0
      for r in impl.splitOn " " do
        match ((r.splitOn "@").getD 0 "").splitOn "/" with
        | [out, _, pulled] =>
          drawn := drawn + pulled.toNat?.getD 0
          if drawn - emitted > w then return s!"fails {drawn - emitted} tasks in flight (drawn from the source, result not yet handed out) with a window of {w}"
          if out.startsWith "I" then emitted := emitted + 1
        | _ => pure ()
      -- dependencies within the window: the join must complete within 2n+1 polls
      if d + 1 ≤ w ∧ polls ≥ 2 * n + 1 then
        if items.length ≠ n ∨ !outs.contains "N" then return s!"fails no completion within {polls} polls although dependencies reach only {d} < window {w}"
      return "holds"
  | ["c15.hint", api, shape, w, n, d, polls] => some <| Id.run do
      -- statement only: results in input order; dependencies that stay inside the window of `active`
      -- items never block the join, whatever the iterator says about its length
      let some w := w.toNat? | return "unknown"
      let some n := n.toNat? | return "unknown"
      let some d := d.toNat? | return "unknown"
      let some polls := polls.toNat? | return "unknown"
      let toks := impl.splitOn " "
      let lo := (toks.headD "").drop 3 |>.toString
      let outs := (toks.drop 1).map fun r => (r.splitOn "/").getD 0 ""
      if outs.length ≠ polls then return "unknown"
      let fin := outs.filter (· ≠ "P") |>.filter (· ≠ "gone")
      let want := s!"OK:{plus (List.range n)}"
      if fin.any (· ≠ want) then return s!"fails the join returned {fin.headD ""}, expected every result once in input order"
      if fin.length > 1 then return "fails the join completed twice"
      let bound := if api = "par" then 2 else 2 * n + 2
      if (api = "par" ∨ d + 1 ≤ w) ∧ polls ≥ bound ∧ fin.isEmpty then
        return s!"fails no completion within {polls} polls although every task only waits for the next {d} tasks to start and {w} may be active (iterator {shape}, size_hint lower bound {lo})"
      return "holds"
  | "c15.try" :: _ :: n :: errs :: ops => some <| Id.run do
      let some n := n.toNat? | return "unknown"
      let some errs := parseNatList errs | return "unknown"
      let resps := impl.splitOn " "
      if resps.length ≠ ops.length then return "unknown"
      let mut rdy : List Nat := []
      let mut doneAt : Option String := none
      for (t, r) in ops.zip resps do
        match splitOp t with
        | some ('r', a) => rdy := a.toNat?.getD 0 :: rdy
        | some ('p', _) =>
          if doneAt.isSome then
            if r ≠ "gone" then return "unknown"
          else
            let out := (r.splitOn "/").getD 0 ""
            let firstErr := (List.range n).find? (errs.contains ·)
            -- tasks that must have completed for the join to complete
            let need := match firstErr with | some e => List.range (e + 1) | none => List.range n
            let canFinish := need.all (rdy.contains ·)
            if out == "P" then
              if canFinish then return "fails join pending although every task up to the first error is ready"
            else
              doneAt := some out
              if !canFinish then return s!"fails join completed ({out}) before the needed tasks were ready"
              match firstErr with
              | some e => if out ≠ s!"ERR:{e}" then return s!"fails expected the first error {e}, got {out}"
              | none => if out ≠ s!"OK:{plus (List.range n)}" then return s!"fails expected all results in input order, got {out}"
        | _ => pure ()
      return "holds"
  | "c15.tryp" :: _ :: n :: errs :: ops => some <| Id.run do
      -- statement only: the fallible join over a possibly pending source ends with the FIRST error
      -- (input order) or with all results in input order, exactly when every task up to there is ready
      -- and the source has been allowed to yield them
      let some n := n.toNat? | return "unknown"
      let some errs := parseNatList errs | return "unknown"
      let resps := impl.splitOn " "
      if resps.length ≠ ops.length then return "unknown"
      let mut rdy : List Nat := []
      let mut granted := 0
      let mut done := false
      for (t, r) in ops.zip resps do
        match splitOp t with
        | some ('s', a) => granted := granted + a.toNat?.getD 0
        | some ('r', a) => rdy := a.toNat?.getD 0 :: rdy
        | some ('p', _) =>
          if done then
            if r ≠ "gone" then return "unknown"
          else
            let out := (r.splitOn "/").getD 0 ""
            let firstErr := (List.range n).find? (errs.contains ·)
            let need := match firstErr with | some e => List.range (e + 1) | none => List.range n
            let canFinish := need.all (rdy.contains ·) ∧ granted ≥ need.length
            if out == "P" then
              if canFinish then return "fails join pending although every task up to the first error is ready and the source has yielded them"
            else
              done := true
              if !canFinish then return s!"fails join completed ({out}) before the needed tasks were ready / yielded by the source"
              match firstErr with
              | some e => if out ≠ s!"ERR:{e}" then return s!"fails expected the first error {e}, got {out}"
              | none => if out ≠ s!"OK:{plus (List.range n)}" then return s!"fails expected all results in input order, got {out}"
        | _ => pure ()
      return "holds"
  | ["c15mt.join", _, n, errs, _] => some <| Id.run do
      let some n := n.toNat? | return "unknown"
      let some errs := parseNatList errs | return "unknown"
      match (List.range n).find? (errs.contains ·) with
      | some e => if impl = s!"ERR:{e}" then return "holds" else return s!"fails expected the first error {e} in input order, got {impl}"
      | none => if impl = s!"OK:{plus (List.range n)}" then return "holds" else return s!"fails expected every result once, in input order, got {impl}"
  | ["c15mt.stream", _, n, _] => some <| Id.run do
      let some n := n.toNat? | return "unknown"
      if impl = s!"OK:{plus (List.range n)}" then return "holds" else return s!"fails expected every result once, in input order, got {impl}"
  | ["c15mt.par", n, errs, _] => some <| Id.run do
      let some n := n.toNat? | return "unknown"
      let some errs := parseNatList errs | return "unknown"
      let es := (List.range n).filter (errs.contains ·)
      if es.isEmpty then
        if impl = s!"OK:{plus (List.range n)}" then return "holds" else return s!"fails parallel join: expected all results in input order, got {impl}"
      else if es.any (fun e => impl = s!"ERR:{e}") then return "holds"
      else return s!"fails parallel join: expected one of the errors {plus es}, got {impl}"
  | ["c15mt.dep", w, n, d] => some <| Id.run do
      let some w := w.toNat? | return "unknown"
      let some n := n.toNat? | return "unknown"
      let some d := d.toNat? | return "unknown"
      if d + 1 ≤ w ∨ n ≤ w then
        if impl = s!"OK:{plus (List.range n)}" then return "holds"
        else return s!"fails dependencies reach only {d} < window {w} but the join gave {impl}"
      else return "holds"
  | "c15.par" :: n :: errs :: ops => some <| Id.run do
      let some n := n.toNat? | return "unknown"
      let some errs := parseNatList errs | return "unknown"
      let resps := impl.splitOn " "
      if resps.length ≠ ops.length then return "unknown"
      let mut rdy : List Nat := []
      let mut done := false
      for (t, r) in ops.zip resps do
        match splitOp t with
        | some ('r', a) => rdy := a.toNat?.getD 0 :: rdy
        | some ('p', _) =>
          if !done then
            let out := (r.splitOn "/").getD 0 ""
            let readyErrs := (List.range n).filter fun i => errs.contains i ∧ rdy.contains i
            if out == "P" then
              if !readyErrs.isEmpty then return "fails pending although a task has failed"
              if (List.range n).all (rdy.contains ·) then return "fails pending although every task is ready"
            else
              done := true
              if out.startsWith "ERR:" then
                let e := ((out.drop 4).toString.toNat?).getD n
                if !readyErrs.contains e then return s!"fails reported error {e} which has not happened"
              else if out ≠ s!"OK:{plus (List.range n)}" then return "fails results not in input order"
              else if !readyErrs.isEmpty ∨ !(List.range n).all (rdy.contains ·) then return "fails Ok although a task failed or is not ready"
        | _ => pure ()
      return "holds"
  | _ => none

end IpaVerif.Driver.C15
