import IpaVerif.Model.Util
import IpaVerif.Model.Sharing
import IpaVerif.Model.Mac
import IpaVerif.Generated.PrimeFields
import IpaVerif.Model.MacAtomic
/-! Line-protocol handlers for property C04 (model side) and the spec-side oracle. Import-free. -/
namespace IpaVerif.Driver.C04
open IpaVerif.Util IpaVerif.Sharing IpaVerif.Mac

/-- order ℓ of the Ristretto group = modulus of `Fp25519` (external primitive: curve25519-dalek `Scalar`). -/
def ell : Nat := 2 ^ 252 + 27742317777372353535851937790883648493

def primeOf1 (name : String) : Option Nat :=
  match IpaVerif.Generated.primeFields.find? (·.name == name) with
  | some P => some P.p
  | none => if name == "Fp25519" then some ell else none

/-- `Fp25519x16` = 16-lane vectors of `Fp25519`: (scalar field name, lanes) -/
def splitField (name : String) : String × Nat :=
  match name.splitOn "x" with
  | [f, n] => (f, (n.toNat?).getD 1)
  | _ => (name, 1)

def primeOf (name : String) : Option Nat := primeOf1 (splitField name).1
def lanesOf (name : String) : Nat := (splitField name).2

/-- serialized size in bytes of one field element -/
def sizeOf (name : String) : Nat :=
  match IpaVerif.Generated.primeFields.find? (·.name == (splitField name).1) with
  | some P => P.storeBits / 8
  | none => 32

/-! ### programs -/

inductive POp where
  | u
  | m (i j : Nat)
  | a (i j : Nat)
  | s (i j : Nat)
  | n (i : Nat)
  | k (i c : Nat)

def parseGate (g : String) : Option POp :=
  let op := g.take 1
  let args := ((g.drop 1).toString.splitOn ":").mapM String.toNat?
  match op.toString, args with
  | "u", _ => if g.length == 1 then some .u else none
  | "m", some [i, j] => some (.m i j)
  | "a", some [i, j] => some (.a i j)
  | "s", some [i, j] => some (.s i j)
  | "n", some [i] => some (.n i)
  | "k", some [i, c] => some (.k i c)
  | _, _ => none

def parseProg (s : String) : Option (List POp) := (s.splitOn ".").mapM parseGate

/-- `[record][input][lane]`; lanes are written `l0+l1+…` -/
def parseInputs (s : String) : Option (List (List (List Nat))) :=
  (s.splitOn ",").mapM (fun g => (g.splitOn ":").mapM (fun v => (v.splitOn "+").mapM String.toNat?))

/-- the inputs of lane `l` of one record -/
def laneInputs (rec : List (List Nat)) (l : Nat) : List Nat := rec.map (fun v => v.getD l 0)

/-- `[wire][lane]` from `[lane][wire]` -/
def transposeLanes (lanes : Nat) (perLane : List (List Nat)) : List (List Nat) :=
  let nw := (perLane.headD []).length
  (List.range nw).map (fun k => (List.range lanes).map (fun l => (perLane.getD l []).getD k 0))

/-- spec side: the plaintext values of all wires of one record, plain arithmetic modulo `p`. -/
def evalPlain (p : Nat) (prog : List POp) (ins : List Nat) : List Nat :=
  (prog.foldl (fun (st : List Nat × List Nat) g =>
    let (ws, ins) := st
    let w (i : Nat) := ws.getD i 0
    match g with
    | .u => (ws ++ [ins.headD 0 % p], ins.tail)
    | .m i j => (ws ++ [(w i * w j) % p], ins)
    | .a i j => (ws ++ [(w i + w j) % p], ins)
    | .s i j => (ws ++ [(w i + p - w j) % p], ins)
    | .n i => (ws ++ [(p - w i) % p], ins)
    | .k i c => (ws ++ [(w i * (c % p)) % p], ins)) (([] : List Nat), ins)).1

/-- `[record][wire][lane]` -/
def showWires (rows : List (List (List Nat))) : String :=
  String.intercalate "," (rows.map (fun r => String.intercalate ":" (r.map (fun w =>
    String.intercalate "+" (w.map toString)))))

/-- spec side: all records, all lanes -/
def evalPlainAll (p lanes : Nat) (prog : List POp) (inputs : List (List (List Nat))) : List (List (List Nat)) :=
  inputs.map (fun rec => transposeLanes lanes ((List.range lanes).map (fun l => evalPlain p prog (laneInputs rec l))))

/-! ### model side: the share-level model with pseudo-random sharings / masks -/

/-- deterministic pseudo-random field elements (any values work: the theorems hold for all masks). -/
def prg (seed i card : Nat) : Nat :=
  ((seed + 1) * 6364136223846793005 + (i + 1) * 1442695040888963407 + seed * i * 2862933555777941757) % card

def shareOf (A : Alg Nat) (card x seed : Nat) : World Nat := share A (x % card) (prg seed 1 card) (prg seed 2 card)
def masksOf (card seed : Nat) : Masks Nat := ⟨prg seed 3 card, prg seed 4 card, prg seed 5 card⟩

/-- the gates of one record: inputs shared, fresh masks / random constants per gate, no errors. -/
def gatesOf (A : Alg Nat) (p seed : Nat) (prog : List POp) (ins : List Nat) : List (Gate Nat) :=
  (prog.foldl (fun (st : List (Gate Nat) × List Nat × Nat) g =>
    let (gs, ins, k) := st
    let sd := seed * 131 + 17 * k
    let α := shareOf A p (prg sd 9 p) (sd + 1)
    match g with
    | .u => (gs ++ [.upgrade (shareOf A p (ins.headD 0) (sd + 2)) (masksOf p (sd + 3)) α (noErr A)], ins.tail, k + 1)
    | .m i j => (gs ++ [.mul i j (masksOf p (sd + 3)) (masksOf p (sd + 4)) α (noErr A) (noErr A)], ins, k + 1)
    | .a i j => (gs ++ [.add i j], ins, k + 1)
    | .s i j => (gs ++ [.sub i j], ins, k + 1)
    | .n i => (gs ++ [.neg i], ins, k + 1)
    | .k i c => (gs ++ [.mulConst i (c % p)], ins, k + 1)) (([] : List (Gate Nat)), ins, 0)).1

def chunks {α : Type} (n : Nat) (l : List α) : List (List α) :=
  if n = 0 then [l] else
  let rec go (fuel : Nat) (l : List α) : List (List α) :=
    match fuel with
    | 0 => []
    | fuel + 1 => if l.isEmpty then [] else l.take n :: go fuel (l.drop n)
  go (l.length + 1) l

/-- run all records of one batch against one validator state (`r`, accumulators), validate, open every wire on
every helper.  `some rows` = the opened values (all helpers agree, every opening succeeds, the batch validates
and every MAC part reconstructs to `r·x`). -/
def runBatch (A : Alg Nat) (p seed batchIdx : Nat) (prog : List POp) (records : List (List Nat)) :
    Option (List (List Nat)) :=
  let bs := seed * 7919 + batchIdx
  let r := shareOf A p (prg bs 11 p) (bs + 1)
  let acc0 := initAcc A (masksOf p (bs + 2)) (masksOf p (bs + 3))
  -- every record contributes its own wires; the accumulators are shared by the batch
  let (rows, acc) := records.zipIdx.foldl (fun (st : List (List (MShare Nat)) × Acc Nat) (ri : List Nat × Nat) =>
    let gs := gatesOf A p (bs * 1009 + ri.2) prog ri.1
    let fin := run A r gs ⟨[], st.2⟩
    (st.1 ++ [fin.wires], fin.acc)) (([] : List (List (MShare Nat))), acc0)
  let valid := validateE A r acc (noValErr A) (masksOf p (bs + 4)) (shareOf A p (prg bs 12 p) (bs + 5))
  let rOpen := reconstruct A r
  let macOk := rows.all (fun ws => ws.all (fun m =>
    consistentB m.x && consistentB m.rx && reconstruct A m.rx == A.mul rOpen (reconstruct A m.x)))
  let opened := rows.map (fun ws => ws.map (fun m => [0, 1, 2].map (fun h => revealHonest A m.x h)))
  let agree := opened.all (fun ws => ws.all (fun hs => hs.all (fun o => o.isSome && o == hs.headD none)))
  if valid && macOk && agree then
    some (opened.map (fun ws => ws.map (fun hs => (hs.headD none).getD 0)))
  else none

/-- a vectorised record is `lanes` scalar instances sharing the batch's accumulators, each lane with its own random
coefficient (`accumulateN_T`). -/
def runHonest (p rpb lanes seed : Nat) (prog : List POp) (inputs : List (List (List Nat))) : String :=
  let A := modAlg p
  let bat := (chunks rpb inputs).zipIdx.map (fun b =>
    let flat := b.1.flatMap (fun rec => (List.range lanes).map (fun l => laneInputs rec l))
    (runBatch A p seed b.2 prog flat).map (fun rows => (chunks lanes rows).map (transposeLanes lanes)))
  if bat.all Option.isSome then
    "ok " ++ showWires (bat.flatMap (fun o => o.getD [])) ++ " mac"
  else "invalid"

/-! ### channels of a run -/

def leftOf (h : Nat) : Nat := (h + 1) % 3 + 1   -- roles 1..3: left of 1 is 3
def rightOf (h : Nat) : Nat := h % 3 + 1

def chanList (size lanes rpb count : Nat) (prog : List POp) : String :=
  let batches := (count + rpb - 1) / rpb
  let toLeft (g : String) (bytes : Nat) := [1, 2, 3].map (fun h => (g, h, leftOf h, bytes))
  let toRight (g : String) (bytes : Nat) := [1, 2, 3].map (fun h => (g, h, rightOf h, bytes))
  let both (g : String) (bytes : Nat) := toLeft g bytes ++ toRight g bytes
  let perGate := prog.zipIdx.flatMap (fun gi =>
    let k := toString gi.2
    (match gi.1 with
      | .u => toLeft ("malicious_protocol/u" ++ k ++ "/upgrade") (count * size * lanes)
      | .m _ _ => toLeft ("malicious_protocol/m" ++ k) (count * size * lanes) ++
                  toLeft ("malicious_protocol/m" ++ k ++ "/duplicate_multiply") (count * size * lanes)
      | _ => []) ++ both ("malicious_protocol/o" ++ k) (count * size * lanes))
  let val :=
    (if IpaVerif.Generated.Mac.propagateToRight then toRight else toLeft) "validate/propagate_u_and_w"
        (batches * IpaVerif.Generated.Mac.totalSend * size) ++
    both "validate/reveal_r" (batches * size) ++
    toLeft "validate/check_zero/multiply_with_r" (batches * size) ++
    both "validate/check_zero/reveal_r" (batches * size)
  let all := perGate ++ val
  let key (c : String × Nat × Nat × Nat) : String := c.1 ++ "|" ++ toString c.2.1 ++ ">" ++ toString c.2.2.1 ++ "|"
  let lt (a b : String × Nat × Nat × Nat) : Bool :=
    a.1 < b.1 || (a.1 == b.1 && (a.2.1 < b.2.1 || (a.2.1 == b.2.1 && a.2.2.1 < b.2.2.1)))
  let sorted := (all.toArray.qsort lt).toList
  String.intercalate ";" (sorted.map (fun c => key c ++ toString c.2.2.2))

/-! ### accumulators -/

def natPair (s : String) : Option (Nat × Nat) :=
  match parseNatList s with
  | some [a, b] => some (a, b)
  | _ => none

/-- one call of `accumulate_macs` on one helper: the increments of `u` and `w`. -/
def accOne (A : Alg Nat) (α x m : Nat × Nat) : Nat × Nat :=
  let hs (v : Nat × Nat) : HShare Nat := ⟨v.1, v.2⟩
  let wld (v : Nat × Nat) : World Nat := ⟨hs v, hs v, hs v⟩
  let ms : MShare Nat := ⟨wld x, wld m⟩
  let z : Loc Nat := ⟨A.zero, A.zero, A.zero⟩
  let acc := accumulate A (wld α) ms ⟨z, z⟩
  (acc.u.h1, acc.w.h1)

/-- one call of `accumulate_macs` on one helper for an `N`-lane share: per-lane views `(l, r)`. -/
def accVec (A : Alg Nat) (αl αr xl xr ml mr : List Nat) : Nat × Nat :=
  let hs (l r : Nat) : HShare Nat := ⟨l, r⟩
  let wld (l r : Nat) : World Nat := ⟨hs l r, hs l r, hs l r⟩
  let lanes := (List.range αl.length).map (fun i =>
    (wld (αl.getD i 0) (αr.getD i 0),
      (⟨wld (xl.getD i 0) (xr.getD i 0), wld (ml.getD i 0) (mr.getD i 0)⟩ : MShare Nat)))
  let z : Loc Nat := ⟨A.zero, A.zero, A.zero⟩
  let acc := accumulateN A lanes ⟨z, z⟩
  (acc.u.h1, acc.w.h1)

def plusList (s : String) : Option (List Nat) := (s.splitOn "+").mapM String.toNat?

def specDot (p al ar bl br : Nat) : Nat := ((al + ar) * (bl + br) + (p - (ar * br) % p)) % p

/-! ### reveal -/

def role? (s : String) : Option (Option Nat) := if s == "-" then some none else s.toNat?.map some

/-- predicted per-helper outcome of one `malicious_reveal` with at most one altered copy. -/
def revealModel (p x seed : Nat) (excluded attacker dest : Option Nat) (delta : Nat) : String :=
  let A := modAlg p
  let w := shareOf A p x (seed + 1)
  let outs := [1, 2, 3].map (fun role =>
    let h := role - 1
    if excluded == some role then "none" else
    -- copies received from the left peer (role h+2 sends its left share to its right) and the right peer
    let lp := (h + 2) % 3 + 1
    let rp := (h + 1) % 3 + 1
    let fromLeft := revealMsgToRight (view w (h + 2))
    let fromRight := revealMsgToLeft (view w (h + 1))
    let fl := if attacker == some lp && dest == some role then A.add fromLeft (delta % p) else fromLeft
    let fr := if attacker == some rp && dest == some role then A.add fromRight (delta % p) else fromRight
    match revealAt A (view w h) fl fr with
    | some v => "ok:" ++ toString v
    | none => "fail")
  String.intercalate "," outs


/-! ### openings through the `Reveal` impls -/

/-- `Boolean` arrays / `BAn`: add = sub = xor on the integer of the little-endian bytes. -/
def xorAlg : Alg Nat :=
  { zero := 0, one := 1, add := Nat.xor, sub := Nat.xor, mul := Nat.land, neg := id }

/-- lane-wise operations on vectors (`N`-lane arrays; the elements of a `BitDecomposed`). -/
def vecAlg (A : Alg Nat) (n : Nat) : Alg (List Nat) :=
  { zero := List.replicate n A.zero, one := List.replicate n A.one, add := List.zipWith A.add,
    sub := List.zipWith A.sub, mul := List.zipWith A.mul, neg := List.map A.neg }

/-- (element operations, number of distinct element values) of a value type; `RP25519` = the Ristretto group, written
additively as the scalars modulo its prime order ℓ (external primitive: `s ↦ s·G` is a group isomorphism). -/
def vtypeAlg (vtype : String) : Option (Alg Nat × Nat) :=
  let base := (splitField vtype).1
  if base == "RP25519" then some (modAlg ell, ell)
  else if base == "Boolean" then some (xorAlg, 2 ^ (splitField vtype).2)
  else if base.startsWith "BA" then ((base.drop 2).toString.toNat?).map (fun b => (xorAlg, 2 ^ b))
  else (primeOf1 base).map (fun p => (modAlg p, p))

def showOuts (l : List (Option (Option (List Nat)))) : String :=
  String.intercalate "," (l.map (fun o => match o with
    | none => "none"
    | some none => "fail"
    | some (some v) => "ok:" ++ String.intercalate "+" (v.map toString)))

/-- predicted per-helper outcome of one opening through the impl `(ctx, sharing)`; `xs`, `ds` = the elements (lanes)
of the shared value and of the error helper `at'` adds to the copy it sends to `dest`. -/
def revImplModel (ctx sharing vtype : String) (seed : Nat) (xs ds : List Nat)
    (excluded attacker dest : Option Nat) : Option String := do
  let fn ← resolveImpl ctx sharing
  let (A1, card) ← vtypeAlg vtype
  let n := xs.length
  let A := vecAlg A1 n
  let col (f : World Nat → Nat) : List Nat := xs.zipIdx.map (fun xi => f (shareOf A1 card xi.1 (seed + 17 * xi.2 + 1)))
  let w : World (List Nat) :=
    ⟨⟨col (·.h1.l), col (·.h1.r)⟩, ⟨col (·.h2.l), col (·.h2.r)⟩, ⟨col (·.h3.l), col (·.h3.r)⟩⟩
  let dl := (List.range n).map (fun i => (ds.getD i 0) % card)
  match attacker, dest with
  | some at', some d =>
    let c := at' - 1
    let toLeft := d - 1 == (c + 2) % 3
    -- is the attacked copy ever sent?  not to an excluded helper; the one-copy opening only sends to the right
    let sent := excluded != some d && d != at' &&
      (match fn with
        | .twoCopy => true
        | .oneCopy => !toLeft
        | _ => false)
    if !sent then pure "untouched" else
    let mL := if toLeft then A.add (revealMsgToLeft (view w c)) dl else revealMsgToLeft (view w c)
    let mR := if toLeft then revealMsgToRight (view w c) else A.add (revealMsgToRight (view w c)) dl
    let outs := [1, 2, 3].map (fun role =>
      if excluded == some role then none else some (revealVia A fn w c (role - 1) mL mR))
    -- element-wise sharings with an altered copy: only the receiving helper is reported (see the harness)
    if sharing.startsWith "BitDecomposed" && dl.any (· ≠ 0) then
      pure (String.intercalate "," ([1, 2, 3].map (fun role =>
        if role == d then showOuts [outs.getD (role - 1) none] else "~")))
    else pure (showOuts outs)
  | _, _ =>
    pure (showOuts ([1, 2, 3].map (fun role =>
      if excluded == some role then none
      else some (revealVia A fn w 0 (role - 1) (revealMsgToLeft (view w 0)) (revealMsgToRight (view w 0))))))

/-- the instances `ctx/sharing`, sorted -/
def implIds : String :=
  let ids := resolvedImpls.map (fun r => r.1 ++ "/" ++ r.2.1)
  String.intercalate "," (ids.toArray.qsort (· < ·)).toList

/-! ### handlers -/

/-- `c04.race`, model side: ONE helper, `k` concurrent `accumulate_macs` calls through `MacAtomic.codeStep` (atomic or
split, as the translator read the sources) under the round-robin schedule `0 … k-1, 0 … k-1` — every call gets its first
step before any gets its second, the worst case for a read-modify-write. The helper's `(u, w)` must end as the sum of ALL
contributions (then the honest batch validates: `concurrent_honest_validates`); a lost contribution leaves `T ≠ 0`. -/
def raceModelOk (k : Nat) : Bool :=
  let du : Nat → Nat := fun t => 7 * t + 3
  let dw : Nat → Nat := fun t => t * t + 1
  let sched := List.range k ++ List.range k
  let s := IpaVerif.MacAtomic.run (IpaVerif.MacAtomic.codeStep (· + ·) du dw) (IpaVerif.MacAtomic.init 0 0) sched
  s.u == IpaVerif.MacAtomic.seqSum (· + ·) du 0 k && s.w == IpaVerif.MacAtomic.seqSum (· + ·) dw 0 k && s.done.length == k

def handle (toks : List String) : Option String :=
  match toks with
  | ["c04.acc1", f, a, x, m] => do
      let p ← primeOf f
      let (du, dw) := accOne (modAlg p) (← natPair a) (← natPair x) (← natPair m)
      pure (toString du ++ " " ++ toString dw)
  | ["c04.acc3", f, a, x, m] => do
      let p ← primeOf f
      let a ← parseNatList a; let x ← parseNatList x; let m ← parseNatList m
      let g (l : List Nat) (h : Nat) : Nat × Nat := (l.getD h 0, l.getD ((h + 1) % 3) 0)
      let r := [0, 1, 2].map (fun h => accOne (modAlg p) (g a h) (g x h) (g m h))
      pure (showNatList (r.map (·.1)) ++ " " ++ showNatList (r.map (·.2)))
  | ["c04.accg", f, al, ar] => do
      let p ← primeOf f
      let al ← al.toNat?; let ar ← ar.toNat?
      let r := (List.range 31).flatMap (fun bl => (List.range 31).map (fun br =>
        accOne (modAlg p) (al, ar) (bl, br) (br, bl)))
      pure (showNatList (r.map (·.1)) ++ " " ++ showNatList (r.map (·.2)))
  | ["c04.accv", f, al, ar, xl, xr, ml, mr] => do
      let p ← primeOf f
      let (du, dw) := accVec (modAlg p) (← plusList al) (← plusList ar) (← plusList xl) (← plusList xr)
        (← plusList ml) (← plusList mr)
      pure (toString du ++ " " ++ toString dw)
  | ["c04.honest", f, rpb, count, seed, prog, inputs] => do
      let p ← primeOf f
      let rpb ← rpb.toNat?; let count ← count.toNat?; let seed ← seed.toNat?
      let prog ← parseProg prog; let inputs ← parseInputs inputs
      if inputs.length ≠ count ∨ rpb = 0 then none else
      pure (runHonest p rpb (lanesOf f) seed prog inputs)
  | ["c04.chan", f, rpb, count, _seed, prog, _inputs] => do
      let _ ← primeOf f
      let rpb ← rpb.toNat?; let count ← count.toNat?
      let prog ← parseProg prog
      if rpb = 0 then none else pure (chanList (sizeOf f) (lanesOf f) rpb count prog)
  | "c04.attack" :: _ => some "judge"
  | ["c04.reveal", f, seed, x, ex, at', dest, delta] => do
      let p ← primeOf f
      let seed ← seed.toNat?; let x ← x.toNat?; let delta ← delta.toNat?
      pure (revealModel p x seed (← role? ex) (← role? at') (← role? dest) delta)
  | ["c04.revimpl", ctx, sharing, vtype, _entry, seed, x, ex, at', dest, delta] => do
      let seed ← seed.toNat?
      let xs ← plusList x; let ds ← plusList delta
      revImplModel ctx sharing vtype seed xs ds (← role? ex) (← role? at') (← role? dest)
  | ["c04.revimpls"] => some implIds
  | "c04.prf" :: _ => some "judge"
  | "c04.adaptive" :: _ => some "judge"
  | "c04.rbatch" :: _ => some "judge"
  | ["c04.race", _f, _who, t, r, _s, _rpb, _seed] => do
      let t ← t.toNat?; let r ← r.toNat?
      pure ("validated=" ++ toString (if raceModelOk t then r else 0) ++ " rounds=" ++ toString r)
  | _ => none

/-! ### oracle (spec side, plain arithmetic) -/

def sumMod (p : Nat) (l : List Nat) : Nat := l.foldl (· + ·) 0 % p

def oracle (toks : List String) (impl : String) : Option String :=
  match toks with
  | ["c04.acc1", f, a, x, m] => do
      let p ← primeOf f
      let (al, ar) ← natPair a; let (xl, xr) ← natPair x; let (ml, mr) ← natPair m
      let want := toString (specDot p al ar ml mr) ++ " " ++ toString (specDot p al ar xl xr)
      pure (if impl == want then "holds" else "fails contribution is not (al+ar)(bl+br)-ar*br: expected " ++ want)
  | ["c04.accg", f, al, ar] => do
      let p ← primeOf f
      let al ← al.toNat?; let ar ← ar.toNat?
      let grid := (List.range 31).flatMap (fun bl => (List.range 31).map (fun br => (bl, br)))
      let want := showNatList (grid.map (fun b => specDot p al ar b.2 b.1)) ++ " " ++
        showNatList (grid.map (fun b => specDot p al ar b.1 b.2))
      pure (if impl == want then "holds" else "fails contribution table differs from (al+ar)(bl+br)-ar*br")
  | ["c04.acc3", f, a, x, m] => do
      let p ← primeOf f
      let a ← parseNatList a; let x ← parseNatList x; let m ← parseNatList m
      match impl.splitOn " " with
      | [du, dw] =>
        let du ← parseNatList du; let dw ← parseNatList dw
        let okU := sumMod p du == (sumMod p a * sumMod p m) % p
        let okW := sumMod p dw == (sumMod p a * sumMod p x) % p
        pure (if okU && okW then "holds" else "fails the three contributions do not add up to (sum a)(sum b)")
      | _ => pure "fails malformed response"
  | ["c04.accv", f, al, ar, xl, xr, ml, mr] => do
      let p ← primeOf f
      let al ← plusList al; let ar ← plusList ar; let xl ← plusList xl; let xr ← plusList xr
      let ml ← plusList ml; let mr ← plusList mr
      -- every lane with ITS OWN coefficient
      let idx := List.range al.length
      let du := sumMod p (idx.map (fun i => specDot p (al.getD i 0) (ar.getD i 0) (ml.getD i 0) (mr.getD i 0)))
      let dw := sumMod p (idx.map (fun i => specDot p (al.getD i 0) (ar.getD i 0) (xl.getD i 0) (xr.getD i 0)))
      let want := toString du ++ " " ++ toString dw
      pure (if impl == want then "holds" else "fails vectorised contribution is not the sum over lanes of (al_i+ar_i)(bl_i+br_i)-ar_i*br_i with per-lane coefficients: expected " ++ want)
  | ["c04.honest", f, _rpb, _count, _seed, prog, inputs] => do
      let p ← primeOf f
      let prog ← parseProg prog; let inputs ← parseInputs inputs
      let want := "ok " ++ showWires (evalPlainAll p (lanesOf f) prog inputs) ++ " mac"
      pure (if impl == want then "holds" else "fails honest run does not validate with the plaintext values: expected " ++ (want.take 120).toString)
  | ["c04.attack", f, _rpb, _count, _seed, prog, inputs, _c, _cls, _t, _d, _delta] => do
      let p ← primeOf f
      let prog ← parseProg prog; let inputs ← parseInputs inputs
      if impl.startsWith "abort" || impl == "timeout" || impl.startsWith "panic" then pure "holds abort"
      else if impl == "untouched" then pure "fails the targeted message was not seen (attack not applied)"
      else
        -- every message class is covered by `additive_attack_T` / `reveal_two_copies`: an altered message is
        -- accepted with probability <= 3/|F| only, and only fields with |F| >= 2^32 - 5 are sampled
        let want := "ok " ++ showWires (evalPlainAll p (lanesOf f) prog inputs) ++ " -"
        pure (if impl == want then "fails undetected: the altered message was accepted by every honest helper (opened values unchanged)"
              else "fails changed: honest helpers opened values different from the true ones without aborting")
  | ["c04.reveal", f, _seed, x, ex, at', dest, delta] => do
      let p ← primeOf f
      let x ← x.toNat?; let delta ← delta.toNat?
      let ex ← role? ex; let at' ← role? at'; let dest ← role? dest
      let outs := impl.splitOn ","
      if outs.length ≠ 3 then pure "fails malformed response" else
      let bad := [1, 2, 3].filter (fun role =>
        let o := outs.getD (role - 1) ""
        if ex == some role then o != "none"
        else if at'.isSome && dest == some role && delta % p ≠ 0 then
          -- the two copies differ: no value may be returned
          o != "fail"
        else if at' == some role then false   -- the deviating helper's own output is not constrained
        else o != "ok:" ++ toString (x % p))
      pure (if bad.isEmpty then "holds" else "fails helper " ++ toString (bad.headD 0) ++
        " opened a wrong value / did not detect differing copies")
  | ["c04.revimpl", ctx, _sharing, vtype, _entry, _seed, x, ex, at', dest, delta] => do
      let ex ← role? ex; let at' ← role? at'; let dest ← role? dest
      let ds ← plusList delta
      let card := ((vtypeAlg vtype).map (·.2)).getD 1
      let tampered := at'.isSome && dest.isSome && ds.any (fun d => d % card ≠ 0)
      -- the requirement concerns the contexts of the malicious modes (named in the property: the MAC context; the same
      -- impl pattern serves the sharded MAC context and the DZKP context); semi-honest contexts open with one copy
      let malicious := (ctx.splitOn "Malicious").length > 1
      if !malicious then pure "holds semi-honest context: no requirement" else
      if impl == "untouched" then
        pure (if dest.isSome && dest == ex then "holds nothing is sent to an excluded helper"
              else if !tampered && at'.isNone then "fails malformed response"
              else "fails the copy from helper " ++ toString (at'.getD 0) ++ " to helper " ++ toString (dest.getD 0) ++
                " was never sent: helper " ++ toString (dest.getD 0) ++ " opens a value without a second copy to compare")
      else
      let outs := impl.splitOn ","
      if outs.length ≠ 3 then pure "fails malformed response" else
      let bad := [1, 2, 3].filter (fun role =>
        let o := outs.getD (role - 1) ""
        if ex == some role then o != "none" && o != "~"
        else if tampered && dest == some role then o != "fail"   -- the two copies differ: no value may be returned
        else if at' == some role then false                      -- the deviating helper's own output is not constrained
        else o != "ok:" ++ x && o != "~")
      pure (if bad.isEmpty then "holds" else "fails helper " ++ toString (bad.headD 0) ++
        " returned `" ++ outs.getD (bad.headD 0 - 1) "" ++ "`: a wrong value was opened / differing copies were not detected (MaliciousRevealFailed expected at the helper that received the altered copy)")
  | ["c04.prf", _lanes, _seed, _x, _k, at', dest, _step, delta] => do
      -- eval_dy_prf opens R through `Reveal<UpgradedMaliciousContext> for Replicated` and z through `… for
      -- MaliciousReplicated`: the helper that receives an altered copy must fail; honest runs return the pseudonyms
      let at' ← role? at'; let dest ← role? dest
      let ds ← plusList delta
      let tampered := at'.isSome && dest.isSome && ds.any (fun d => d % ell ≠ 0)
      if impl == "untouched" then pure "fails the copy to be altered was never sent: the receiving helper opens without a second copy" else
      match impl.splitOn " " with
      | [rf, hs] =>
        let want := "ok:" ++ (rf.drop 4).toString
        let outs := hs.splitOn ","
        if outs.length ≠ 3 || !rf.startsWith "ref:" then pure "fails malformed response" else
        let bad := [1, 2, 3].filter (fun role =>
          let o := outs.getD (role - 1) ""
          if tampered then (if dest == some role then o != "fail" else o != "~" && o != want)
          else o != want)
        pure (if bad.isEmpty then "holds" else "fails helper " ++ toString (bad.headD 0) ++ " returned `" ++
          outs.getD (bad.headD 0 - 1) "" ++ "` from eval_dy_prf (expected " ++
          (if tampered && dest == some (bad.headD 0) then "MaliciousRevealFailed: it received an altered copy" else want) ++ ")")
      | _ => pure "fails malformed response"
  | ["c04.revimpls"] =>
      pure (if impl == implIds then "holds" else "fails the suite does not drive exactly the Reveal impls of basics/reveal.rs: " ++ implIds)
  | ["c04.adaptive", f, _rpb, _count, _seed, prog, inputs, _c, _k, _t, _kb, _d, _rev] => do
      let p ← primeOf f
      let prog ← parseProg prog; let inputs ← parseInputs inputs
      if impl.startsWith "abort" || impl == "timeout" || impl.startsWith "panic" then pure "holds abort"
      else if impl == "untouched" then pure "fails the targeted messages were not seen / the key was not observed (attack not applied)"
      else
        let want := "ok " ++ showWires (evalPlainAll p (lanesOf f) prog inputs) ++ " -"
        pure (if impl == want then "fails undetected: messages altered with the key opened by an earlier batch were accepted by every honest helper"
              else "fails changed: errors (d, r'*d) built from the key r' opened by an EARLIER batch were accepted: validate_record returned Ok on the honest helpers and they opened a product off by d")
  | ["c04.rbatch", _f, rpb, count, _seed, _prog, _inputs] => do
      let rpb ← rpb.toNat?; let count ← count.toNat?
      match impl.splitOn " " with
      | ["r", l] =>
        let rs := l.splitOn ","
        if rs.length ≠ count || rpb = 0 then pure "fails malformed response" else
        let idx := List.range count
        let bad := idx.flatMap (fun i => (idx.filter (fun j => i < j)).filterMap (fun j =>
          let same := rs.getD i "" == rs.getD j ""
          if (i / rpb == j / rpb) != same then some (i, j) else none))
        pure (match bad.head? with
          | none => "holds"
          | some (i, j) =>
            if i / rpb == j / rpb then "fails records " ++ toString i ++ " and " ++ toString j ++ " of one batch see different keys"
            else "fails batches " ++ toString (i / rpb) ++ " and " ++ toString (j / rpb) ++ " (records " ++ toString i ++ ", " ++
              toString j ++ ") use the SAME key r = " ++ rs.getD i "" ++ ": a key opened by one batch's validation protects another batch")
      | _ => pure "fails malformed response"
  | ["c04.race", _f, who, t, r, _s, rpb, _seed] => do
      -- spec: nobody deviates, so EVERY round's batch validates on all three helpers, whatever the thread scheduling
      let r ← r.toNat?
      match (impl.splitOn " ").map (·.splitOn "=") with
      | ["validated", n] :: ["rounds", r'] :: rest =>
        let n ← n.toNat?; let r' ← r'.toNat?
        if r' ≠ r then pure "fails malformed response" else
        pure (if n == r && rest.isEmpty then "holds"
          else "fails honest execution failed to validate: only " ++ toString n ++ " of " ++ toString r ++
            " honest batches (" ++ rpb ++ " records each) validated when " ++ t ++ " threads of helper " ++ who ++
            " accumulate MACs for distinct records of the batch concurrently" ++
            (match rest with | [["first", f]] => " (first rejected round:helper:error = " ++ f ++ ")" | _ => "") ++
            ": a contribution to (u, w) was lost, T = u - r*w is not a sharing of zero")
      | _ => pure (if impl == "timeout" then "fails timeout" else "fails malformed response")
  | _ => none

end IpaVerif.Driver.C04
