/-
3-party replicated secret sharing as the code uses it (C07, reused by C01/C12).

`secret_sharing/replicated/semi_honest/additive_share.rs`: helper `i` holds `(left, right) = (s i, s (i+1))`.
We keep the three helpers' *views* (not the underlying `s`), so that "consistent" is a real statement:
helper `i`'s right component equals helper `i+1`'s left component.

The value type is a parameter: `Alg F` lists the operations of `F` the protocols use. It is instantiated
with the prime-field model (C08), GF(2^k), `Bool` (xor/and) — and, in the theorems, with any commutative
ring.  Import-free.
-/
namespace IpaVerif.Sharing

/-- The operations of the value type used by the protocols. -/
structure Alg (F : Type) where
  zero : F
  one : F
  add : F → F → F
  sub : F → F → F
  mul : F → F → F
  neg : F → F

/-- `Boolean` (`ff/boolean.rs`): add = sub = xor, mul = and, neg = id. -/
def boolAlg : Alg Bool :=
  { zero := false, one := true, add := xor, sub := xor, mul := and, neg := id }

/-- Integers modulo `p` on canonical representatives (`field_impl!`, after the fixes F1/F10). -/
def modAlg (p : Nat) : Alg Nat :=
  { zero := 0, one := 1 % p, add := fun a b => (a + b) % p, sub := fun a b => (p + a - b) % p,
    mul := fun a b => (a * b) % p, neg := fun a => (p - a) % p }

/-- One helper's view of a sharing: `AdditiveShare(left, right)`. -/
structure HShare (F : Type) where
  l : F
  r : F
  deriving DecidableEq, Repr

/-- The three helpers' views of one shared value (H1, H2, H3). -/
structure World (F : Type) where
  h1 : HShare F
  h2 : HShare F
  h3 : HShare F
  deriving DecidableEq, Repr

variable {F : Type}

/-- `[a, b, c].reconstruct()` of `test_fixture/sharing.rs`: the sum of the three left components. -/
def reconstruct (A : Alg F) (w : World F) : F := A.add (A.add w.h1.l w.h2.l) w.h3.l

/-- helper `i`'s right component is helper `i+1`'s left component (what `reconstruct` asserts). -/
def Consistent (w : World F) : Prop := w.h1.r = w.h2.l ∧ w.h2.r = w.h3.l ∧ w.h3.r = w.h1.l

def consistentB [DecidableEq F] (w : World F) : Bool :=
  decide (w.h1.r = w.h2.l) && decide (w.h2.r = w.h3.l) && decide (w.h3.r = w.h1.l)

/-- The sharing whose underlying additive shares are `s1, s2, s3`. -/
def ofShares (s1 s2 s3 : F) : World F := ⟨⟨s1, s2⟩, ⟨s2, s3⟩, ⟨s3, s1⟩⟩

/-- `IntoShares::share_with`: `x1, x2` random, `x3 = x − (x1 + x2)`. -/
def share (A : Alg F) (x r1 r2 : F) : World F := ofShares r1 r2 (A.sub x (A.add r1 r2))

/-- apply a local (per-component) operation on every helper. -/
def map1 (f : F → F) (w : World F) : World F :=
  ⟨⟨f w.h1.l, f w.h1.r⟩, ⟨f w.h2.l, f w.h2.r⟩, ⟨f w.h3.l, f w.h3.r⟩⟩

def map2 (f : F → F → F) (x y : World F) : World F :=
  ⟨⟨f x.h1.l y.h1.l, f x.h1.r y.h1.r⟩, ⟨f x.h2.l y.h2.l, f x.h2.r y.h2.r⟩, ⟨f x.h3.l y.h3.l, f x.h3.r y.h3.r⟩⟩

/-- local linear operations of `AdditiveShare` (`Add`, `Sub`, `Neg`, `Mul<V>` by a public constant). -/
def addS (A : Alg F) : World F → World F → World F := map2 A.add
def subS (A : Alg F) : World F → World F → World F := map2 A.sub
def negS (A : Alg F) : World F → World F := map1 A.neg
def mulConstS (A : Alg F) (c : F) : World F → World F := map1 (fun a => A.mul a c)

def zeroS (A : Alg F) : World F := ofShares A.zero A.zero A.zero

/-- `ShareKnownValue::share_known_value`: H1 `(v, 0)`, H2 `(0, 0)`, H3 `(0, v)`. -/
def knownS (A : Alg F) (v : F) : World F := ⟨⟨v, A.zero⟩, ⟨A.zero, A.zero⟩, ⟨A.zero, v⟩⟩

/-- `Not for AdditiveShare`: both components of every helper are complemented (Boolean only). -/
def notS (w : World Bool) : World Bool := map1 (fun a => !a) w

/-- PRSS values drawn for one gate: helper `i` draws `(left, right) = (ρ i, ρ (i+1))` —
helper `i`'s right value is helper `i+1`'s left value (property C06). -/
structure Masks (F : Type) where
  m1 : F
  m2 : F
  m3 : F

/-- `multiplication_protocol`:
`z_left = x_l·y_l + x_l·y_r + x_r·y_l + prss_left − prss_right`. -/
def zLeft (A : Alg F) (x y : HShare F) (pl pr : F) : F :=
  A.sub (A.add (A.add (A.add (A.mul x.l y.l) (A.mul x.l y.r)) (A.mul x.r y.l)) pl) pr

/-- Semi-honest multiplication (`sh_multiply`; `zkp_multiply` computes the same values and additionally
records a proof segment): every helper sends `z_left` to its left neighbour, which uses it as `z_right`. -/
def mulS (A : Alg F) (ρ : Masks F) (x y : World F) : World F :=
  let z1 := zLeft A x.h1 y.h1 ρ.m1 ρ.m2
  let z2 := zLeft A x.h2 y.h2 ρ.m2 ρ.m3
  let z3 := zLeft A x.h3 y.h3 ρ.m3 ρ.m1
  ⟨⟨z1, z2⟩, ⟨z2, z3⟩, ⟨z3, z1⟩⟩

/-- `boolean::or::or` over any field, for `a, b ∈ {0,1}`: `−ab + a + b`. -/
def orS (A : Alg F) (ρ : Masks F) (a b : World F) : World F :=
  addS A (addS A (negS A (mulS A ρ a b)) a) b

/-- `Reshare::reshare` towards `to_helper = T` (`basics/reshare.rs`), seen from `T`'s neighbours:
`L = T.left`, `R = T.right`; `a, b` = `T`'s PRSS `(left, right)` values (`a` is also `L`'s right value,
`b` is also `R`'s left value). `part1 = L.l + L.r − a`, `part2 = R.l − b`;
new views: `T = (a, b)`, `R = (b, part1 + part2)`, `L = (part1 + part2, a)`. -/
def reshareCore (A : Alg F) (L R : HShare F) (a b : F) : HShare F × HShare F × HShare F :=
  let part1 := A.sub (A.add L.l L.r) a
  let part2 := A.sub R.l b
  let p := A.add part1 part2
  (⟨a, b⟩, ⟨b, p⟩, ⟨p, a⟩)

/-- Reshare towards helper `t ∈ {1,2,3}` (other values: unchanged). Masks as in `Masks`. -/
def reshareS (A : Alg F) (ρ : Masks F) (t : Nat) (w : World F) : World F :=
  match t with
  | 1 => let (T, R, L) := reshareCore A w.h3 w.h2 ρ.m1 ρ.m2; ⟨T, R, L⟩
  | 2 => let (T, R, L) := reshareCore A w.h1 w.h3 ρ.m2 ρ.m3; ⟨L, T, R⟩
  | 3 => let (T, R, L) := reshareCore A w.h2 w.h1 ρ.m3 ρ.m1; ⟨R, L, T⟩
  | _ => w

end IpaVerif.Sharing
