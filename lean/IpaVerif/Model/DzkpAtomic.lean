import IpaVerif.Model.DzkpValidator
import IpaVerif.Generated.DzkpAtomic
/-!
# The proof batch of one helper under concurrent `DZKPUpgraded::push` calls (C03)

`ipa-core/src/protocol/context/dzkp_malicious.rs`: `zkp_multiply` ends with
```
pub fn push(&self, record_id: RecordId, segment: Segment) {
    self.with_batch(record_id, |batch| { batch.push(self.base_ctx.gate().clone(), record_id, segment); });
}
fn with_batch<C: FnOnce(&mut Batch) -> T, T>(&self, record_id: RecordId, action: C) -> T {
    let validator_inner = self.validator_inner.upgrade().expect("Validator is active");
    let mut batcher = validator_inner.batcher.lock().unwrap();     // ONE acquisition of the batcher mutex
    let state = batcher.get_batch(record_id);
    (action)(&mut state.batch)                                      // the closure runs under the guard
}
```
The multiplications of the records of one batch (and of different gates) are driven concurrently (`seq_join` /
`parallel_join`; on several OS threads with `multi-threading`), so on ONE helper many pushes race for the same `Batch`.

One helper, `k` calls; call `t` pushes `opOf t = (gate, record, segment)`. Under the mutex a call is ONE atomic step
(`atomicStep` = `Tables.push` of `Model/DzkpValidator.lean`). `splitStep` is the read-modify-write variant: clone the
tables out under the lock, push into the private copy outside, store the copy back under a second acquisition — two
atomic steps with other calls in between. Which of the two the code is, is read from the sources by the translator
(`Generated/DzkpAtomic.lean`); `codeStep` is defined from that.

Calls are natural numbers; a schedule is the list of call ids in the order in which they are given the processor for their
next atomic step (ids of finished calls and ids `≥ k` are no-ops, so every list is a schedule). Import-free.
-/
namespace IpaVerif.DzkpAtomic
open IpaVerif.DzkpStore IpaVerif.DzkpValidator

abbrev Op := String × Nat × Segment

/-- the tables of one helper's validator plus the bookkeeping of the interleaving -/
structure State where
  t : Tables
  /-- split variant only: calls that hold a private copy of the tables fetched earlier and have not yet stored it back -/
  fetched : List (Nat × Tables)
  /-- calls that have returned -/
  done : List Nat

def init (t : Tables) : State := { t := t, fetched := [], done := [] }

/-- the code: lock; `batch.push(gate, record, segment)` in place; unlock — one step. -/
def atomicStep (k : Nat) (opOf : Nat → Op) (s : State) (c : Nat) : Outcome State :=
  if s.done.contains c || k ≤ c then .ok s
  else match s.t.push (opOf c).1 (opOf c).2.1 (opOf c).2.2 with
    | .ok t' => .ok { s with t := t', done := c :: s.done }
    | .panic m => .panic m

/-- fetch / extend / store: first step = lock; clone the batch; unlock. Second step = push into the private copy;
lock; overwrite the shared batch with the copy; unlock. -/
def splitStep (k : Nat) (opOf : Nat → Op) (s : State) (c : Nat) : Outcome State :=
  if s.done.contains c || k ≤ c then .ok s
  else match s.fetched.lookup c with
    | some t0 =>
      match t0.push (opOf c).1 (opOf c).2.1 (opOf c).2.2 with
      | .ok t' => .ok { t := t', fetched := s.fetched.filter (fun e => e.1 != c), done := c :: s.done }
      | .panic m => .panic m
    | none => .ok { s with fetched := (c, s.t) :: s.fetched }

def run (step : State → Nat → Outcome State) : State → List Nat → Outcome State
  | s, [] => .ok s
  | s, c :: rest =>
    match step s c with
    | .ok s' => run step s' rest
    | .panic m => .panic m

/-- what the sources say (translator): `DZKPUpgraded::push` is a single `with_batch` call whose closure performs
`Batch::push`, nothing is copied out or stored back; `with_batch` locks once and runs the closure under the guard; the batch
is updated in place. -/
def codeIsAtomic : Bool :=
  open IpaVerif.Generated.DzkpAtomic in
  pushWithBatchCalls == 1 && pushBatchCopies == 0 && pushStoreBacks == 0 && pushInsideClosure
    && withBatchLockAcquisitions == 1 && actionUnderGuard && pushInPlace

/-- `DZKPUpgraded::push` as the code has it -/
def codeStep (k : Nat) (opOf : Nat → Op) : State → Nat → Outcome State :=
  if codeIsAtomic then atomicStep k opOf else splitStep k opOf

/-- the calls that take effect, in the order in which they do: first occurrences of ids `< k` not yet done -/
def eff (k : Nat) : List Nat → List Nat → List Nat
  | _, [] => []
  | done, c :: rest => if done.contains c || k ≤ c then eff k done rest else c :: eff k (c :: done) rest

/-- number of multiplications stored for (batch, gate), `0` if nothing: what the driver compares -/
def stored (t : Tables) (b : Nat) (g : String) : Nat := ((t.store b g).map (·.vec.length)).getD 0

end IpaVerif.DzkpAtomic
