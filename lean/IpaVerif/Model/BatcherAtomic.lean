import IpaVerif.Model.Batcher
import IpaVerif.Generated.BatcherAtomic
/-!
# `validate_record` of one validator under concurrent callers (C16)

`DZKPUpgraded::validate_record` / `Upgraded::validate_record`:
```
let validation_future = validator_inner.batcher.lock().unwrap()          // ONE acquisition of the batcher mutex
    .validate_record(record_id, |batch_idx, batch| batch.validate(ctx, batch_idx));   // Batcher::validate_record(&mut self, ..)
validation_future.await
```
and `Batcher::validate_record` calls `self.is_ready_for_validation(record_id)` once, before the future is built:
set the record's pending bit, `pending_count += 1`, `if pending_count == total_count { pop / take the batch; Ready::Yes }
else { Ready::No(receiver) }` — all on the same `&mut self`, i.e. under the caller's guard. The records of a batch call
concurrently (`seq_join` / `parallel_join`; several OS threads under `multi-threading`).

Calls are natural numbers; call `c` is `validate_record(recOf c)`. Under the mutex the synchronous part of a call is ONE
atomic step (`atomicStep` = `Batcher.validateRecord` of `Model/Batcher.lean`). A schedule is the list of call ids in the order
in which they are given the processor for their next atomic step (ids of finished calls and ids `≥ k` are no-ops, so every
list is a schedule; a thread making several calls is several ids). Which shape the code has is read from the sources by the
translator (`Generated/BatcherAtomic.lean`); `codeIsAtomic` is defined from that.

`Simple` is the one-batch abstraction used for the check-then-act counterexample: `count` requests noted, `taken` = how
often the batch was taken out and handed to the validation closure. Import-free.
-/
namespace IpaVerif.BatcherAtomic
open IpaVerif.Batcher

structure TState where
  /-- the `Batcher` behind the mutex -/
  s : State
  /-- calls whose synchronous part has returned -/
  done : List Nat
  /-- what each of them was answered, most recent first -/
  outs : List (Nat × VOut)

def init (s : State) : TState := { s := s, done := [], outs := [] }

/-- the code: lock; `is_ready_for_validation(record)`; unlock — one step. -/
def atomicStep (k : Nat) (recOf : Nat → Nat) (t : TState) (c : Nat) : TState :=
  if t.done.contains c || k ≤ c then t
  else { s := (validateRecord t.s (recOf c)).1, done := c :: t.done, outs := (c, (validateRecord t.s (recOf c)).2) :: t.outs }

def run (step : TState → Nat → TState) (t : TState) (sched : List Nat) : TState := sched.foldl step t

/-- batches for which some call was answered `Ready::Yes` (= handed to the validation closure), most recent first -/
def readyLog (outs : List (Nat × VOut)) : List Nat :=
  outs.filterMap fun o => match o.2 with | .ready b _ => some b | _ => none

/-- records of the calls that were accepted (answered `Ready::No` / `Ready::Yes`) -/
def accepted (recOf : Nat → Nat) (outs : List (Nat × VOut)) : List Nat :=
  outs.filterMap fun o => match o.2 with | .ready _ _ => some (recOf o.1) | .notReady _ => some (recOf o.1) | _ => none

/-- what the sources say (translator): the wrappers lock once and call the batcher on that guard; the batcher takes no
lock itself, asks readiness once before building the future, and notes / counts / compares / takes in one body. -/
def codeIsAtomic : Bool :=
  open IpaVerif.Generated.BatcherAtomic in
  batcherInnerLocks == 0 && readinessCalls == 1 && readinessBeforeFuture && countDecideTakeTogether
    && dzkpWrapperLocks == 1 && dzkpCallOnGuard && macWrapperLocks == 1 && macCallOnGuard

/-! ### one batch of `tc` records, abstractly -/

structure Simple where
  count : Nat
  taken : Nat
  /-- split variant only: calls that have noted their request and not yet looked at the count -/
  noted : List Nat
  done : List Nat
  deriving DecidableEq, Repr

def Simple.init : Simple := { count := 0, taken := 0, noted := [], done := [] }

/-- lock; `pending_count += 1`; `if pending_count == tc { take }`; unlock. -/
def simpleAtomic (tc : Nat) (s : Simple) (c : Nat) : Simple :=
  if s.done.contains c then s
  else { s with count := s.count + 1, taken := if s.count + 1 == tc then s.taken + 1 else s.taken, done := c :: s.done }

/-- check-then-act: first step = lock; set bit; `pending_count += 1`; unlock. Second step = lock;
`if pending_count == tc { take }`; unlock. -/
def simpleSplit (tc : Nat) (s : Simple) (c : Nat) : Simple :=
  if s.done.contains c then s
  else if s.noted.contains c then
    { s with taken := if s.count == tc then s.taken + 1 else s.taken, noted := s.noted.erase c, done := c :: s.done }
  else { s with count := s.count + 1, noted := c :: s.noted }

def simpleCode (tc : Nat) : Simple → Nat → Simple := if codeIsAtomic then simpleAtomic tc else simpleSplit tc

end IpaVerif.BatcherAtomic
