import IpaVerif.Model.Circuits
/-
Differential-privacy noise and padding parameters (C12):
`protocol/ipa_prf/oprf_padding/{insecure,distributions}.rs`, `protocol/dp/mod.rs`.

The numeric code is written once over an interface `Arith α` (the `f64` operations the Rust code uses:
`+ − × ÷`, `<`, `<=` with their NaN behaviour folded into Bool-valued comparisons).  Instances: IEEE doubles
(`floatArith`, used by the driver: basic operations are correctly rounded, so the transcription is bit-exact)
and any linearly ordered field (`IpaVerif.C12.fieldArith`, used by the theorems over ℚ/ℝ).
`e^{-ε}` and `1 − e^{-1/s}` are external (libm); they enter as the parameters `r` and `p`.  Import-free.
-/
namespace IpaVerif.Dp

structure Arith (α : Type) where
  zero : α
  one : α
  two : α
  add : α → α → α
  sub : α → α → α
  mul : α → α → α
  div : α → α → α
  /-- `a < b` (false when either side is NaN) -/
  lt : α → α → Bool
  /-- `a <= b` (false when either side is NaN) -/
  le : α → α → Bool
  /-- `a == b` -/
  eq : α → α → Bool
  /-- `f64::MIN_POSITIVE` -/
  minPos : α

def floatArith : Arith Float :=
  { zero := 0.0, one := 1.0, two := 2.0, add := (· + ·), sub := (· - ·), mul := (· * ·), div := (· / ·),
    lt := fun a b => a < b, le := fun a b => a ≤ b, eq := fun a b => a == b,
    minPos := Float.ofBits 0x0010000000000000 }

variable {α : Type}

/-! ### `pow_u32` (square-and-multiply exactly as written; `exp < 2^32`) -/

/-- `while exp & 1 == 0 { base = base * base; exp >>= 1; }` (`exp ≠ 0`). -/
@[specialize] def powEven (A : Arith α) : Nat → α → Nat → α × Nat
  | 0, b, e => (b, e)
  | f + 1, b, e => if e % 2 == 0 then powEven A f (A.mul b b) (e / 2) else (b, e)

/-- `while exp > 1 { exp >>= 1; base = base * base; if exp & 1 == 1 { acc *= base; } }`. -/
@[specialize] def powOdd (A : Arith α) : Nat → α → α → Nat → α
  | 0, _, acc, _ => acc
  | f + 1, b, acc, e =>
      if e > 1 then
        let e' := e / 2
        let b' := A.mul b b
        powOdd A f b' (if e' % 2 == 1 then A.mul acc b' else acc) e'
      else acc

@[specialize] def powU32 (A : Arith α) (base : α) (exp : Nat) : α :=
  if exp == 0 then A.one else
    let r := powEven A 32 base exp
    if r.2 == 1 then r.1 else powOdd A 32 r.1 r.1 r.2

/-! ### equation (11): `right_hand_side`, `find_smallest_n` -/

/-- `for k in n - big_delta + 1..=n { result += pow_u32(r, k); }` (ascending `k`). -/
@[specialize] def tailSum (A : Arith α) (r : α) (n bigDelta : Nat) : α :=
  (List.range bigDelta).foldl (fun acc j => A.add acc (powU32 A r (n - bigDelta + 1 + j))) A.zero

/-- `right_hand_side(n, big_delta, epsilon)` with `r = E.powf(-epsilon)`:
`a = (1 − r)/(1 + r − 2 r^{n+1})`, result `a · Σ_{k=n−Δ+1}^{n} r^k`. -/
@[specialize] def rightHandSide (A : Arith α) (n bigDelta : Nat) (r : α) : α :=
  let a := A.div (A.sub A.one r) (A.sub (A.add A.one r) (A.mul A.two (powU32 A r (n + 1))))
  A.mul a (tailSum A r n bigDelta)

/-- `find_smallest_n`: `for n in big_delta.. { if small_delta >= right_hand_side(n, …) { return n; } }`.
`steps` bounds the search (`none` = nothing found within `steps` candidates). -/
@[specialize] def findSmallestN (A : Arith α) (bigDelta : Nat) (r smallDelta : α) : Nat → Nat → Option Nat
  | 0, _ => none
  | steps + 1, n =>
      if A.le (rightHandSide A n bigDelta r) smallDelta then some n
      else findSmallestN A bigDelta r smallDelta steps (n + 1)

/-! ### constructors -/

inductive CtorErr where
  | badEpsilon | badDelta | badS | badGeometricProb | badShiftValue | badSensitivity
  deriving DecidableEq, Repr

def CtorErr.name : CtorErr → String
  | .badEpsilon => "BadEpsilon" | .badDelta => "BadDelta" | .badS => "BadS"
  | .badGeometricProb => "BadGeometricProb" | .badShiftValue => "BadShiftValue"
  | .badSensitivity => "BadSensitivity"

/-- `rand::distributions::Bernoulli::new(p)` accepts exactly `0 ≤ p ≤ 1` (`(0.0..1.0).contains(&p) || p == 1.0`). -/
def bernoulliOk (A : Arith α) (p : α) : Bool := (A.le A.zero p && A.lt p A.one) || A.eq p A.one

/-- `Geometric::new(probability)`. -/
def geometricNew (A : Arith α) (p : α) : Except CtorErr Unit :=
  if A.lt p A.minPos then .error .badGeometricProb
  else if bernoulliOk A p then .ok () else .error .badGeometricProb

/-- `DoubleGeometric::new(s, shift)`; `p = 1 − E.powf(−1/s)` is supplied by the caller. `cap = 1_000_000`. -/
def doubleGeometricNew (A : Arith α) (cap : Nat) (s : α) (shift : Nat) (p : α) : Except CtorErr Unit :=
  if A.lt s A.minPos then .error .badS
  else if shift > cap then .error .badSensitivity
  else geometricNew A p

/-- `TruncatedDoubleGeometric::new(s, shift)`: returns `shift_doubled`. -/
def truncatedNew (A : Arith α) (cap : Nat) (s : α) (shift : Nat) (p : α) : Except CtorErr Nat :=
  if A.lt s A.minPos then .error .badS
  else if shift > cap then .error .badShiftValue
  else match doubleGeometricNew A cap s shift p with
    | .ok () => .ok (2 * shift)
    | .error e => .error e

/-- range checks of `OPRFPaddingDp::new` (and `Dp::new`) before the search. -/
def oprfRange (A : Arith α) (cap : Nat) (eps delta : α) (sens : Nat) : Except CtorErr Unit :=
  if A.lt eps A.minPos then .error .badEpsilon
  else if !(A.le A.minPos delta && A.le delta (A.sub A.one A.minPos)) then .error .badDelta
  else if sens > cap then .error .badSensitivity
  else .ok ()

/-- `find_smallest_n(big_delta, epsilon, small_delta)` as the code has it: `for n in big_delta..=MAX_SHIFT { if small_delta >=
right_hand_side(n, …) { return n; } } MAX_SHIFT + 1` — the candidates `Δ, …, cap` and, when none of them meets the
criterion, the SENTINEL `cap + 1`, which no admissible shift equals (translator item `c12.search.loop`). -/
@[specialize] def findSmallestNCapped (A : Arith α) (cap bigDelta : Nat) (r smallDelta : α) : Nat :=
  (findSmallestN A bigDelta r smallDelta (cap + 1 - bigDelta) bigDelta).getD (cap + 1)

/-- `OPRFPaddingDp::new(ε, δ, Δ)`; returns `get_shift()`. `searchLimit` = number of candidates
`find_smallest_n` tries (`cap + 1 − Δ` after the fix F11: the search stops above the largest admissible shift and
reports `cap + 1`, which `TruncatedDoubleGeometric::new` rejects). `r = E.powf(−ε)`, `p = 1 − E.powf(−1/(1/ε))`. -/
def oprfNew (A : Arith α) (cap : Nat) (eps delta : α) (sens : Nat) (r p : α) : Except CtorErr Nat :=
  match oprfRange A cap eps delta sens with
  | .error e => .error e
  | .ok () =>
    let n := findSmallestNCapped A cap sens r delta
    match truncatedNew A cap (A.div A.one eps) n p with
    | .ok d => .ok (d / 2)
    | .error e => .error e

/-- `NoiseParams::new` (after the fixes F4: `delta != 0.0` was the rejected case, and F13: the range checks are
written `!(x > 0.0)`, so NaN — for which every comparison is false — is rejected; the unfixed code had
`x <= 0.0`, see `noiseParamsNewUnfixed`). -/
def noiseParamsNew (A : Arith α) (eps delta succ dims qs l1 l2 linf : α) : Except String Unit :=
  if !(A.lt A.zero eps) then .error "epsilon must be > 0.0"
  else if !(A.lt A.zero delta) then .error "delta must be > 0.0"
  else if !(A.le A.zero succ && A.le succ A.one) then .error "success_prob must be between 0 and 1"
  else if !(A.lt A.zero dims) then .error "dimensions must be > 0.0"
  else if !(A.lt A.zero qs) then .error "quantization_scale must be > 0.0"
  else if !(A.lt A.zero l1) then .error "ell_1_sensitivity must be > 0.0"
  else if !(A.lt A.zero l2) then .error "ell_2_sensitivity must be > 0.0"
  else if !(A.lt A.zero linf) then .error "ell_infty_sensitivity must be > 0.0"
  else .ok ()

/-- one range check of `NoiseParams::new` as fixed (`!(x > 0.0)`) and as it was before F13 (`x <= 0.0`):
`true` = rejected.  They agree on every ordered field and differ exactly on NaN. -/
def noiseRangeReject (A : Arith α) (x : α) : Bool := !(A.lt A.zero x)
def noiseRangeRejectUnfixed (A : Arith α) (x : α) : Bool := A.le x A.zero

/-- the unfixed `NoiseParams::new` δ check (documented counterexample of F4). -/
def noiseParamsDeltaCheckUnfixed (A : Arith α) (delta : α) : Bool := !(A.eq delta A.zero)

/-- `dp_for_histogram`, `DpMechanism::Binomial`: `epsilon <= 0.0 || epsilon > MAX_EPSILON` is `EpsilonOutOfBounds`. -/
def binomialEpsOk (A : Arith α) (maxEps eps : α) : Bool := !(A.le eps A.zero || A.lt maxEps eps)

/-! ### samplers as functions of the RNG output stream (`u64` values; `Bernoulli::sample` is `v < p_int`) -/

def alwaysTrue : Nat := 2 ^ 64 - 1

/-- one Bernoulli draw: `(outcome, remaining stream)`; `none` = the scripted stream is exhausted. -/
def bernoulli (pInt : Nat) (s : List Nat) : Option (Bool × List Nat) :=
  if pInt == alwaysTrue then some (true, s) else
    match s with
    | [] => none
    | v :: rest => some (decide (v < pInt), rest)

/-- `Geometric::sample`: number of failures before the first success. -/
def geometric (pInt : Nat) : Nat → List Nat → Nat → Option (Nat × List Nat)
  | 0, _, _ => none
  | fuel + 1, s, attempts =>
      match bernoulli pInt s with
      | none => none
      | some (true, rest) => some (attempts, rest)
      | some (false, rest) => geometric pInt fuel rest (attempts + 1)

/-- `DoubleGeometric::sample`: `shift + attempts1 − attempts2`. -/
def doubleGeometric (pInt shift : Nat) (s : List Nat) : Option (Int × List Nat) :=
  match geometric pInt (s.length + 1) s 0 with
  | none => none
  | some (a1, s1) =>
    match geometric pInt (s1.length + 1) s1 0 with
    | none => none
    | some (a2, s2) => some ((shift : Int) + a1 - a2, s2)

/-- `TruncatedDoubleGeometric::sample`: rejection until `0 ≤ s ≤ 2·shift`. -/
def truncatedSample (pInt shift : Nat) : Nat → List Nat → Option (Nat × List Nat)
  | 0, _ => none
  | fuel + 1, s =>
      match doubleGeometric pInt shift s with
      | none => none
      | some (v, rest) =>
          if 0 ≤ v ∧ v ≤ (2 * shift : Nat) then some (v.toNat, rest) else truncatedSample pInt shift fuel rest

/-! ### `ShiftedTruncatedDiscreteLaplace` -/

/-- modulus of `ShiftedTruncatedDiscreteLaplace::new` after the fix F5: `2^bit_size` (`bit_size ≤ 32`, else panic). -/
def laplaceModulus (bitSize : Nat) : Option Nat := if bitSize ≤ 32 then some (2 ^ bitSize) else none

/-- the unfixed modulus: `u32::MAX` at 32 bits. -/
def laplaceModulusUnfixed (bitSize : Nat) : Option Nat :=
  if bitSize < 32 then some (2 ^ bitSize) else if bitSize == 32 then some (2 ^ 32 - 1) else none

/-- `sample.wrapping_sub(shift) % modulus`, then `OV::truncate_from` (`ovBits` = `OV::BITS`). -/
def symmetricSample (modulus ovBits sample shift : Nat) : Nat :=
  (((sample + 2 ^ 32 - shift) % 2 ^ 32) % modulus) % 2 ^ ovBits

/-- `sample_shares`: `(left, right)` by the direction to the excluded helper (`true` = `Direction::Left`). -/
def sampleShares (modulus ovBits sample shift : Nat) (dirLeft : Bool) : Nat × Nat :=
  let v := symmetricSample modulus ovBits sample shift
  if dirLeft then (0, v) else (v, 0)

/-- who generates noise in `apply_laplace_noise_pass` with excluded helper `e` (roles 0,1,2): helper `h`
contributes iff `h ≠ e`; the helper whose LEFT neighbour is excluded (`h = e + 1`) uses direction `Left`
and puts the value in its right component, the other puts it in its left component. -/
def passShares (modulus ovBits sample shift : Nat) (excluded h : Nat) : Nat × Nat :=
  if h % 3 == excluded % 3 then (0, 0)
  else sampleShares modulus ovBits sample shift (decide ((h + 2) % 3 = excluded % 3))

/-! ### `dp_for_histogram`, DiscreteLaplace: one pass over the buckets -/

/-- one `apply_laplace_noise_pass`: the generating pair draws `B` samples from its shared stream
(`std::array::from_fn(|_i| sample_shares(rng, …))`), each placed as `(sample − n) mod 2^w`, and adds the noise
vector to the histogram with `integer_add(noise, histogram)` (carry dropped). `none` = stream exhausted. -/
def e2ePass (pInt shift w : Nat) (modulus : Nat) : List Nat → List Nat → Option (List Nat)
  | [], _ => some []
  | h :: hs, script =>
    match truncatedSample pInt shift (script.length + 1) script with
    | none => none
    | some (sample, rest) =>
      let noise := symmetricSample modulus w sample shift
      let sum := Circuits.val (Circuits.integerAdd Circuits.plainAlg []
        (Circuits.bitsOf w noise) (Circuits.bitsOf w h)).1
      (e2ePass pInt shift w modulus hs rest).map (sum :: ·)

end IpaVerif.Dp
