import IpaVerif.Generated.ReportLayout
/-!
Executable model of the hybrid report wire format:

* `ipa-core/src/report/hybrid.rs`: `EncryptedHybridReport::{from_bytes, decrypt}`,
  `EncryptedHybrid{Impression,Conversion}Report::{from_bytes, decrypt}` and their slicing accessors,
  `Hybrid{Impression,Conversion}Report::encrypt_to`, `HybridReport::encrypt_to`;
* `ipa-core/src/report/hybrid_info.rs`: `Hybrid{Impression,Conversion}Info::{new, to_bytes, to_enc_bytes,
  from_bytes, byte_len}`;
* `ipa-core/src/hpke/{mod,registry}.rs`: `open_in_place` / `seal_in_place` as an *abstract* AEAD (`AEAD`,
  `Sealer`), the key registry as a function key id → key;
* the hand-off from `LengthDelimitedStream` (`helpers/transport/stream/input.rs`) as used by
  `query/runner/hybrid.rs::Query::execute`.

Bytes are `Nat`s. Every Rust index / slice / `GenericArray::from_slice` is an explicit possible
`.panic`, so "never panics" is a theorem (Props/C10) rather than an artefact of totalisation.
`u64`/`f64` metadata are kept as their 8 big-endian wire bytes (`to_be_bytes`/`from_be_bytes` are
bijections; the driver renders them as numbers).
The model mirrors the code *after* the fixes F6 (length checks instead of panics) and F7 (`new` rejects NUL).
-/
namespace IpaVerif.ReportWire
open IpaVerif.Generated

abbrev Bytes := List Nat

/-- `InvalidHybridReportError` (with `CryptError` flattened). -/
inductive Err where
  /-- `Length(got, expected)` -/
  | length (got expected : Nat)
  | unknownEventType (v : Nat)
  /-- `Crypt(CryptError::NoSuchKey(id))` -/
  | noSuchKey (id : Nat)
  /-- `Crypt(CryptError::Other)` -/
  | crypt
  /-- `DeserializationError(field, _)` -/
  | deser (field : String)
  /-- `NonAsciiString(_)` -/
  | nonAscii
  deriving DecidableEq, Repr

inductive Outcome (α : Type) where
  | ok (a : α)
  | err (e : Err)
  | panic (tag : String)
  deriving Repr, DecidableEq

namespace Outcome
@[inline] def bind {α β : Type} (x : Outcome α) (f : α → Outcome β) : Outcome β :=
  match x with
  | .ok a => f a
  | .err e => .err e
  | .panic t => .panic t
instance : Monad Outcome where
  pure := .ok
  bind := Outcome.bind
def isPanic {α : Type} : Outcome α → Bool
  | .panic _ => true
  | _ => false
/-- `.map_err(|e| f e)` -/
def mapErr {α : Type} (x : Outcome α) (f : Err → Err) : Outcome α :=
  match x with
  | .err e => .err (f e)
  | o => o
end Outcome

/-- `&d[a..b]` -/
def slice (d : Bytes) (a b : Nat) : Outcome Bytes :=
  if a ≤ b ∧ b ≤ d.length then .ok ((d.drop a).take (b - a)) else .panic "slice index out of range"

/-- `&d[a..]` -/
def sliceFrom (d : Bytes) (a : Nat) : Outcome Bytes :=
  if a ≤ d.length then .ok (d.drop a) else .panic "slice start index out of range"

/-- `d[i]` -/
def index (d : Bytes) (i : Nat) : Outcome Nat :=
  match d[i]? with
  | some x => .ok x
  | none => .panic "index out of bounds"

/-- `GenericArray::<u8, N>::from_slice(s)` -/
def fromSlice (n : Nat) (s : Bytes) : Outcome Bytes :=
  if s.length = n then .ok s else .panic "GenericArray::from_slice: length mismatch"

/-! ## Layout -/

/-- Sizes a report layout depends on (`btt` = breakdown key for impressions, trigger value for conversions). -/
structure Layout where
  /-- `EncapsulationSize::USIZE` -/
  encap : Nat
  /-- `TagSize::USIZE` -/
  tag : Nat
  /-- `Replicated::<BA64>::size()` -/
  mkSz : Nat
  /-- `Replicated::<BK>::size()` -/
  bk : Nat
  /-- `BK::BITS` -/
  bkBits : Nat
  /-- `Replicated::<V>::size()` -/
  v : Nat
  /-- `V::BITS` -/
  vBits : Nat
  deriving Repr

inductive Kind where
  | imp
  | conv
  deriving DecidableEq, Repr

def Layout.btt (L : Layout) : Kind → Nat
  | .imp => L.bk
  | .conv => L.v

def Layout.bttBits (L : Layout) : Kind → Nat
  | .imp => L.bkBits
  | .conv => L.vBits

/-- The offset constants, as translated from the two `impl` blocks. -/
def encapMkOff (L : Layout) : Kind → Nat
  | .imp => Report.Imp.encapMkOff L.encap L.tag L.mkSz L.bk
  | .conv => Report.Conv.encapMkOff L.encap L.tag L.mkSz L.v
def ctMkOff (L : Layout) : Kind → Nat
  | .imp => Report.Imp.ctMkOff L.encap L.tag L.mkSz L.bk
  | .conv => Report.Conv.ctMkOff L.encap L.tag L.mkSz L.v
def encapBttOff (L : Layout) : Kind → Nat
  | .imp => Report.Imp.encapBttOff L.encap L.tag L.mkSz L.bk
  | .conv => Report.Conv.encapBttOff L.encap L.tag L.mkSz L.v
def ctBttOff (L : Layout) : Kind → Nat
  | .imp => Report.Imp.ctBttOff L.encap L.tag L.mkSz L.bk
  | .conv => Report.Conv.ctBttOff L.encap L.tag L.mkSz L.v
def keyIdOff (L : Layout) : Kind → Nat
  | .imp => Report.Imp.keyIdOff L.encap L.tag L.mkSz L.bk
  | .conv => Report.Conv.keyIdOff L.encap L.tag L.mkSz L.v
def infoOff (L : Layout) : Kind → Nat
  | .imp => Report.Imp.infoOff L.encap L.tag L.mkSz L.bk
  | .conv => Report.Conv.infoOff L.encap L.tag L.mkSz L.v

/-- Serialized size of `Replicated<BAn>`: two halves of ⌈bits/8⌉ bytes. -/
def shareSize (bits : Nat) : Nat := 2 * ((bits + 7) / 8)

/-- Layout for `EncryptedHybridReport<BK, V>` with the extracted HPKE sizes. -/
def layoutOf (bkBits vBits : Nat) : Layout :=
  { encap := Report.encapSize, tag := Report.tagSize, mkSz := shareSize 64,
    bk := shareSize bkBits, bkBits := bkBits, v := shareSize vBits, vBits := vBits }

/-- The instantiation used by `query/runner/hybrid.rs`. -/
def prodLayout : Layout := layoutOf Report.prodBkBits Report.prodVBits

/-! ## `hybrid_info.rs` -/

/-- `DOMAIN ‖ HELPER_ORIGIN`, the prefix of every HPKE info string. -/
def encPrefix : Bytes := Report.domain ++ Report.helperOrigin

structure ImpInfo where
  keyId : Nat
  deriving DecidableEq, Repr

structure ConvInfo where
  keyId : Nat
  /-- `conversion_site_domain.as_bytes()` -/
  site : Bytes
  /-- `timestamp.to_be_bytes()` -/
  ts : Bytes
  /-- `epsilon.to_be_bytes()` -/
  eps : Bytes
  /-- `sensitivity.to_be_bytes()` -/
  sens : Bytes
  deriving DecidableEq, Repr

inductive Info where
  | imp (i : ImpInfo)
  | conv (c : ConvInfo)
  deriving DecidableEq, Repr

def Info.kind : Info → Kind
  | .imp _ => .imp
  | .conv _ => .conv

def ImpInfo.toBytes (i : ImpInfo) : Bytes := [i.keyId]
def ImpInfo.toEncBytes (i : ImpInfo) : Bytes := encPrefix ++ [i.keyId]

/-- fixed-length tail shared by `to_bytes` and `to_enc_bytes` -/
def ConvInfo.tail (c : ConvInfo) : Bytes := c.keyId :: (c.ts ++ c.eps ++ c.sens)
def ConvInfo.toBytes (c : ConvInfo) : Bytes := c.site ++ 0 :: c.tail
def ConvInfo.toEncBytes (c : ConvInfo) : Bytes := encPrefix ++ c.site ++ c.tail
/-- `byte_len` (its `debug_assert` compares with `to_bytes().len()`: see `Props.C10.byteLen_eq`). -/
def ConvInfo.byteLen (c : ConvInfo) : Nat := 1 + 1 + c.site.length + 8 + 8 + 8

def Info.toBytes : Info → Bytes
  | .imp i => i.toBytes
  | .conv c => c.toBytes
def Info.toEncBytes : Info → Bytes
  | .imp i => i.toEncBytes
  | .conv c => c.toEncBytes

/-- `String::from_utf8(..).is_ok()` (`core::str::run_utf8_validation`): shortest-form UTF-8, no
surrogates, at most U+10FFFF. State: number of continuation bytes still owed by the current scalar
and the admissible range of the next one. -/
def utf8Go : (need lo hi : Nat) → Bytes → Bool
  | need, _, _, [] => need == 0
  | 0, _, _, b :: rest =>
    if b < 0x80 then utf8Go 0 0x80 0xBF rest
    else if 0xC2 ≤ b ∧ b ≤ 0xDF then utf8Go 1 0x80 0xBF rest
    else if b = 0xE0 then utf8Go 2 0xA0 0xBF rest
    else if b = 0xED then utf8Go 2 0x80 0x9F rest
    else if 0xE1 ≤ b ∧ b ≤ 0xEF then utf8Go 2 0x80 0xBF rest
    else if b = 0xF0 then utf8Go 3 0x90 0xBF rest
    else if b = 0xF4 then utf8Go 3 0x80 0x8F rest
    else if 0xF1 ≤ b ∧ b ≤ 0xF3 then utf8Go 3 0x80 0xBF rest
    else false
  | n + 1, lo, hi, b :: rest => if lo ≤ b ∧ b ≤ hi then utf8Go n 0x80 0xBF rest else false

def utf8Valid (s : Bytes) : Bool := utf8Go 0 0x80 0xBF s

/-- `HybridConversionInfo::new`: ASCII and (F7) NUL-free. The site is given by its UTF-8 bytes. -/
def ConvInfo.new (keyId : Nat) (site ts eps sens : Bytes) : Outcome ConvInfo :=
  if site.all (· < 0x80) && !site.contains 0 then .ok { keyId, site, ts, eps, sens } else .err .nonAscii

/-- `HybridImpressionInfo::from_bytes` -/
def ImpInfo.fromBytes (b : Bytes) : Outcome ImpInfo :=
  match b with
  | [k] => .ok { keyId := k }
  | _ => .err (.length b.length 1)

/-- Split at the first NUL: `(bytes before, bytes after)`; `none` if there is no NUL. -/
def splitNul : Bytes → Option (Bytes × Bytes)
  | [] => none
  | x :: xs =>
    if x = 0 then some ([], xs)
    else match splitNul xs with
      | some (s, r) => some (x :: s, r)
      | none => none

/-- `HybridConversionInfo::from_bytes`. `rest` is `bytes[pos..]` after `pos += delimiter_pos + 1`;
the Rust indices `bytes[pos + i]` are the model's `rest[i]`. -/
def ConvInfo.fromBytes (b : Bytes) : Outcome ConvInfo :=
  match splitNul b with
  | none => .err (.deser "HybridConversionInfo: delimiter")
  | some (site, rest) =>
    if !utf8Valid site then .err (.deser "HybridConversionInfo: conversion_site_domain")
    else if site.length + 1 + Report.convInfoTail ≠ b.length then
      .err (.length b.length (site.length + 1 + Report.convInfoTail))
    else do
      let keyId ← index rest 0
      let ts ← slice rest 1 9
      let eps ← slice rest 9 17
      let sens ← slice rest 17 25
      pure { keyId, site, ts, eps, sens }

/-! ## HPKE as an abstract AEAD -/

/-- `open_in_place(sk, enc, ciphertext‖tag, info)`; `none` = `CryptError::Other`. -/
structure AEAD (K : Type) where
  open' : K → (enc ct info : Bytes) → Option Bytes

/-- `seal_in_place(pk, plaintext, info, rng)` ↦ `(encapsulated key, ciphertext‖tag)`; `r` stands for the
randomness drawn from `rng`. Keys are identified with key pairs. -/
structure Sealer (K : Type) where
  sealFn : K → (info plain : Bytes) → (r : Nat) → Bytes × Bytes

/-! ## `hybrid.rs` -/

/-- `EncryptedHybridReport<BK, V>`: the event type and the bytes after it. -/
structure EncReport where
  kind : Kind
  data : Bytes
  deriving DecidableEq, Repr

/-- `Encrypted{Impression,Conversion}Report::from_bytes` -/
def fromBytesKind (L : Layout) (k : Kind) (data : Bytes) : Outcome EncReport :=
  if data.length < infoOff L k then .err (.length data.length (infoOff L k))
  else .ok { kind := k, data }

/-- `EncryptedHybridReport::from_bytes` (= `TryFrom<Bytes>`) -/
def fromBytes (L : Layout) (bytes : Bytes) : Outcome EncReport :=
  match bytes with
  | [] => .err (.length 0 1)
  | e :: data =>
    if e = Report.evtImpression then fromBytesKind L .imp data
    else if e = Report.evtConversion then fromBytesKind L .conv data
    else .err (.unknownEventType e)

/-- decrypted report: the two plaintexts (serialized replicated shares) and the metadata -/
structure PlainReport where
  matchKey : Bytes
  btt : Bytes
  info : Info
  deriving DecidableEq, Repr

def ofLe : Bytes → Nat
  | [] => 0
  | b :: r => b + 256 * ofLe r

/-- `BAn::deserialize` succeeds iff the padding bits are zero. -/
def validHalf (bits : Nat) (h : Bytes) : Bool := bits % 8 == 0 || ofLe h < 2 ^ bits

/-- `Replicated::<BAn>::deserialize(..).is_ok()` on a buffer of the right size. -/
def validShare (bits : Nat) (s : Bytes) : Bool :=
  validHalf bits (s.take (s.length / 2)) && validHalf bits (s.drop (s.length / 2))

def parseInfo (k : Kind) (b : Bytes) : Outcome Info :=
  match k with
  | .imp => ((ImpInfo.fromBytes b).mapErr (fun _ => .deser "HybridImpressionInfo")).bind (fun i => .ok (.imp i))
  | .conv => ((ConvInfo.fromBytes b).mapErr (fun _ => .deser "HybridConversionInfo")).bind (fun c => .ok (.conv c))

def bttField : Kind → String
  | .imp => "is_trigger"
  | .conv => "trigger_value"

/-- `Encrypted{Impression,Conversion}Report::decrypt`, statement by statement. -/
def decrypt {K : Type} (A : AEAD K) (reg : Nat → Option K) (L : Layout) (r : EncReport) : Outcome PlainReport := do
  let k := r.kind
  -- let mut ct_mk = *GenericArray::from_slice(self.mk_ciphertext());
  let ctMk ← (slice r.data (ctMkOff L k) (encapBttOff L k)).bind (fromSlice (L.mkSz + L.tag))
  -- key_registry.private_key(self.key_id()).ok_or(NoSuchKey)
  let kid ← index r.data (keyIdOff L k)
  match reg kid with
  | none => .err (.noSuchKey kid)
  | some sk =>
    let infoBytes ← sliceFrom r.data (infoOff L k)
    let info ← parseInfo k infoBytes
    let infoEnc := info.toEncBytes
    let encMk ← slice r.data (encapMkOff L k) (ctMkOff L k)
    match A.open' sk encMk ctMk infoEnc with
    | none => .err .crypt
    | some ptMk =>
      let ctBtt ← (slice r.data (ctBttOff L k) (keyIdOff L k)).bind (fromSlice (L.btt k + L.tag))
      let encBtt ← slice r.data (encapBttOff L k) (ctBttOff L k)
      match A.open' sk encBtt ctBtt infoEnc with
      | none => .err .crypt
      | some ptBtt =>
        -- GenericArray::from_slice(plaintext_*): the plaintext is the in-place buffer minus the tag
        let ptMk ← fromSlice L.mkSz ptMk
        let ptBtt ← fromSlice (L.btt k) ptBtt
        if validShare (L.bttBits k) ptBtt then .ok { matchKey := ptMk, btt := ptBtt, info }
        else .err (.deser (bttField k))

/-- What a helper does with one record: `EncryptedHybridReport::try_from(bytes)?.decrypt(registry)`. -/
def process {K : Type} (A : AEAD K) (reg : Nat → Option K) (L : Layout) (bytes : Bytes) : Outcome PlainReport :=
  (fromBytes L bytes).bind (decrypt A reg L)

def evtByte : Kind → Nat
  | .imp => Report.evtImpression
  | .conv => Report.evtConversion

/-- `HybridReport::encrypt_to`: event type, two sealed plaintexts, key identifier, `info.to_bytes()`. -/
def encrypt {K : Type} (S : Sealer K) (k : K) (keyId : Nat) (rep : PlainReport) (r1 r2 : Nat) : Bytes :=
  let ie := rep.info.toEncBytes
  let c1 := S.sealFn k ie rep.matchKey r1
  let c2 := S.sealFn k ie rep.btt r2
  evtByte rep.info.kind :: (c1.1 ++ c1.2 ++ c2.1 ++ c2.2 ++ [keyId] ++ rep.info.toBytes)

/-- `encrypted_len()` of `HybridReport` (ciphertext part + info + event byte). -/
def encryptedLen (L : Layout) (info : Info) : Nat := infoOff L info.kind + info.toBytes.length + 1

/-! ## The fields of a record (for `layout_partition`) -/

/-- `(name, start, end)` of every field of a record of kind `k` whose info is `infoLen` bytes long;
offsets are relative to the start of the record (event-type byte included). -/
def fields (L : Layout) (k : Kind) (infoLen : Nat) : List (String × Nat × Nat) :=
  [ ("event_type", 0, 1),
    ("encap_key_mk", 1 + encapMkOff L k, 1 + ctMkOff L k),
    ("mk_ciphertext", 1 + ctMkOff L k, 1 + encapBttOff L k),
    ("encap_key_btt", 1 + encapBttOff L k, 1 + ctBttOff L k),
    ("btt_ciphertext", 1 + ctBttOff L k, 1 + keyIdOff L k),
    ("key_id", 1 + keyIdOff L k, 1 + infoOff L k),
    ("info", 1 + infoOff L k, 1 + infoOff L k + infoLen) ]

/-! ## Length-delimited input (`LengthDelimitedStream` → `try_flatten_iters` → `decrypt`) -/

/-- Split a complete body into its `u16`-LE length-delimited records; `none` when the body ends inside a
length prefix or inside a record. -/
def frames : Nat → Bytes → Option (List Bytes)
  | 0, _ => none
  | _ + 1, [] => some []
  | _ + 1, [_] => none
  | fuel + 1, lo :: hi :: rest =>
    let n := lo + 256 * hi
    if rest.length < n then none
    else match frames fuel (rest.drop n) with
      | some fs => some (rest.take n :: fs)
      | none => none

/-- The reports of a body, or `none` if anything fails (first error aborts the query input). -/
def processStream {K : Type} (A : AEAD K) (reg : Nat → Option K) (L : Layout) (body : Bytes) :
    Option (List (Outcome PlainReport)) :=
  (frames (body.length + 1) body).map (fun fs => fs.map (process A reg L))

end IpaVerif.ReportWire
