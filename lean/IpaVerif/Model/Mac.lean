import IpaVerif.Model.Sharing
import IpaVerif.Generated.MacConsts
import IpaVerif.Generated.MacReveal
/-!
Model for property C04: MAC-protected arithmetic (`MaliciousReplicated = (x, r·x)`) and two-copy openings.

Transcribes, for a prime field (`ExtendedField = F`, `induced` = identity; this is the mode used for the
pseudonym computation, `Fp25519`):

* `MaliciousAccumulator::compute_dot_product_contribution` / `accumulate_macs`   (context/validator.rs)
* `Upgradable::upgrade` for `Replicated<V>`                                        (context/malicious.rs)
* `mac_multiply`                                                                   (basics/mul/malicious.rs)
* local linear operations of `malicious::AdditiveShare`                            (replicated/malicious/additive_share.rs)
* `Malicious::new` (accumulators start as PRSS zero shares), `propagate_u_and_w`, `T = u − w·r`,
  `malicious_check_zero`, the record-id helpers                                    (validator.rs, check_zero.rs)
* `malicious_reveal`, `semi_honest_reveal` and EVERY `impl Reveal<Ctx> for Sharing` (which of the two openings it
  delegates to: `Generated/MacReveal.lean`)                                         (basics/reveal.rs)
* the batch structure of a validator: `BatchValidator::new` hands the `Batcher` the constructor
  `|batch_index| Malicious::new(ctx, batch_index)`; `Malicious::new` draws the batch's key `r` at the PRSS index
  `r_share_record(batch_index, 3)`; `Malicious::validate` OPENS `r`                  (validator.rs, batcher.rs)

Formulas, operand choices, record-id multipliers and message directions are taken from
`Generated/MacConsts.lean`, which the translator re-reads from the sources on every run.

**Deviations.** Every message of every interactive step carries an additive error (`Err`: one ring element per
sending helper; all zero = honest run).  A wrong message `m` is the same as the honest message plus the error
`m − honest`, so quantifying over all errors covers every strategy of a deviating sender.  A sharing is kept as the
three helpers' views (`World`); when a message is altered, the *receiver's* copy is what the honest helpers go on
computing with, and the sender's own copy is set to the same value (the sender is the deviating party: whatever it
sends later is again "honest on this state plus an arbitrary error").  Import-free.
-/
namespace IpaVerif.Mac
open IpaVerif.Sharing IpaVerif.Generated.Mac

variable {F : Type}

/-! ## extracted formulas -/

/-- evaluate an extracted term -/
def evalTm (A : Alg F) (env : Atom → F) : Tm → F
  | .v a => env a
  | .add x y => A.add (evalTm A env x) (evalTm A env y)
  | .sub x y => A.sub (evalTm A env x) (evalTm A env y)
  | .mul x y => A.mul (evalTm A env x) (evalTm A env y)

/-- `compute_dot_product_contribution`, one lane: `(a_l + a_r)·(b_l + b_r) − a_r·b_r`. -/
def dotContribution (A : Alg F) (a b : HShare F) : F :=
  evalTm A (fun | .al => a.l | .ar => a.r | .bl => b.l | .br => b.r | _ => A.zero) dotFormula

/-- `N` lanes: the per-lane values are folded from `ZERO` with `+`. -/
def dotContributionN (A : Alg F) (as bs : List (HShare F)) : F :=
  (List.zipWith (dotContribution A) as bs).foldl A.add A.zero

/-! ## MAC'd sharings -/

/-- `malicious::AdditiveShare`: the three helpers' views of `x` and of `rx`. -/
structure MShare (F : Type) where
  x : World F
  rx : World F

/-- `induced()` for a prime field: `to_extended` is the identity. -/
def induced (x : World F) : World F := x

def zeroM (A : Alg F) : MShare F := ⟨zeroS A, zeroS A⟩

/-- local linear operations: applied to `x` and to `rx` alike. -/
def addM (A : Alg F) (a b : MShare F) : MShare F := ⟨addS A a.x b.x, addS A a.rx b.rx⟩
def subM (A : Alg F) (a b : MShare F) : MShare F := ⟨subS A a.x b.x, subS A a.rx b.rx⟩
def negM (A : Alg F) (a : MShare F) : MShare F := ⟨negS A a.x, negS A a.rx⟩
def mulConstM (A : Alg F) (c : F) (a : MShare F) : MShare F := ⟨mulConstS A c a.x, mulConstS A c a.rx⟩

/-! ## messages with additive errors -/

/-- one error per sending helper (H1, H2, H3) for one communication round. -/
structure Err (F : Type) where
  e1 : F
  e2 : F
  e3 : F

def noErr (A : Alg F) : Err F := ⟨A.zero, A.zero, A.zero⟩
def Err.total (A : Alg F) (e : Err F) : F := A.add (A.add e.e1 e.e2) e.e3

/-- `multiplication_protocol` where helper `i`'s message `z_i` arrives as `z_i + e_i`. -/
def mulE (A : Alg F) (ρ : Masks F) (e : Err F) (x y : World F) : World F :=
  let z1 := A.add (zLeft A x.h1 y.h1 ρ.m1 ρ.m2) e.e1
  let z2 := A.add (zLeft A x.h2 y.h2 ρ.m2 ρ.m3) e.e2
  let z3 := A.add (zLeft A x.h3 y.h3 ρ.m3 ρ.m1) e.e3
  ⟨⟨z1, z2⟩, ⟨z2, z3⟩, ⟨z3, z1⟩⟩

/-- `upgrade`: `rx = semi_honest_multiply(induced_share, r)`; `x` is the input itself. -/
def upgradeE (A : Alg F) (ρ : Masks F) (e' : Err F) (r x : World F) : MShare F :=
  let s : Opnd → World F := fun
    | .induced => induced x
    | .r => r
    | _ => zeroS A
  ⟨x, mulE A ρ e' (s upgradeMulArgs.1) (s upgradeMulArgs.2)⟩

/-- `mac_multiply`: `ab = a.x · b.x`, `rab = a.rx · induced(b.x)`; errors `e` on the first, `e'` on the second. -/
def macMulE (A : Alg F) (ρ ρ' : Masks F) (e e' : Err F) (a b : MShare F) : MShare F :=
  let s : Opnd → World F := fun
    | .ax => a.x
    | .arx => a.rx
    | .bx => b.x
    | .bInduced => induced b.x
    | _ => zeroS A
  ⟨mulE A ρ e (s mainMulArgs.1) (s mainMulArgs.2), mulE A ρ' e' (s dupMulArgs.1) (s dupMulArgs.2)⟩

/-! ## accumulators -/

/-- one local (unreplicated) value per helper. -/
structure Loc (F : Type) where
  h1 : F
  h2 : F
  h3 : F

/-- `AccumulatorState` of the three helpers. -/
structure Acc (F : Type) where
  u : Loc F
  w : Loc F

/-- `prss.zero(index)` = `left − right`; helper `i` draws `(m_i, m_{i+1})`. -/
def zeroLoc (A : Alg F) (m : Masks F) : Loc F := ⟨A.sub m.m1 m.m2, A.sub m.m2 m.m3, A.sub m.m3 m.m1⟩

/-- `Malicious::new`: `u`, `w` start as PRSS zero shares. -/
def initAcc (A : Alg F) (mu mw : Masks F) : Acc F := ⟨zeroLoc A mu, zeroLoc A mw⟩

/-- one helper's `u` / `w` contribution of `accumulate_macs` (`pick` selects that helper's view). -/
def contrib (A : Alg F) (args : Opnd × Opnd) (α : World F) (m : MShare F) (pick : World F → HShare F) : F :=
  let s : Opnd → World F := fun
    | .alpha => α
    | .inputRx => m.rx
    | .induced => induced m.x
    | _ => zeroS A
  dotContribution A (pick (s args.1)) (pick (s args.2))

/-- `accumulate_macs` on all three helpers; `α` = `prss.generate(record_id)` (a replicated sharing). -/
def accumulate (A : Alg F) (α : World F) (m : MShare F) (acc : Acc F) : Acc F :=
  { u := ⟨A.add acc.u.h1 (contrib A uContribArgs α m (·.h1)),
          A.add acc.u.h2 (contrib A uContribArgs α m (·.h2)),
          A.add acc.u.h3 (contrib A uContribArgs α m (·.h3))⟩,
    w := ⟨A.add acc.w.h1 (contrib A wContribArgs α m (·.h1)),
          A.add acc.w.h2 (contrib A wContribArgs α m (·.h2)),
          A.add acc.w.h3 (contrib A wContribArgs α m (·.h3))⟩ }

/-! ## vectorised shares (`N` lanes) -/

/-- the per-lane random coefficients `accumulate_macs` multiplies with: `random_constant = prss.generate(record_id)`
is an `N`-lane sharing, i.e. lane `i` uses its own `α_i` (`coefficientPerLane`).  Were a single value expanded
across the lanes, every lane would use lane 0's. A lane is a pair (its `α`, its MAC'd sharing). -/
def laneAlphas (lanes : List (World F × MShare F)) : List (World F) :=
  if coefficientPerLane then lanes.map (·.1)
  else match lanes with
    | [] => []
    | l :: _ => lanes.map (fun _ => l.1)

/-- one helper's `u` / `w` contribution for an `N`-lane share: the vectorised formula, lanes folded from `ZERO`. -/
def contribN (A : Alg F) (args : Opnd × Opnd) (lanes : List (World F × MShare F)) (pick : World F → HShare F) : F :=
  let s : Opnd → List (World F) := fun
    | .alpha => laneAlphas lanes
    | .inputRx => lanes.map (fun l => l.2.rx)
    | .induced => lanes.map (fun l => induced l.2.x)
    | _ => []
  dotContributionN A ((s args.1).map pick) ((s args.2).map pick)

/-- `accumulate_macs` for an `N`-lane share on all three helpers. -/
def accumulateN (A : Alg F) (lanes : List (World F × MShare F)) (acc : Acc F) : Acc F :=
  { u := ⟨A.add acc.u.h1 (contribN A uContribArgs lanes (·.h1)),
          A.add acc.u.h2 (contribN A uContribArgs lanes (·.h2)),
          A.add acc.u.h3 (contribN A uContribArgs lanes (·.h3))⟩,
    w := ⟨A.add acc.w.h1 (contribN A wContribArgs lanes (·.h1)),
          A.add acc.w.h2 (contribN A wContribArgs lanes (·.h2)),
          A.add acc.w.h3 (contribN A wContribArgs lanes (·.h3))⟩ }

/-- the variant in which ONE coefficient (lane 0's) is used for all lanes of a record — NOT what the code does;
kept to document why the coefficients must be independent (`shared_coefficient_counterexample`). -/
def accumulateShared (A : Alg F) (lanes : List (World F × MShare F)) (acc : Acc F) : Acc F :=
  match lanes with
  | [] => acc
  | l :: _ => lanes.foldl (fun a ln => accumulate A l.1 ln.2 a) acc

/-! ## circuits: any sequence of upgrades, multiplications and local linear operations -/

/-- one step of a computation under one validator batch. Wires are numbered in creation order. -/
inductive Gate (F : Type) where
  /-- upgrade input `x`; masks `ρ` of the multiplication by `r`, random constant `α`, errors `e'` -/
  | upgrade (x : World F) (ρ : Masks F) (α : World F) (e' : Err F)
  /-- multiply wires `i`, `j`; masks of the two multiplications, random constant, errors on `x·y` / on `rx·y` -/
  | mul (i j : Nat) (ρ ρ' : Masks F) (α : World F) (e e' : Err F)
  | add (i j : Nat)
  | sub (i j : Nat)
  | neg (i : Nat)
  | mulConst (i : Nat) (c : F)

structure St (F : Type) where
  wires : List (MShare F)
  acc : Acc F

def wire (A : Alg F) (st : St F) (i : Nat) : MShare F := st.wires.getD i (zeroM A)

/-- `r` is the batch's `r_share`. Upgrades and multiplications record their output in the accumulators. -/
def step (A : Alg F) (r : World F) (st : St F) : Gate F → St F
  | .upgrade x ρ α e' =>
      let m := upgradeE A ρ e' r x
      ⟨st.wires ++ [m], accumulate A α m st.acc⟩
  | .mul i j ρ ρ' α e e' =>
      let m := macMulE A ρ ρ' e e' (wire A st i) (wire A st j)
      ⟨st.wires ++ [m], accumulate A α m st.acc⟩
  | .add i j => ⟨st.wires ++ [addM A (wire A st i) (wire A st j)], st.acc⟩
  | .sub i j => ⟨st.wires ++ [subM A (wire A st i) (wire A st j)], st.acc⟩
  | .neg i => ⟨st.wires ++ [negM A (wire A st i)], st.acc⟩
  | .mulConst i c => ⟨st.wires ++ [mulConstM A c (wire A st i)], st.acc⟩

def run (A : Alg F) (r : World F) : List (Gate F) → St F → St F
  | [], st => st
  | g :: gs, st => run A r gs (step A r st g)

/-! ## validation of a batch -/

/-- `propagate_u_and_w` for one of the two values: helper `i` sends `v_i + e_i` to its right neighbour, which
stores it as the left component next to its own local value (`Replicated::new(u_left, u_local)`). -/
def propagateE (A : Alg F) (e : Err F) (v : Loc F) : World F :=
  if propagateToRight then
    let s1 := A.add v.h3 e.e3
    let s2 := A.add v.h1 e.e1
    let s3 := A.add v.h2 e.e2
    ⟨⟨s1, s2⟩, ⟨s2, s3⟩, ⟨s3, s1⟩⟩
  else
    ⟨⟨A.add v.h2 e.e2, v.h1⟩, ⟨A.add v.h3 e.e3, v.h2⟩, ⟨A.add v.h1 e.e1, v.h3⟩⟩

/-- `let t = u_share - &(w_share * r)` with the opened `r`, computed locally by every helper. -/
def tShare (A : Alg F) (rOpen : F) (u w : World F) : World F :=
  map2 (fun uu ww => evalTm A (fun | .u => uu | .w => ww | .r => rOpen | _ => A.zero) tFormula) u w

/-- `malicious_check_zero`: the opened value `mask · v` (+ the error on the multiplication). -/
def checkZeroOpened (A : Alg F) (ρ : Masks F) (mask : World F) (e : Err F) (v : World F) : F :=
  let s : Opnd → World F := fun
    | .czMask => mask
    | .czValue => v
    | _ => zeroS A
  reconstruct A (mulE A ρ e (s checkZeroMulArgs.1) (s checkZeroMulArgs.2))

/-- errors on the messages of `validate`: `propagate_u_and_w` (u, w) and the check-zero multiplication. -/
structure ValErr (F : Type) where
  eu : Err F
  ew : Err F
  ecz : Err F

def noValErr (A : Alg F) : ValErr F := ⟨noErr A, noErr A, noErr A⟩

/-- the sharing of `T` the helpers hold before the check (`rOpen` = the opened `r`). -/
def tOf (A : Alg F) (rOpen : F) (acc : Acc F) (ve : ValErr F) : World F :=
  tShare A rOpen (propagateE A ve.eu acc.u) (propagateE A ve.ew acc.w)

/-- `Malicious::validate` up to the two openings (for those see `revealAt`): `true` = `Ok(())`,
`false` = `MaliciousSecurityCheckFailed`. `czρ`, `czMask` = the PRSS values of `malicious_check_zero`. -/
def validateE [DecidableEq F] (A : Alg F) (r : World F) (acc : Acc F) (ve : ValErr F)
    (czρ : Masks F) (czMask : World F) : Bool :=
  decide (checkZeroOpened A czρ czMask ve.ecz (tOf A (reconstruct A r) acc ve) = A.zero)

/-! ## two-copy opening (`malicious_reveal`) -/

def view (w : World F) (h : Nat) : HShare F :=
  match h % 3 with
  | 0 => w.h1
  | 1 => w.h2
  | _ => w.h3

/-- what a helper sends to its left / right peer. -/
def revealMsgToLeft (v : HShare F) : F := if revealToLeftSendsRight then v.r else v.l
def revealMsgToRight (v : HShare F) : F := if revealToRightSendsLeft then v.l else v.r

/-- the receiving side: `none` = `MaliciousRevealFailed`. -/
def revealAt [DecidableEq F] (A : Alg F) (own : HShare F) (fromLeft fromRight : F) : Option F :=
  if fromLeft = fromRight then some (A.add (A.add fromLeft own.l) own.r) else none

/-- honest opening as seen by helper `h` (0,1,2): its left peer is `h+2`, its right peer `h+1`. -/
def revealHonest [DecidableEq F] (A : Alg F) (w : World F) (h : Nat) : Option F :=
  revealAt A (view w h) (revealMsgToRight (view w (h + 2))) (revealMsgToLeft (view w (h + 1)))

/-- helper `c` deviates: it sends `mL` to its left peer and `mR` to its right peer; seen from helper `h`. -/
def revealCorrupt [DecidableEq F] (A : Alg F) (w : World F) (c h : Nat) (mL mR : F) : Option F :=
  let fromLeft := if (h + 2) % 3 = c % 3 then mR else revealMsgToRight (view w (h + 2))
  let fromRight := if (h + 1) % 3 = c % 3 then mL else revealMsgToLeft (view w (h + 1))
  revealAt A (view w h) fromLeft fromRight

/-- opening a MAC'd sharing opens its `x` part. -/
def revealM [DecidableEq F] (A : Alg F) (m : MShare F) (c h : Nat) (mL mR : F) : Option F :=
  revealCorrupt A m.x c h mL mR

/-! ## record ids -/

def uRecord (offset total : Nat) : Nat := total * offset + uRecordAdd
def wRecord (offset total : Nat) : Nat := total * offset + wRecordAdd
def rShareRecord (offset total : Nat) : Nat := total * offset + rShareRecordAdd
def revealCheckZeroRecord (offset : Nat) : Nat := offset

/-- PRSS indices drawn by `Malicious::new` for batch `offset`. -/
def prssRecords (offset : Nat) : List Nat :=
  [rShareRecord offset totalCallsToPrss, uRecord offset totalCallsToPrss, wRecord offset totalCallsToPrss]

/-- record ids used on the `PropagateUAndW` channel by batch `offset`. -/
def sendRecords (offset : Nat) : List Nat := [uRecord offset totalSend, wRecord offset totalSend]

/-- `validate_record(record_id)` belongs to batch `record_id / records_per_batch` (the Batcher, C16). -/
def batchOf (recordsPerBatch record : Nat) : Nat := record / recordsPerBatch

/-! ## every `impl Reveal<Ctx> for Sharing` (basics/reveal.rs) -/

open IpaVerif.Generated.MacReveal in
/-- the contexts of the malicious modes (`protocol/context/{malicious,dzkp_malicious}.rs`). -/
def maliciousCtxs : List String :=
  (contextModules.filter (fun p => p.2 == "malicious" || p.2 == "dzkp_malicious")).map (·.1)

def isMaliciousCtx (ctx : String) : Bool := maliciousCtxs.contains ctx

open IpaVerif.Generated.MacReveal in
/-- all concrete instances `(context, sharing, opening)`: the impls written for a context, and for every impl that is
generic in the context and delegates per element (`BitDecomposed<S>`): one instance per (context, element sharing),
with the opening of the element's impl (trait dispatch `S::generic_reveal`). -/
def resolvedImpls : List (String × String × RevealFn) :=
  let direct := (revealImpls.filter (fun i => i.ctx != "*")).map (fun i => (i.ctx, i.sharing, i.fn))
  let generic := revealImpls.filter (fun i => i.ctx == "*")
  direct ++ generic.flatMap (fun g => direct.map (fun d =>
    (d.1, g.sharing ++ "<" ++ d.2.1 ++ ">", if g.fn = .perElement then d.2.2 else g.fn)))

open IpaVerif.Generated.MacReveal in
def resolveImpl (ctx sharing : String) : Option RevealFn :=
  (resolvedImpls.find? (fun r => r.1 == ctx && r.2.1 == sharing)).map (·.2.2)

/-- `semi_honest_reveal`, receiving side: ONE copy, from the left peer; nothing to compare. -/
def revealAtOne (A : Alg F) (own : HShare F) (fromLeft : F) : Option F :=
  some (A.add (A.add fromLeft own.l) own.r)

open IpaVerif.Generated.MacReveal in
/-- an opening through an impl that delegates to `fn`; helper `c` deviates (sends `mL` to its left peer, `mR` to its
right peer — under `semi_honest_reveal` only the message to the right peer exists); seen from helper `h`. -/
def revealVia [DecidableEq F] (A : Alg F) (fn : RevealFn) (w : World F) (c h : Nat) (mL mR : F) : Option F :=
  match fn with
  | .twoCopy => revealCorrupt A w c h mL mR
  | .oneCopy => revealAtOne A (view w h) (if (h + 2) % 3 = c % 3 then mR else (view w (h + 2)).l)
  | _ => none

/-! ## batches of one validator and their keys -/

/-- the PRSS index at which the key of batch `b` is drawn: by the per-batch constructor `Malicious::new(ctx, b)`, at
`r_share_record(b, TOTAL_CALLS_TO_PRSS)`.  (`keyPerBatch = false` — a key drawn once for the validator — would be the
index of batch 0 for every batch.) -/
def keyIndex (b : Nat) : Nat := rShareRecord (if keyPerBatch then b else 0) totalCallsToPrss

/-- everything one batch does, including the deviating helper's errors. -/
structure BatchIn (F : Type) where
  mu : Masks F
  mw : Masks F
  gates : List (Gate F)
  ve : ValErr F
  czρ : Masks F
  czMask : World F

structure BatchOut (F : Type) where
  wires : List (MShare F)
  /-- `validate` returned `Ok` -/
  ok : Bool

/-- Batches `0 … n−1` of one validator, in order. `prss i` = the sharing `prss.generate(i)` of the validator's step;
`keyIdx b` = the index of batch `b`'s key.  The contents of batch `b` (its gates with the deviating helper's errors)
are chosen by `adv` knowing every key OPENED so far: `Malicious::validate` reveals `r` to all helpers, whatever the
verdict.  Returns the batches' outcomes and the list of opened keys. -/
def runBatchesWith [DecidableEq F] (A : Alg F) (keyIdx : Nat → Nat) (prss : Nat → World F)
    (adv : Nat → List F → BatchIn F) : Nat → List (BatchOut F) × List F
  | 0 => ([], [])
  | n + 1 =>
    let prev := runBatchesWith A keyIdx prss adv n
    let bi := adv n prev.2
    let r := prss (keyIdx n)
    let st := run A r bi.gates ⟨[], initAcc A bi.mu bi.mw⟩
    let ok := validateE A r st.acc bi.ve bi.czρ bi.czMask
    (prev.1 ++ [⟨st.wires, ok⟩], prev.2 ++ (if validateOpensKey then [reconstruct A r] else []))

/-- the code: keys at `keyIndex`. -/
def runBatches [DecidableEq F] (A : Alg F) (prss : Nat → World F) (adv : Nat → List F → BatchIn F) (n : Nat) :
    List (BatchOut F) × List F :=
  runBatchesWith A keyIndex prss adv n

end IpaVerif.Mac
