import IpaVerif.Model.Hybrid
import IpaVerif.Model.Circuits
/-!
Share-level model of the secure-computation stages of `hybrid_protocol` (C01, composed with C07).

`Model/Hybrid.lean` models every stage by the plaintext function it computes. Here the same stages run
over an interface `SecureAlg α` (`Model/Circuits.lean`): a record carries its breakdown key and value as
bit lists of `α` (for `α = World Bool`: the three helpers' views of replicated Boolean shares), and

* `aggregate_reports`      = `group_report_pairs_ordered` on the revealed pseudonyms, then two
                             `integer_add` circuits per pair (carry dropped),
* `breakdown_reveal_aggregation` = reveal of the breakdown key (`reveal : List α → Nat`, the opened value),
                             `ValueHistogram` rows, the chunked `aggregate_values` trees,
* `finalize`               = `Histogram::merge` (`integer_sat_add`) of the followers into the leader

are the real circuits of `Model/Circuits.lean` on those bit lists. What stays at the reconstructed level:
the match key / PRF pseudonym (`key`, revealed by the protocol), the two shuffles and the DP padding
(arbitrary re-sharings of a permutation of the records plus dummies: quantified over in the theorem),
and the opened breakdown key. Import-free.
-/
namespace IpaVerif.HybridShares
open IpaVerif.Circuits IpaVerif.Hybrid

variable {α β : Type}

/-- an `IndistinguishableHybridReport` / `PrfHybridReport` with secret-shared payload. -/
structure SRec (α : Type) where
  key : Nat
  bk : List α
  v : List α

/-- an `AggregateableHybridReport`: (breakdown key bits, value bits). -/
abbrev SRow (α : Type) := List α × List α

-- named steps as path components
def stepAddBK : Nat := 2000      -- AggregateReportsStep::AddBK
def stepAddV : Nat := 2001       -- AggregateReportsStep::AddV
def stepAggregate : Nat := 2002  -- HybridStep::Aggregate / AggregationStep::aggregate(depth)
def stepFinalize : Nat := 2003   -- HybridStep::Finalize / FinalizeSteps::Add

/-- `MatchEntry` with an arbitrary payload. -/
inductive EntryG (β : Type) where
  | single (r : β)
  | pair (r1 r2 : β)
  | moreThanTwo

def EntryG.add (e : EntryG β) (r : β) : EntryG β :=
  match e with
  | .single old => .pair old r
  | .pair _ _ => .moreThanTwo
  | .moreThanTwo => .moreThanTwo

def EntryG.intoPair : EntryG β → Option (β × β)
  | .pair a b => some (a, b)
  | _ => none

def upsertG (k : Nat) (r : β) : List (Nat × EntryG β) → List (Nat × EntryG β)
  | [] => [(k, .single r)]
  | (k', e) :: rest =>
    if k < k' then (k, .single r) :: (k', e) :: rest
    else if k = k' then (k', e.add r) :: rest
    else (k', e) :: upsertG k r rest

/-- `group_report_pairs_ordered` for any payload (the grouping looks at the pseudonyms only). -/
def groupPairsG (reports : List (Nat × β)) : List (β × β) :=
  (reports.foldl (fun m (kr : Nat × β) => upsertG kr.1 kr.2 m) []).filterMap (fun ke => ke.2.intoPair)

/-- pair number `idx` of `aggregate_reports`: `integer_add` of the breakdown keys under `AddBK` and of the
values under `AddV` (record id `idx`), both carries dropped. -/
def sAddPair (A : SecureAlg α) (p : Path) (idx : Nat) (pr : SRec α × SRec α) : SRow α :=
  ((integerAdd A (p ++ [stepAddBK, idx]) pr.1.bk pr.2.bk).1, (integerAdd A (p ++ [stepAddV, idx]) pr.1.v pr.2.v).1)

/-- `aggregate_reports` on one shard. -/
def sAggregateReports (A : SecureAlg α) (p : Path) (reports : List (Nat × SRec α)) : List (SRow α) :=
  let pairs := groupPairsG reports
  List.zipWith (sAddPair A p) (List.range pairs.length) pairs

/-- reshard by pseudonym (as `Hybrid.reshardByPrf`). -/
def sReshardByPrf (n : Nat) (f : Nat → Nat) (shards : List (List (SRec α))) (d : Nat) : List (Nat × SRec α) :=
  (shards.flatten.filter (fun r => f r.key % n == d)).map (fun r => (f r.key, r))

/-- First half of the pipeline: from the records after the first shuffle (per shard) to the aggregated
rows per shard, before aggregation padding and the second shuffle. -/
def sHead (A : SecureAlg α) (p : Path) (f : Nat → Nat) (afterShuffle1 : List (List (SRec α))) : List (List (SRow α)) :=
  let n := afterShuffle1.length
  (List.range n).map (fun d => sAggregateReports A (p ++ [d]) (sReshardByPrf n f afterShuffle1 d))

/-- `ValueHistogram.tvs[b]` after `reveal_breakdowns`: the value shares pushed for bucket `b`. -/
def sBucketValues (reveal : List α → Nat) (rows : List (SRow α)) (b : Nat) : List (List α) :=
  (rows.filter (fun r => reveal r.1 == b)).map (·.2)

/-- column `b` of `From<ValueHistogram>`: `pop()` order, then `Replicated::ZERO` values up to `max_len`. -/
def sColumn (A : SecureAlg α) (reveal : List α → Nat) (vW : Nat) (rows : List (SRow α)) (maxLen b : Nat) : List (List α) :=
  let vs := (sBucketValues reveal rows b).reverse
  vs ++ List.replicate (maxLen - vs.length) (List.replicate vW A.zero)

def sMaxLen (reveal : List α → Nat) (buckets : Nat) (rows : List (SRow α)) : Nat :=
  (List.range buckets).foldl (fun acc b => max acc (sBucketValues reveal rows b).length) 0

/-- `slice.chunks(n)` (as `Hybrid.chunks`, any element type). -/
def chunksG (n : Nat) : Nat → List β → List (List β)
  | _, [] => []
  | 0, l => [l]
  | fuel + 1, l => l.take n :: chunksG n fuel (l.drop n)

/-- one pass of the `for (chunk_counter, chunk) in intermediate_results.chunks(agg_proof_chunk)` loop:
`aggregate_values` per chunk (validator / proof batch `chunk_counter`). -/
def sAggChunks (A : SecureAlg α) (p : Path) (w : Nat) (cs : List (List (List α))) : List (List α) :=
  List.zipWith (fun i c => aggregateValues A (p ++ [i]) w c) (List.range cs.length) cs

/-- the `while intermediate_results.len() > 1` loop of `breakdown_reveal_aggregation` on one column, then
`result.resize(HV::BITS, ZERO)`. (No rows: the code panics with "aggregation input must not be empty";
unreachable, the function returns early on empty input. Modelled as all-zero.) -/
def sChunkedAgg (A : SecureAlg α) (p : Path) (w chunk : Nat) : Nat → Nat → List (List α) → List α
  | _, _, [] => resizeZero A [] w
  | _, _, [a] => resizeZero A a w
  | 0, _, a :: _ => resizeZero A a w
  | fuel + 1, depth, l =>
      sChunkedAgg A p w chunk fuel (depth + 1) (sAggChunks A (p ++ [stepAggregate, depth]) w (chunksG (max chunk 2) l.length l))

/-- per-shard histogram (one `HV`-bit share list per bucket; the `B` buckets are the vector lanes). -/
def sShardHistogram (A : SecureAlg α) (reveal : List α → Nat) (p : Path) (W : Widths) (chunk : Nat)
    (rows : List (SRow α)) : List (List α) :=
  let ml := sMaxLen reveal W.buckets rows
  (List.range W.buckets).map (fun b =>
    let c := sColumn A reveal W.vW rows ml b
    sChunkedAgg A (p ++ [b]) W.hvW chunk c.length 0 c)

/-- `Histogram::merge`: `integer_sat_add` lane by lane. -/
def sMerge (A : SecureAlg α) (p : Path) (acc h : List (List α)) : List (List α) :=
  List.zipWith (fun a b => integerSatAdd A p a b) acc h

/-- `semi_honest` finalizer on the leader: `try_fold(inputs, merge)` over the followers (record id `i`). -/
def sFinalize (A : SecureAlg α) (p : Path) (W : Widths) : List (List (List α)) → List (List α)
  | [] => List.replicate W.buckets (List.replicate W.hvW A.zero)
  | leader :: followers =>
      (List.zip (List.range followers.length) followers).foldl (fun acc ih => sMerge A (p ++ [ih.1]) acc ih.2) leader

/-- Second half of the pipeline: from the rows after aggregation padding and the second shuffle (per shard)
to the leader's histogram. -/
def sTail (A : SecureAlg α) (reveal : List α → Nat) (p : Path) (W : Widths) (chunk : Nat)
    (afterShuffle2 : List (List (SRow α))) : List (List α) :=
  sFinalize A (p ++ [stepFinalize]) W
    (List.zipWith (fun d rows => sShardHistogram A reveal (p ++ [d]) W chunk rows) (List.range afterShuffle2.length) afterShuffle2)

/-- value of a bit list of replicated Boolean sharings: reconstruct every bit, read little-endian. -/
def recBits (l : List (Sharing.World Bool)) : Nat := val (l.map (Sharing.reconstruct Sharing.boolAlg))

end IpaVerif.HybridShares
