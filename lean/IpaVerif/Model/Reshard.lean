/-!
# Model of resharding (C19) — `protocol/context/mod.rs: reshard_try_stream`

For one helper with `n` shards. Shard `src` walks its input sequentially (record ids 0,1,…), asks
`pick src i x` for the destination, keeps the record in bucket `r[src]` if it is its own, otherwise
sends it on the FIFO channel `src → dest` (per-destination record counters make the channel an
ordered queue); at the end it closes every channel. Shard `d` concurrently receives from all
channels in an ARBITRARY interleaving (`select`), appending what arrives from `src` to bucket
`r[src]`; the result is `r[0] ++ r[1] ++ … ++ r[n-1]`.

Import-free.
-/
namespace IpaVerif.Reshard

/-- records of source `src` (starting at record id `i`) that `pick` routes to `d`, in order:
the content of the channel `src → d` (for `src = d`: the locally kept records). -/
def outgoing {α : Type} (pick : Nat → Nat → α → Nat) (src d : Nat) : Nat → List α → List α
  | _, [] => []
  | i, x :: xs => if pick src i x = d then x :: outgoing pick src d (i + 1) xs else outgoing pick src d (i + 1) xs

/-- State of the receiving side of one shard: what is still in flight per source, and the buckets. -/
structure Recv (α : Type) where
  chans : Nat → List α
  buckets : Nat → List α

def upd {β : Type} (f : Nat → β) (k : Nat) (v : β) : Nat → β := fun j => if j = k then v else f j

/-- the `select` hands over the next message of source `s` (nothing happens if that channel is empty) -/
def recvStep {α : Type} (st : Recv α) (s : Nat) : Recv α :=
  match st.chans s with
  | [] => st
  | x :: rest => { chans := upd st.chans s rest, buckets := upd st.buckets s (st.buckets s ++ [x]) }

/-- a merge schedule: which source's message is taken at each step -/
def runSched {α : Type} (st : Recv α) (sched : List Nat) : Recv α := sched.foldl recvStep st

def initRecv {α : Type} (pick : Nat → Nat → α → Nat) (inputs : Nat → List α) (d : Nat) : Recv α :=
  { chans := fun s => outgoing pick s d 0 (inputs s), buckets := fun _ => [] }

def drained {α : Type} (n : Nat) (st : Recv α) : Prop := ∀ s, s < n → st.chans s = []

/-- `r.into_iter().flatten()` -/
def flattenBuckets {α : Type} (n : Nat) (b : Nat → List α) : List α := (List.range n).flatMap b

/-- what shard `d` returns under merge schedule `sched` -/
def resultUnder {α : Type} (n : Nat) (pick : Nat → Nat → α → Nat) (inputs : Nat → List α) (d : Nat) (sched : List Nat) : List α :=
  flattenBuckets n (runSched (initRecv pick inputs d) sched).buckets

/-- the schedule-independent result: sources in index order, each in input order -/
def reshard {α : Type} (n : Nat) (pick : Nat → Nat → α → Nat) (inputs : Nat → List α) (d : Nat) : List α :=
  (List.range n).flatMap fun s => outgoing pick s d 0 (inputs s)

/-- The sending loop of one shard on a stream of `Ok`/`Err` items with a size hint: returns the
records handed to channels/buckets before it stopped, and whether it failed. -/
def sendLoop {α : Type} (hint : Nat) : Nat → List (Option α) → List α × Bool
  | _, [] => ([], false)
  | _, none :: _ => ([], true)                       -- `input.try_next().await?`
  | i, some x :: rest =>
    if i ≥ hint then ([], true)                      -- RecordIdOutOfRange
    else
      let (sent, failed) := sendLoop hint (i + 1) rest
      (x :: sent, failed)

/-- Result of the whole operation on shard `d`: `none` = it does not return `Ok`. A shard whose own
loop fails returns `Err`; if another shard fails, that shard never closes its channels, so `d` cannot
complete with `Ok` either. Nobody returns a partial `Ok`. -/
def shardResult {α : Type} (n : Nat) (pick : Nat → Nat → α → Nat) (items : Nat → List (Option α)) (hints : Nat → Nat) (d : Nat) : Option (List α) :=
  if (List.range n).any (fun s => (sendLoop (hints s) 0 (items s)).2) then none
  else some (reshard n pick (fun s => (sendLoop (hints s) 0 (items s)).1) d)

end IpaVerif.Reshard
