/-!
# Model of resharding (C19) — `protocol/context/mod.rs: reshard_try_stream`

For one helper with `n` shards. Shard `src` walks its input sequentially (record ids 0,1,…), asks
`pick src i x` for the destination, keeps the record in bucket `r[src]` if it is its own, otherwise
sends it on the FIFO channel `src → dest` (per-destination record counters make the channel an
ordered queue); at the end it closes every channel. Shard `d` concurrently receives from all
channels in an ARBITRARY interleaving (`select`), appending what arrives from `src` to bucket
`r[src]`; the result is `r[0] ++ r[1] ++ … ++ r[n-1]`.

Import-free.
-/
namespace IpaVerif.Reshard

/-- records of source `src` (starting at record id `i`) that `pick` routes to `d`, in order:
the content of the channel `src → d` (for `src = d`: the locally kept records). -/
def outgoing {α : Type} (pick : Nat → Nat → α → Nat) (src d : Nat) : Nat → List α → List α
  | _, [] => []
  | i, x :: xs => if pick src i x = d then x :: outgoing pick src d (i + 1) xs else outgoing pick src d (i + 1) xs

/-- State of the receiving side of one shard: what is still in flight per source, and the buckets. -/
structure Recv (α : Type) where
  chans : Nat → List α
  buckets : Nat → List α

def upd {β : Type} (f : Nat → β) (k : Nat) (v : β) : Nat → β := fun j => if j = k then v else f j

/-- the `select` hands over the next message of source `s` (nothing happens if that channel is empty) -/
def recvStep {α : Type} (st : Recv α) (s : Nat) : Recv α :=
  match st.chans s with
  | [] => st
  | x :: rest => { chans := upd st.chans s rest, buckets := upd st.buckets s (st.buckets s ++ [x]) }

/-- a merge schedule: which source's message is taken at each step -/
def runSched {α : Type} (st : Recv α) (sched : List Nat) : Recv α := sched.foldl recvStep st

def initRecv {α : Type} (pick : Nat → Nat → α → Nat) (inputs : Nat → List α) (d : Nat) : Recv α :=
  { chans := fun s => outgoing pick s d 0 (inputs s), buckets := fun _ => [] }

def drained {α : Type} (n : Nat) (st : Recv α) : Prop := ∀ s, s < n → st.chans s = []

/-- `r.into_iter().flatten()` -/
def flattenBuckets {α : Type} (n : Nat) (b : Nat → List α) : List α := (List.range n).flatMap b

/-- what shard `d` returns under merge schedule `sched` -/
def resultUnder {α : Type} (n : Nat) (pick : Nat → Nat → α → Nat) (inputs : Nat → List α) (d : Nat) (sched : List Nat) : List α :=
  flattenBuckets n (runSched (initRecv pick inputs d) sched).buckets

/-- the schedule-independent result: sources in index order, each in input order -/
def reshard {α : Type} (n : Nat) (pick : Nat → Nat → α → Nat) (inputs : Nat → List α) (d : Nat) : List α :=
  (List.range n).flatMap fun s => outgoing pick s d 0 (inputs s)

/-- The sending loop of one shard on a stream of `Ok`/`Err` items with a size hint: returns the
records handed to channels/buckets before it stopped, and whether it failed. -/
def sendLoop {α : Type} (hint : Nat) : Nat → List (Option α) → List α × Bool
  | _, [] => ([], false)
  | _, none :: _ => ([], true)                       -- `input.try_next().await?`
  | i, some x :: rest =>
    if i ≥ hint then ([], true)                      -- RecordIdOutOfRange
    else
      let (sent, failed) := sendLoop hint (i + 1) rest
      (x :: sent, failed)

/-- Result of the whole operation on shard `d`: `none` = it does not return `Ok`. A shard whose own
loop fails returns `Err`; if another shard fails, that shard never closes its channels, so `d` cannot
complete with `Ok` either. Nobody returns a partial `Ok`. -/
def shardResult {α : Type} (n : Nat) (pick : Nat → Nat → α → Nat) (items : Nat → List (Option α)) (hints : Nat → Nat) (d : Nat) : Option (List α) :=
  if (List.range n).any (fun s => (sendLoop (hints s) 0 (items s)).2) then none
  else some (reshard n pick (fun s => (sendLoop (hints s) 0 (items s)).1) d)

/-- What the caller of the operation on shard `d` observes. -/
inductive Outcome (α : Type) where
  | ok (l : List α)
  | err
  /-- the call never returns: some peer failed and dropped its channels to `d` without closing them,
  so `d` keeps waiting for that peer's end-of-stream -/
  | hang
  deriving DecidableEq, Repr

/-- the send loop of shard `s` fails (an `Err` item, or more items than the size hint) -/
def ownFails {α : Type} (items : Nat → List (Option α)) (hints : Nat → Nat) (s : Nat) : Bool :=
  (sendLoop (hints s) 0 (items s)).2

/-- Per-shard outcome. A shard whose own input stream fails returns `Err` at once
(`send_recv.try_next().await?`) — its `send_channels` are dropped, not closed. A shard whose own
stream is fine but one of whose peers failed has received everything that peer sent before the failure
and then waits for an end-of-stream that never comes. Nobody returns a partial `Ok`. -/
def shardOutcome {α : Type} (n : Nat) (pick : Nat → Nat → α → Nat) (items : Nat → List (Option α)) (hints : Nat → Nat) (d : Nat) : Outcome α :=
  if ownFails items hints d then .err
  else if (List.range n).any (ownFails items hints) then .hang
  else .ok (reshard n pick (fun s => (sendLoop (hints s) 0 (items s)).1) d)

/-! ### The code before the repair "resharding keeps its channels open until the input has ended"

The channels were created with `total_records = size hint` (`ONE` for a hint of 0), and a channel closes
on its own when it has carried `total_records` records. So if the first `hint` items of a failing stream
all went to the same peer, that peer saw a regular end-of-stream from the failing shard. Kept as
documentation of the defect; the code now uses `size hint + 1`, so only the explicit `close` at the end of
an error-free input ends a channel. -/

def autoClosedUnfixed {α : Type} (pick : Nat → Nat → α → Nat) (items : Nat → List (Option α)) (hints : Nat → Nat) (s d : Nat) : Bool :=
  (outgoing pick s d 0 (sendLoop (hints s) 0 (items s)).1).length == max (hints s) 1

def shardOutcomeUnfixed {α : Type} (n : Nat) (pick : Nat → Nat → α → Nat) (items : Nat → List (Option α)) (hints : Nat → Nat) (d : Nat) : Outcome α :=
  if ownFails items hints d then .err
  else if (List.range n).any (fun s => s != d && ownFails items hints s && !autoClosedUnfixed pick items hints s d) then .hang
  else .ok (reshard n pick (fun s => (sendLoop (hints s) 0 (items s)).1) d)

/-! ### Input streams that are polled: `reshard_aad` and its `StreamSplitter` (`query/runner/reshard_tag.rs`)

`reshard_aad(ctx, input, picker)` takes a stream of `Ok((k, a))` / `Err` items — data record `k` stays on this
shard, tag `a` is resharded — and wraps it in `StreamSplitter { inner: input, buf: &mut k_buf }`, whose
`poll_next` forwards ONE poll to the inner stream. A real input stream (reports arriving from the network,
`seq_join` over decryption futures) answers `Poll::Pending` whenever its next item is not there yet. The model
below makes the polls explicit: the input of one shard is the list of answers its stream gives to successive
polls before its end (after the list is used up the stream answers `Ready(None)`). -/

/-- the answer of the INPUT stream to one `poll_next` -/
inductive Ev (κ α : Type) where
  /-- `Poll::Ready(Some(Ok((k, a))))` -/
  | ready (k : κ) (a : α)
  /-- `Poll::Pending` — the stream has arranged for a wake-up; the task will poll again -/
  | pending
  /-- `Poll::Ready(Some(Err(e)))` -/
  | err
  deriving DecidableEq, Repr

/-- the answer of the SPLITTER to one `poll_next` -/
inductive SOut (α : Type) where
  | pending
  | item (a : α)
  | err
  | done
  deriving DecidableEq, Repr

/-- `StreamSplitter::poll_next`, state = `k_buf`; `none` = the inner stream answers `Ready(None)`:
```
match ready!(this.inner.poll_next(cx)) {
    Some(Ok((k, a))) => { this.buf.push(k); Poll::Ready(Some(Ok(a))) }
    Some(Err(e)) => Poll::Ready(Some(Err(e))),
    None => Poll::Ready(None),
}
```
(`ready!` returns `Poll::Pending` to the caller and changes nothing). Pinned by the translator items
`reshard.splitter.*`. -/
def splitterPoll {κ α : Type} (buf : List κ) : Option (Ev κ α) → List κ × SOut α
  | some .pending => (buf, .pending)
  | some (.ready k a) => (buf ++ [k], .item a)
  | some .err => (buf, .err)
  | none => (buf, .done)

/-- The consumer of the splitter is the send loop of `reshard_try_stream`: `input.try_next().await?`. An answer
`Pending` suspends the task; after the wake-up the task polls again (the next answer of the stream); the first
`Err` ends the operation (`?`); after `Ready(None)` the fused unfold never polls again. Returns the final
`k_buf` and the items the send loop has seen (`none` = the `Err` item, always last). -/
def runSplitter {κ α : Type} : List κ → List (Ev κ α) → List κ × List (Option α)
  | buf, [] => ((splitterPoll buf (none : Option (Ev κ α))).1, [])
  | buf, ev :: rest =>
    match splitterPoll buf (some ev) with
    | (buf', .pending) => runSplitter buf' rest
    | (buf', .item a) => ((runSplitter buf' rest).1, some a :: (runSplitter buf' rest).2)
    | (buf', .err) => (buf', [none])
    | (buf', .done) => (buf', [])

/-- The same consumer on the RAW stream (what `reshard_try_stream` / `reshard_stream` see when they are called
directly): the `Ok` items up to the first `Err`, and whether an `Err` was met. -/
def awaitItems {κ α : Type} : List (Ev κ α) → List (κ × α) × Bool
  | [] => ([], false)
  | .pending :: rest => awaitItems rest
  | .ready k a :: rest => ((k, a) :: (awaitItems rest).1, (awaitItems rest).2)
  | .err :: _ => ([], true)

/-- `[Err]` if the stream failed -/
def errTail {α : Type} : Bool → List (Option α)
  | true => [none]
  | false => []

/-- the input with all `Pending` answers removed: the stream as a plain sequence of items -/
def stripPending {κ α : Type} : List (Ev κ α) → List (Ev κ α)
  | [] => []
  | .pending :: rest => stripPending rest
  | e :: rest => e :: stripPending rest

/-- the items the send loop of shard `s` sees through the splitter -/
def aadItems {κ α : Type} (evs : Nat → List (Ev κ α)) (s : Nat) : List (Option α) := (runSplitter [] (evs s)).2

/-- what the caller of `reshard_aad` on shard `d` observes -/
inductive AadOutcome (κ α : Type) where
  /-- `Ok((k_buf, a_buf))` -/
  | ok (kept : List κ) (tags : List α)
  | err
  | hang
  deriving DecidableEq, Repr

/-- `reshard_aad` on shard `d`: `reshard_try_stream(ctx, splitter, picker).await?` then `Ok((k_buf, a_buf))`. -/
def aadOutcome {κ α : Type} (n : Nat) (pick : Nat → Nat → α → Nat) (evs : Nat → List (Ev κ α)) (hints : Nat → Nat) (d : Nat) :
    AadOutcome κ α :=
  match shardOutcome n pick (aadItems evs) hints d with
  | .ok tags => .ok (runSplitter [] (evs d)).1 tags
  | .err => .err
  | .hang => .hang

/-- `reshard_try_stream` called directly on a polled stream of `Ok(a)` / `Err` items (`κ = Unit`) -/
def polledItems {α : Type} (evs : Nat → List (Ev Unit α)) (s : Nat) : List (Option α) :=
  ((awaitItems (evs s)).1.map fun ka => some ka.2) ++ errTail (awaitItems (evs s)).2

def polledOutcome {α : Type} (n : Nat) (pick : Nat → Nat → α → Nat) (evs : Nat → List (Ev Unit α)) (hints : Nat → Nat) (d : Nat) : Outcome α :=
  shardOutcome n pick (polledItems evs) hints d

/-! #### A splitter that remembers the end of its input in a flag computed BEFORE `ready!` (independent
seed `seeded/C19c`): `*done = !matches!(next, Poll::Ready(Some(Ok(_))))` is also set by `Poll::Pending`, so the
poll after the first stall reports `Ready(None)`: the regular end of the input. Kept as documentation of why
the `Pending` arm must leave the state alone. -/
def runSplitterDoneFlag {κ α : Type} : List κ → List (Ev κ α) → List κ × List (Option α)
  | buf, [] => (buf, [])
  | buf, .pending :: _ => (buf, [])
  | buf, .ready k a :: rest => ((runSplitterDoneFlag (buf ++ [k]) rest).1, some a :: (runSplitterDoneFlag (buf ++ [k]) rest).2)
  | buf, .err :: _ => (buf, [none])

end IpaVerif.Reshard
