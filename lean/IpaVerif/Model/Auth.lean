import IpaVerif.Model.AuthTypes
import IpaVerif.Generated.Routes
/-!
# Model of HTTP routing and peer authentication (C20)

* `flatten` turns a router expression into its route table using axum's rule: **a layer applies to
  the routes that were added before it** (`Router::layer` maps over the routes present at the time
  of the call); `merge` concatenates; `nest` prefixes.
* `respond` dispatches a request: the entry matching path and method; `HelperAuthentication`
  answers 401 unless the `ClientIdentity<F::Identity>` extension of its flavor is present,
  otherwise the handler runs.
* `deriveIdentity` is what decides whether that extension is present for a connection, per arm of
  `start_on`: the certificate (TLS acceptor) and/or the header layer.

Import-free (core only).
-/
namespace IpaVerif.Auth

def parseSeg (s : String) : Seg :=
  if s.startsWith ":" then .param else if s.startsWith "*" then .wildcard else .lit s

/-- `/a/:b/*c` → segments (empty segments dropped); same rule as the translator. -/
def parseTemplate (p : String) : List Seg := ((p.splitOn "/").filter (· ≠ "")).map parseSeg

structure Entry where
  path : List Seg
  method : Method
  handler : String
  /-- layers around the handler, outermost first -/
  layers : List Layer
  deriving DecidableEq, Repr

/-- The route table of a router expression (axum's layering rule). -/
def flatten : RouterExpr → List Entry
  | .new => []
  | .route r p m h => flatten r ++ [{ path := p, method := m, handler := h, layers := [] }]
  | .merge a b => flatten a ++ flatten b
  | .nest r pre sub => flatten r ++ (flatten sub).map (fun e => { e with path := pre ++ e.path })
  | .layer r l => (flatten r).map (fun e => { e with layers := l :: e.layers })

/-- Does a request path (non-empty segments) match a template? -/
def matchPath : List Seg → List String → Bool
  | [], [] => true
  | [.wildcard], _ :: _ => true
  | .lit s :: t, x :: xs => s == x && matchPath t xs
  | .param :: t, _ :: xs => matchPath t xs
  | _, _ => false

structure Req where
  path : List String
  method : Method
  /-- is a `ClientIdentity<HelperIdentity>` / `ClientIdentity<ShardIndex>` extension present? -/
  helperId : Bool
  shardId : Bool
  deriving DecidableEq, Repr

def Req.hasId (r : Req) : Flavor → Bool
  | .helper => r.helperId
  | .shard => r.shardId

inductive Resp where
  | notFound
  | methodNotAllowed
  | unauthorized
  | handled (handler : String)
  deriving DecidableEq, Repr

/-- first auth layer (outermost first) whose identity is missing -/
def blockedBy (layers : List Layer) (r : Req) : Bool :=
  layers.any fun l => match l with
    | .auth f => !r.hasId f
    | .extension => false

def respond (routes : List Entry) (r : Req) : Resp :=
  match routes.filter (fun e => matchPath e.path r.path) with
  | [] => .notFound
  | cands =>
    match cands.find? (fun e => e.method == r.method) with
    | none =>
      -- `Router::layer` wraps the whole endpoint, including its 405 fallback (observed; a path whose
      -- entries are partly layered is not exercised and modelled as 405)
      if cands.all (fun e => blockedBy e.layers r) then .unauthorized else .methodNotAllowed
    | some e => if blockedBy e.layers r then .unauthorized else .handled e.handler

/-! ## Where the identity extension comes from -/

/-- What the client presents on one connection/request. `Ident` is an opaque identity. -/
structure Presented (Ident : Type) where
  /-- identity recognised from the client certificate by `identify_cert` (`none`: no certificate,
  or one that matches no configured peer). Only meaningful on a TLS connection. -/
  cert : Option Ident
  /-- the identity header: absent / present but unparsable / parsable -/
  header : Option (Option Ident)

inductive Derived (Ident : Type) where
  | ext (id : Option Ident)   -- request forwarded with this extension (or none)
  | rejected                  -- `SetClientIdentityFromHeader` answered an error itself
  deriving DecidableEq, Repr

/-- `ClientCertRecognizingAcceptor`/`SetClientIdentityFromCertificate` (only under the TLS
acceptor) followed by `SetClientIdentityFromHeader` (only if the arm installs it). -/
def deriveIdentity {Ident : Type} (arm : StartArm) (p : Presented Ident) : Derived Ident :=
  let fromCert : Option Ident := if arm.tlsAcceptor then p.cert else none
  if arm.headerLayer then
    match p.header with
    | none => .ext fromCert
    | some none => .rejected
    | some (some id) => .ext (some id)
  else .ext fromCert

def armFor (disableHttps listener : Bool) : Option StartArm :=
  IpaVerif.Generated.Routes.startOnArms.find? (fun a => a.disableHttps == disableHttps && a.listener == listener)

/-! ## A live connection to a server started by `start_on` (suite `c20_live`) -/

/-- What the client does on the wire. `Ident` is the identity type of the server's flavor. -/
inductive ClientCert (Ident : Type) where
  | none                 -- no client certificate (always the case without TLS)
  | peer (id : Ident)    -- the certificate configured for peer `id` in the server's `NetworkConfig`
  | stranger             -- a valid certificate that is not configured for any peer
  deriving DecidableEq, Repr

structure Client (Ident : Type) where
  /-- the client speaks TLS (https) / plain HTTP -/
  tls : Bool
  cert : ClientCert Ident
  /-- the identity header *of the server's flavor*: absent / unparsable / parsable (a header of the
  other flavor has another name and is never read) -/
  header : Option (Option Ident)

inductive LiveResp where
  | connErr           -- no HTTP response: protocol mismatch, or rustls refused the certificate
  | rejected          -- `SetClientIdentityFromHeader` answered itself (`Error::InvalidHeader`, 400)
  | resp (r : Resp)
  deriving DecidableEq, Repr

def ClientCert.identity {Ident : Type} : ClientCert Ident → Option Ident
  | .peer id => some id
  | _ => Option.none

/-- The rustls handshake (trusted library, behaviour per its documentation): what certificate
identity the server ends up with, or `none` if the handshake is aborted.
* verifier not installed: no certificate is requested, whatever the client holds is not sent;
* client without certificate: accepted iff client authentication is optional;
* certificate outside the trust anchors: handshake aborted (with anchors ≠ the peers' certificates
  the model makes no claim and treats it the same way). -/
def handshake {Ident : Type} (setup : TlsSetup) (cert : ClientCert Ident) : Option (Option Ident) :=
  if !setup.verifierInstalled then some Option.none
  else match cert with
    | .none => if setup.clientAuthOptional then some Option.none else Option.none
    | .stranger => Option.none
    | .peer id => some (some id)

/-- One request over a fresh connection to a server of flavor `f` with route table `routes`,
started through the arm `arm` of `start_on` with the TLS setup `setup`. -/
def serveWith {Ident : Type} (setup : TlsSetup) (f : Flavor) (routes : List Entry) (arm : StartArm)
    (c : Client Ident) (path : List String) (m : Method) : LiveResp :=
  if c.tls != arm.tlsAcceptor then .connErr
  else
    match (if arm.tlsAcceptor then handshake setup c.cert else some Option.none) with
    | Option.none => .connErr
    | some certId =>
      match deriveIdentity arm { cert := certId, header := c.header } with
      | .rejected => .rejected
      | .ext id =>
        .resp (respond routes { path := path, method := m,
                                helperId := (f == .helper) && id.isSome,
                                shardId := (f == .shard) && id.isSome })

/-- … with the regenerated `rustls_config` setup. -/
def serve {Ident : Type} (f : Flavor) (routes : List Entry) (arm : StartArm) (c : Client Ident)
    (path : List String) (m : Method) : LiveResp :=
  serveWith IpaVerif.Generated.Routes.tlsSetup f routes arm c path m

/-! ## From the caller's `ServerConfig` to a running server (suite `c20_live` op `c20.ctor`)

`IpaHttpServer::new_mpc` / `new_shards` STORE the configuration; `start_on` matches on the stored
`disable_https`. The serving mode is therefore a function of the configuration as written by the caller:
header layer iff `disable_https == true`; `disable_https == false` without key material does not start
(`rustls_config(..).expect("invalid TLS configuration")`). -/

/-- the two fields of `ServerConfig` that matter: `disable_https` and `tls.is_some()` -/
structure SrvConfig where
  disableHttps : Bool
  tlsPresent : Bool
  deriving DecidableEq, Repr

/-- the constructors as written: the configuration is stored as handed in -/
def ctorStore (c : SrvConfig) : SrvConfig := c

/-- NOT the code — the "normalising" constructor `config.disable_https |= config.tls.is_none()` -/
def ctorNormalise (c : SrvConfig) : SrvConfig := { c with disableHttps := c.disableHttps || !c.tlsPresent }

inductive StartOutcome where
  | refuses                 -- `start_on` panics ("invalid TLS configuration")
  | serves (arm : StartArm) -- a server is spawned with what this arm hands to `spawn_server`
  deriving DecidableEq, Repr

/-- `start_on` on the STORED configuration: the arm is chosen by `(self.config.disable_https, listener)`; a
TLS arm needs the key material (`certificate_and_key`: `None => Err`), a plain arm never looks at `tls`. -/
def startOn (c : SrvConfig) (listener : Bool) : Option StartOutcome :=
  (armFor c.disableHttps listener).map fun arm =>
    if arm.tlsAcceptor && !c.tlsPresent then .refuses else .serves arm

/-- constructor, then `start_on` -/
def bootWith (ctor : SrvConfig → SrvConfig) (c : SrvConfig) (listener : Bool) : Option StartOutcome :=
  startOn (ctor c) listener

def boot : SrvConfig → Bool → Option StartOutcome := bootWith ctorStore

/-- one request to whatever `boot` left running (nothing: no answer) -/
def serveBooted {Ident : Type} (f : Flavor) (routes : List Entry) (o : Option StartOutcome)
    (c : Client Ident) (path : List String) (m : Method) : LiveResp :=
  match o with
  | some (.serves arm) => serve f routes arm c path m
  | _ => .connErr

/-! ## The presented certificate chain (`ClientCertRecognizingAcceptor::accept`, suite `c20_live` op `c20.chain`)

A TLS client sends a *list* of certificates. rustls/webpki validate the FIRST one (the end-entity
certificate) against the trust anchors and check the client's CertificateVerify signature with its
key; the remaining entries are only candidate intermediates — bytes chosen by the caller.
`peer_certificates()` returns the whole list as sent. -/

/-- `NetworkConfig::identify_cert`: no certificate ⇒ `none` (the early `cert?`); otherwise the identity
of the first configured peer whose pinned certificate is byte-identical. `peers` = `zip(identities,
peers.certificate)`. -/
def identifyCert {Cert Ident : Type} [DecidableEq Cert] (peers : List (Ident × Option Cert)) :
    Option Cert → Option Ident
  | none => none
  | some c => (peers.find? (fun p => p.2 == some c)).map (·.1)

/-- `accept` as written: `identify_cert(peer_certificates().and_then(<[_]>::first))`. -/
def acceptFirst {Cert Ident : Type} (identify : Option Cert → Option Ident) (presented : List Cert) : Option Ident :=
  identify presented.head?

/-- NOT the code — the "tolerant" variant `peer_certificates().into_iter().flatten().find_map(|c|
identify_cert(Some(c)))`: the first certificate anywhere in the chain that is on file. -/
def acceptAny {Cert Ident : Type} (identify : Option Cert → Option Ident) (presented : List Cert) : Option Ident :=
  presented.findSome? (fun c => identify (some c))

/-- What the rustls handshake leaves the server with (`peer_certificates()`), or `none` if it is
aborted. `keyOf c` = the key certified by `c`; `anchored c` = webpki finds a path from `c` to one of
the trust anchors (the peers' pinned certificates); `key` = the private key the client signs
CertificateVerify with. Only the head is looked at: the tail is never validated. -/
def handshakeChain {Cert Key : Type} [DecidableEq Key] (setup : TlsSetup) (keyOf : Cert → Key) (anchored : Cert → Bool)
    (key : Key) (chain : List Cert) : Option (List Cert) :=
  if !setup.verifierInstalled then some []
  else match chain with
    | [] => if setup.clientAuthOptional then some [] else Option.none
    | ee :: rest => if keyOf ee == key && anchored ee then some (ee :: rest) else Option.none

/-- Outcome of one request over a fresh connection, with the identity the request was processed
under (`ClientIdentity` extension seen by the handler) when a handler ran. -/
structure ChainResp (Ident : Type) where
  resp : LiveResp
  attributed : Option Ident
  deriving DecidableEq, Repr

/-- One HTTPS request from a client presenting `chain` and holding `key`, to a server of flavor `f`
started through `arm`; `accept` is the rule turning `peer_certificates()` into an identity. -/
def serveChainWith {Cert Key Ident : Type} [DecidableEq Key]
    (accept : (Option Cert → Option Ident) → List Cert → Option Ident)
    (setup : TlsSetup) (f : Flavor) (routes : List Entry) (arm : StartArm)
    (identify : Option Cert → Option Ident) (keyOf : Cert → Key) (anchored : Cert → Bool)
    (key : Key) (chain : List Cert) (header : Option (Option Ident)) (path : List String) (m : Method) : ChainResp Ident :=
  if !arm.tlsAcceptor then ⟨.connErr, none⟩      -- an https client cannot talk to a plain-HTTP server
  else match handshakeChain setup keyOf anchored key chain with
    | Option.none => ⟨.connErr, none⟩
    | some presented =>
      match deriveIdentity arm { cert := accept identify presented, header := header } with
      | .rejected => ⟨.rejected, none⟩
      | .ext id =>
        let r := respond routes { path := path, method := m,
                                  helperId := (f == .helper) && id.isSome,
                                  shardId := (f == .shard) && id.isSome }
        ⟨.resp r, match r with | .handled _ => id | _ => none⟩

/-- … with the code's rule (`acceptFirst`) and the regenerated `rustls_config` setup. -/
def serveChain {Cert Key Ident : Type} [DecidableEq Key] (f : Flavor) (routes : List Entry) (arm : StartArm)
    (identify : Option Cert → Option Ident) (keyOf : Cert → Key) (anchored : Cert → Bool)
    (key : Key) (chain : List Cert) (header : Option (Option Ident)) (path : List String) (m : Method) : ChainResp Ident :=
  serveChainWith acceptFirst IpaVerif.Generated.Routes.tlsSetup f routes arm identify keyOf anchored key chain header path m

/-! ### The certificates of the test networks (suite `c20_live`) -/

/-- `onFile i` = test certificate `i` byte for byte; `reissued i` = a fresh self-signed certificate for
the key of test certificate `i` with the same subject (other serial number: other bytes); `leaf i` =
a certificate for a FRESH key (another subject), issued with the key and subject of test certificate
`i` (what the holder of key `i` can mint at will). -/
inductive TestCert where
  | onFile (i : Nat)
  | reissued (i : Nat)
  | leaf (i : Nat)
  deriving DecidableEq, Repr

/-- the key a certificate certifies (`100 + i`: the fresh key of `leaf i`) -/
def TestCert.key : TestCert → Nat
  | .onFile i => i
  | .reissued i => i
  | .leaf i => 100 + i

/-- the key (and subject) that signed it -/
def TestCert.signer : TestCert → Nat
  | .onFile i => i
  | .reissued i => i
  | .leaf i => i

/-- `peers` of the suite's servers: MPC = helpers A, B with certificates 0, 1 and helper C without;
shard = shards 0, 1 with certificates 0, 1. -/
def testPeers : Flavor → List (Nat × Option TestCert)
  | .helper => [(0, some (.onFile 0)), (1, some (.onFile 1)), (2, none)]
  | .shard => [(0, some (.onFile 0)), (1, some (.onFile 1))]

/-- webpki: a path exists iff the certificate was signed by the key of a pinned certificate with that
certificate's subject as issuer (a trust anchor is subject + key; no CA constraint is checked on
it) — true for the pinned certificate itself, for one re-issued for its key, and for a leaf minted
with its key. -/
def testAnchored (f : Flavor) (c : TestCert) : Bool :=
  (testPeers f).any (fun p => p.2 == some (.onFile c.signer))

end IpaVerif.Auth
