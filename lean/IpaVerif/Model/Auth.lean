import IpaVerif.Model.AuthTypes
import IpaVerif.Generated.Routes
/-!
# Model of HTTP routing and peer authentication (C20)

* `flatten` turns a router expression into its route table using axum's rule: **a layer applies to
  the routes that were added before it** (`Router::layer` maps over the routes present at the time
  of the call); `merge` concatenates; `nest` prefixes.
* `respond` dispatches a request: the entry matching path and method; `HelperAuthentication`
  answers 401 unless the `ClientIdentity<F::Identity>` extension of its flavor is present,
  otherwise the handler runs.
* `deriveIdentity` is what decides whether that extension is present for a connection, per arm of
  `start_on`: the certificate (TLS acceptor) and/or the header layer.

Import-free (core only).
-/
namespace IpaVerif.Auth

def parseSeg (s : String) : Seg :=
  if s.startsWith ":" then .param else if s.startsWith "*" then .wildcard else .lit s

/-- `/a/:b/*c` → segments (empty segments dropped); same rule as the translator. -/
def parseTemplate (p : String) : List Seg := ((p.splitOn "/").filter (· ≠ "")).map parseSeg

structure Entry where
  path : List Seg
  method : Method
  handler : String
  /-- layers around the handler, outermost first -/
  layers : List Layer
  deriving DecidableEq, Repr

/-- The route table of a router expression (axum's layering rule). -/
def flatten : RouterExpr → List Entry
  | .new => []
  | .route r p m h => flatten r ++ [{ path := p, method := m, handler := h, layers := [] }]
  | .merge a b => flatten a ++ flatten b
  | .nest r pre sub => flatten r ++ (flatten sub).map (fun e => { e with path := pre ++ e.path })
  | .layer r l => (flatten r).map (fun e => { e with layers := l :: e.layers })

/-- Does a request path (non-empty segments) match a template? -/
def matchPath : List Seg → List String → Bool
  | [], [] => true
  | [.wildcard], _ :: _ => true
  | .lit s :: t, x :: xs => s == x && matchPath t xs
  | .param :: t, _ :: xs => matchPath t xs
  | _, _ => false

structure Req where
  path : List String
  method : Method
  /-- is a `ClientIdentity<HelperIdentity>` / `ClientIdentity<ShardIndex>` extension present? -/
  helperId : Bool
  shardId : Bool
  deriving DecidableEq, Repr

def Req.hasId (r : Req) : Flavor → Bool
  | .helper => r.helperId
  | .shard => r.shardId

inductive Resp where
  | notFound
  | methodNotAllowed
  | unauthorized
  | handled (handler : String)
  deriving DecidableEq, Repr

/-- first auth layer (outermost first) whose identity is missing -/
def blockedBy (layers : List Layer) (r : Req) : Bool :=
  layers.any fun l => match l with
    | .auth f => !r.hasId f
    | .extension => false

def respond (routes : List Entry) (r : Req) : Resp :=
  match routes.filter (fun e => matchPath e.path r.path) with
  | [] => .notFound
  | cands =>
    match cands.find? (fun e => e.method == r.method) with
    | none =>
      -- `Router::layer` wraps the whole endpoint, including its 405 fallback (observed; a path whose
      -- entries are partly layered is not exercised and modelled as 405)
      if cands.all (fun e => blockedBy e.layers r) then .unauthorized else .methodNotAllowed
    | some e => if blockedBy e.layers r then .unauthorized else .handled e.handler

/-! ## Where the identity extension comes from -/

/-- What the client presents on one connection/request. `Ident` is an opaque identity. -/
structure Presented (Ident : Type) where
  /-- identity recognised from the client certificate by `identify_cert` (`none`: no certificate,
  or one that matches no configured peer). Only meaningful on a TLS connection. -/
  cert : Option Ident
  /-- the identity header: absent / present but unparsable / parsable -/
  header : Option (Option Ident)

inductive Derived (Ident : Type) where
  | ext (id : Option Ident)   -- request forwarded with this extension (or none)
  | rejected                  -- `SetClientIdentityFromHeader` answered an error itself
  deriving DecidableEq, Repr

/-- `ClientCertRecognizingAcceptor`/`SetClientIdentityFromCertificate` (only under the TLS
acceptor) followed by `SetClientIdentityFromHeader` (only if the arm installs it). -/
def deriveIdentity {Ident : Type} (arm : StartArm) (p : Presented Ident) : Derived Ident :=
  let fromCert : Option Ident := if arm.tlsAcceptor then p.cert else none
  if arm.headerLayer then
    match p.header with
    | none => .ext fromCert
    | some none => .rejected
    | some (some id) => .ext (some id)
  else .ext fromCert

def armFor (disableHttps listener : Bool) : Option StartArm :=
  IpaVerif.Generated.Routes.startOnArms.find? (fun a => a.disableHttps == disableHttps && a.listener == listener)

/-! ## A live connection to a server started by `start_on` (suite `c20_live`) -/

/-- What the client does on the wire. `Ident` is the identity type of the server's flavor. -/
inductive ClientCert (Ident : Type) where
  | none                 -- no client certificate (always the case without TLS)
  | peer (id : Ident)    -- the certificate configured for peer `id` in the server's `NetworkConfig`
  | stranger             -- a valid certificate that is not configured for any peer
  deriving DecidableEq, Repr

structure Client (Ident : Type) where
  /-- the client speaks TLS (https) / plain HTTP -/
  tls : Bool
  cert : ClientCert Ident
  /-- the identity header *of the server's flavor*: absent / unparsable / parsable (a header of the
  other flavor has another name and is never read) -/
  header : Option (Option Ident)

inductive LiveResp where
  | connErr           -- no HTTP response: protocol mismatch, or rustls refused the certificate
  | rejected          -- `SetClientIdentityFromHeader` answered itself (`Error::InvalidHeader`, 400)
  | resp (r : Resp)
  deriving DecidableEq, Repr

def ClientCert.identity {Ident : Type} : ClientCert Ident → Option Ident
  | .peer id => some id
  | _ => Option.none

/-- The rustls handshake (trusted library, behaviour per its documentation): what certificate
identity the server ends up with, or `none` if the handshake is aborted.
* verifier not installed: no certificate is requested, whatever the client holds is not sent;
* client without certificate: accepted iff client authentication is optional;
* certificate outside the trust anchors: handshake aborted (with anchors ≠ the peers' certificates
  the model makes no claim and treats it the same way). -/
def handshake {Ident : Type} (setup : TlsSetup) (cert : ClientCert Ident) : Option (Option Ident) :=
  if !setup.verifierInstalled then some Option.none
  else match cert with
    | .none => if setup.clientAuthOptional then some Option.none else Option.none
    | .stranger => Option.none
    | .peer id => some (some id)

/-- One request over a fresh connection to a server of flavor `f` with route table `routes`,
started through the arm `arm` of `start_on` with the TLS setup `setup`. -/
def serveWith {Ident : Type} (setup : TlsSetup) (f : Flavor) (routes : List Entry) (arm : StartArm)
    (c : Client Ident) (path : List String) (m : Method) : LiveResp :=
  if c.tls != arm.tlsAcceptor then .connErr
  else
    match (if arm.tlsAcceptor then handshake setup c.cert else some Option.none) with
    | Option.none => .connErr
    | some certId =>
      match deriveIdentity arm { cert := certId, header := c.header } with
      | .rejected => .rejected
      | .ext id =>
        .resp (respond routes { path := path, method := m,
                                helperId := (f == .helper) && id.isSome,
                                shardId := (f == .shard) && id.isSome })

/-- … with the regenerated `rustls_config` setup. -/
def serve {Ident : Type} (f : Flavor) (routes : List Entry) (arm : StartArm) (c : Client Ident)
    (path : List String) (m : Method) : LiveResp :=
  serveWith IpaVerif.Generated.Routes.tlsSetup f routes arm c path m

end IpaVerif.Auth
