import IpaVerif.Model.Util
import IpaVerif.Generated.Coverage
/-!
Model for property C02: what a single tampering helper can do to the malicious-mode hybrid query.

* concrete models of the two checks that are not owned by another property: the two-copy opening
  (`malicious_reveal`, basics/reveal.rs) and the dummy-count agreement (`apply_dp_padding_pass`,
  ipa_prf/oprf_padding/mod.rs);
* an abstract execution model: a query is a sequence of phases, each protected by one mechanism whose
  local guarantee is "accepted ⇒ the honest helpers' state is the honest one, unless the mechanism's
  bad-challenge event happened";
* the coverage classification of gate paths against the table regenerated from the sources.
-/
namespace IpaVerif.Malicious

/-! ## Two-copy opening (`malicious_reveal`) over an additive group `Nat mod m` -/

/-- helper indices 0,1,2; helper `i` holds `(s i, s (i+1))`. -/
def nxt (i : Nat) : Nat := (i + 1) % 3
def prv (i : Nat) : Nat := (i + 2) % 3

/-- What honest helper `h` computes when opening a sharing `s` (values mod `m`), given the copy of its
missing share received from its left peer and from its right peer. `none` = `MaliciousRevealFailed`. -/
def revealAt (m : Nat) (s : Nat → Nat) (h : Nat) (fromLeft fromRight : Nat) : Option Nat :=
  if fromLeft = fromRight then some ((fromLeft + s h + s (nxt h)) % m) else none

/-- honest messages: the left peer `prv h` holds `(s (prv h), s h)` and sends its left share; the right
peer `nxt h` holds `(s (nxt h), s (prv h))` and sends its right share: both are `s (prv h)`. -/
def honestCopy (s : Nat → Nat) (h : Nat) : Nat := s (prv h)

/-- opening with helper `c` corrupt (its outgoing messages replaced by arbitrary `mL` to its left peer
and `mR` to its right peer), seen from an honest helper `h ≠ c`. -/
def revealWithCorrupt (m : Nat) (s : Nat → Nat) (c h : Nat) (mL mR : Nat) : Option Nat :=
  -- c is h's left peer  ⇔ prv h = c : the message c sends to its right peer (h) is mR
  -- c is h's right peer ⇔ nxt h = c : the message c sends to its left peer (h) is mL
  let fromLeft := if prv h = c then mR else honestCopy s h
  let fromRight := if nxt h = c then mL else honestCopy s h
  revealAt m s h fromLeft fromRight

def reconstruct (m : Nat) (s : Nat → Nat) : Nat := (s 0 + s 1 + s 2) % m

/-! ## Dummy-record count agreement (`apply_dp_padding_pass`) -/

/-- the excluded helper's view: counts received from its two peers; `none` = `InconsistentPadding`. -/
def countAt (fromRight fromLeft : Nat) : Option Nat :=
  if fromRight ≠ fromLeft then none else some fromRight

/-! ## Abstract execution model -/

/-- A phase over an abstract state `σ` (everything the two honest helpers' shares determine) with
tampering choices `τ` for the corrupt helper. `run s t = none` means some honest helper ends with an
error or never produces output. -/
structure Phase (σ τ : Type) where
  honest : σ → σ
  run : σ → τ → Option σ
  /-- the mechanism's bad event (challenge hits a root, MAC key guessed, hash collision …) -/
  bad : σ → τ → Prop

/-- local guarantee of a protected phase -/
def Phase.Sound {σ τ : Type} (p : Phase σ τ) : Prop :=
  ∀ s t, p.run s t = none ∨ p.run s t = some (p.honest s) ∨ p.bad s t

def honestAll {σ τ : Type} : List (Phase σ τ) → σ → σ
  | [], s => s
  | p :: ps, s => honestAll ps (p.honest s)

/-- run the phases in order with the adversary's choices; abort is sticky. -/
def runAll {σ τ : Type} : List (Phase σ τ) → List τ → σ → Option σ
  | [], _, s => some s
  | _ :: _, [], _ => none
  | p :: ps, t :: ts, s =>
    match p.run s t with
    | none => none
    | some s' => runAll ps ts s'

/-- some phase's bad event happened along the execution -/
def badAlong {σ τ : Type} : List (Phase σ τ) → List τ → σ → Prop
  | [], _, _ => False
  | _ :: _, [], _ => False
  | p :: ps, t :: ts, s =>
    p.bad s t ∨ match p.run s t with
      | none => False
      | some s' => badAlong ps ts s'

/-! ## Coverage classification -/

def isPrefix : List String → List String → Bool
  | [], _ => true
  | _ :: _, [] => false
  | a :: as, b :: bs => a == b && isPrefix as bs

/-- protection kind of a (normalised) gate path, from the regenerated table; `none` = unprotected. -/
def classify (gate : List String) : Option String :=
  (IpaVerif.Generated.coverageTable.find? (fun row => isPrefix row.1 gate)).map (·.2)

/-- a gate-path segment with its trailing digits written `#` (`bit12` -> `bit#`), as in the coverage table -/
def normSeg (s : String) : String :=
  let t := (s.toList.reverse.dropWhile Char.isDigit).reverse
  if t.length < s.length then String.ofList t ++ "#" else s

def protectedKinds : List String := ["dzkp", "dzkpProof", "mac", "macCheck", "shuffle", "count"]

/-! ## Order of traffic: validate before open

An observed run is the list of chunks in the order in which the *receiving* side pulled them from the
in-memory transport (so the chunks destined to one endpoint appear in that endpoint's program order, and a chunk
is pulled no earlier than it was sent). An endpoint is a (helper, shard) pair.

**Rule (validate before open).** Let `E` send a chunk on an opening gate (`Generated.openGates`: `reveal_y` of the
conversion, `reveal_r` / `revealz` of the PRF evaluation, `aggregate/reveal`) of step number `k` of
`Generated.phaseOrder`. Then no chunk of a validate gate (`Generated.validateOf`) of a step `k' ≤ k` destined to `E`
may be pulled *later*: `E` opens only after it has received every message of the validation of the batch the
opened value belongs to (`validate_record` before `reveal` in `prf_eval.rs`, `validated_partial_reveal`,
`validated_seq_join` / `validator.validate()` before the next step) and of all earlier steps. (Stated for one
validator batch per step, which is what the suite's runs have; with several batches the rule applies per batch.)

**Rule (validated at all).** If `E` sent multiplication traffic (a non-opening protocol gate) in a DZKP / MAC step,
validate traffic of that step destined to `E` exists.

**Rule (step order).** For every endpoint, the steps appear (first chunk destined to it) in the order of
`Generated.phaseOrder`. -/

structure Ev where
  gate : List String
  src : Nat
  dst : Nat
  shard : String
  deriving Repr

def indexOf? {α : Type} (p : α → Bool) : List α → Nat → Option Nat
  | [], _ => none
  | a :: r, i => if p a then some i else indexOf? p r (i + 1)

/-- (step number in `phaseOrder`, is it a gate of the step's validate step?) -/
def phaseOf (gate : List String) : Option (Nat × Bool) :=
  match IpaVerif.Generated.validateOf.find? (fun pv => isPrefix pv.2 gate) with
  | some pv => (indexOf? (fun row => row.1 == pv.1) IpaVerif.Generated.phaseOrder 0).map (·, true)
  | none => (indexOf? (fun row => isPrefix row.1 gate) IpaVerif.Generated.phaseOrder 0).map (·, false)

def isOpenGate (gate : List String) : Bool := IpaVerif.Generated.openGates.any (isPrefix · gate)

def kindOfPhase (k : Nat) : String := (IpaVerif.Generated.phaseOrder.getD k ([], "")).2

structure Tagged where
  ph : Nat
  val : Bool
  opn : Bool
  src : Nat
  dst : Nat
  shard : String
  gate : List String

def tag (e : Ev) : Option Tagged :=
  (phaseOf e.gate).map fun (k, v) =>
    { ph := k, val := v, opn := !v && isOpenGate e.gate, src := e.src, dst := e.dst, shard := e.shard, gate := e.gate }

abbrev Endpoint := Nat × String

def lookupE (m : List (Endpoint × Nat)) (e : Endpoint) : Option Nat :=
  (m.find? (fun x => x.1.1 == e.1 && x.1.2 == e.2)).map (·.2)

def insertMin (m : List (Endpoint × Nat)) (e : Endpoint) (k : Nat) : List (Endpoint × Nat) :=
  match lookupE m e with
  | some k0 => if k < k0 then (e, k) :: m.filter (fun x => !(x.1.1 == e.1 && x.1.2 == e.2)) else m
  | none => (e, k) :: m

/-- validate before open: scan from the end, remembering per endpoint the smallest step whose validate traffic is
still to come. Returns the first violation found. -/
def vboScan : List Tagged → List (Endpoint × Nat) × Option String
  | [] => ([], none)
  | e :: rest =>
    let (later, bad) := vboScan rest
    let bad' :=
      if e.opn then
        match lookupE later (e.src, e.shard) with
        | some k' => if k' ≤ e.ph then
            some s!"H{e.src} (shard {e.shard}) opened {"/".intercalate e.gate} (step {e.ph}) before the validation traffic of step {k'} had reached it"
          else bad
        | none => bad
      else bad
    let later' := if e.val then insertMin later (e.dst, e.shard) e.ph else later
    (later', bad')

def validateBeforeOpen (evs : List Tagged) : Option String := (vboScan evs).2

/-- validated at all -/
def validatedAtAll (evs : List Tagged) : Option String :=
  let muls := evs.filter fun e => !e.val && !e.opn && (kindOfPhase e.ph == "dzkp" || kindOfPhase e.ph == "mac")
  match muls.find? (fun e => !(evs.any fun v => v.val && v.ph == e.ph && v.dst == e.src && v.shard == e.shard)) with
  | some e => some s!"H{e.src} (shard {e.shard}) sent multiplication traffic on {"/".intercalate e.gate} but no validation traffic of that step reached it"
  | none => none

/-- step order per destination endpoint -/
def stepOrderScan : List Tagged → List (Endpoint × List Nat) → Option String
  | [], _ => none
  | e :: rest, seen =>
    let ep : Endpoint := (e.dst, e.shard)
    let mine := ((seen.find? (fun x => x.1.1 == ep.1 && x.1.2 == ep.2)).map (·.2)).getD []
    if mine.contains e.ph then stepOrderScan rest seen
    else if mine.any (fun k => e.ph < k) then
      some s!"H{e.dst} (shard {e.shard}) received first traffic of step {e.ph} ({"/".intercalate e.gate}) after traffic of a later step"
    else stepOrderScan rest ((ep, e.ph :: mine) :: seen.filter (fun x => !(x.1.1 == ep.1 && x.1.2 == ep.2)))

/-- the opening gates of the steps that were run must all have been seen (otherwise the rules are vacuous) -/
def opensSeen (evs : List Tagged) : Option String :=
  match IpaVerif.Generated.openGates.find? (fun g => !(evs.any fun e => e.opn && isPrefix g e.gate)) with
  | some g => some s!"no traffic seen on opening gate {"/".intercalate g}"
  | none => none

/-! ### rows committed before the MAC keys of a shuffle are opened

C05's `tag_detects` bounds the chance that an altered row verifies **for keys the adversary does not know when it
chooses the alteration**. In `malicious_sharded_shuffle` an honest helper therefore opens its MAC-key shares
(`verify_shuffle/reveal_m_a_c_key`) only after its own part of the shuffle rounds has finished, i.e. after it has
received every row / row-count message (`transfer_x_y`, `transfer_c`, `cardinality`) of that shuffle destined to it.

**Rule (keys after rows).** For every shuffle step `S` of `phaseOrder` and every endpoint `E`: no chunk of
`S/verify_shuffle/reveal_m_a_c_key` destined to `E` is pulled before a chunk of `S/transfer_x_y`, `S/transfer_c` or
`S/cardinality` destined to `E` (an honest helper starts receiving key shares at the point where it sends its own).
This is the per-helper form the code guarantees; it does **not** say that *every* helper has committed its rows
before *any* helper opens a key share (H1's part of the rounds ends before H2 and H3 exchange `c₁`, `c₂`). -/

def isShuffleStep (k : Nat) : Bool := kindOfPhase k == "shuffle"

def stepPath (k : Nat) : List String := (IpaVerif.Generated.phaseOrder.getD k ([], "")).1

def isKeyGate (e : Tagged) : Bool :=
  isShuffleStep e.ph && isPrefix (stepPath e.ph ++ IpaVerif.Generated.shuffleKeyGate) e.gate

def isCommitGate (e : Tagged) : Bool :=
  isShuffleStep e.ph && IpaVerif.Generated.shuffleCommitGates.any (fun g => isPrefix (stepPath e.ph ++ g) e.gate)

/-- scan from the end; `later` = (endpoint, shuffle step) pairs for which a row chunk is still to come -/
def keysAfterRowsScan : List Tagged → List (Endpoint × Nat) × Option String
  | [] => ([], none)
  | e :: rest =>
    let (later, bad) := keysAfterRowsScan rest
    let ep : Endpoint := (e.dst, e.shard)
    let pending := later.any (fun x => x.1.1 == ep.1 && x.1.2 == ep.2 && x.2 == e.ph)
    let bad' := if isKeyGate e && pending then
        some s!"H{e.dst} (shard {e.shard}) received a MAC-key share on {"/".intercalate e.gate} from H{e.src} before the last row message of that shuffle had reached it"
      else bad
    let later' := if isCommitGate e && !pending then (ep, e.ph) :: later else later
    (later', bad')

def keysAfterRows (evs : List Tagged) : Option String := (keysAfterRowsScan evs).2

/-- both shuffles must show key and row traffic (otherwise the rule is vacuous) -/
def shuffleTrafficSeen (evs : List Tagged) : Option String :=
  let steps := (List.range IpaVerif.Generated.phaseOrder.length).filter isShuffleStep
  match steps.find? (fun k => !(evs.any fun e => e.ph == k && isKeyGate e) || !(evs.any fun e => e.ph == k && isCommitGate e)) with
  | some k => some s!"no key / row traffic seen for shuffle {"/".intercalate (stepPath k)}"
  | none => none

/-- Shard-to-shard traffic inside one helper is outside the single-corrupt-helper threat model (all shards of a
helper are one party). It is classified, not protected: the step it belongs to, or `other`. -/
def shardClass (gate : List String) : String :=
  match phaseOf gate with
  | some (k, _) => "/".intercalate (IpaVerif.Generated.phaseOrder.getD k ([], "")).1
  | none => match gate with
    | g :: _ => g
    | [] => "other"

/-! ## Multiplications that bypass the context dispatch (b14, seed C02c)

Protocol code is generic in its context `C`. Under a DZKP-upgraded malicious context a multiplication gate is proven
only if its `(x, y, prss, z)` tuple is pushed into the validator's batch, which is what `zkp_multiply` does and what the
`multiply` impls of that context dispatch to. A protocol that names `semi_honest_multiply` (or the bare
`multiplication_protocol`) instead sends the same bytes on the same gate but records nothing: no proof covers the gate.
The translator lists EVERY call site of those routines in non-test code below `ipa-core/src/protocol`
(`Generated.directMulSites`); each must be one of the sites below, whose enclosing routine never runs on a gate of a
DZKP-validated phase that its validator does not cover. -/

/-- Why a direct call of an unrecorded multiplication routine at `(file, fn, callee)` leaves no gate of a DZKP-validated
phase unproven; `none` = no reason known (a protocol bypassing the dispatch).
* `definition` / `semiHonestContext`: the routine itself and the `multiply` impls of the semi-honest contexts
  (`SemiHonestContext`, `UpgradedSemiHonestContext`, `SemiHonestDZKPUpgraded`: the context type is fixed by the impl);
* `dzkpRecorded`: `zkp_multiply`, which pushes the segment right after (`zkpRecords`);
* `mac`: `mac_multiply` / `upgrade` take an `UpgradedMaliciousContext`: the product is covered by the MAC accumulators (C04);
* `macCheck`: `r·v` of `malicious_check_zero`, run on the base context inside `validate` of the MAC validator (C04);
* `shuffle`: the tags of the verified shuffle (`generate_tags` gates: covered by the shuffle's own check, C05). -/
def directMulCover (s : String × String × String) : Option String :=
  if s = ("protocol/basics/mul/semi_honest.rs", "sh_multiply", "multiplication_protocol") then some "definition"
  else if s = ("protocol/basics/mul/semi_honest.rs", "multiply", "sh_multiply") then some "semiHonestContext"
  else if s = ("protocol/basics/mul/mod.rs", "multiply", "semi_honest_multiply") then some "semiHonestContext"
  else if s = ("protocol/basics/mul/dzkp_malicious.rs", "zkp_multiply", "multiplication_protocol") then some "dzkpRecorded"
  else if s = ("protocol/basics/mul/malicious.rs", "mac_multiply", "semi_honest_multiply") then some "mac"
  else if s = ("protocol/context/malicious.rs", "upgrade", "semi_honest_multiply") then some "mac"
  else if s = ("protocol/basics/check_zero.rs", "malicious_check_zero", "semi_honest_multiply") then some "macCheck"
  else if s = ("protocol/ipa_prf/shuffle/malicious.rs", "compute_and_add_tags", "semi_honest_multiply") then some "shuffle"
  else none

/-- `zkp_multiply`: multiply, build the segment from both inputs, both masks and the received `z`, push it, return. -/
def zkpRecords (body : List String) : Bool :=
  body == [
    "let z = multiplication_protocol(&ctx, record_id, a, b, &prss_left, &prss_right).await?;",
    "let segment = Segment::from_entries( F::as_segment_entry(a.left_arr()), F::as_segment_entry(a.right_arr()), F::as_segment_entry(b.left_arr()), F::as_segment_entry(b.right_arr()), F::as_segment_entry(&prss_left), F::as_segment_entry(&prss_right), F::as_segment_entry(z.right_arr()), );",
    "ctx.push(record_id, segment);",
    "Ok(z)"]

/-- How protocol code running under a DZKP-upgraded malicious context invokes a multiplication gate. -/
inductive MulSite where
  /-- `a.multiply(b, ctx, record_id)` (`SecureMul`) / `B::multiply(ctx, …)` (`BooleanArrayMul`) -/
  | dispatched (trait : String)
  /-- a routine called by name -/
  | direct (site : String × String × String)

/-- Does the gate's `(x, y, prss, z)` tuple reach the validator's batch? -/
def recorded (dispatch : List (String × String)) (zkpBody : List String) : MulSite → Bool
  | .dispatched t => dispatch.lookup t == some "zkp_multiply" && zkpRecords zkpBody
  | .direct s => directMulCover s == some "dzkpRecorded" && zkpRecords zkpBody

/-- sites that never run on a gate of a DZKP-validated phase (see `directMulCover`) -/
def outsideDzkp (s : String × String × String) : Bool :=
  [some "definition", some "semiHonestContext", some "mac", some "macCheck", some "shuffle"].contains (directMulCover s)

end IpaVerif.Malicious
