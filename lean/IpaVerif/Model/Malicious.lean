import IpaVerif.Model.Util
import IpaVerif.Generated.Coverage
/-!
Model for property C02: what a single tampering helper can do to the malicious-mode hybrid query.

* concrete models of the two checks that are not owned by another property: the two-copy opening
  (`malicious_reveal`, basics/reveal.rs) and the dummy-count agreement (`apply_dp_padding_pass`,
  ipa_prf/oprf_padding/mod.rs);
* an abstract execution model: a query is a sequence of phases, each protected by one mechanism whose
  local guarantee is "accepted ⇒ the honest helpers' state is the honest one, unless the mechanism's
  bad-challenge event happened";
* the coverage classification of gate paths against the table regenerated from the sources.
-/
namespace IpaVerif.Malicious

/-! ## Two-copy opening (`malicious_reveal`) over an additive group `Nat mod m` -/

/-- helper indices 0,1,2; helper `i` holds `(s i, s (i+1))`. -/
def nxt (i : Nat) : Nat := (i + 1) % 3
def prv (i : Nat) : Nat := (i + 2) % 3

/-- What honest helper `h` computes when opening a sharing `s` (values mod `m`), given the copy of its
missing share received from its left peer and from its right peer. `none` = `MaliciousRevealFailed`. -/
def revealAt (m : Nat) (s : Nat → Nat) (h : Nat) (fromLeft fromRight : Nat) : Option Nat :=
  if fromLeft = fromRight then some ((fromLeft + s h + s (nxt h)) % m) else none

/-- honest messages: the left peer `prv h` holds `(s (prv h), s h)` and sends its left share; the right
peer `nxt h` holds `(s (nxt h), s (prv h))` and sends its right share: both are `s (prv h)`. -/
def honestCopy (s : Nat → Nat) (h : Nat) : Nat := s (prv h)

/-- opening with helper `c` corrupt (its outgoing messages replaced by arbitrary `mL` to its left peer
and `mR` to its right peer), seen from an honest helper `h ≠ c`. -/
def revealWithCorrupt (m : Nat) (s : Nat → Nat) (c h : Nat) (mL mR : Nat) : Option Nat :=
  -- c is h's left peer  ⇔ prv h = c : the message c sends to its right peer (h) is mR
  -- c is h's right peer ⇔ nxt h = c : the message c sends to its left peer (h) is mL
  let fromLeft := if prv h = c then mR else honestCopy s h
  let fromRight := if nxt h = c then mL else honestCopy s h
  revealAt m s h fromLeft fromRight

def reconstruct (m : Nat) (s : Nat → Nat) : Nat := (s 0 + s 1 + s 2) % m

/-! ## Dummy-record count agreement (`apply_dp_padding_pass`) -/

/-- the excluded helper's view: counts received from its two peers; `none` = `InconsistentPadding`. -/
def countAt (fromRight fromLeft : Nat) : Option Nat :=
  if fromRight ≠ fromLeft then none else some fromRight

/-! ## Abstract execution model -/

/-- A phase over an abstract state `σ` (everything the two honest helpers' shares determine) with
tampering choices `τ` for the corrupt helper. `run s t = none` means some honest helper ends with an
error or never produces output. -/
structure Phase (σ τ : Type) where
  honest : σ → σ
  run : σ → τ → Option σ
  /-- the mechanism's bad event (challenge hits a root, MAC key guessed, hash collision …) -/
  bad : σ → τ → Prop

/-- local guarantee of a protected phase -/
def Phase.Sound {σ τ : Type} (p : Phase σ τ) : Prop :=
  ∀ s t, p.run s t = none ∨ p.run s t = some (p.honest s) ∨ p.bad s t

def honestAll {σ τ : Type} : List (Phase σ τ) → σ → σ
  | [], s => s
  | p :: ps, s => honestAll ps (p.honest s)

/-- run the phases in order with the adversary's choices; abort is sticky. -/
def runAll {σ τ : Type} : List (Phase σ τ) → List τ → σ → Option σ
  | [], _, s => some s
  | _ :: _, [], _ => none
  | p :: ps, t :: ts, s =>
    match p.run s t with
    | none => none
    | some s' => runAll ps ts s'

/-- some phase's bad event happened along the execution -/
def badAlong {σ τ : Type} : List (Phase σ τ) → List τ → σ → Prop
  | [], _, _ => False
  | _ :: _, [], _ => False
  | p :: ps, t :: ts, s =>
    p.bad s t ∨ match p.run s t with
      | none => False
      | some s' => badAlong ps ts s'

/-! ## Coverage classification -/

def isPrefix : List String → List String → Bool
  | [], _ => true
  | _ :: _, [] => false
  | a :: as, b :: bs => a == b && isPrefix as bs

/-- protection kind of a (normalised) gate path, from the regenerated table; `none` = unprotected. -/
def classify (gate : List String) : Option String :=
  (IpaVerif.Generated.coverageTable.find? (fun row => isPrefix row.1 gate)).map (·.2)

def protectedKinds : List String := ["dzkp", "dzkpProof", "mac", "macCheck", "shuffle", "count"]

end IpaVerif.Malicious
