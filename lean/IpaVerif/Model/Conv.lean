import IpaVerif.Model.Circuits
/-
`convert_to_fp25519` (protocol/ipa_prf/boolean_ops/share_conversion_aby.rs), one lane (vectorisation over
`NC` lanes is pointwise), as the three helpers execute it.  Import-free.

* `gen_sh_r_and_sh_s`: the PRSS call yields per bit `(r1, r2, r3)` (H1 `(r1, r2)`, H2 `(r2, r3)`, H3 `(r3, r1)`);
  bits `BITS − 1` and `BITS − 2` of every component are cleared; `sh_r = (0, 0, r3)`, `sh_s = (r1, 0, 0)`
  (`r2` is not used).
* `sh_rs = integer_add(sh_r, sh_s)` under `Step::IntegerAddBetweenMasks` (carry dropped), then
  `sh_rs[BITS − 1] = ZERO`;
* `sh_y = integer_add(sh_rs, input_shares)` under `Step::IntegerAddMaskToX` (carry dropped; the input is
  zero-extended to `BITS` bits by the adder);
* `validated_partial_reveal(.., Role::H3, &sh_y)`: H1 and H2 obtain `y`, H3 obtains nothing.  A helper that is
  not excluded receives the left share of its left neighbour and adds its own two shares
  (`semi_honest_reveal`; `malicious_reveal` additionally compares with the right neighbour's right share);
* `Fp25519::from(BA256)` reduces modulo the group order `ℓ`;
* `output_shares`: H1 `(−s, y)`, H2 `(y, −r)`, H3 `(−r, −s)` with `s = sh_s.left` at H1 / `sh_s.right` at H3,
  `r = sh_r.right` at H2 / `sh_r.left` at H3.
-/
namespace IpaVerif.Conv
open IpaVerif.Sharing IpaVerif.Circuits

def stepMasks : Nat := 1010   -- Fp25519ConversionStep::IntegerAddBetweenMasks
def stepX : Nat := 1011       -- Fp25519ConversionStep::IntegerAddMaskToX

/-- `r[BITS − 1] = ZERO; r[BITS − 2] = ZERO;` on one component of the PRSS output. -/
def clearTop2 (bits : Nat) (r : List Bool) : List Bool := (r.set (bits - 1) false).set (bits - 2) false

/-- `sh_r`: H1 `(0, 0)`, H2 `(0, r3)`, H3 `(r3, 0)`. -/
def shR (r3 : List Bool) : List (World Bool) := r3.map fun b => ⟨⟨false, false⟩, ⟨false, b⟩, ⟨b, false⟩⟩
/-- `sh_s`: H1 `(r1, 0)`, H2 `(0, 0)`, H3 `(0, r1)`. -/
def shS (r1 : List Bool) : List (World Bool) := r1.map fun b => ⟨⟨b, false⟩, ⟨false, false⟩, ⟨false, b⟩⟩

/-- `semi_honest_reveal` as seen by H1 / H2: `share_from_left + left + right`. -/
def revealH1 (w : World Bool) : Bool := xor (xor w.h3.l w.h1.l) w.h1.r
def revealH2 (w : World Bool) : Bool := xor (xor w.h1.l w.h2.l) w.h2.r
/-- the extra comparison of `malicious_reveal` (`share_from_left == share_from_right`) at H1 / H2. -/
def malCheckH1 (w : World Bool) : Bool := w.h3.l == w.h2.r
def malCheckH2 (w : World Bool) : Bool := w.h1.l == w.h3.r

structure ConvResult where
  /-- the bits of `y` revealed to H1 and to H2 -/
  y1 : List Bool
  y2 : List Bool
  /-- `malicious_reveal` accepts at H1 and H2 for every bit -/
  malOk : Bool
  /-- the three helpers' output shares in `Fp25519` (canonical representatives modulo `ℓ`) -/
  out : World Nat

/-- `Fp25519::from(BA256)`. -/
def fpOfBits (ell : Nat) (v : List Bool) : Nat := val v % ell

def convert (ell bits : Nat) (ρ : Path → Masks Bool) (p : Path) (r1 r3 : List Bool) (x : List (World Bool)) : ConvResult :=
  let shr := shR (clearTop2 bits r3)
  let shs := shS (clearTop2 bits r1)
  let rs := ((integerAdd (shareAlg ρ) (p ++ [stepMasks]) shr shs).1).set (bits - 1) (zeroS boolAlg)
  let shy := (integerAdd (shareAlg ρ) (p ++ [stepX]) rs x).1
  let y1 := shy.map revealH1
  let y2 := shy.map revealH2
  let F := modAlg ell
  { y1 := y1, y2 := y2,
    malOk := shy.all (fun w => malCheckH1 w && malCheckH2 w),
    out := ⟨⟨F.neg (fpOfBits ell (shs.map (·.h1.l))), fpOfBits ell y1⟩,
            ⟨fpOfBits ell y2, F.neg (fpOfBits ell (shr.map (·.h2.r)))⟩,
            ⟨F.neg (fpOfBits ell (shr.map (·.h3.l))), F.neg (fpOfBits ell (shs.map (·.h3.r)))⟩⟩ }

end IpaVerif.Conv
