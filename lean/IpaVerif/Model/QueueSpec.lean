import IpaVerif.Model.CircularBuf
/-!
Reference FIFO byte queue: the *specification* `CircularBuf` is proved to refine
(`IpaVerif.C14.circ_refines_queue`) and the oracle of suite `c14_circ`.  Import-free.
-/
namespace IpaVerif.CircularBuf

structure Cfg where
  cap : Nat
  ws : Nat
  rs : Nat

/-- Abstract state: the queued bytes and the closed flag. -/
structure Q where
  q : List Nat
  closed : Bool

/-- One operation on the reference queue; `none` = the operation is rejected (a panic). -/
def specStep (c : Cfg) (s : Q) : Op → Option (Q × Out)
  | .write m =>
      if s.closed = false ∧ c.ws ≤ c.cap - s.q.length ∧ m.length = c.ws
      then some ({ s with q := s.q ++ m }, .done) else none
  | .take =>
      if (s.closed = true ∧ s.q ≠ []) ∨ c.rs ≤ s.q.length
      then some ({ s with q := s.q.drop (min c.rs s.q.length) }, .bytes (s.q.take (min c.rs s.q.length)))
      else some (s, .bytes [])
  | .close => if s.closed = true then none else some ({ s with closed := true }, .done)

def specObs (c : Cfg) (s : Q) : Obs :=
  ⟨s.q.length, decide ((s.closed = true ∧ s.q ≠ []) ∨ c.rs ≤ s.q.length),
   decide (s.closed = false ∧ c.ws ≤ c.cap - s.q.length), s.closed⟩

def specRun (c : Cfg) (s : Q) : List Op → List (Out × Option Obs)
  | [] => []
  | op :: rest =>
    match specStep c s op with
    | none => [(.panic "", none)]
    | some (s', out) => (out, some (specObs c s')) :: specRun c s' rest

def Out.eraseMsg : Out → Out
  | .panic _ => .panic ""
  | o => o


end IpaVerif.CircularBuf
