import IpaVerif.Model.ReportWire
/-!
Poll-level model of the input path of `query/runner/hybrid.rs::Query::execute`:

```
LengthDelimitedStream::<EncryptedHybridReport<BA8, BA3>, _>::new(input_stream)   -- helpers/transport/stream/input.rs
    .map_err(Into::into).try_flatten_iters()                                      -- ends after the first error
    .map(|r| async move { r.and_then(|enc| enc.decrypt(registry) …) })
    .take(query_size)
→ seq_join → reshard_aad (`input.try_next().await?`: the first `Err` in stream order aborts the query)
```

Unlike `ReportWire.processStream` (which only says *whether* anything fails) this model follows
`LengthDelimitedStream::poll_next` statement by statement over the chunks in which the body arrives, because
the error *kind* a helper reports depends on it: a record that `try_from` rejects discards every record parsed
earlier in the same poll (so its `Io(InvalidData)` error overtakes an earlier record's decryption error), and
`take(query_size)` never polls for what lies behind the first `query_size` records unless it was delivered in
the same poll.  Import-free.
-/
namespace IpaVerif.ReportWire

/-- `BufDeque::read_bytes(len)` once `0 < len ≤ buffered_size` is known: the bytes and the remaining queue
(a chunk that is used up is popped, a longer one is split). -/
def takeB : Nat → List Bytes → Bytes × List Bytes
  | _, [] => ([], [])
  | n, c :: cs =>
    if n = 0 then ([], c :: cs)
    else if c.length > n then (c.take n, c.drop n :: cs)
    else let r := takeB (n - c.length) cs; (c ++ r.1, r.2)

/-- `BufDeque::buffered_size` -/
def bufSize (bufs : List Bytes) : Nat := (bufs.map List.length).sum

/-- `BufDeque::read_bytes` -/
def readBytes (len : Nat) (bufs : List Bytes) : Option (Bytes × List Bytes) :=
  if len = 0 ∨ bufSize bufs < len then none else some (takeB len bufs)

/-- `BufDeque::contiguous_len` -/
def contiguousLen : List Bytes → Nat
  | [] => 0
  | c :: _ => c.length

/-- state of a `LengthDelimitedStream` between polls -/
structure Lds where
  /-- `buffer.buffered` -/
  bufs : List Bytes := []
  /-- `pending_len` -/
  pending : Option Nat := none
  /-- chunks the (fused) body stream has not delivered yet -/
  src : List Bytes

/-- `io::Error` kinds produced by the stream (`InvalidData` carries the record parser's error) -/
inductive StreamErr where
  | invalidData (e : Err)
  | writeZero
  deriving DecidableEq, Repr

inductive PollOut where
  /-- `Poll::Ready(Some(Ok(items)))` -/
  | items (l : List EncReport)
  /-- `Poll::Ready(Some(Err(_)))` -/
  | err (e : StreamErr)
  /-- `Poll::Ready(None)` -/
  | done
  /-- a panic inside `T::try_from` (excluded by `Props.C10.parse_total`) -/
  | panic (t : String)
  deriving Repr

/-- The `loop` of `LengthDelimitedStream::poll_next` (the body stream is always ready: the whole body is
available). `avail` / `consumed` / `items` are the locals `available_len` / `consumed_len` / `items`. -/
def pollLoop (L : Layout) : Nat → Lds → (avail consumed : Nat) → List EncReport → PollOut × Lds
  | 0, st, _, _, _ => (.done, st)   -- fuel exhausted: unreachable with the fuel `poll` supplies
  | fuel + 1, st, avail, consumed, items =>
    -- if this.pending_len.is_none() { if let Some(len) = this.buffer.read_infallible::<Length>() … }
    let (st, consumed) :=
      match st.pending with
      | some _ => (st, consumed)
      | none =>
        match readBytes 2 st.bufs with
        | some (hdr, bufs) => ({ st with bufs, pending := some (hdr.headD 0 + 256 * (hdr.drop 1).headD 0) }, consumed + 2)
        | none => (st, consumed)
    -- if let Some(len) = *this.pending_len { let bytes = if len == 0 { Some(empty) } else { read_bytes(len) }; … }
    let got : Option (Bytes × List Bytes × Nat) :=
      match st.pending with
      | none => none
      | some len =>
        if len = 0 then some ([], st.bufs, 0)
        else (readBytes len st.bufs).map (fun r => (r.1, r.2, len))
    let afterRecord : (PollOut × Lds) ⊕ (Lds × Nat × List EncReport × Bool) :=
      match got with
      | none => .inr (st, consumed, items, false)
      | some (bytes, bufs, len) =>
        let st := { st with bufs, pending := none }
        -- match T::try_from(bytes)
        match fromBytes L bytes with
        | .ok item => .inr (st, consumed + len, items ++ [item], true)
        | .err e => .inl (.err (.invalidData e), st)
        | .panic t => .inl (.panic t, st)
    match afterRecord with
    | .inl r => r
    | .inr (st, consumed, items, pushed) =>
      -- if available_len != 0 && consumed_len < available_len { continue; }
      if pushed && avail != 0 && consumed < avail then pollLoop L fuel st avail consumed items
      -- if !items.is_empty() { return Poll::Ready(Some(Ok(items))); }
      else if !items.isEmpty then (.items items, st)
      else
        -- poll the body stream; this.buffer.extend(polled_item)
        match st.src with
        | c :: rest =>
          let st := { st with bufs := st.bufs ++ [c], src := rest }
          let avail := if avail = 0 then contiguousLen st.bufs else avail
          pollLoop L fuel st avail consumed items
        | [] =>
          if bufSize st.bufs > 0 then (.err .writeZero, st)      -- ExtendResult::Error("stream terminated with N extra bytes")
          else if st.pending.isSome then (.err .writeZero, st)   -- Finished if pending_len.is_some()
          else (.done, st)

/-- one `poll_next` -/
def poll (L : Layout) (st : Lds) : PollOut × Lds :=
  pollLoop L (bufSize st.bufs + bufSize st.src + st.src.length + 2) st 0 0 []

/-- What `Query::execute` learns from its input before the MPC protocol starts. -/
inductive InputOutcome where
  /-- the reports decrypted (at most `query_size`), in order; the protocol runs on them -/
  | accepted (rs : List PlainReport)
  /-- `Error::Io(_)` from the length-delimited framing / `try_from` -/
  | ioErr (e : StreamErr)
  /-- `Error::InvalidHybridReport(_)` from `decrypt` -/
  | reportErr (e : Err)
  | panic (t : String)
  deriving Repr

/-- decrypt the items of one poll in order while fewer than `sz` reports were taken -/
def takeItems {K : Type} (A : AEAD K) (reg : Nat → Option K) (L : Layout) (sz : Nat) :
    List EncReport → List PlainReport → InputOutcome
  | [], acc => .accepted acc
  | r :: rs, acc =>
    if acc.length ≥ sz then .accepted acc
    else match decrypt A reg L r with
      | .ok p => takeItems A reg L sz rs (acc ++ [p])
      | .err e => .reportErr e
      | .panic t => .panic t

/-- `….take(sz)` consumed by `reshard_aad`: poll until `sz` reports are in, the stream ends or errs. -/
def pullLoop {K : Type} (A : AEAD K) (reg : Nat → Option K) (L : Layout) (sz : Nat) :
    Nat → Lds → List PlainReport → InputOutcome
  | 0, _, acc => .accepted acc
  | fuel + 1, st, acc =>
    if acc.length ≥ sz then .accepted acc
    else match poll L st with
      | (.items l, st) =>
        match takeItems A reg L sz l acc with
        | .accepted acc => pullLoop A reg L sz fuel st acc
        | o => o
      | (.err e, _) => .ioErr e
      | (.done, _) => .accepted acc
      | (.panic t, _) => .panic t

/-- The input phase of `Query::execute` on a body delivered as `chunks`. -/
def queryInput {K : Type} (A : AEAD K) (reg : Nat → Option K) (L : Layout) (sz : Nat) (chunks : List Bytes) :
    InputOutcome :=
  pullLoop A reg L sz (bufSize chunks + chunks.length + 2) { src := chunks } []

end IpaVerif.ReportWire
