import IpaVerif.Generated.ValidatedJoin
/-!
Executable model of `DZKPValidator::validated_seq_join` (ipa-core/src/protocol/context/dzkp_validator.rs), b14 / C15:

```rust
let ctx = self.context();
seq_join(ctx.active_work(), source.enumerate().map(move |(index, fut)| {
    let ctx = ctx.clone();
    fut.then(move |res| async move {
        let item = res?;                                      // (1) the task's own error leaves first
        ctx.validate_record(RecordId::from(index)).await?;    // (2) then the record asks for validation
        Ok(item)                                              // (3)
    })
})).chain(/* keeps the validator alive until the stream has finished */)
```

over a source that is an iterator (always ready) of `n` tasks.  The window is `ctx.active_work()`
(= records per batch for the malicious validator, `DZKPUpgraded::new`).  `validate_record(i)` of the malicious
validator completes once every record of `i`'s batch (below the declared total `n`) has asked and the batch's check has
run (C16; in the suites nothing is pushed into the batch, so the check succeeds at once in the poll of the call that
completes the batch and the earlier callers see the verdict at their next poll); for the semi-honest validator it is
a no-op.

Import-free (core + the generated statement list).  Tasks are identified by their index; whether a task's own future
has completed (and how) when it is polled is the environment `done`.
-/
namespace IpaVerif.VJoin

inductive TaskRes where
  | ok
  | err
  deriving DecidableEq, Repr, Inhabited

/-- state of the per-item continuation -/
inductive Phase where
  /-- the task's own future has not completed yet -/
  | task
  /-- `validate_record(index)` has been called; the batch is not validated yet. `res` = the task's result, kept for
  the order "validate, then return `res`" (not the order of the code, see `contErrorFirst`) -/
  | waiting (res : TaskRes)
  | doneOk
  | doneErr
  deriving DecidableEq, Repr, Inhabited

structure Cfg where
  /-- number of tasks = declared total records -/
  n : Nat
  /-- records per batch -/
  rpb : Nat
  /-- window (`ctx.active_work()`) -/
  w : Nat
  /-- malicious DZKP validator (`false`: semi-honest, `validate_record` is a no-op) -/
  mal : Bool
  /-- statement order of the continuation: `true` = `let item = res?` precedes `validate_record(..).await?` -/
  errFirst : Bool
  deriving Repr

/-- what the batcher of the validator knows (nothing is ever pushed: a complete batch validates at once) -/
structure BatchSt where
  /-- records that have called `validate_record` -/
  asked : List Nat
  /-- batches whose check has run -/
  validated : List Nat
  /-- `Batcher.first_batch` -/
  first : Nat
  /-- `Batcher.batches`, slot `k` = batch `first + k`: `true` = outstanding state, `false` = `None` (validated out of
  order). Dropping the validator while the deque is not empty panics (`ContextUnsafe`). -/
  slots : List Bool
  deriving DecidableEq, Repr, Inhabited

/-- `get_batch_by_offset`: the deque grows up to the requested slot -/
def growSlots (slots : List Bool) (len : Nat) : List Bool := slots ++ List.replicate (len - slots.length) true

/-- "also remove any batches that completed out of order" -/
def popDone : Nat → List Bool → Nat → List Bool × Nat
  | fuel + 1, false :: sl, f => popDone fuel sl (f + 1)
  | _, sl, f => (sl, f)

/-- every record of batch `b` below the total has asked -/
def batchComplete (c : Cfg) (asked : List Nat) (b : Nat) : Bool :=
  (List.range c.rpb).all fun k => decide (b * c.rpb + k ≥ c.n) || asked.contains (b * c.rpb + k)

/-- `ctx.validate_record(i)` polled for the first time -/
def ask (c : Cfg) (bs : BatchSt) (i : Nat) (res : TaskRes) : Phase × BatchSt :=
  let done := if res = .ok then Phase.doneOk else Phase.doneErr
  if !c.mal then (done, bs)
  else
    let off := i / c.rpb - bs.first
    let bs1 := { bs with asked := bs.asked ++ [i], slots := growSlots bs.slots (off + 1) }
    if batchComplete c bs1.asked (i / c.rpb) then
      let (sl, f) :=
        if off = 0 then popDone bs1.slots.length bs1.slots.tail (bs1.first + 1) else (bs1.slots.set off false, bs1.first)
      (done, { bs1 with validated := bs1.validated ++ [i / c.rpb], slots := sl, first := f })
    else (.waiting res, bs1)

/-- dropping the joined stream drops the validator: `Drop` insists on `is_verified()` = the deque is empty -/
def dropOk (bs : BatchSt) : Bool := bs.slots.isEmpty

/-- one poll of the continuation of record `i` -/
def contPoll (c : Cfg) (done : Nat → Option TaskRes) (bs : BatchSt) (i : Nat) : Phase → Phase × BatchSt
  | .task =>
    match done i with
    | none => (.task, bs)
    | some .err => if c.errFirst then (.doneErr, bs) else ask c bs i .err
    | some .ok => ask c bs i .ok
  | .waiting res =>
    if bs.validated.contains (i / c.rpb) then ((if res = .ok then .doneOk else .doneErr), bs) else (.waiting res, bs)
  | .doneOk => (.doneOk, bs)
  | .doneErr => (.doneErr, bs)

structure Slot where
  id : Nat
  ph : Phase
  deriving DecidableEq, Repr, Inhabited

structure State where
  /-- next index the source yields -/
  next : Nat
  active : List Slot
  bs : BatchSt
  ended : Bool
  deriving Repr, Inhabited

def State.init : State :=
  { next := 0, active := [], bs := { asked := [], validated := [], first := 0, slots := [] }, ended := false }

inductive Out where
  | pending
  | ok (id : Nat)
  | err (id : Nat)
  | finished
  /-- the source is exhausted and the window empty, but a batch some of whose records asked was never validated: the
  stream's last act — dropping the validator it kept alive — panics (`ContextUnsafe`) -/
  | finishedUnverified
  /-- polled after the end (the harness does not poll a finished stream) -/
  | done
  deriving DecidableEq, Repr, Inhabited

/-- "draw more values from the input, up to the capacity" (`fuel` = `w` suffices) -/
def refill (c : Cfg) : Nat → Nat → List Slot → Nat × List Slot
  | 0, next, act => (next, act)
  | fuel + 1, next, act =>
    if act.length < c.w ∧ next < c.n then refill c fuel (next + 1) (act ++ [{ id := next, ph := .task }])
    else (next, act)

/-- `for f in active.iter_mut().skip(1) { f.check_ready(cx) }` -/
def pollRest (c : Cfg) (done : Nat → Option TaskRes) : List Slot → BatchSt → List Slot × BatchSt
  | [], bs => ([], bs)
  | sl :: rest, bs =>
    let (ph, bs1) := contPoll c done bs sl.id sl.ph
    let (rest', bs2) := pollRest c done rest bs1
    ({ sl with ph := ph } :: rest', bs2)

/-- `poll_next` of the joined stream -/
def step (c : Cfg) (done : Nat → Option TaskRes) (s : State) : State × Out :=
  if s.ended then (s, .done)
  else
    let (next, act) := refill c c.w s.next s.active
    match act with
    | [] => ({ s with next := next, active := [], ended := true }, if dropOk s.bs then .finished else .finishedUnverified)
    | front :: rest =>
      let (ph, bs1) := contPoll c done s.bs front.id front.ph
      match ph with
      | .doneOk => ({ s with next := next, active := rest, bs := bs1 }, .ok front.id)
      | .doneErr => ({ s with next := next, active := rest, bs := bs1 }, .err front.id)
      | _ =>
        let (rest', bs2) := pollRest c done rest bs1
        ({ s with next := next, active := { front with ph := ph } :: rest', bs := bs2 }, .pending)

/-- a script: the environment before each poll -/
def run (c : Cfg) : State → List (Nat → Option TaskRes) → State × List Out
  | s, [] => (s, [])
  | s, d :: ds =>
    let (s1, o) := step c d s
    let (s2, os) := run c s1 ds
    (s2, o :: os)

/-- the records emitted by a list of poll results, in order -/
def emitted : List Out → List Nat
  | [] => []
  | .ok i :: os => i :: emitted os
  | .err i :: os => i :: emitted os
  | _ :: os => emitted os

/-! ### the statement order of the continuation, from the translator -/

/-- `true` iff the continuation is exactly `let item = res?; ctx.validate_record(RecordId::from(index)).await?; Ok(item)` -/
def contErrorFirst (stmts : List String) : Bool :=
  stmts == ["let item = res?;", "ctx.validate_record(RecordId::from(index)).await?;", "Ok(item)"]

/-- configuration of the join as the code builds it -/
def cfgOf (mal : Bool) (n rpb w : Nat) : Cfg :=
  { n := n, rpb := rpb, w := w, mal := mal, errFirst := contErrorFirst IpaVerif.Generated.validatedContinuation }

end IpaVerif.VJoin
