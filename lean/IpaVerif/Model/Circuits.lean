import IpaVerif.Model.Sharing
/-
Boolean circuits of `protocol/ipa_prf/boolean_ops/*`, `protocol/boolean/{or,and}.rs`,
`protocol/basics/if_else.rs` and `protocol/ipa_prf/aggregation/mod.rs` (C07).

Each circuit is written ONCE over an interface `SecureAlg α` (local xor / not / constants and one
interactive gate `mul`, identified by its step path like `ctx.narrow(..)` does) and transcribes the Rust
loop literally, for bit lists (least significant bit first) of ARBITRARY lengths `n = |x|`, `m = |y|`.
Two instances: plaintext bits (`plainAlg`) and the three helpers' views of replicated Boolean shares
(`shareAlg ρ`, PRSS masks `ρ` per gate).  Import-free.
-/
namespace IpaVerif.Circuits
open IpaVerif.Sharing

/-- A step path (`Gate` narrowed by `S::from(i)` / named steps); identifies one multiplication gate. -/
abbrev Path := List Nat

structure SecureAlg (α : Type) where
  zero : α                       -- `AdditiveShare::ZERO`
  one : α                        -- `share_known_value(ctx, Boolean::ONE)`
  xor : α → α → α                -- `+` (and `-`) on Boolean shares
  not : α → α                    -- `!`
  neg : α → α                    -- unary `-` (identity on Boolean)
  mul : Path → α → α → α         -- `SecureMul::multiply` under the context narrowed to the path

def plainAlg : SecureAlg Bool :=
  { zero := false, one := true, xor := Bool.xor, not := Bool.not, neg := id, mul := fun _ a b => a && b }

/-- Replicated Boolean shares; `ρ p` are the PRSS values the three helpers draw at gate `p`. -/
def shareAlg (ρ : Path → Masks Bool) : SecureAlg (World Bool) :=
  { zero := zeroS boolAlg, one := knownS boolAlg true, xor := addS boolAlg, not := notS,
    neg := negS boolAlg, mul := fun p x y => mulS boolAlg (ρ p) x y }

-- named steps (`boolean_ops/step.rs`, `aggregation/step.rs`) as path components ≥ 1000
def stepAdd : Nat := 1000        -- SaturatedAdditionStep::Add / MultiplicationStep::Add / AggregateValuesStep::Add
def stepSelect : Nat := 1001     -- Saturated{Addition,Subtraction}Step::Select
def stepSubtract : Nat := 1002   -- SaturatedSubtractionStep::Subtract
def stepSatAdd : Nat := 1003     -- AggregateValuesStep::SaturatingAdd

variable {α : Type}

/-- `bit_adder`: `s = x ⊕ y ⊕ c`, `c' = c ⊕ (x ⊕ c)·(y ⊕ c)`. Returns `(sum bit, carry out)`. -/
def bitAdder (A : SecureAlg α) (p : Path) (x y c : α) : α × α :=
  (A.xor (A.xor x y) c, A.xor c (A.mul p (A.xor x c) (A.xor y c)))

/-- `addition_circuit`: `for (i, (xb, yb)) in x.zip(y.chain(repeat(ZERO))).enumerate()` — the output has
the length of `x`; `y` is zero-extended or truncated to it. Returns `(sum, final carry)`. -/
def additionCircuit (A : SecureAlg α) (p : Path) : Nat → List α → List α → α → List α × α
  | _, [], _, c => ([], c)
  | i, x :: xs, ys, c =>
      let yb := ys.headD A.zero
      let r := bitAdder A (p ++ [i]) x yb c
      let rest := additionCircuit A p (i + 1) xs ys.tail r.2
      (r.1 :: rest.1, rest.2)

/-- `integer_add`: carry-in `ZERO`; returns `(sum, carry)`. -/
def integerAdd (A : SecureAlg α) (p : Path) (x y : List α) : List α × α :=
  additionCircuit A p 0 x y A.zero

/-- one gate of `bool_or` / `or`: `−ab + a + b`. -/
def orGate (A : SecureAlg α) (p : Path) (a b : α) : α :=
  A.xor (A.xor (A.neg (A.mul p a b)) a) b

/-- `bool_or(a, b)`; `assert_eq!(a.len(), b.len())` → `none` is the panic. Gate `i` runs under `S::from(i)`. -/
def boolOrAux (A : SecureAlg α) (p : Path) : Nat → List α → List α → List α
  | i, a :: as, b :: bs => orGate A (p ++ [i]) a b :: boolOrAux A p (i + 1) as bs
  | _, _, _ => []

def boolOr (A : SecureAlg α) (p : Path) (a b : List α) : Option (List α) :=
  if a.length = b.length then some (boolOrAux A p 0 a b) else none

/-- `bool_and_8_bit`: more than 8 bits or unequal lengths panic. -/
def boolAndAux (A : SecureAlg α) (p : Path) : Nat → List α → List α → List α
  | i, a :: as, b :: bs => A.mul (p ++ [i]) a b :: boolAndAux A p (i + 1) as bs
  | _, _, _ => []

def boolAnd8 (A : SecureAlg α) (p : Path) (a b : List α) : Option (List α) :=
  if a.length = b.length ∧ a.length ≤ 8 then some (boolAndAux A p 0 a b) else none

/-- `integer_sat_add`: add under `Step::Add`, then `bool_or(result, repeat_n(carry, x.len()))` under
`Step::Select` — all ones if the carry is set. -/
def integerSatAdd (A : SecureAlg α) (p : Path) (x y : List α) : List α :=
  let r := additionCircuit A (p ++ [stepAdd]) 0 x y A.zero
  boolOrAux A (p ++ [stepSelect]) 0 r.1 (List.replicate x.length r.2)

/-- `bit_subtractor`: `d = x ⊕ !(y ⊕ c)`, `c' = c ⊕ (x ⊕ c)·!(y ⊕ c)`. -/
def bitSubtractor (A : SecureAlg α) (p : Path) (x y c : α) : α × α :=
  (A.xor x (A.not (A.xor y c)), A.xor c (A.mul p (A.xor x c) (A.not (A.xor y c))))

/-- `subtraction_circuit`: same iteration shape as `addition_circuit`. -/
def subtractionCircuit (A : SecureAlg α) (p : Path) : Nat → List α → List α → α → List α × α
  | _, [], _, c => ([], c)
  | i, x :: xs, ys, c =>
      let yb := ys.headD A.zero
      let r := bitSubtractor A (p ++ [i]) x yb c
      let rest := subtractionCircuit A p (i + 1) xs ys.tail r.2
      (r.1 :: rest.1, rest.2)

/-- `compare_geq`: carry-in `share_known_value(ONE)`; the result is the final carry. -/
def compareGeq (A : SecureAlg α) (p : Path) (x y : List α) : α :=
  (subtractionCircuit A p 0 x y A.one).2

/-- `compare_gt`: carry-in `ZERO`. -/
def compareGt (A : SecureAlg α) (p : Path) (x y : List α) : α :=
  (subtractionCircuit A p 0 x y A.zero).2

/-- `integer_sub`: carry-in `share_known_value(ONE)`; result bits only. -/
def integerSub (A : SecureAlg α) (p : Path) (x y : List α) : List α :=
  (subtractionCircuit A p 0 x y A.one).1

/-- `select(condition, true_value, false_value)` on boolean arrays (one vectorised multiplication; bit `i`
of it is gate `p ++ [i]`): `false + condition·(true − false)`. The two values have the same type (length). -/
def selectAux (A : SecureAlg α) (p : Path) (cond : α) : Nat → List α → List α → List α
  | i, t :: ts, f :: fs => A.xor f (A.mul (p ++ [i]) cond (A.xor t f)) :: selectAux A p cond (i + 1) ts fs
  | _, _, _ => []

def select (A : SecureAlg α) (p : Path) (cond : α) (t f : List α) : List α := selectAux A p cond 0 t f

/-- `integer_sat_sub` (both operands have the same boolean-array type, i.e. the same length): carry-in
`!ZERO`, subtract under `Step::Subtract`, then `select(carry, result, ZERO)` under `Step::Select`. -/
def integerSatSub (A : SecureAlg α) (p : Path) (x y : List α) : List α :=
  let r := subtractionCircuit A (p ++ [stepSubtract]) 0 x y (A.not A.zero)
  select A (p ++ [stepSelect]) r.2 r.1 (List.replicate x.length A.zero)

/-- `y.resize(new_len, y[y.len() − 1])`: sign extension (or truncation) to `len`; `y` non-empty. -/
def resizeLast (y : List α) (len : Nat) (dflt : α) : List α :=
  y.take len ++ List.replicate (len - y.length) (y.getLastD dflt)

/-- products `yb · x[j]` for `j < k` (`parallel_join` of the multiplications, gate `S::from(j)`). -/
def mulRow (A : SecureAlg α) (p : Path) (yb : α) : Nat → List α → List α
  | _, [] => []
  | j, xb :: xs => A.mul (p ++ [j]) yb xb :: mulRow A p yb (j + 1) xs

/-- body of the `for (i, yb) in y.into_iter().enumerate()` loop of `integer_mul`. -/
def mulStep (A : SecureAlg α) (p : Path) (x : List α) (newLen : Nat) (result : List α) (i : Nat) (yb : α) : List α :=
  let pi := p ++ [i]
  let t := mulRow A pi yb 0 (x.take (newLen - i))
  if i = 0 then t else
    let addY := result.drop i
    let r := integerAdd A (pi ++ [stepAdd]) t addY
    let res := result.take i ++ r.1
    if res.length < newLen then res ++ [r.2] else res

def mulLoop (A : SecureAlg α) (p : Path) (x : List α) (newLen : Nat) : Nat → List α → List α → List α
  | _, [], result => result
  | i, yb :: ys, result => mulLoop A p x newLen (i + 1) ys (mulStep A p x newLen result i yb)

/-- `integer_mul`: `x` unsigned, `y` two's complement, output `|x| + |y|` bits; empty `y` panics
(`y[y.len() − 1]`). -/
def integerMul (A : SecureAlg α) (p : Path) (x y : List α) : Option (List α) :=
  if y.isEmpty then none else
    let newLen := x.length + y.length
    some (mulLoop A p x newLen 0 (resizeLast y newLen A.zero) [])

/-- one pair of `aggregate_values`: while the row is narrower than the output type add and keep the carry
(`sum.push(carry)`), afterwards add with saturation. -/
def aggPair (A : SecureAlg α) (p : Path) (w : Nat) (a b : List α) : List α :=
  if a.length < w then
    let r := integerAdd A (p ++ [stepAdd]) a b
    r.1 ++ [r.2]
  else integerSatAdd A (p ++ [stepSatAdd]) a b

/-- one level: `try_chunks(2)`, record id `base + i`; the odd element at the end passes through. -/
def aggLevel (A : SecureAlg α) (p : Path) (w : Nat) : Nat → List (List α) → List (List α)
  | i, a :: b :: rest => aggPair A (p ++ [i]) w a b :: aggLevel A p w (i + 1) rest
  | _, [a] => [a]
  | _, [] => []

/-- `while num_rows > 1 { … depth += 1 }` (fuel ≥ number of levels; `rows.length` suffices). -/
def aggLoop (A : SecureAlg α) (p : Path) (w : Nat) : Nat → Nat → List (List α) → List (List α)
  | 0, _, rows => rows
  | fuel + 1, depth, rows =>
      if rows.length ≤ 1 then rows else aggLoop A p w fuel (depth + 1) (aggLevel A (p ++ [depth]) w 0 rows)

/-- `result.resize(OV::BITS, ZERO)`. -/
def resizeZero (A : SecureAlg α) (r : List α) (w : Nat) : List α :=
  r.take w ++ List.replicate (w - r.length) A.zero

/-- `aggregate_values::<_, OV, B>` for one histogram column (vectorisation over `B` columns is pointwise):
`w = OV::BITS`. No rows → all-zero. -/
def aggregateValues (A : SecureAlg α) (p : Path) (w : Nat) (rows : List (List α)) : List α :=
  resizeZero A ((aggLoop A p w rows.length 0 rows).headD []) w

/-! ### plaintext helpers -/

/-- value of a little-endian bit list. -/
def val : List Bool → Nat
  | [] => 0
  | b :: bs => b.toNat + 2 * val bs

/-- the `n` low bits of `v`, least significant first. -/
def bitsOf : Nat → Nat → List Bool
  | 0, _ => []
  | n + 1, v => (v % 2 == 1) :: bitsOf n (v / 2)

/-- two's-complement value of a non-empty bit list, offset by `2^|y|` when negative: returned as
`(magnitude part, isNegative)`: `sval y = val y − (if msb then 2^|y| else 0)`. -/
def msb (y : List Bool) : Bool := y.getLastD false

end IpaVerif.Circuits
