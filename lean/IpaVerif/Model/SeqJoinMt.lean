/-!
Executable model of the MULTI-THREADED sequential join, `ipa-core/src/seq_join/multi_thread.rs`
(feature `multi-threading`): `SequentialFutures::poll_next` over an `async_scoped` scope (C15, b17).

```
while this.spawner.remaining() < *this.capacity {          -- refill
    if let Poll::Ready(Some(f)) = this.source.as_mut().poll_next(cx) { spawn_cancellable(f); spawned += 1 }
    else { break }
}
if this.spawner.remaining() > 0 { this.spawner.poll_next(cx).map(..) }   -- guard, scope poll
else if this.source.is_done() { Poll::Ready(None) }
else { Poll::Pending }
```

The scope (`async_scoped::Scope`) keeps the join handles of the spawned tasks in a `FuturesOrdered`
(`futs`): `remaining()` = its length (tasks spawned and not yet collected), `len()` = number of tasks
EVER spawned (never decreases).  `Scope::poll_next` = `FuturesOrdered::poll_next`: `Ready(None)` when
it is EMPTY, `Ready(Some(head))` when the head task has completed, `Pending` otherwise.  Tasks run on
worker threads: whether a spawned task has completed by the time the scope is polled is decided by the
environment (`done`), as is the number of items the source is willing to yield before it answers
`Pending` (`budget`) — a channel- or network-fed source is pending whenever it likes.

Import-free.  Tasks are identified by their position `0,1,2,…` in the input.  The guard is a parameter
(`stepWith`) so that variants can be exhibited; the code is `step = stepWith guardRemaining`.
-/
namespace IpaVerif.SeqJoinMt

structure State where
  /-- tasks the source has not yielded yet -/
  src : List Nat
  /-- `Fuse::is_done`: the source has answered `None` -/
  srcDone : Bool
  /-- the scope's `FuturesOrdered`: tasks spawned and not yet collected, in spawn order -/
  futs : List Nat
  /-- `Scope::len()`: tasks spawned so far (also `SequentialFutures::spawned`) -/
  len : Nat
  /-- `capacity` = `active.get()` -/
  cap : Nat
  deriving Repr, DecidableEq, Inhabited

def State.new (n cap : Nat) : State :=
  { src := List.range n, srcDone := false, futs := [], len := 0, cap := cap }

/-- what the environment does during one `poll_next` call -/
structure Env where
  /-- the source yields at most this many items now, then answers `Pending`
  (an exhausted source answers `None` regardless) -/
  budget : Nat
  /-- has the spawned task `id` completed by the time the scope is polled in this call -/
  done : Nat → Bool

inductive Out where
  | item (id : Nat)
  | pending
  | finished
  deriving Repr, DecidableEq, Inhabited

/-- "Draw more values from the input, up to the capacity": the state and the number of items drawn.
`fuel` bounds the loop (`cap + 1` iterations suffice). -/
def refill : Nat → State → Nat → Nat → State × Nat
  | 0, s, pulled, _ => (s, pulled)
  | fuel + 1, s, pulled, budget =>
    if s.futs.length < s.cap then
      if s.srcDone then (s, pulled)                      -- `Fuse` answers `None`: `else { break }`
      else match s.src with
        | [] => ({ s with srcDone := true }, pulled)     -- `Ready(None)`: `else { break }`
        | t :: rest =>
          if budget = 0 then (s, pulled)                 -- `Pending`: `else { break }`
          else refill fuel { s with src := rest, futs := s.futs ++ [t], len := s.len + 1 } (pulled + 1) (budget - 1)
    else (s, pulled)

/-- `this.spawner.remaining() > 0` — the guard of the code -/
def guardRemaining (s : State) : Bool := decide (0 < s.futs.length)

/-- `this.spawner.len() > 0` — the guard of the seeded variant C15d (tasks EVER spawned) -/
def guardLen (s : State) : Bool := decide (0 < s.len)

/-- `Scope::poll_next` = `FuturesOrdered::poll_next` -/
def pollScope (done : Nat → Bool) (s : State) : State × Out :=
  match s.futs with
  | [] => (s, .finished)                                  -- an empty `FuturesOrdered` answers `Ready(None)`
  | h :: rest => if done h then ({ s with futs := rest }, .item h) else (s, .pending)

/-- `SequentialFutures::poll_next` with the given guard in front of the scope poll; also returns the
number of items drawn from the source. -/
def stepWith (guard : State → Bool) (s : State) (env : Env) : State × Out × Nat :=
  let (s1, pulled) := refill (s.cap + 1) s 0 env.budget
  if guard s1 then
    let (s2, o) := pollScope env.done s1
    (s2, o, pulled)
  else if s1.srcDone then (s1, .finished, pulled)
  else (s1, .pending, pulled)

/-- the code -/
def step (s : State) (env : Env) : State × Out × Nat := stepWith guardRemaining s env

/-- run a schedule of environments; one answer per `poll_next` call -/
def runWith (guard : State → Bool) : State → List Env → State × List Out
  | s, [] => (s, [])
  | s, e :: es =>
    let (s1, o, _) := stepWith guard s e
    let (s2, os) := runWith guard s1 es
    (s2, o :: os)

def run : State → List Env → State × List Out := runWith guardRemaining

/-- the items among the answers, in order -/
def items : List Out → List Nat
  | [] => []
  | .item i :: os => i :: items os
  | _ :: os => items os

/-- an environment in which the source is willing (`budget ≥ 1`) and every spawned task has completed -/
def willing : Env := { budget := 1, done := fun _ => true }

end IpaVerif.SeqJoinMt
