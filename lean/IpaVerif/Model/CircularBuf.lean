import IpaVerif.Generated.Buffers
/-!
# Model of `ipa-core/src/helpers/buffers/circular.rs` (`CircularBuf`)

Field-for-field transcription: `write`, `read` cursors in `[0, 2·capacity)`, `read_size`,
`write_size`, `closed`, `data` (a vector of `capacity` bytes).  `debug_assert!`/`assert!`/slice
panics are explicit outcomes (`Except String`), the string being a substring of the Rust panic
message.  Import-free.
-/
namespace IpaVerif.CircularBuf

structure Buf where
  write : Nat
  read : Nat
  readSize : Nat
  writeSize : Nat
  closed : Bool
  data : List Nat
deriving Repr, BEq, DecidableEq

namespace Buf

/-- `CircularBuf::new` (debug build: the three `debug_assert!`s are live). -/
def new (capacity writeSize readSize : Nat) : Except String Buf :=
  if capacity = 0 ∨ writeSize = 0 ∨ readSize = 0 then .error "must all be greater than zero"
  else if capacity % writeSize ≠ 0 then .error "write size must divide capacity"
  else if readSize % writeSize ≠ 0 then .error "write size must divide read_size"
  else .ok { write := 0, read := 0, readSize, writeSize, closed := false,
             data := List.replicate capacity 0 }

def capacity (b : Buf) : Nat := b.data.length
def mask (b : Buf) (v : Nat) : Nat := v % b.capacity
/-- `val % (self.data.len() * 2)`; the factor is regenerated from the source. -/
def wrap (b : Buf) (v : Nat) : Nat := v % (b.capacity * Generated.Buffers.circWrapFactor)
def inc (b : Buf) (v delta : Nat) : Nat := b.wrap (v + delta)

/-- `len`: `if write >= read { wrap(write - read) } else { capacity + mask(write) - mask(read) }`. -/
def len (b : Buf) : Nat :=
  if b.write ≥ b.read then b.wrap (b.write - b.read)
  else b.capacity + b.mask b.write - b.mask b.read

def isEmpty (b : Buf) : Bool := b.read == b.write
def remaining (b : Buf) : Nat := b.capacity - b.len
def canRead (b : Buf) : Bool := (b.closed && !b.isEmpty) || decide (b.len ≥ b.readSize)
def canWrite (b : Buf) : Bool := !b.closed && decide (b.remaining ≥ b.writeSize)

/-- `close`: `debug_assert!(!self.closed, "Already closed")`. -/
def close (b : Buf) : Except String Buf :=
  if b.closed then .error "Already closed" else .ok { b with closed := true }

/-- `next().write(data)`: the two `debug_assert!`s of `next`, the `assert_eq!` on the size in
`Next::write`, the slice `data[range]` (`range = mask(write) ..= mask(write + write_size - 1)`;
an inverted or wrongly sized range is a slice/`copy_from_slice` panic) and the cursor update. -/
def writeMsg (b : Buf) (m : List Nat) : Except String Buf :=
  if b.closed then .error "Writing to a closed buffer"
  else if !b.canWrite then .error "Not enough space for the next write"
  else if m.length ≠ b.writeSize then .error "Expect to keep messages of size"
  else
    let s := b.mask b.write
    let e := b.mask (b.write + b.writeSize - 1)
    if e + 1 < s ∨ e + 1 - s ≠ b.writeSize then .error "slice"
    else .ok { b with data := b.data.take s ++ m ++ b.data.drop (e + 1),
                      write := b.inc b.write b.writeSize }

/-- `take`: empty vector when `!can_read`, else `min(read_size, len)` bytes starting at
`mask(read)`, split in two when the inclusive range wraps. -/
def take (b : Buf) : Buf × List Nat :=
  if !b.canRead then (b, [])
  else
    let delta := min b.readSize b.len
    let s := b.mask b.read
    let e := b.mask (b.read + delta - 1)
    let ret := if e < s then b.data.drop s ++ b.data.take (e + 1)
               else (b.data.drop s).take (e + 1 - s)
    ({ b with read := b.inc b.read delta }, ret)

end Buf

/-- Operations of the buffer as a state machine. -/
inductive Op where
  | write (m : List Nat)
  | take
  | close
deriving Repr, BEq, DecidableEq

/-- What one operation shows to the caller (together with the observers after it). -/
inductive Out where
  | done
  | bytes (v : List Nat)
  | panic (msg : String)
deriving Repr, BEq, DecidableEq

def step (b : Buf) : Op → Except String (Buf × Out)
  | .write m => match b.writeMsg m with
    | .ok b' => .ok (b', .done)
    | .error e => .error e
  | .take => .ok (b.take.1, .bytes b.take.2)
  | .close => match b.close with
    | .ok b' => .ok (b', .done)
    | .error e => .error e

/-- Observers reported after every operation: `len`, `can_read`, `can_write`, `is_closed`. -/
structure Obs where
  len : Nat
  canRead : Bool
  canWrite : Bool
  closed : Bool
deriving Repr, BEq, DecidableEq

def Buf.obs (b : Buf) : Obs := ⟨b.len, b.canRead, b.canWrite, b.closed⟩

/-- Run an operation list; the trace stops at the first panic. -/
def run (b : Buf) : List Op → List (Out × Option Obs)
  | [] => []
  | op :: rest =>
    match step b op with
    | .error msg => [(.panic msg, none)]
    | .ok (b', out) => (out, some b'.obs) :: run b' rest

/-- Final state after an operation list (`.error` at the first panic). -/
def exec (b : Buf) : List Op → Except String Buf
  | [] => .ok b
  | op :: rest =>
    match step b op with
    | .error msg => .error msg
    | .ok (b', _) => exec b' rest

end IpaVerif.CircularBuf
