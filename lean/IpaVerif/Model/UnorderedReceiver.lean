import IpaVerif.Generated.Buffers
/-!
# Poll-level model of `ipa-core/src/helpers/buffers/unordered_receiver.rs`

`OperatingState { stream, next, spare, wakers, overflow_wakers }` with `Spare { buf, offset }`,
`is_next`, `add_waker` (ring of `capacity` slots + overflow), `wake_next` (ring slot of the new
`next`, overflow flushed when `next % (capacity/2) = 0`), `poll_next` (spare first, then chunks from
the stream until a whole message is available, `EndOfStream` when the stream ends first).

The byte stream is a scripted source: `feed` makes a chunk available (waking the waker the stream
saved when it returned `Pending`), `finish` ends it.  One `Op` is one atomic poll.  Wakers carry
the index they were saved for as ghost data (the code keeps it only under `stall-detection`); no
function below reads it.  `max_polled_idx` (stall detection only) is not modelled.  Messages are
`sz` raw bytes (deserialisation cannot fail).  Import-free.
-/
namespace IpaVerif.UnorderedReceiver

abbrev Task := Nat

structure State where
  sz : Nat                              -- `M::Size`
  cap : Nat                             -- `wakers.len()`
  next : Nat := 0
  spareBuf : List Nat := []
  spareOff : Nat := 0
  ring : Nat → Option (Task × Nat) := fun _ => none   -- slot ↦ (waker, ghost index)
  overflow : List (Task × Nat) := []
  -- scripted stream
  queue : List (List Nat) := []
  ended : Bool := false
  streamWaker : Option Task := none

inductive Op where
  | feed (chunk : List Nat)
  | finish
  | recv (t : Task) (i : Nat)
deriving Repr, BEq, DecidableEq

inductive Res where
  | none                      -- feed / finish
  | pending
  | ok (m : List Nat)
  | eos (next : Nat)          -- `Err(EndOfStreamError(next))`
deriving Repr, BEq, DecidableEq

structure Out where
  res : Res
  woken : List Task
deriving Repr, BEq, DecidableEq

/-- `UnorderedReceiver::new`: `assert!(capacity.get() > 1, "a capacity of 1 is too small")`. -/
def State.new (sz cap : Nat) : Except String State :=
  if cap < Generated.Buffers.receiverMinCapacity then .error "a capacity of 1 is too small"
  else .ok { sz, cap }

/-- `wake_next`. -/
def State.wakeNext (s : State) : State × List Task :=
  let next := s.next + 1
  let idx := next % s.cap
  let w1 := match s.ring idx with
    | some (w, _) => [w]
    | none => []
  let ring := fun k => if k = idx then none else s.ring k
  if next % (s.cap / Generated.Buffers.receiverOverflowDiv) = 0 then
    ({ s with next, ring, overflow := [] }, w1 ++ s.overflow.map (·.1))
  else ({ s with next, ring }, w1)

/-- `add_waker` (after the assertion `i > next`). -/
def State.addWaker (s : State) (i : Nat) (t : Task) : State :=
  if i > s.next + s.cap then { s with overflow := s.overflow ++ [(t, i)] }
  else { s with ring := fun k => if k = i % s.cap then some (t, i) else s.ring k }

/-- The `loop` of `poll_next` over the chunks the stream has ready, with `Spare::extend`:
`buf, off` is the spare; returns the new spare, the remaining chunks and the message if any. -/
def pull (sz : Nat) (buf : List Nat) (off : Nat) : List (List Nat) → List Nat × Nat × List (List Nat) × Option (List Nat)
  | [] => (buf, off, [], none)
  | b :: rest =>
    let remainder := buf.length - off
    if remainder + b.length < sz then
      -- not enough data: keep the tail of the spare plus the chunk
      pull sz (buf.drop off ++ b) 0 rest
    else
      let needed := sz - remainder
      (b.drop needed, 0, rest, some (buf.drop off ++ b.take needed))

def step (s : State) : Op → Except String (State × Out)
  | .feed chunk =>
    .ok ({ s with queue := s.queue ++ [chunk], streamWaker := none }, ⟨.none, s.streamWaker.toList⟩)
  | .finish =>
    .ok ({ s with ended := true, streamWaker := none }, ⟨.none, s.streamWaker.toList⟩)
  | .recv t i =>
    if i = s.next then
      -- Spare::read
      if s.spareOff + s.sz ≤ s.spareBuf.length then
        let m := (s.spareBuf.drop s.spareOff).take s.sz
        let (s', w) := State.wakeNext { s with spareOff := s.spareOff + s.sz }
        .ok (s', ⟨.ok m, w⟩)
      else
        match pull s.sz s.spareBuf s.spareOff s.queue with
        | (buf, off, q, some m) =>
          let (s', w) := State.wakeNext { s with spareBuf := buf, spareOff := off, queue := q }
          .ok (s', ⟨.ok m, w⟩)
        | (buf, off, q, none) =>
          let s1 := { s with spareBuf := buf, spareOff := off, queue := q }
          if s.ended then .ok (s1, ⟨.eos s.next, []⟩)
          else .ok ({ s1 with streamWaker := some t }, ⟨.pending, []⟩)
    else if i > s.next then .ok (s.addWaker i t, ⟨.pending, []⟩)
    else .error "Awaiting a read"

def run (s : State) : List Op → List (Except String Out)
  | [] => []
  | op :: rest =>
    match step s op with
    | .error e => [.error e]
    | .ok (s', o) => .ok o :: run s' rest

def exec (s : State) : List Op → Except String State
  | [] => .ok s
  | op :: rest =>
    match step s op with
    | .error e => .error e
    | .ok (s', _) => exec s' rest

end IpaVerif.UnorderedReceiver
