import IpaVerif.Generated.Prss
/-!
Executable model of the PRSS layer (property C06): `protocol/prss/{mod,crypto,seed}.rs`,
`helpers/prss_protocol.rs`, `helpers/cross_shard_prss.rs`, and the record-id arithmetic of the two
validators (`protocol/context/{validator,dzkp_validator}.rs`).

External primitives are parameters: X25519 (`pub`, `dh`), HKDF-SHA256 (`hkdf`), AES-256 (`aes`).
A Rust panic is an explicit outcome. Import-free (core only).
-/
namespace IpaVerif.Prss
open IpaVerif.Generated.Prss

inductive Outcome (α : Type) where
  | ok : α → Outcome α
  | err : String → Outcome α
  | panic : String → Outcome α
  deriving Repr, DecidableEq

/-! ## `PrssIndex128` -/

/-- `PrssIndex128::new(index, offset)` followed by `u64::from` / `u128::from`:
`index : u32`; `offset : usize` must fit a `u32` (else `ConversionError`) and be `≤ MAX_OFFSET`
(else `OutOfRange`). -/
def pack (index offset : Nat) : Outcome Nat :=
  if offset ≥ 2 ^ 32 then .err "conversion" else
  if offset ≤ maxOffset then .ok (index <<< packShift + offset) else .err "out-of-range"

/-- `PrssIndex128::try_from(u128)`: `(index, offset)` or an error. -/
def unpack (v : Nat) : Outcome (Nat × Nat) :=
  if v ≥ 2 ^ 64 then .err "conversion" else
  let index := v >>> unpackShift
  let offset := v &&& (2 ^ 32 - 1)
  if offset ≤ maxOffset then .ok (index, offset) else .err "out-of-range"

/-- `PrssIndex::offset`: `expect("PRSS offset must not be out of range")`. -/
def offsetIndex (index offset : Nat) : Outcome Nat :=
  match pack index offset with
  | .ok v => .ok v
  | _ => .panic "PRSS offset must not be out of range"

/-- offsets touched by chunk `k` of width `Z` of a `ChunkIter`: `kZ … kZ+Z−1`. -/
def chunkOffsets (Z k : Nat) : List Nat := (List.range Z).map fun i => k * Z + i

/-! ## generators -/

structure Crypto (Sk Pk Sec Key : Type) where
  /-- `PublicKey::from(&sk)` -/
  pub : Sk → Pk
  /-- `sk.diffie_hellman(pk)` -/
  dh : Sk → Pk → Sec
  /-- `Hkdf::<Sha256>::new(None, secret).expand(context)` -/
  hkdf : Sec → String → Key
  /-- `Aes256::new(key).encrypt_block` on a 128-bit block -/
  aes : Key → Nat → Nat

variable {Sk Pk Sec Key : Type}

/-- `Generator::generate(index128)`: `AES_K(block) xor block` where `block` = packed index. -/
def gen (C : Crypto Sk Pk Sec Key) (secret : Sec) (step : String) (packed : Nat) : Nat :=
  C.aes (C.hkdf secret step) packed ^^^ packed

/-- a helper's two key-exchange secrets. -/
structure Setup (Sk : Type) where
  left : Sk
  right : Sk

/-- `make_participants` / `negotiate`: helper `i` completes its left exchange with the *right* public key
of helper `i−1` and its right exchange with the *left* public key of helper `i+1`. -/
def leftSecret (C : Crypto Sk Pk Sec Key) (s : Fin 3 → Setup Sk) (i : Fin 3) : Sec :=
  C.dh (s i).left (C.pub (s (i - 1)).right)
def rightSecret (C : Crypto Sk Pk Sec Key) (s : Fin 3 → Setup Sk) (i : Fin 3) : Sec :=
  C.dh (s i).right (C.pub (s (i + 1)).left)

def leftValue (C : Crypto Sk Pk Sec Key) (s : Fin 3 → Setup Sk) (i : Fin 3) (step : String) (packed : Nat) : Nat :=
  gen C (leftSecret C s i) step packed
def rightValue (C : Crypto Sk Pk Sec Key) (s : Fin 3 → Setup Sk) (i : Fin 3) (step : String) (packed : Nat) : Nat :=
  gen C (rightSecret C s i) step packed

/-- cross-shard setup (`gen_and_distribute`): the leader shard draws `(left seed, right seed)` from its own
PRSS and sends the pair to every other shard; every shard then builds its endpoint from that pair. -/
def shardSeeds {Seed : Type} (leaderSeeds : Fin 3 → Seed × Seed) (_shard : Nat) (i : Fin 3) : Seed × Seed :=
  leaderSeeds i

/-! ## descriptive gates -/

/-- `Descriptive::narrow`: `format!("{}/{}", self.id, step)`. -/
def narrow (gate step : List Char) : List Char := gate ++ '/' :: step

/-! ## the endpoint's per-gate bookkeeping (debug builds) -/

inductive Item where
  | indexed (usedLeft usedRight : List Nat)   -- `UsedSet` of the two generators
  | sequential

structure Endpoint where
  items : List (String × Item)

def Endpoint.find (e : Endpoint) (g : String) : Option Item := (e.items.find? (·.1 == g)).map (·.2)
def Endpoint.set (e : Endpoint) (g : String) (it : Item) : Endpoint :=
  { items := (g, it) :: e.items.filter (·.1 != g) }

inductive Op where
  /-- `endpoint.indexed(gate).generate_chunks_iter::<_, Z>(index).take(chunks)` (both sides) -/
  | indexedBoth (gate : String) (index Z chunks : Nat)
  /-- `generate_chunks_one_side(index, dir)` , `left = true` for `Direction::Left` -/
  | indexedOne (gate : String) (left : Bool) (index Z chunks : Nat)
  /-- `endpoint.sequential(gate)` followed by `n` draws from each of the two generators -/
  | sequential (gate : String) (n : Nat)

/-- `UsedSet::use_index(..).unwrap()`: a repeated packed index under one key panics. -/
def useOne (acc : Outcome (List Nat)) (v : Nat) : Outcome (List Nat) :=
  match acc with
  | .ok u => if u.contains v then .panic "Generated randomness for index" else .ok (v :: u)
  | o => o

def useAll (used : List Nat) (new : List Nat) : Outcome (List Nat) := new.foldl useOne (.ok used)

/-- one block: pack `(index, offset)` (panic when out of range), then mark it used (panic when repeated). -/
def drawOne (index : Nat) (acc : Outcome (List Nat)) (o : Nat) : Outcome (List Nat) :=
  match acc with
  | .ok u =>
    match offsetIndex index o with
    | .ok v => useOne (.ok u) v
    | .panic m => .panic m
    | .err m => .err m
  | x => x

/-- `ChunkIter::next` for chunk `k`: blocks `kZ … kZ+Z−1` in ascending order. -/
def drawChunk (used : List Nat) (index Z k : Nat) : Outcome (List Nat) :=
  (chunkOffsets Z k).foldl (drawOne index) (.ok used)

def drawBoth (index Z : Nat) (acc : Outcome (List Nat × List Nat)) (k : Nat) : Outcome (List Nat × List Nat) :=
  match acc with
  | .ok (ul, ur) =>
    match drawChunk ul index Z k with
    | .ok ul' =>
      match drawChunk ur index Z k with
      | .ok ur' => .ok (ul', ur')
      | .panic m => .panic m
      | .err m => .err m
    | .panic m => .panic m
    | .err m => .err m
  | x => x

def drawSide (index Z : Nat) (acc : Outcome (List Nat)) (k : Nat) : Outcome (List Nat) :=
  match acc with
  | .ok u => drawChunk u index Z k
  | x => x

/-- one operation on an endpoint; `.panic` outcomes are the debug-build detectors. -/
def step (e : Endpoint) : Op → Outcome Endpoint
  | .sequential g n =>
      match e.find g with
      | some _ => .panic "Attempt access a sequential PRSS"
      | none => if n ≥ 2 ^ 32 then .panic "PrssIndex" else .ok (e.set g .sequential)
  | .indexedBoth g index Z chunks =>
      match e.find g with
      | some .sequential => .panic "Attempt to get an indexed PRSS"
      | other =>
        let (ul, ur) := match other with | some (.indexed a b) => (a, b) | _ => ([], [])
        -- `ChunksIter::next`: the left chunk is generated before the right chunk
        match (List.range chunks).foldl (drawBoth index Z) (.ok (ul, ur)) with
        | .ok (a, b) => .ok (e.set g (.indexed a b))
        | .panic m => .panic m
        | .err m => .err m
  | .indexedOne g left index Z chunks =>
      match e.find g with
      | some .sequential => .panic "Attempt to get an indexed PRSS"
      | other =>
        let (ul, ur) := match other with | some (.indexed a b) => (a, b) | _ => ([], [])
        match (List.range chunks).foldl (drawSide index Z) (.ok (if left then ul else ur)) with
        | .ok a => .ok (e.set g (if left then .indexed a ur else .indexed ul a))
        | .panic m => .panic m
        | .err m => .err m

def run (ops : List Op) : Outcome Endpoint :=
  ops.foldl (fun acc op => match acc with | .ok e => step e op | o => o) (.ok { items := [] })

/-! ## record-id arithmetic of the validators -/

/-- `RecordId::from(usize)`: `u32::try_from(v).unwrap()`. -/
def recordId (v : Nat) : Outcome Nat := if v < 2 ^ 32 then .ok v else .panic "TryFromIntError"

def uRecord (offset total : Nat) : Nat := total * offset + uRecordAdd
def wRecord (offset total : Nat) : Nat := total * offset + wRecordAdd
def rShareRecord (offset total : Nat) : Nat := total * offset + rRecordAdd

/-- PRSS record ids reserved for DZKP batch `b`: `[b·K, (b+1)·K)`. -/
def dzkpRange (K b : Nat) : Nat × Nat := (b * K, (b + 1) * K)

/-! ## record ids of `aggregate_values` across chunks -/

/-- number of rows entering depth `d` of the pairwise reduction of `n` rows: `n ↦ ⌈n/2⌉` each level. -/
def rowsAt (n : Nat) : Nat → Nat
  | 0 => n
  | d + 1 => (rowsAt n d + 1) / 2

/-- record ids consumed at depth `d` by one call with `n` rows: `⌊rows/2⌋` (the odd row passes through). -/
def halves (n d : Nat) : Nat := rowsAt n d / 2

/-- `record_ids[d]` after the calls in `calls` (each adds `rows / 2`). -/
def baseAfter (calls : List Nat) (d : Nat) : Nat := (calls.map (halves · d)).foldl (· + ·) 0

/-- number of loop iterations (`while num_rows > 1`) for `n` rows, fuel-bounded. -/
def aggDepth : Nat → Nat → Nat
  | 0, _ => 0
  | fuel + 1, n => if n > 1 then 1 + aggDepth fuel ((n + 1) / 2) else 0

end IpaVerif.Prss
